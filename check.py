#!/venv/bin/python
"""check.py <property> --tier quick|thorough [--replay file]

Decides one property of /verif/properties.jsonl for the current working tree
of VERIF_REPO (default /repo): regenerate Gen/ from the source, full Coq build,
audit, correspondence of the extracted model with the implementation, oracle
search, known findings, evidence.  Exit 0 = held on everything explored;
exit 1 + "VIOLATION property=<id> replay=<path>" otherwise."""
from __future__ import annotations

import argparse
import importlib
import json
import os
import sys
import traceback

HERE = os.path.dirname(os.path.abspath(__file__))
sys.path.insert(0, HERE)
os.environ.setdefault("PYTHONHASHSEED", "0")

from harness import build, env, framework  # noqa: E402


def main() -> int:
    ap = argparse.ArgumentParser()
    ap.add_argument("pid")
    ap.add_argument("--tier", default=os.environ.get("VERIF_TIER", "quick"), choices=["quick", "thorough"])
    ap.add_argument("--replay", default=None)
    ap.add_argument("--no-build", action="store_true")
    a = ap.parse_args()
    pid = a.pid
    seed = int(os.environ.get("VERIF_SEED", "0") or 0)
    ctx = framework.Ctx(pid, a.tier, seed)

    info = build.full_build(pid) if not a.no_build else {"props": build.props_status(pid), "audit": [], "make_ok": True,
                                                        "failed_files": [], "driver_ok": True, "translate_ok": True}
    env.activate_repo()
    mod = importlib.import_module(f"harness.props.{pid.lower()}")

    if a.replay:
        with open(a.replay) as f:
            payload = json.load(f)
        try:
            rep = mod.replay(ctx, payload)
        except Exception:
            # the re-run broke off (a record of another shape, a harness error, an oracle that cannot digest what the
            # library produced): what was observed until then stands; exit 1 is reserved for "the failure reproduces"
            rep = framework.replay_result(ctx, replay_error=traceback.format_exc()[-3000:])
        rep = framework.judge_replay(ctx, getattr(mod, "CLASSIFIERS", {}), payload, rep)
        print(json.dumps(rep, indent=1, default=str))
        return 1 if rep.get("fails") else (2 if "replay_error" in rep else 0)

    proof = info.get("props", {})
    problems: list[str] = []
    # what this property rests on: the model (everything extracted into the driver) and whatever its property file
    # depends on. A generated tie file or proof file that another property needs and this one does not is not
    # this property's problem (seen with seeded change C07-1: a changed gate definition made all 20 checks alarm).
    closure = set(info.get("closure") or [])
    uses_gen = any(f.startswith("Gen/") for f in closure)
    if not info.get("translate_ok", True) and (uses_gen or not closure):
        problems.append("translator: " + info.get("translate_log", "")[-400:])
    model_failed = [f for f in info.get("failed_files", [])
                    if f.startswith(("Model/", "Extract/")) or (f.startswith("Gen/") and (f in closure or not closure))]
    if model_failed:
        problems.append("model files not built: " + ", ".join(model_failed))
    if not info.get("driver_ok", True):
        problems.append("model driver not built: " + info.get("driver_log", "")[-400:])
    if info.get("audit"):
        problems.append("audit: " + "; ".join(info["audit"][:10]))
    if not proof.get("ok"):
        problems.append(f"property file {proof.get('file')} does not check: " + proof.get("log", "")[-600:])
    bad_ax = [x for x in proof.get("axioms", []) if x.split(".")[-1] not in {y.split(".")[-1] for y in build.ALLOWED_AXIOMS}]
    if bad_ax:
        problems.append("axioms outside the allowed standard-library list: " + ", ".join(bad_ax))

    if a.tier == "thorough" and proof.get("ok"):
        chk = build.coqchk(pid)
        proof["coqchk"] = chk
        bad = [x for x in chk["axioms"] if x.startswith("UNSAFE") or x.split(".")[-1] not in {y.split(".")[-1] for y in build.ALLOWED_AXIOMS}]
        if not chk["ok"] or bad:
            problems.append("coqchk: " + (", ".join(bad) or chk["tail"][-300:]))
    # the whole run is bounded: a library that stops terminating (or becomes very slow) on some input must not hang
    # the check; the report then names the last case that was started
    from harness import implrun
    budget = int(os.environ.get("VERIF_BUDGET_S", "1200" if a.tier == "quick" else "21600"))
    try:
        with implrun.time_limit(budget):
            mod.run(ctx)
    except implrun.Timeout:
        problems.append(f"the check did not finish within {budget} s (quick runs take under a minute on the pinned tree); "
                        f"last case started: {json.dumps(ctx.last_case, default=str)[:1200]}")
    except Exception:
        problems.append("harness error: " + traceback.format_exc()[-1500:])

    classifiers = getattr(mod, "CLASSIFIERS", {})
    violations = framework.classify(ctx, classifiers)

    for hit in ctx.known_hits.values():
        k = hit["finding"]
        print(f"KNOWN-FINDING: property={pid} {k['id']}: {k['what']} ({hit['count']} inputs this run)")

    rc = 0
    replay_path = None
    reproduce_cmd = (f"VERIF_REPO={env.REPO} " if env._OTHER else "") + f"VERIF_SEED={seed} /venv/bin/python check.py {pid} --tier {a.tier}"
    tail = ""
    if violations:
        v, shrink_info = framework.shrink(mod, pid, a.tier, seed, violations)
        replay_path = framework.write_replay(pid, {"property": pid, "kind": "oracle", "suite": v["suite"],
                                                   "case": v["case"], "detail": v["detail"],
                                                   "impl_eq_model": v["impl_eq_model"], "seed": seed, "tier": a.tier,
                                                   "tree": framework.tree_fingerprint(), "reproduce_cmd": reproduce_cmd,
                                                   "note": "cases run in one process in a fixed, seeded order; if --replay of this single case passes, the "
                                                           "failure depends on the history of earlier cases (shared state) and reproduce_cmd replays that history",
                                                   "case_original": v.get("case_original"), "shrink": shrink_info,
                                                   "others": len(violations) - 1})
        rc = 1
    elif ctx.disagreements or problems or len(ctx.unstable) > max(2, 0.002 * ctx.evaluations):
        if not ctx.disagreements and not problems:
            # float-unstable cases are tolerated only while they are rare; more than that is a disagreement
            ctx.disagreements = list(ctx.unstable)
            ctx.notes.append("float-unstable cases exceed 0.2% of the evaluations: treated as disagreements")
        first = ctx.disagreements[0] if ctx.disagreements else None
        replay_path = framework.write_replay(pid, {
            "property": pid, "kind": "not-shown",
            "no_longer_checks": problems or [f"correspondence suite {first['suite']}"],
            "first_disagreement": first, "disagreements": len(ctx.disagreements), "seed": seed, "tier": a.tier,
            "tree": framework.tree_fingerprint(), "reproduce_cmd": reproduce_cmd})
        rc = 1
        tail = " no-failing-input-found"

    proof_ev = {
        "obligations": max(1, proof.get("obligations", 0)),
        "discharged": proof.get("discharged", 0),
        "checker_cmd": proof.get("checker_cmd", ""),
        "theorems": proof.get("theorems", []),
        "coqchk": proof.get("coqchk"),
        "trusted_base": ["Coq 8.16.1 kernel (coqc, full .vo build)", "axioms: " + (", ".join(proof.get("axioms", [])) or "none (closed under the global context)")]
                        + ["extraction: Require Extraction, ExtrOcamlBasic, ExtrOcamlString only (no Extract Constant / Extract "
                           "Inductive of our own); hand-written OCaml float dictionary (IEEE doubles + libm for R), s-expression "
                           "reader/printer and driver",
                           "translator/translate.py (fail-closed): tables, constants and numeric kernels regenerated from the "
                           "source and proved equal to the model (Gen/*Check.v, Gen/KC_*_ok.v)"]
                        + getattr(mod, "TRUSTED", []),
    }
    framework.write_evidence(ctx, proof_ev, len(violations) + (1 if (rc and not violations) else 0),
                             getattr(mod, "ASSUMPTIONS", []),
                             {"build": {k: info.get(k) for k in ("build_s", "failed_files", "audit", "translate_ok", "driver_ok")},
                              "problems": problems})
    print(f"{pid} tier={a.tier} seed={seed} evaluations={ctx.evaluations} distinct_nontrivial={len(ctx._distinct_nontrivial)} "
          f"theorems={proof.get('discharged', 0)}/{proof.get('obligations', 0)} disagreements={len(ctx.disagreements)} "
          f"unstable={len(ctx.unstable)} oracle_failures={len(ctx.oracle_failures)} known={sum(h['count'] for h in ctx.known_hits.values())} "
          f"wall={ctx.elapsed():.1f}s")
    if rc:
        for p in problems[:5]:
            print("PROBLEM:", p[:1500])
        for d in ctx.disagreements[:3]:
            print("DISAGREEMENT:", json.dumps(d, default=str)[:1500])
        for v in violations[:3]:
            print("FAILURE:", json.dumps(v, default=str)[:1500])
        print(f"VIOLATION property={pid} replay={replay_path}{tail}")
    return rc


if __name__ == "__main__":
    sys.exit(main())
