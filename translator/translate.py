#!/venv/bin/python
"""translate.py <repo> <outdir> — regenerate coq/Gen/*.v from the Python source.

Fail-closed translator for the table-like parts of OpenSquirrel:
  default_gates.py    -> Gen/DefaultGates.v   (gen_table, gen_noparam, gen_gate_set, gen_aliases)
  default_measures.py, default_resets.py      (gen_measures, gen_measure_set, gen_resets, gen_reset_set)
  common.py           -> Gen/Constants.v      (ATOL as a rational, normalize_angle as a Gallina term)
  writer.py, cqasmv1_exporter.py, quantify_scheduler_exporter.py -> precisions

Only a whitelist of AST shapes is accepted.  Anything else is reported as a
fallback: the generated definition is then a value that cannot be equal to the
hand-written table (so Gen/TableCheck.v stops compiling and every theorem that
depends on it is no longer shown), never a guess.
A file is rewritten only when its content changes, so `make` stays incremental."""
from __future__ import annotations

import ast
import json
import os
import sys
from fractions import Fraction


class Unsupported(Exception):
    pass


def coq_str(s: str) -> str:
    return '"' + s.replace('"', '""') + '"'


def coq_z(n: int) -> str:
    return f"({n})%Z" if n < 0 else f"{n}%Z"


# ---------------------------------------------------------------- default_gates.py

KIND = {"QubitLike": "KQ", "Qubit": "KQ", "Float": "KF", "SupportsInt": "KI", "Int": "KI", "Bit": "KB"}


def ann_name(a) -> str:
    if isinstance(a, ast.Name):
        return a.id
    if isinstance(a, ast.Constant) and isinstance(a.value, str):
        return a.value
    raise Unsupported(f"annotation {ast.dump(a)}")


def params_of(fn: ast.FunctionDef) -> list[tuple[str, str]]:
    if fn.args.vararg or fn.args.kwarg or fn.args.kwonlyargs or fn.args.posonlyargs or fn.args.defaults:
        raise Unsupported("parameter list shape")
    out = []
    for a in fn.args.args:
        if a.annotation is None:
            raise Unsupported("missing annotation")
        k = KIND.get(ann_name(a.annotation))
        if k is None:
            raise Unsupported(f"annotation {ann_name(a.annotation)}")
        out.append((a.arg, k))
    return out


def is_math_pi(e) -> bool:
    return isinstance(e, ast.Attribute) and e.attr == "pi" and isinstance(e.value, ast.Name) and e.value.id == "math"


def fold_int(e):
    """integer-only sub-expressions are folded as Python would evaluate them"""
    if isinstance(e, ast.Constant) and isinstance(e.value, int) and not isinstance(e.value, bool):
        return e.value
    if isinstance(e, ast.UnaryOp) and isinstance(e.op, ast.USub):
        v = fold_int(e.operand)
        return None if v is None else -v
    return None


def aexpr(e, float_params: set[str], int_params: set[str], local: str | None) -> str:
    v = fold_int(e)
    if v is not None:
        return f"(EInt {coq_z(v)})"
    if is_math_pi(e):
        return "EPi"
    if isinstance(e, ast.Attribute) and e.attr == "value" and isinstance(e.value, ast.Name) and e.value.id in float_params:
        return "ETheta"
    if isinstance(e, ast.Name) and local is not None and e.id == local:
        return "ELocal"
    if isinstance(e, ast.UnaryOp) and isinstance(e.op, ast.USub):
        return f"(ENeg {aexpr(e.operand, float_params, int_params, local)})"
    if isinstance(e, ast.BinOp) and isinstance(e.op, ast.Pow):
        # 2 ** Int(k).value
        if fold_int(e.left) == 2 and isinstance(e.right, ast.Attribute) and e.right.attr == "value" and \
                isinstance(e.right.value, ast.Call) and isinstance(e.right.value.func, ast.Name) and \
                e.right.value.func.id == "Int" and len(e.right.value.args) == 1 and \
                isinstance(e.right.value.args[0], ast.Name) and e.right.value.args[0].id in int_params:
            return "EPow2K"
        raise Unsupported("power expression")
    if isinstance(e, ast.BinOp) and isinstance(e.op, (ast.Mult, ast.Div)):
        op = "EMul" if isinstance(e.op, ast.Mult) else "EDiv"
        return f"({op} {aexpr(e.left, float_params, int_params, local)} {aexpr(e.right, float_params, int_params, local)})"
    if isinstance(e, ast.Call) and isinstance(e.func, ast.Name) and e.func.id == "normalize_angle" and len(e.args) == 1 \
            and not e.keywords:
        return f"(ENorm {aexpr(e.args[0], float_params, int_params, local)})"
    raise Unsupported(f"expression {ast.dump(e)[:120]}")


def axis_of(e) -> str:
    if not isinstance(e, ast.Tuple) or len(e.elts) != 3:
        raise Unsupported("axis")
    vals = [fold_int(x) for x in e.elts]
    if any(v is None for v in vals):
        raise Unsupported("axis component")
    return f"({coq_z(vals[0])}, {coq_z(vals[1])}, {coq_z(vals[2])})"


def bsr_call(c: ast.Call, qubit_name: str, fp, ip, local) -> str:
    if not (isinstance(c.func, ast.Name) and c.func.id == "BlochSphereRotation") or c.args:
        raise Unsupported("BlochSphereRotation call shape")
    kw = {k.arg: k.value for k in c.keywords}
    if set(kw) - {"qubit", "axis", "angle", "phase"} or not {"qubit", "axis", "angle"} <= set(kw):
        raise Unsupported("BlochSphereRotation keywords")
    if not (isinstance(kw["qubit"], ast.Name) and kw["qubit"].id == qubit_name):
        raise Unsupported("qubit argument")
    phase = aexpr(kw["phase"], fp, ip, local) if "phase" in kw else "(EInt 0%Z)"
    return f"(mkBsrDef {axis_of(kw['axis'])} {aexpr(kw['angle'], fp, ip, local)} {phase})"


def gate_def(fn: ast.FunctionDef) -> str:
    ps = params_of(fn)
    qubits = [n for n, k in ps if k == "KQ"]
    fp = {n for n, k in ps if k == "KF"}
    ip = {n for n, k in ps if k == "KI"}
    body = [s for s in fn.body if not (isinstance(s, ast.Expr) and isinstance(s.value, ast.Constant))]
    local = None
    local_expr = None
    if len(body) == 2 and isinstance(body[0], ast.Assign) and len(body[0].targets) == 1 and \
            isinstance(body[0].targets[0], ast.Name):
        local = body[0].targets[0].id
        local_expr = aexpr(body[0].value, fp, ip, None)
        body = body[1:]
    if len(body) != 1 or not isinstance(body[0], ast.Return) or not isinstance(body[0].value, ast.Call):
        raise Unsupported("function body shape")
    c = body[0].value
    # BlochSphereRotation.identity(q)
    if isinstance(c.func, ast.Attribute) and c.func.attr == "identity" and isinstance(c.func.value, ast.Name) and \
            c.func.value.id == "BlochSphereRotation":
        if local or len(c.args) != 1 or not (isinstance(c.args[0], ast.Name) and c.args[0].id == qubits[0]):
            raise Unsupported("identity call")
        return "DIdentity"
    if isinstance(c.func, ast.Name) and c.func.id == "BlochSphereRotation":
        if local or len(qubits) != 1:
            raise Unsupported("rotation with local / several qubits")
        return f"(DBsr {bsr_call(c, qubits[0], fp, ip, None)})"
    if isinstance(c.func, ast.Name) and c.func.id == "ControlledGate":
        if c.keywords or len(c.args) != 2 or len(qubits) != 2:
            raise Unsupported("ControlledGate call shape")
        if not (isinstance(c.args[0], ast.Name) and c.args[0].id == qubits[0]):
            raise Unsupported("control argument")
        t = c.args[1]
        if isinstance(t, ast.Call) and isinstance(t.func, ast.Name) and t.func.id == "BlochSphereRotation":
            loc = f"(Some {local_expr})" if local else "None"
            return f"(DCtrlBsr {loc} {bsr_call(t, qubits[1], fp, ip, local)})"
        if isinstance(t, ast.Call) and isinstance(t.func, ast.Name) and len(t.args) == 1 and not t.keywords and \
                isinstance(t.args[0], ast.Name) and t.args[0].id == qubits[1] and not local:
            return f"(DCtrlCall {coq_str(t.func.id)})"
        raise Unsupported("controlled target shape")
    raise Unsupported("return expression")


def decorated(fn: ast.FunctionDef, deco: str) -> bool:
    return any(isinstance(d, ast.Name) and d.id == deco for d in fn.decorator_list)


def name_list(tree: ast.Module, var: str, env: dict[str, list[str]]) -> list[str]:
    val = None
    for s in tree.body:
        if isinstance(s, ast.Assign) and len(s.targets) == 1 and isinstance(s.targets[0], ast.Name) and s.targets[0].id == var:
            val = s.value
    if not isinstance(val, ast.List):
        raise Unsupported(f"list {var}")
    out: list[str] = []
    for e in val.elts:
        if isinstance(e, ast.Name):
            out.append(e.id)
        elif isinstance(e, ast.Starred) and isinstance(e.value, ast.Name) and e.value.id in env:
            out.extend(env[e.value.id])
        else:
            raise Unsupported(f"element of {var}")
    env[var] = out
    return out


def params_coq(ps) -> str:
    return "[" + "; ".join(f"({coq_str(n)}, {k})" for n, k in ps) + "]"


def translate_default_gates(repo: str, report: dict) -> str:
    lines = ["(* generated by translator/translate.py from opensquirrel/default_gates.py, default_measures.py, default_resets.py *)",
             "From Coq Require Import ZArith List String.", "Import ListNotations.",
             "From OSQ Require Import DefaultTable.", "Open Scope string_scope.", ""]
    path = os.path.join(repo, "opensquirrel", "default_gates.py")
    try:
        tree = ast.parse(open(path).read())
        entries = []
        for s in tree.body:
            if isinstance(s, ast.FunctionDef) and decorated(s, "named_gate"):
                try:
                    entries.append(f"  mkGentry {coq_str(s.name)} {params_coq(params_of(s))} {gate_def(s)}")
                except Unsupported as e:
                    report["fallbacks"].append(f"default_gates.{s.name}: {e}")
                    entries.append(f"  mkGentry {coq_str('?' + s.name)} [] DIdentity")
        lines.append("Definition gen_table : list gentry := [\n" + ";\n".join(entries) + "\n].")
        env: dict[str, list[str]] = {}
        for var, gname in (("default_bloch_sphere_rotations_without_params", "gen_noparam"),
                           ("default_bloch_sphere_rotations", None), ("default_gate_set", "gen_gate_set")):
            try:
                l = name_list(tree, var, env)
            except Unsupported as e:
                report["fallbacks"].append(f"default_gates.{var}: {e}")
                l = ["?"]
            if gname:
                lines.append(f"Definition {gname} : list string := [" + "; ".join(coq_str(x) for x in l) + "].")
        aliases = None
        for s in tree.body:
            if isinstance(s, ast.Assign) and len(s.targets) == 1 and isinstance(s.targets[0], ast.Name) and \
                    s.targets[0].id == "default_gate_aliases" and isinstance(s.value, ast.Dict):
                aliases = []
                for k, v in zip(s.value.keys, s.value.values):
                    if isinstance(k, ast.Constant) and isinstance(k.value, str) and isinstance(v, ast.Name):
                        aliases.append((k.value, v.id))
                    else:
                        aliases = None
                        break
        if aliases is None:
            report["fallbacks"].append("default_gates.default_gate_aliases")
            aliases = [("?", "?")]
        lines.append("Definition gen_aliases : list (string * string) := [" +
                     "; ".join(f"({coq_str(a)}, {coq_str(b)})" for a, b in aliases) + "].")
    except (OSError, SyntaxError) as e:
        report["fallbacks"].append(f"default_gates.py: {e}")
        lines += ["Definition gen_table : list gentry := [].", "Definition gen_noparam : list string := [].",
                  "Definition gen_gate_set : list string := [].", "Definition gen_aliases : list (string * string) := []."]

    # measures
    def simple_set(fname, deco, ctor, setvar, with_axis):
        p = os.path.join(repo, "opensquirrel", fname)
        ents, names = [], ["?"]
        try:
            t = ast.parse(open(p).read())
            for s in t.body:
                if isinstance(s, ast.FunctionDef) and decorated(s, deco):
                    ps = params_of(s)
                    body = [x for x in s.body if not (isinstance(x, ast.Expr) and isinstance(x.value, ast.Constant))]
                    if len(body) != 1 or not isinstance(body[0], ast.Return) or not isinstance(body[0].value, ast.Call):
                        raise Unsupported(f"{s.name} body")
                    c = body[0].value
                    if not (isinstance(c.func, ast.Name) and c.func.id == ctor) or c.args:
                        raise Unsupported(f"{s.name} call")
                    kw = {k.arg: k.value for k in c.keywords}
                    qn = [n for n, k in ps if k == "KQ"]
                    if not (isinstance(kw.get("qubit"), ast.Name) and kw["qubit"].id == qn[0]):
                        raise Unsupported(f"{s.name} qubit")
                    if with_axis:
                        bn = [n for n, k in ps if k == "KB"]
                        if set(kw) != {"qubit", "bit", "axis"} or not (isinstance(kw["bit"], ast.Name) and kw["bit"].id == bn[0]):
                            raise Unsupported(f"{s.name} keywords")
                        ents.append(f"({coq_str(s.name)}, {params_coq(ps)}, {axis_of(kw['axis'])})")
                    else:
                        if set(kw) != {"qubit"}:
                            raise Unsupported(f"{s.name} keywords")
                        ents.append(f"({coq_str(s.name)}, {params_coq(ps)})")
            names = name_list(t, setvar, {})
        except (Unsupported, OSError, SyntaxError, IndexError) as e:
            report["fallbacks"].append(f"{fname}: {e}")
            ents = []
        return ents, names

    ments, mnames = simple_set("default_measures.py", "named_measure", "Measure", "default_measure_set", True)
    # the hand table lists measures in the order measure, measure_z: sort by name for a canonical order
    lines.append("Definition gen_measures : list (string * list (string * pkind) * (Z * Z * Z)) := [" + "; ".join(sorted(ments)) + "].")
    lines.append("Definition gen_measure_set : list string := [" + "; ".join(coq_str(x) for x in mnames) + "].")
    rents, rnames = simple_set("default_resets.py", "named_reset", "Reset", "default_reset_set", False)
    lines.append("Definition gen_resets : list (string * list (string * pkind)) := [" + "; ".join(sorted(rents)) + "].")
    lines.append("Definition gen_reset_set : list string := [" + "; ".join(coq_str(x) for x in rnames) + "].")
    return "\n".join(lines) + "\n"


# ---------------------------------------------------------------- common.py

def fexpr(e, names: dict[str, str]) -> str:
    """float expression of common.normalize_angle -> Gallina over Num"""
    if isinstance(e, ast.Constant) and isinstance(e.value, int) and not isinstance(e.value, bool):
        return f"(nofZ N {coq_z(e.value)})"
    if is_math_pi(e):
        return "(npi N)"
    if isinstance(e, ast.Name) and e.id in names:
        return names[e.id]
    if isinstance(e, ast.UnaryOp) and isinstance(e.op, ast.USub):
        return f"(nneg N {fexpr(e.operand, names)})"
    if isinstance(e, ast.BinOp):
        op = {ast.Add: "nadd", ast.Sub: "nsub", ast.Mult: "nmul", ast.Div: "ndiv", ast.FloorDiv: "nfloordiv"}.get(type(e.op))
        if op is None:
            raise Unsupported("operator")
        return f"({op} N {fexpr(e.left, names)} {fexpr(e.right, names)})"
    raise Unsupported(f"float expression {ast.dump(e)[:100]}")


def ftest(e, names) -> str:
    if isinstance(e, ast.Compare) and len(e.ops) == 1 and len(e.comparators) == 1:
        l, r = fexpr(e.left, names), fexpr(e.comparators[0], names)
        if isinstance(e.ops[0], ast.Lt):
            return f"(nltb N {l} {r})"
        if isinstance(e.ops[0], ast.Gt):
            return f"(nltb N {r} {l})"
        if isinstance(e.ops[0], ast.LtE):
            return f"(nleb N {l} {r})"
        if isinstance(e.ops[0], ast.GtE):
            return f"(nleb N {r} {l})"
    raise Unsupported("comparison")


def translate_normalize(fn: ast.FunctionDef) -> str:
    if len(fn.args.args) != 1:
        raise Unsupported("normalize_angle parameters")
    x = fn.args.args[0].arg
    body = [s for s in fn.body if not (isinstance(s, ast.Expr) and isinstance(s.value, ast.Constant))]
    if len(body) != 3 or not isinstance(body[0], ast.Assign) or not isinstance(body[1], ast.If) or not isinstance(body[2], ast.Return):
        raise Unsupported("normalize_angle body")
    t = body[0].targets[0].id
    names = {x: "x", "ATOL": "(ndiv N (nofZ N gen_atol_num) (nofZ N gen_atol_den))"}
    e0 = fexpr(body[0].value, names)
    names[t] = "t"

    def branch(stmts):
        if len(stmts) != 1 or not isinstance(stmts[0], ast.AugAssign) or stmts[0].target.id != t:
            raise Unsupported("branch")
        op = {ast.Add: "nadd", ast.Sub: "nsub"}.get(type(stmts[0].op))
        if op is None:
            raise Unsupported("augmented operator")
        return f"({op} N t {fexpr(stmts[0].value, names)})"

    def chain(node: ast.If) -> str:
        then = branch(node.body)
        if not node.orelse:
            els = "t"
        elif len(node.orelse) == 1 and isinstance(node.orelse[0], ast.If):
            els = chain(node.orelse[0])
        else:
            raise Unsupported("else branch")
        return f"(if {ftest(node.test, names)} then {then} else {els})"

    if not (isinstance(body[2].value, ast.Name) and body[2].value.id == t):
        raise Unsupported("return")
    return f"let t := {e0} in {chain(body[1])}"


def const_of(path: str, cls: str | None, name: str):
    tree = ast.parse(open(path).read())
    scope = tree.body
    if cls:
        scope = next(s.body for s in tree.body if isinstance(s, ast.ClassDef) and s.name == cls)
    for s in scope:
        if isinstance(s, ast.Assign) and len(s.targets) == 1 and isinstance(s.targets[0], ast.Name) and s.targets[0].id == name:
            return s.value
    raise Unsupported(f"{name} not found")


def translate_constants(repo: str, report: dict) -> str:
    lines = ["(* generated by translator/translate.py from common.py, writer.py, cqasmv1_exporter.py, quantify_scheduler_exporter.py *)",
             "From Coq Require Import ZArith.", "From OSQ Require Import Num.", ""]
    common = os.path.join(repo, "opensquirrel", "common.py")
    num, den = 0, 1
    try:
        src = open(common).read()
        tree = ast.parse(src)
        v = const_of(common, None, "ATOL")
        seg = ast.get_source_segment(src, v)
        fr = Fraction(seg)          # exact decimal literal
        num, den = fr.numerator, fr.denominator
    except Exception as e:  # noqa: BLE001
        report["fallbacks"].append(f"common.ATOL: {e}")
    lines.append(f"Definition gen_atol_num : Z := {coq_z(num)}.")
    lines.append(f"Definition gen_atol_den : Z := {coq_z(den)}.")
    try:
        fn = next(s for s in ast.parse(open(common).read()).body if isinstance(s, ast.FunctionDef) and s.name == "normalize_angle")
        body = translate_normalize(fn)
    except Exception as e:  # noqa: BLE001
        report["fallbacks"].append(f"common.normalize_angle: {e}")
        body = "nofZ N 0%Z"
    lines.append("Definition gen_normalize_angle {T : Type} (N : Num T) (x : T) : T :=\n  " + body + ".")
    for label, rel, cls, name in (("gen_writer_precision", "writer/writer.py", "_WriterImpl", "FLOAT_PRECISION"),
                                  ("gen_v1_precision", "exporter/cqasmv1_exporter.py", "_CQASMv1Creator", "FLOAT_PRECISION"),
                                  ("gen_qs_deg_precision", "exporter/quantify_scheduler_exporter.py", None, "FIXED_POINT_DEG_PRECISION")):
        try:
            v = const_of(os.path.join(repo, "opensquirrel", rel), cls, name)
            n = fold_int(v)
            if n is None:
                raise Unsupported("not an int")
        except Exception as e:  # noqa: BLE001
            report["fallbacks"].append(f"{rel}.{name}: {e}")
            n = -1
        lines.append(f"Definition {label} : Z := {coq_z(n)}.")
    return "\n".join(lines) + "\n"


SIGCHECK = """(* SigCheck.v — names, parameter lists and membership lists regenerated from the Python source equal the
   hand-written ones (the part of the tables that parsing, building and writing depend on). By computation. *)
From Coq Require Import ZArith List String.
From OSQ Require Import Num IR Construct DefaultTable DefaultGates Constants.

Definition entry_sig (e : gentry) : string * list (string * pkind) := (e_name e, e_params e).
Lemma signatures_ok : map entry_sig gen_table = map entry_sig hand_table. Proof. reflexivity. Qed.
Lemma noparam_ok : gen_noparam = hand_noparam. Proof. reflexivity. Qed.
Lemma gate_set_ok : gen_gate_set = hand_gate_set. Proof. reflexivity. Qed.
Lemma aliases_ok : gen_aliases = hand_aliases. Proof. reflexivity. Qed.
Lemma measures_ok : gen_measures = hand_measures. Proof. reflexivity. Qed.
Lemma measure_set_ok : gen_measure_set = hand_measure_set. Proof. reflexivity. Qed.
Lemma resets_ok : gen_resets = hand_resets. Proof. reflexivity. Qed.
Lemma reset_set_ok : gen_reset_set = hand_reset_set. Proof. reflexivity. Qed.

Definition source_signatures_checked : Prop :=
  map entry_sig gen_table = map entry_sig hand_table /\\ gen_noparam = hand_noparam /\\ gen_gate_set = hand_gate_set /\\
  gen_aliases = hand_aliases /\\ gen_measures = hand_measures /\\ gen_measure_set = hand_measure_set /\\
  gen_resets = hand_resets /\\ gen_reset_set = hand_reset_set.
Lemma source_signatures_ok : source_signatures_checked.
Proof. repeat split; reflexivity. Qed.
"""

CONSTCHECK = """(* ConstCheck.v — tolerance, angle normalisation and printing precisions regenerated from the Python source
   equal the ones of the model. By computation. *)
From Coq Require Import ZArith List String.
From OSQ Require Import Num IR Construct DefaultTable DefaultGates Constants.

Lemma atol_ok : (gen_atol_num = 1 /\\ gen_atol_den = 10000000)%Z. Proof. split; reflexivity. Qed.
Lemma normalize_ok : forall (T : Type) (N : Num T) (x : T), gen_normalize_angle N x = normalize_angle N x.
Proof. reflexivity. Qed.
Lemma precisions_ok : (gen_writer_precision = 8 /\\ gen_v1_precision = 8 /\\ gen_qs_deg_precision = 5)%Z.
Proof. repeat split; reflexivity. Qed.

Definition source_constants_checked : Prop :=
  (gen_atol_num = 1 /\\ gen_atol_den = 10000000)%Z /\\
  (forall (T : Type) (N : Num T) (x : T), gen_normalize_angle N x = normalize_angle N x) /\\
  (gen_writer_precision = 8 /\\ gen_v1_precision = 8 /\\ gen_qs_deg_precision = 5)%Z.
Lemma source_constants_ok : source_constants_checked.
Proof. repeat split; reflexivity. Qed.
"""

TABLECHECK = """(* TableCheck.v — the DEFINITIONS of the default gates regenerated from the Python source equal the hand-written
   table all theorems are proved about; with SigCheck and ConstCheck, everything the property files need. *)
From Coq Require Import ZArith List String.
From OSQ Require Import Num IR Construct DefaultTable DefaultGates Constants SigCheck ConstCheck.

Lemma table_ok : gen_table = hand_table. Proof. reflexivity. Qed.

Definition source_tables_checked : Prop :=
  gen_table = hand_table /\\ gen_noparam = hand_noparam /\\ gen_gate_set = hand_gate_set /\\
  gen_aliases = hand_aliases /\\ gen_measures = hand_measures /\\ gen_measure_set = hand_measure_set /\\
  gen_resets = hand_resets /\\ gen_reset_set = hand_reset_set /\\
  (forall (T : Type) (N : Num T) (x : T), gen_normalize_angle N x = normalize_angle N x).
Lemma source_tables_ok : source_tables_checked.
Proof. repeat split; reflexivity. Qed.
"""


def write_if_changed(path: str, content: str) -> bool:
    if os.path.exists(path) and open(path).read() == content:
        return False
    with open(path, "w") as f:
        f.write(content)
    return True


def main() -> int:
    repo, out = sys.argv[1], sys.argv[2]
    os.makedirs(out, exist_ok=True)
    report = {"fallbacks": [], "changed": []}
    for name, content in (("DefaultGates.v", translate_default_gates(repo, report)),
                          ("Constants.v", translate_constants(repo, report)),
                          ("SigCheck.v", SIGCHECK), ("ConstCheck.v", CONSTCHECK), ("TableCheck.v", TABLECHECK)):
        if write_if_changed(os.path.join(out, name), content):
            report["changed"].append(name)
    with open(os.path.join(out, "translator_report.json"), "w") as f:
        json.dump(report, f, indent=1)
    print(json.dumps(report))
    return 0


if __name__ == "__main__":
    sys.exit(main())
