#!/venv/bin/python
"""translate.py <repo> <outdir> — regenerate coq/Gen/*.v from the Python source.

Fail-closed translator for the table-like parts of OpenSquirrel:
  default_gates.py    -> Gen/DefaultGates.v   (gen_table, gen_noparam, gen_gate_set, gen_aliases)
  default_measures.py, default_resets.py      (gen_measures, gen_measure_set, gen_resets, gen_reset_set)
  common.py           -> Gen/Constants.v      (ATOL as a rational, normalize_angle as a Gallina term)
  writer.py, cqasmv1_exporter.py, quantify_scheduler_exporter.py -> precisions
and for the numeric kernels (second half of this file, "numeric kernels"):
  aba_decomposer.py, general_merger.py, matrix_expander.py (can1), ir.py (BlochSphereRotation.is_identity, __eq__),
  mckay_decomposer.py, cnot_decomposer.py -> Gen/Kernels.v (gen_aba_angles, gen_aba_gates, gen_compose, gen_can1,
  gen_is_identity, gen_bsr_eq, gen_mckay_decompose, gen_cnot_decompose), proved equal to the hand-written model
  in Gen/KernelCheck.v (emitted here as fixed text: the proofs do not depend on the source).

Only a whitelist of AST shapes is accepted.  Anything else is reported as a
fallback: the generated definition is then a value that cannot be equal to the
hand-written table (so Gen/TableCheck.v, or Gen/KernelCheck.v for a kernel, stops
compiling and every theorem that depends on it is no longer shown), never a guess.
A file is rewritten only when its content changes, so `make` stays incremental."""
from __future__ import annotations

import ast
import json
import math
import os
import re
import sys
from dataclasses import dataclass
from fractions import Fraction


class Unsupported(Exception):
    pass


def coq_str(s: str) -> str:
    return '"' + s.replace('"', '""') + '"'


def coq_z(n: int) -> str:
    return f"({n})%Z" if n < 0 else f"{n}%Z"


# ---------------------------------------------------------------- default_gates.py

KIND = {"QubitLike": "KQ", "Qubit": "KQ", "Float": "KF", "SupportsInt": "KI", "Int": "KI", "Bit": "KB"}


def ann_name(a) -> str:
    if isinstance(a, ast.Name):
        return a.id
    if isinstance(a, ast.Constant) and isinstance(a.value, str):
        return a.value
    raise Unsupported(f"annotation {ast.dump(a)}")


def params_of(fn: ast.FunctionDef) -> list[tuple[str, str]]:
    if fn.args.vararg or fn.args.kwarg or fn.args.kwonlyargs or fn.args.posonlyargs or fn.args.defaults:
        raise Unsupported("parameter list shape")
    out = []
    for a in fn.args.args:
        if a.annotation is None:
            raise Unsupported("missing annotation")
        k = KIND.get(ann_name(a.annotation))
        if k is None:
            raise Unsupported(f"annotation {ann_name(a.annotation)}")
        out.append((a.arg, k))
    return out


def is_math_pi(e) -> bool:
    return isinstance(e, ast.Attribute) and e.attr == "pi" and isinstance(e.value, ast.Name) and e.value.id == "math"


def fold_int(e):
    """integer-only sub-expressions are folded as Python would evaluate them"""
    if isinstance(e, ast.Constant) and isinstance(e.value, int) and not isinstance(e.value, bool):
        return e.value
    if isinstance(e, ast.UnaryOp) and isinstance(e.op, ast.USub):
        v = fold_int(e.operand)
        return None if v is None else -v
    return None


def aexpr(e, float_params: set[str], int_params: set[str], local: str | None) -> str:
    v = fold_int(e)
    if v is not None:
        return f"(EInt {coq_z(v)})"
    if is_math_pi(e):
        return "EPi"
    if isinstance(e, ast.Attribute) and e.attr == "value" and isinstance(e.value, ast.Name) and e.value.id in float_params:
        return "ETheta"
    if isinstance(e, ast.Name) and local is not None and e.id == local:
        return "ELocal"
    if isinstance(e, ast.UnaryOp) and isinstance(e.op, ast.USub):
        return f"(ENeg {aexpr(e.operand, float_params, int_params, local)})"
    if isinstance(e, ast.BinOp) and isinstance(e.op, ast.Pow):
        # 2 ** Int(k).value
        if fold_int(e.left) == 2 and isinstance(e.right, ast.Attribute) and e.right.attr == "value" and \
                isinstance(e.right.value, ast.Call) and isinstance(e.right.value.func, ast.Name) and \
                e.right.value.func.id == "Int" and len(e.right.value.args) == 1 and \
                isinstance(e.right.value.args[0], ast.Name) and e.right.value.args[0].id in int_params:
            return "EPow2K"
        raise Unsupported("power expression")
    if isinstance(e, ast.BinOp) and isinstance(e.op, (ast.Mult, ast.Div)):
        op = "EMul" if isinstance(e.op, ast.Mult) else "EDiv"
        return f"({op} {aexpr(e.left, float_params, int_params, local)} {aexpr(e.right, float_params, int_params, local)})"
    if isinstance(e, ast.Call) and isinstance(e.func, ast.Name) and e.func.id == "normalize_angle" and len(e.args) == 1 \
            and not e.keywords:
        return f"(ENorm {aexpr(e.args[0], float_params, int_params, local)})"
    raise Unsupported(f"expression {ast.dump(e)[:120]}")


def axis_of(e) -> str:
    if not isinstance(e, ast.Tuple) or len(e.elts) != 3:
        raise Unsupported("axis")
    vals = [fold_int(x) for x in e.elts]
    if any(v is None for v in vals):
        raise Unsupported("axis component")
    return f"({coq_z(vals[0])}, {coq_z(vals[1])}, {coq_z(vals[2])})"


def bsr_call(c: ast.Call, qubit_name: str, fp, ip, local) -> str:
    if not (isinstance(c.func, ast.Name) and c.func.id == "BlochSphereRotation") or c.args:
        raise Unsupported("BlochSphereRotation call shape")
    kw = {k.arg: k.value for k in c.keywords}
    if set(kw) - {"qubit", "axis", "angle", "phase"} or not {"qubit", "axis", "angle"} <= set(kw):
        raise Unsupported("BlochSphereRotation keywords")
    if not (isinstance(kw["qubit"], ast.Name) and kw["qubit"].id == qubit_name):
        raise Unsupported("qubit argument")
    phase = aexpr(kw["phase"], fp, ip, local) if "phase" in kw else "(EInt 0%Z)"
    return f"(mkBsrDef {axis_of(kw['axis'])} {aexpr(kw['angle'], fp, ip, local)} {phase})"


def gate_def(fn: ast.FunctionDef) -> str:
    ps = params_of(fn)
    qubits = [n for n, k in ps if k == "KQ"]
    fp = {n for n, k in ps if k == "KF"}
    ip = {n for n, k in ps if k == "KI"}
    body = [s for s in fn.body if not (isinstance(s, ast.Expr) and isinstance(s.value, ast.Constant))]
    local = None
    local_expr = None
    if len(body) == 2 and isinstance(body[0], ast.Assign) and len(body[0].targets) == 1 and \
            isinstance(body[0].targets[0], ast.Name):
        local = body[0].targets[0].id
        local_expr = aexpr(body[0].value, fp, ip, None)
        body = body[1:]
    if len(body) != 1 or not isinstance(body[0], ast.Return) or not isinstance(body[0].value, ast.Call):
        raise Unsupported("function body shape")
    c = body[0].value
    # BlochSphereRotation.identity(q)
    if isinstance(c.func, ast.Attribute) and c.func.attr == "identity" and isinstance(c.func.value, ast.Name) and \
            c.func.value.id == "BlochSphereRotation":
        if local or len(c.args) != 1 or not (isinstance(c.args[0], ast.Name) and c.args[0].id == qubits[0]):
            raise Unsupported("identity call")
        return "DIdentity"
    if isinstance(c.func, ast.Name) and c.func.id == "BlochSphereRotation":
        if local or len(qubits) != 1:
            raise Unsupported("rotation with local / several qubits")
        return f"(DBsr {bsr_call(c, qubits[0], fp, ip, None)})"
    if isinstance(c.func, ast.Name) and c.func.id == "ControlledGate":
        if c.keywords or len(c.args) != 2 or len(qubits) != 2:
            raise Unsupported("ControlledGate call shape")
        if not (isinstance(c.args[0], ast.Name) and c.args[0].id == qubits[0]):
            raise Unsupported("control argument")
        t = c.args[1]
        if isinstance(t, ast.Call) and isinstance(t.func, ast.Name) and t.func.id == "BlochSphereRotation":
            loc = f"(Some {local_expr})" if local else "None"
            return f"(DCtrlBsr {loc} {bsr_call(t, qubits[1], fp, ip, local)})"
        if isinstance(t, ast.Call) and isinstance(t.func, ast.Name) and len(t.args) == 1 and not t.keywords and \
                isinstance(t.args[0], ast.Name) and t.args[0].id == qubits[1] and not local:
            return f"(DCtrlCall {coq_str(t.func.id)})"
        raise Unsupported("controlled target shape")
    raise Unsupported("return expression")


def decorated(fn: ast.FunctionDef, deco: str) -> bool:
    return any(isinstance(d, ast.Name) and d.id == deco for d in fn.decorator_list)


def name_list(tree: ast.Module, var: str, env: dict[str, list[str]]) -> list[str]:
    val = None
    for s in tree.body:
        if isinstance(s, ast.Assign) and len(s.targets) == 1 and isinstance(s.targets[0], ast.Name) and s.targets[0].id == var:
            val = s.value
    if not isinstance(val, ast.List):
        raise Unsupported(f"list {var}")
    out: list[str] = []
    for e in val.elts:
        if isinstance(e, ast.Name):
            out.append(e.id)
        elif isinstance(e, ast.Starred) and isinstance(e.value, ast.Name) and e.value.id in env:
            out.extend(env[e.value.id])
        else:
            raise Unsupported(f"element of {var}")
    env[var] = out
    return out


def params_coq(ps) -> str:
    return "[" + "; ".join(f"({coq_str(n)}, {k})" for n, k in ps) + "]"


def translate_default_gates(repo: str, report: dict) -> str:
    lines = ["(* generated by translator/translate.py from opensquirrel/default_gates.py, default_measures.py, default_resets.py *)",
             "From Coq Require Import ZArith List String.", "Import ListNotations.",
             "From OSQ Require Import DefaultTable.", "Open Scope string_scope.", ""]
    path = os.path.join(repo, "opensquirrel", "default_gates.py")
    try:
        tree = ast.parse(open(path).read())
        entries = []
        for s in tree.body:
            if isinstance(s, ast.FunctionDef) and decorated(s, "named_gate"):
                try:
                    entries.append(f"  mkGentry {coq_str(s.name)} {params_coq(params_of(s))} {gate_def(s)}")
                except Unsupported as e:
                    report["fallbacks"].append(f"default_gates.{s.name}: {e}")
                    entries.append(f"  mkGentry {coq_str('?' + s.name)} [] DIdentity")
        lines.append("Definition gen_table : list gentry := [\n" + ";\n".join(entries) + "\n].")
        env: dict[str, list[str]] = {}
        for var, gname in (("default_bloch_sphere_rotations_without_params", "gen_noparam"),
                           ("default_bloch_sphere_rotations", None), ("default_gate_set", "gen_gate_set")):
            try:
                l = name_list(tree, var, env)
            except Unsupported as e:
                report["fallbacks"].append(f"default_gates.{var}: {e}")
                l = ["?"]
            if gname:
                lines.append(f"Definition {gname} : list string := [" + "; ".join(coq_str(x) for x in l) + "].")
        aliases = None
        for s in tree.body:
            if isinstance(s, ast.Assign) and len(s.targets) == 1 and isinstance(s.targets[0], ast.Name) and \
                    s.targets[0].id == "default_gate_aliases" and isinstance(s.value, ast.Dict):
                aliases = []
                for k, v in zip(s.value.keys, s.value.values):
                    if isinstance(k, ast.Constant) and isinstance(k.value, str) and isinstance(v, ast.Name):
                        aliases.append((k.value, v.id))
                    else:
                        aliases = None
                        break
        if aliases is None:
            report["fallbacks"].append("default_gates.default_gate_aliases")
            aliases = [("?", "?")]
        lines.append("Definition gen_aliases : list (string * string) := [" +
                     "; ".join(f"({coq_str(a)}, {coq_str(b)})" for a, b in aliases) + "].")
    except (OSError, SyntaxError) as e:
        report["fallbacks"].append(f"default_gates.py: {e}")
        lines += ["Definition gen_table : list gentry := [].", "Definition gen_noparam : list string := [].",
                  "Definition gen_gate_set : list string := [].", "Definition gen_aliases : list (string * string) := []."]

    # measures
    def simple_set(fname, deco, ctor, setvar, with_axis):
        p = os.path.join(repo, "opensquirrel", fname)
        ents, names = [], ["?"]
        try:
            t = ast.parse(open(p).read())
            for s in t.body:
                if isinstance(s, ast.FunctionDef) and decorated(s, deco):
                    ps = params_of(s)
                    body = [x for x in s.body if not (isinstance(x, ast.Expr) and isinstance(x.value, ast.Constant))]
                    if len(body) != 1 or not isinstance(body[0], ast.Return) or not isinstance(body[0].value, ast.Call):
                        raise Unsupported(f"{s.name} body")
                    c = body[0].value
                    if not (isinstance(c.func, ast.Name) and c.func.id == ctor) or c.args:
                        raise Unsupported(f"{s.name} call")
                    kw = {k.arg: k.value for k in c.keywords}
                    qn = [n for n, k in ps if k == "KQ"]
                    if not (isinstance(kw.get("qubit"), ast.Name) and kw["qubit"].id == qn[0]):
                        raise Unsupported(f"{s.name} qubit")
                    if with_axis:
                        bn = [n for n, k in ps if k == "KB"]
                        if set(kw) != {"qubit", "bit", "axis"} or not (isinstance(kw["bit"], ast.Name) and kw["bit"].id == bn[0]):
                            raise Unsupported(f"{s.name} keywords")
                        ents.append(f"({coq_str(s.name)}, {params_coq(ps)}, {axis_of(kw['axis'])})")
                    else:
                        if set(kw) != {"qubit"}:
                            raise Unsupported(f"{s.name} keywords")
                        ents.append(f"({coq_str(s.name)}, {params_coq(ps)})")
            names = name_list(t, setvar, {})
        except (Unsupported, OSError, SyntaxError, IndexError) as e:
            report["fallbacks"].append(f"{fname}: {e}")
            ents = []
        return ents, names

    ments, mnames = simple_set("default_measures.py", "named_measure", "Measure", "default_measure_set", True)
    # the hand table lists measures in the order measure, measure_z: sort by name for a canonical order
    lines.append("Definition gen_measures : list (string * list (string * pkind) * (Z * Z * Z)) := [" + "; ".join(sorted(ments)) + "].")
    lines.append("Definition gen_measure_set : list string := [" + "; ".join(coq_str(x) for x in mnames) + "].")
    rents, rnames = simple_set("default_resets.py", "named_reset", "Reset", "default_reset_set", False)
    lines.append("Definition gen_resets : list (string * list (string * pkind)) := [" + "; ".join(sorted(rents)) + "].")
    lines.append("Definition gen_reset_set : list string := [" + "; ".join(coq_str(x) for x in rnames) + "].")
    return "\n".join(lines) + "\n"


# ---------------------------------------------------------------- common.py

def fexpr(e, names: dict[str, str]) -> str:
    """float expression of common.normalize_angle -> Gallina over Num"""
    if isinstance(e, ast.Constant) and isinstance(e.value, int) and not isinstance(e.value, bool):
        return f"(nofZ N {coq_z(e.value)})"
    if is_math_pi(e):
        return "(npi N)"
    if isinstance(e, ast.Name) and e.id in names:
        return names[e.id]
    if isinstance(e, ast.UnaryOp) and isinstance(e.op, ast.USub):
        return f"(nneg N {fexpr(e.operand, names)})"
    if isinstance(e, ast.BinOp):
        op = {ast.Add: "nadd", ast.Sub: "nsub", ast.Mult: "nmul", ast.Div: "ndiv", ast.FloorDiv: "nfloordiv"}.get(type(e.op))
        if op is None:
            raise Unsupported("operator")
        return f"({op} N {fexpr(e.left, names)} {fexpr(e.right, names)})"
    raise Unsupported(f"float expression {ast.dump(e)[:100]}")


def ftest(e, names) -> str:
    if isinstance(e, ast.Compare) and len(e.ops) == 1 and len(e.comparators) == 1:
        l, r = fexpr(e.left, names), fexpr(e.comparators[0], names)
        if isinstance(e.ops[0], ast.Lt):
            return f"(nltb N {l} {r})"
        if isinstance(e.ops[0], ast.Gt):
            return f"(nltb N {r} {l})"
        if isinstance(e.ops[0], ast.LtE):
            return f"(nleb N {l} {r})"
        if isinstance(e.ops[0], ast.GtE):
            return f"(nleb N {r} {l})"
    raise Unsupported("comparison")


def translate_normalize(fn: ast.FunctionDef) -> str:
    if len(fn.args.args) != 1:
        raise Unsupported("normalize_angle parameters")
    x = fn.args.args[0].arg
    body = [s for s in fn.body if not (isinstance(s, ast.Expr) and isinstance(s.value, ast.Constant))]
    names = {x: "x", "ATOL": "(ndiv N (nofZ N gen_atol_num) (nofZ N gen_atol_den))"}
    # leading assignments of locals (e.g. `full_turn = 2 * math.pi`) are inlined
    while len(body) > 3 and isinstance(body[0], ast.Assign) and len(body[0].targets) == 1 and isinstance(body[0].targets[0], ast.Name):
        names[body[0].targets[0].id] = fexpr(body[0].value, names)
        body = body[1:]
    if len(body) != 3 or not isinstance(body[0], ast.Assign) or not isinstance(body[1], ast.If) or not isinstance(body[2], ast.Return):
        raise Unsupported("normalize_angle body")
    t = body[0].targets[0].id
    e0 = fexpr(body[0].value, names)
    names[t] = "t"

    def branch(stmts):
        if len(stmts) != 1 or not isinstance(stmts[0], ast.AugAssign) or stmts[0].target.id != t:
            raise Unsupported("branch")
        op = {ast.Add: "nadd", ast.Sub: "nsub"}.get(type(stmts[0].op))
        if op is None:
            raise Unsupported("augmented operator")
        return f"({op} N t {fexpr(stmts[0].value, names)})"

    def chain(node: ast.If) -> str:
        then = branch(node.body)
        if not node.orelse:
            els = "t"
        elif len(node.orelse) == 1 and isinstance(node.orelse[0], ast.If):
            els = chain(node.orelse[0])
        else:
            raise Unsupported("else branch")
        return f"(if {ftest(node.test, names)} then {then} else {els})"

    if not (isinstance(body[2].value, ast.Name) and body[2].value.id == t):
        raise Unsupported("return")
    return f"let t := {e0} in {chain(body[1])}"


def const_of(path: str, cls: str | None, name: str):
    tree = ast.parse(open(path).read())
    scope = tree.body
    if cls:
        scope = next(s.body for s in tree.body if isinstance(s, ast.ClassDef) and s.name == cls)
    for s in scope:
        if isinstance(s, ast.Assign) and len(s.targets) == 1 and isinstance(s.targets[0], ast.Name) and s.targets[0].id == name:
            return s.value
    raise Unsupported(f"{name} not found")


def translate_constants(repo: str, report: dict) -> str:
    lines = ["(* generated by translator/translate.py from common.py, writer.py, cqasmv1_exporter.py, quantify_scheduler_exporter.py *)",
             "From Coq Require Import ZArith.", "From OSQ Require Import Num.", ""]
    common = os.path.join(repo, "opensquirrel", "common.py")
    num, den = 0, 1
    try:
        src = open(common).read()
        tree = ast.parse(src)
        v = const_of(common, None, "ATOL")
        seg = ast.get_source_segment(src, v)
        fr = Fraction(seg)          # exact decimal literal
        num, den = fr.numerator, fr.denominator
    except Exception as e:  # noqa: BLE001
        report["fallbacks"].append(f"common.ATOL: {e}")
    lines.append(f"Definition gen_atol_num : Z := {coq_z(num)}.")
    lines.append(f"Definition gen_atol_den : Z := {coq_z(den)}.")
    try:
        fn = next(s for s in ast.parse(open(common).read()).body if isinstance(s, ast.FunctionDef) and s.name == "normalize_angle")
        body = translate_normalize(fn)
    except Exception as e:  # noqa: BLE001
        report["fallbacks"].append(f"common.normalize_angle: {e}")
        body = "nofZ N 0%Z"
    lines.append("Definition gen_normalize_angle {T : Type} (N : Num T) (x : T) : T :=\n  " + body + ".")
    for label, rel, cls, name in (("gen_writer_precision", "writer/writer.py", "_WriterImpl", "FLOAT_PRECISION"),
                                  ("gen_v1_precision", "exporter/cqasmv1_exporter.py", "_CQASMv1Creator", "FLOAT_PRECISION"),
                                  ("gen_qs_deg_precision", "exporter/quantify_scheduler_exporter.py", None, "FIXED_POINT_DEG_PRECISION")):
        try:
            v = const_of(os.path.join(repo, "opensquirrel", rel), cls, name)
            n = fold_int(v)
            if n is None:
                raise Unsupported("not an int")
        except Exception as e:  # noqa: BLE001
            report["fallbacks"].append(f"{rel}.{name}: {e}")
            n = -1
        lines.append(f"Definition {label} : Z := {coq_z(n)}.")
    return "\n".join(lines) + "\n"


# ---------------------------------------------------------------- numeric kernels
#
# A small fail-closed translator for straight-line numeric Python functions into Gallina over [Num T].
# Supported statements: assignment (also tuple targets, augmented, annotated), if/elif/else (variables assigned
# in both branches are joined as a tuple), raise, return, `l.append(x)`, `l[i] = x`.
# Supported expressions: see KTrans.ex.  Every library name is resolved through the imports of the module it
# occurs in (`from math import cos` and `math.cos` are the same thing; a local variable shadows an import).
# Mappings to functions of the hand model are explicit and listed in KTrans.call; helper methods that are mapped
# rather than translated are PINNED: their source text must be exactly the expected one (pinned()).
# Anything else raises Unsupported: the kernel is then emitted as a definition that cannot be equal to the model.


@dataclass
class Val:
    t: str | None                 # Gallina term (atomic or parenthesised); None for a purely static value
    ty: str                       # F float | B bool | Z runtime int | V 3-vector | I static int | SF static float |
                                  # S static string | NONE | GEN | ARGS | NAME | GATE | L (list of gates) | NAT |
                                  # FLIST (Python list of floats) | OBJ | TUPLE | RES
    static: object = None         # Python value of a static int / float / bool / string
    axid: str | None = None       # Z that is `axis_index a`: the axis_id term a
    cls: str | None = None        # OBJ: canonical Python class
    fields: dict | None = None    # OBJ: attribute -> Val
    items: list | None = None     # TUPLE: components
    gi: str | None = None         # NAME: the ginfo term whose name this is
    res: str | None = None        # RES (a call that may raise): what is inside the `result` (L, GATE, BSRG, F3)


COQ_RESERVED = {"pi", "atol", "two_pi", "N", "T", "at", "in", "let", "if", "then", "else", "match", "with", "end",
                "fun", "forall", "exists", "as", "return", "fix", "cofix", "where", "using", "mod", "Type", "Set",
                "Prop", "fst", "snd", "rtol", "eye", "C", "c0", "c1", "n0", "n1", "n2", "dot3", "cross3", "compose",
                "can1", "is_identity", "bsr_eq", "gen_atol", "vscale", "vadd", "vsub", "vround", "e", "result",
                # the vocabulary of the generated terms
                "nofZ", "nadd", "nsub", "nmul", "ndiv", "nneg", "nabs", "nsqrt", "nsin", "ncos", "ntan", "nacos",
                "natan2", "npi", "nmod", "nltb", "nleb", "neqb", "ncopysign", "nround", "nroundpy", "nmax", "nmin",
                "nsq", "cmul", "ax_x", "ax_y", "ax_z", "axis_comp", "axis_index", "unused_axis", "neg_axis",
                "close_axis", "close_r", "normalize_angle", "mk_bsr", "mkGinfo", "anon", "gname", "gargs", "name_is",
                "BSR", "Ctrl", "Mat", "Ok", "Err", "EValue", "EIndex", "EKey", "EType", "EOther", "None", "Some",
                "true", "false", "negb", "andb", "orb", "AxX", "AxY", "AxZ", "AQ", "DSame", "DNew", "news",
                "rot_gate", "x90", "default_gate", "compose_gates", "aba_angles", "aba_gates", "filter_identities",
                "list_set", "gate_at", "gate_is_bsr", "gate_angle", "gate_axis", "ia", "ib", "d", "Z", "nat", "list",
                "bool", "gate", "ginfo", "axis3", "ditem", "string", "length", "nth", "app"}


def cname(py: str) -> str:
    if not py.isidentifier() or not py.isascii():
        raise Unsupported(f"identifier {py!r}")
    return py + "_" if py in COQ_RESERVED else py


def zlit(n: int) -> str:
    return f"({n})" if n < 0 else str(n)


class Module:
    """a parsed source file with its import table"""

    def __init__(self, repo: str, rel: str):
        self.rel = rel
        self.dotted = "opensquirrel." + rel[:-3].replace("/", ".")
        self.src = open(os.path.join(repo, "opensquirrel", rel)).read()
        self.tree = ast.parse(self.src)
        self.alias: dict[str, str] = {}
        for s in self.tree.body:
            if isinstance(s, ast.Import):
                for a in s.names:
                    self.alias[a.asname or a.name] = a.name
            elif isinstance(s, ast.ImportFrom) and s.module and s.level == 0:
                for a in s.names:
                    self.alias[a.asname or a.name] = s.module + "." + a.name
            elif isinstance(s, (ast.ClassDef, ast.FunctionDef)):
                self.alias[s.name] = self.dotted + "." + s.name
            elif isinstance(s, ast.Assign) and len(s.targets) == 1 and isinstance(s.targets[0], ast.Name):
                self.alias[s.targets[0].id] = self.dotted + "." + s.targets[0].id

    def scope(self, cls: str | None):
        if cls is None:
            return self.tree.body
        for s in self.tree.body:
            if isinstance(s, ast.ClassDef) and s.name == cls:
                return s.body
        raise Unsupported(f"class {cls} not found in {self.rel}")

    def func(self, name: str, cls: str | None = None) -> ast.FunctionDef:
        found = [s for s in self.scope(cls) if isinstance(s, ast.FunctionDef) and s.name == name]
        if len(found) != 1:
            raise Unsupported(f"function {cls or ''}.{name} not found exactly once in {self.rel}")
        return found[0]

    def pinned(self, what: str, node_src: str, expected: str) -> None:
        if node_src != expected:
            raise Unsupported(f"{self.rel}: {what} is not the pinned text (found {node_src[:80]!r})")


def body_of(fn: ast.FunctionDef) -> list[ast.stmt]:
    """statements without docstrings / bare string expressions"""
    return [s for s in fn.body if not (isinstance(s, ast.Expr) and isinstance(s.value, ast.Constant)
                                      and isinstance(s.value.value, str))]


def unparse_body(fn: ast.FunctionDef) -> str:
    return "\n".join(ast.unparse(s) for s in body_of(fn))


BUILTINS = {"abs", "max", "min", "float", "round", "len", "isinstance", "sum", "zip"}   # names that are not imports
MATH1 = {"math.sin": "nsin", "math.cos": "ncos", "math.tan": "ntan", "math.acos": "nacos", "math.sqrt": "nsqrt"}
MATH2 = {"math.atan2": "natan2", "math.copysign": "ncopysign"}
ERRS = {"ValueError": "EValue", "IndexError": "EIndex", "KeyError": "EKey", "TypeError": "EType"}
IR = "opensquirrel.ir."
BSR_CLS = IR + "BlochSphereRotation"
ROT_GATES = {"opensquirrel.default_gates.Rx": "AxX", "opensquirrel.default_gates.Ry": "AxY",
             "opensquirrel.default_gates.Rz": "AxZ"}
ABA_CLASSES = {"opensquirrel.decomposer.aba_decomposer." + n: (n[0], n[1]) for n in
               ("XYXDecomposer", "XZXDecomposer", "YXYDecomposer", "YZYDecomposer", "ZXZDecomposer", "ZYZDecomposer")}


class Ctx:
    """what is shared by all kernels of one run: the repository, the parsed modules, ATOL"""

    def __init__(self, repo: str):
        self.repo = repo
        self.mods: dict[str, Module] = {}
        v = const_of(os.path.join(repo, "opensquirrel", "common.py"), None, "ATOL")
        if not (isinstance(v, ast.Constant) and isinstance(v.value, float)):
            raise Unsupported("common.ATOL is not a float literal")
        self.atol = v.value

    def mod(self, rel: str) -> Module:
        if rel not in self.mods:
            try:
                self.mods[rel] = Module(self.repo, rel)
            except (OSError, SyntaxError) as e:
                raise Unsupported(f"{rel}: {e}") from e
        return self.mods[rel]

    def axis_of_axis_is_identity(self) -> None:
        """Axis(a) of an Axis object a keeps its value: pinned first statement of _parse_and_validate_axislike"""
        m = self.mod("ir.py")
        fn = m.func("_parse_and_validate_axislike", "Axis")
        m.pinned("Axis._parse_and_validate_axislike (first statement)", ast.unparse(body_of(fn)[0]),
                 "if isinstance(axis, Axis):\n    return axis.value")
        init = m.func("__init__", "Axis")
        m.pinned("Axis.__init__", unparse_body(init),
                 "axis_to_parse = axis[0] if len(axis) == 1 else cast(AxisLike, axis)\n"
                 "self._value = self._parse_and_validate_axislike(axis_to_parse)")
        get = m.func("__getitem__", "Axis")
        m.pinned("Axis.__getitem__", unparse_body(get), "return cast(np.float64, self.value[index])")


def bsr_obj(prefix: str, with_gi: bool) -> Val:
    """a BlochSphereRotation whose fields are the Coq variables <prefix>_qubit, _axis, _angle, _phase[, _gi]"""
    f = {"qubit": Val(f"{prefix}_qubit", "Z"), "axis": Val(f"{prefix}_axis", "V"),
         "angle": Val(f"{prefix}_angle", "F"), "phase": Val(f"{prefix}_phase", "F")}
    if with_gi:
        f["generator"] = Val(f"(gname {prefix}_gi)", "GEN")
        f["arguments"] = Val(f"(gargs {prefix}_gi)", "ARGS")
        f["name"] = Val(None, "NAME", gi=f"{prefix}_gi")
    return Val(f"(BSR {prefix}_qubit {prefix}_axis {prefix}_angle {prefix}_phase)", "OBJ", cls=BSR_CLS, fields=f)


def bsr_binders(prefix: str, with_gi: bool) -> str:
    s = f"({prefix}_qubit : Z) ({prefix}_axis : axis3 T) ({prefix}_angle {prefix}_phase : T)"
    return s + (f" ({prefix}_gi : ginfo T)" if with_gi else "")


class KTrans:
    def __init__(self, ctx: Ctx, mod: Module, monadic: bool, notes: list[str]):
        self.ctx, self.mod, self.monadic, self.notes = ctx, mod, monadic, notes
        self.methods = {}        # (class, method name) of `self.<m>(...)` -> function of the argument Vals
        self.subject = None      # the gate a decomposer is applied to
        self.depth = 0
        self.hoisted: list[tuple[str, str]] = []
        self.nres = 0
        self.taken: set[str] = set()   # Coq binders that stand for the fields of a parameter: never shadowed
        self.in_cond = 0               # > 0 inside an expression Python evaluates conditionally

    def cn(self, py: str) -> str:
        """Coq name of a Python local"""
        n = cname(py)
        while n in self.taken or re.fullmatch(r"r\d+", n):              # r1, r2, ...: results of calls, see unres
            n += "_"
        return n

    # ------------------------------------------------------------ names
    def canon(self, e, env) -> str | None:
        """canonical dotted name of a library reference, None for anything else"""
        if isinstance(e, ast.Name):
            if e.id in env:
                return None
            if e.id in self.mod.alias:
                return self.mod.alias[e.id]
            return e.id if e.id in BUILTINS else None
        if isinstance(e, ast.Attribute):
            base = self.canon(e.value, env)
            return None if base is None else base + "." + e.attr
        return None

    # ------------------------------------------------------------ coercions
    def F(self, v: Val) -> str:
        if v.ty == "F":
            return v.t
        if v.ty == "I":                                                 # Python writes -1 as -(1)
            return f"(nofZ N {v.static})" if v.static >= 0 else f"(- (nofZ N {-v.static}))"
        raise Unsupported(f"a float is expected, not {v.ty}")

    def Zt(self, v: Val) -> str:
        if v.ty == "Z":
            return v.t
        if v.ty == "I":
            return zlit(v.static)
        raise Unsupported(f"an integer is expected, not {v.ty}")

    def Bt(self, v: Val) -> str:
        if v.ty != "B":
            raise Unsupported(f"a boolean is expected, not {v.ty}")
        if v.static is not None:
            return "true" if v.static else "false"
        return v.t

    def Vt(self, v: Val) -> str:
        if v.ty != "V":
            raise Unsupported(f"a 3-vector is expected, not {v.ty}")
        return v.t

    # ------------------------------------------------------------ expressions
    def ex(self, e, env) -> Val:
        if isinstance(e, ast.Constant):
            c = e.value
            if isinstance(c, bool):
                return Val(None, "B", static=c)
            if isinstance(c, int):
                return Val(None, "I", static=c)
            if isinstance(c, float):
                if c.is_integer() and 0 <= c < 2 ** 53:
                    return Val(f"(nofZ N {int(c)})", "F")            # an integral literal is exact
                raise Unsupported(f"float literal {c!r}")
            if isinstance(c, str):
                return Val(None, "S", static=c)
            if c is None:
                return Val("None", "NONE")
            raise Unsupported(f"constant {c!r}")
        if isinstance(e, ast.Name):
            if e.id in env:
                return env[e.id]
            return self.libval(self.canon(e, env), e)
        if isinstance(e, ast.Attribute):
            cn = self.canon(e, env)
            if cn is not None:
                return self.libval(cn, e)
            o = self.ex(e.value, env)
            if o.ty == "OBJ" and e.attr in o.fields:
                return o.fields[e.attr]
            if o.ty == "V" and e.attr == "value":                       # Axis.value
                return o
            if o.ty == "GATE" and e.attr == "name":                      # Gate.name: the generator's __name__
                return Val(None, "NAME", gi=f"(snd {o.t})")
            if o.ty == "GATE" and e.attr in ("angle", "axis"):
                if o.cls != BSR_CLS and ("bsr", ast.unparse(e.value)) not in env.get(self.FACTS, ()):
                    raise Unsupported(f"{ast.unparse(e)} without an isinstance guard")
                return Val(f"(gate_{e.attr} {o.t})", "F" if e.attr == "angle" else "V")
            if o.ty == "FLIST":
                raise Unsupported("attribute of a list")
            raise Unsupported(f"attribute .{e.attr} of {o.ty} {o.cls or ''}")
        if isinstance(e, ast.Tuple):
            items = [self.ex(x, env) for x in e.elts]
            if len(items) == 3 and all(i.ty in ("F", "I") for i in items):
                return Val("(" + ", ".join(strip_parens(self.F(i)) for i in items) + ")", "V", items=items)
            return Val(None, "TUPLE", items=items)
        if isinstance(e, ast.UnaryOp):
            v = self.ex(e.operand, env)
            if isinstance(e.op, ast.USub):
                if v.ty == "I":
                    return Val(None, "I", static=-v.static)
                if v.ty == "F":
                    return Val(f"(- {v.t})", "F")
                if v.ty == "V":
                    return Val(f"(neg_axis N {v.t})", "V")
            if isinstance(e.op, ast.Not) and v.ty == "B":
                if v.static is not None:
                    return Val(None, "B", static=not v.static)
                return Val(f"(negb {v.t})", "B")
            raise Unsupported(f"unary {type(e.op).__name__} on {v.ty}")
        if isinstance(e, ast.BinOp):
            return self.binop(e.op, self.ex(e.left, env), self.ex(e.right, env))
        if isinstance(e, ast.Compare):
            return self.compare(e, env)
        if isinstance(e, ast.BoolOp):
            vals = []
            env_i = env
            for i, x in enumerate(e.values):                             # `a and b`: b is evaluated when a holds
                self.in_cond += i > 0
                try:
                    vals.append(self.ex(x, env_i))
                finally:
                    self.in_cond -= i > 0
                if isinstance(e.op, ast.And):
                    env_i = self.with_facts(env_i, x)
            for v in vals:
                self.Bt(v)
            is_and = isinstance(e.op, ast.And)
            if any(v.static is (not is_and) for v in vals):               # absorbing element (pure operands)
                return Val(None, "B", static=not is_and)
            vals = [v for v in vals if v.static is None]                 # neutral elements
            if not vals:
                return Val(None, "B", static=is_and)
            t = vals[0].t
            for v in vals[1:]:
                t = f"({opnd(t)} {'&&' if is_and else '||'} {opnd(v.t)})"
            return Val(t, "B")
        if isinstance(e, ast.IfExp):
            c = self.ex(e.test, env)
            self.in_cond += 1
            try:
                a, b = self.ex(e.body, env), self.ex(e.orelse, env)
            finally:
                self.in_cond -= 1
            if c.ty == "B" and c.static is not None:
                return a if c.static else b
            ty = self.join_ty(a, b)
            return Val(f"(if {strip_parens(self.Bt(c))} then {opnd(self.as_ty(a, ty))} else {opnd(self.as_ty(b, ty))})", ty)
        if isinstance(e, ast.Subscript):
            base = self.ex(e.value, env)
            idx = self.ex(e.slice, env)
            if base.ty == "V":
                if idx.ty == "Z" and idx.axid:
                    return Val(f"(axis_comp {base.t} {idx.axid})", "F")
                if idx.ty == "I" and idx.static in (0, 1, 2):
                    return Val(f"({('ax_x', 'ax_y', 'ax_z')[idx.static]} {base.t})", "F")
            if base.ty == "L" and isinstance(e.value, ast.Name) and idx.ty == "I" and idx.static >= 0:
                if not any(f[0] == "len" and f[1] == e.value.id and f[2] > idx.static
                           for f in env.get(self.FACTS, ())):
                    raise Unsupported(f"{ast.unparse(e)} without a len() guard")
                return Val(f"(gate_at {base.t} {idx.static})", "GATE")
            raise Unsupported(f"subscript of {base.ty} by {idx.ty}")
        if isinstance(e, ast.List):
            items = [self.ex(x, env) for x in e.elts]
            if len(items) == 1 and items[0].ty == "OBJ" and items[0] is self.subject and \
                    not isinstance(e.elts[0], ast.Starred):
                return Val(None, "L", static="SAME")                       # [g]: the very same object
            if items and all(i.ty in ("F", "I") for i in items):          # a Python list of floats, kept static
                return Val(None, "FLIST", items=[Val(self.F(i), "F") for i in items])
            if not items:
                return Val("([] : list (gate T * ginfo T))", "L")
            segs, cur = [], []
            for x, i in zip(e.elts, items):
                i = self.unres(i)
                if isinstance(x, ast.Starred):                           # [*l, ...]
                    if i.ty != "L" or i.t is None:
                        raise Unsupported("*x where x is not a list of gates")
                    if cur:
                        segs.append("[" + "; ".join(cur) + "]")
                        cur = []
                    segs.append(i.t)
                elif i.ty == "GATE":
                    cur.append(strip_parens(i.t))
                else:
                    raise Unsupported("list of something else than gates")
            if cur:
                segs.append("[" + "; ".join(cur) + "]")
            return Val(segs[0] if len(segs) == 1 else "(" + " ++ ".join(segs) + ")%list", "L")
        if isinstance(e, ast.Starred):
            return self.ex(e.value, env)
        if isinstance(e, ast.Call):
            return self.call(e, env)
        raise Unsupported(f"expression {type(e).__name__}: {ast.unparse(e)[:80]}")

    # ------------------------------------------------------------ guards
    # l[i] and the attributes of a list element are partial in Python; they are only translated where a test
    # `len(l) >= k` / `isinstance(x, BlochSphereRotation)` textually dominates them (same `and` chain or enclosing if)
    FACTS = "$facts"

    def facts_of(self, test, env) -> set:
        out = set()
        if isinstance(test, ast.BoolOp) and isinstance(test.op, ast.And):
            for x in test.values:
                out |= self.facts_of(x, env)
        elif isinstance(test, ast.Compare) and len(test.ops) == 1 and isinstance(test.left, ast.Call) and \
                self.canon(test.left.func, env) == "len" and len(test.left.args) == 1 and \
                isinstance(test.left.args[0], ast.Name) and isinstance(test.comparators[0], ast.Constant) and \
                isinstance(test.comparators[0].value, int) and isinstance(test.ops[0], (ast.GtE, ast.Gt)):
            k = test.comparators[0].value + (1 if isinstance(test.ops[0], ast.Gt) else 0)
            out.add(("len", test.left.args[0].id, k))
        elif isinstance(test, ast.Call) and self.canon(test.func, env) == "isinstance" and len(test.args) == 2 and \
                self.canon(test.args[1], env) == BSR_CLS:
            out.add(("bsr", ast.unparse(test.args[0])))
        return out

    def with_facts(self, env: dict, test) -> dict:
        f = self.facts_of(test, env)
        if not f:
            return env
        env = dict(env)
        env[self.FACTS] = frozenset(env.get(self.FACTS, frozenset()) | f)
        return env

    def forget(self, env: dict, name: str) -> None:
        """facts about a variable that is assigned again are dropped"""
        if self.FACTS in env:
            env[self.FACTS] = frozenset(f for f in env[self.FACTS]
                                        if not re.search(r"\b" + re.escape(name) + r"\b", f[1]))

    def join_ty(self, a: Val, b: Val) -> str:
        if a.ty == b.ty and a.ty in ("F", "B", "Z", "V", "GEN", "ARGS", "GATE", "L"):
            return a.ty
        if {a.ty, b.ty} <= {"F", "I"}:
            return "F"
        if {a.ty, b.ty} <= {"Z", "I"}:
            return "Z"
        for t in ("GEN", "ARGS"):
            if {a.ty, b.ty} == {t, "NONE"}:
                return t
        raise Unsupported(f"values of types {a.ty} and {b.ty} cannot be joined")

    def as_ty(self, v: Val, ty: str) -> str:
        if ty == "F":
            return self.F(v)
        if ty == "Z":
            return self.Zt(v)
        if ty == "B":
            return self.Bt(v)
        return v.t

    def libval(self, cn: str | None, e) -> Val:
        if cn == "math.pi":
            return Val("(pi N)", "F")
        if cn == "opensquirrel.common.ATOL":
            return Val("gen_atol", "F", static=self.ctx.atol)
        raise Unsupported(f"name {ast.unparse(e)[:60]}")

    def binop(self, op, l: Val, r: Val) -> Val:
        sym = {ast.Add: "+", ast.Sub: "-", ast.Mult: "*", ast.Div: "/"}.get(type(op))
        if isinstance(op, ast.Mod) and "F" in (l.ty, r.ty) and l.ty in ("F", "I") and r.ty in ("F", "I"):
            return Val(f"(nmod N {self.F(l)} {self.F(r)})", "F")          # Python's % on floats
        if l.ty == "I" and r.ty == "I" and sym in ("+", "-", "*"):
            return Val(None, "I", static={"+": l.static + r.static, "-": l.static - r.static,
                                          "*": l.static * r.static}[sym])
        if sym and l.ty in ("F", "I") and r.ty in ("F", "I"):
            return Val(f"({opnd(self.F(l))} {sym} {opnd(self.F(r))})", "F")
        if isinstance(op, ast.Pow) and l.ty == "F" and r.ty == "I" and r.static == 2:
            return Val(f"(nsq N {l.t})", "F")                            # x ** 2 is x * x
        if sym in ("+", "-") and l.ty in ("Z", "I") and r.ty in ("Z", "I"):
            return Val(f"(Z.{'add' if sym == '+' else 'sub'} {self.Zt(l)} {self.Zt(r)})", "Z")
        if sym == "*" and l.ty in ("F", "I") and r.ty == "V":
            return Val(f"(vscale {self.F(l)} {r.t})", "V")               # numpy: scalar * array, componentwise
        if sym in ("+", "-") and l.ty == "V" and r.ty == "V":
            return Val(f"({'vadd' if sym == '+' else 'vsub'} {l.t} {r.t})", "V")
        raise Unsupported(f"operator {type(op).__name__} on {l.ty}, {r.ty}")

    def compare(self, e: ast.Compare, env) -> Val:
        operands = [e.left] + list(e.comparators)
        parts = []
        for op, le, ri in zip(e.ops, operands, operands[1:]):
            if isinstance(op, (ast.In, ast.NotIn)):
                l = self.ex(le, env)
                if not (isinstance(ri, ast.Tuple) and ri.elts):
                    raise Unsupported("`in` needs a literal tuple")
                consts = [self.ex(x, env) for x in ri.elts]
                if l.ty != "Z" or any(c.ty != "I" for c in consts):
                    raise Unsupported("`in` is only supported for an integer in a tuple of integer literals")
                t = " || ".join(f"Z.eqb d {zlit(c.static)}" for c in consts)
                t = f"(let d := {l.t} in {t})"
                parts.append(t if isinstance(op, ast.In) else f"(negb {t})")
                continue
            parts.append(self.compare1(op, self.ex(le, env), self.ex(ri, env)))
        t = parts[0]
        for p in parts[1:]:
            t = f"({opnd(t)} && {opnd(p)})"
        return Val(t, "B")

    def compare1(self, op, l: Val, r: Val) -> str:
        k = type(op)
        if l.ty in ("F", "I") and r.ty in ("F", "I") and "F" in (l.ty, r.ty):
            a, b = opnd(self.F(l)), opnd(self.F(r))
            return {ast.Lt: f"({a} <? {b})", ast.Gt: f"({b} <? {a})", ast.LtE: f"({a} <=? {b})",
                    ast.GtE: f"({b} <=? {a})", ast.Eq: f"({a} =? {b})", ast.NotEq: f"(negb ({a} =? {b}))"}[k] \
                if k in (ast.Lt, ast.Gt, ast.LtE, ast.GtE, ast.Eq, ast.NotEq) else self.bad_cmp(op, l, r)
        if l.ty in ("Z", "I") and r.ty in ("Z", "I") and "Z" in (l.ty, r.ty):
            a, b = self.Zt(l), self.Zt(r)
            tbl = {ast.Eq: f"(Z.eqb {a} {b})", ast.NotEq: f"(negb (Z.eqb {a} {b}))", ast.Lt: f"(Z.ltb {a} {b})",
                   ast.Gt: f"(Z.ltb {b} {a})", ast.LtE: f"(Z.leb {a} {b})", ast.GtE: f"(Z.leb {b} {a})"}
            return tbl[k] if k in tbl else self.bad_cmp(op, l, r)
        if l.ty == "NAT" and r.ty == "I" and r.static >= 0:
            tbl = {ast.GtE: f"(Nat.leb {r.static} {l.t})", ast.Gt: f"(Nat.ltb {r.static} {l.t})",
                   ast.LtE: f"(Nat.leb {l.t} {r.static})", ast.Lt: f"(Nat.ltb {l.t} {r.static})",
                   ast.Eq: f"(Nat.eqb {l.t} {r.static})"}
            return tbl[k] if k in tbl else self.bad_cmp(op, l, r)
        if l.ty == "NAME" and r.ty == "S" and k in (ast.Eq, ast.NotEq):
            t = f"(name_is {l.gi} {coq_str(r.static)})"
            return t if k is ast.Eq else f"(negb {t})"
        return self.bad_cmp(op, l, r)

    def bad_cmp(self, op, l, r):
        raise Unsupported(f"comparison {type(op).__name__} on {l.ty}, {r.ty}")

    # ------------------------------------------------------------ calls
    def call(self, e: ast.Call, env) -> Val:
        cn = self.canon(e.func, env)
        kw = {k.arg: k.value for k in e.keywords}
        if None in kw:
            raise Unsupported("**kwargs")
        args = e.args
        if any(isinstance(a, ast.Starred) for a in args):
            raise Unsupported("*args")

        def fargs(n):
            if kw or len(args) != n:
                raise Unsupported(f"{cn} expects {n} positional arguments")
            return [self.ex(a, env) for a in args]

        if cn in MATH1:
            (x,) = fargs(1)
            return Val(f"({MATH1[cn]} N {self.F(x)})", "F")
        if cn in MATH2:
            x, y = fargs(2)
            return Val(f"({MATH2[cn]} N {self.F(x)} {self.F(y)})", "F")
        if cn == "abs":
            (x,) = fargs(1)
            if x.ty == "I":
                return Val(None, "I", static=abs(x.static))
            return Val(f"(nabs N {self.F(x)})", "F")
        if cn in ("max", "min"):
            x, y = fargs(2)
            if "F" not in (x.ty, y.ty):
                raise Unsupported(f"{cn} of {x.ty}, {y.ty}")
            return Val(f"(n{cn} N {self.F(x)} {self.F(y)})", "F")
        if cn == "float":
            (x,) = fargs(1)
            return Val(self.F(x), "F")                                   # float(np.float64) is exact
        if cn == IR + "Float":
            (x,) = fargs(1)
            return Val(self.F(x), "F")                                   # Float(x).value is float(x)
        if cn == "math.log10":                                           # static only: ATOL
            (x,) = fargs(1)
            if x.static is None or x.ty not in ("F", "SF", "I") or not isinstance(x.static, (int, float)):
                raise Unsupported("log10 of a non-constant")
            return Val(None, "SF", static=math.log10(x.static))
        if cn == "math.floor":
            (x,) = fargs(1)
            if x.ty != "SF":
                raise Unsupported("floor of a non-constant")
            return Val(None, "I", static=math.floor(x.static))
        if cn == "numpy.dot":
            x, y = fargs(2)
            return Val(f"(dot3 N {self.Vt(x)} {self.Vt(y)})", "F")
        if cn == "numpy.cross":
            x, y = fargs(2)
            return Val(f"(cross3 N {self.Vt(x)} {self.Vt(y)})", "V")
        if cn in ("numpy.round", "round"):
            x, d = fargs(2)
            if d.ty != "I":
                raise Unsupported("number of decimals is not a static integer")
            fn = "nround" if cn == "numpy.round" else "nroundpy"
            if x.ty == "V" and cn == "numpy.round":
                return Val(f"(vround {zlit(d.static)} {x.t})", "V")
            return Val(f"({fn} N {zlit(d.static)} {self.F(x)})", "F")
        if cn == "numpy.allclose":                                       # default rtol, atol: Construct.close_r
            x, y = fargs(2)
            if x.ty == "V" and y.ty == "V":
                return Val(f"(close_axis N {x.t} {y.t})", "B")
            return Val(f"(close_r N {self.F(x)} {self.F(y)})", "B")
        if cn == "opensquirrel.common.normalize_angle":                  # tied separately by ConstCheck.normalize_ok
            (x,) = fargs(1)
            return Val(f"(normalize_angle N {self.F(x)})", "F")
        if cn == IR + "Axis":
            (x,) = fargs(1)
            self.ctx.axis_of_axis_is_identity()
            return Val(self.Vt(x), "V")
        if cn == "isinstance":
            if kw or len(args) != 2:
                raise Unsupported("isinstance shape")
            o = self.ex(args[0], env)
            c = self.canon(args[1], env)
            if o.ty == "OBJ" and c is not None:
                if o.cls == c or (o.cls == BSR_CLS and c == IR + "Gate"):
                    return Val(None, "B", static=True)
                if c in (BSR_CLS, IR + "ControlledGate", IR + "MatrixGate"):
                    return Val(None, "B", static=False)
            if o.ty == "GATE" and c == BSR_CLS:
                return Val(f"(gate_is_bsr {o.t})", "B")
            raise Unsupported(f"isinstance({o.ty}, {c})")
        if cn == "len":
            (x,) = fargs(1)
            if x.ty != "L" or x.t is None:
                raise Unsupported(f"len of {x.ty}")
            return Val(f"(List.length {x.t})", "NAT")
        if cn == BSR_CLS:
            return self.bsr_constructor(e, env, kw)
        if cn == BSR_CLS + ".identity":
            (q,) = fargs(1)
            m = self.ctx.mod("ir.py")
            return self.inline(m, m.func("identity", "BlochSphereRotation"), [q])
        # a method of a translated object
        if isinstance(e.func, ast.Attribute) and cn is None and not \
                (isinstance(e.func.value, ast.Call) and self.canon(e.func.value.func, env) in ABA_CLASSES):
            o = self.ex(e.func.value, env)
            if o.ty == "OBJ" and (o.cls, e.func.attr) in self.methods:
                if kw:
                    raise Unsupported(f"keyword arguments of {e.func.attr}")
                return self.methods[(o.cls, e.func.attr)](*[self.ex(a, env) for a in args])
            if o.ty == "OBJ" and o.cls == BSR_CLS and e.func.attr == "is_identity":
                if args or kw:
                    raise Unsupported("arguments of is_identity")
                m = self.ctx.mod("ir.py")
                return self.inline(m, m.func("is_identity", "BlochSphereRotation"), [o])
        return self.call_more(cn, e, env, kw)

    def call_more(self, cn, e, env, kw) -> Val:
        args = e.args
        if cn in ROT_GATES and len(args) == 2 and not kw:                # Rz(q, Float(x)): ABA.rot_gate
            q, x = self.ex(args[0], env), self.ex(args[1], env)
            return Val(f"(rot_gate N {ROT_GATES[cn]} {self.Zt(q)} {self.F(x)})", "GATE")
        if cn == "opensquirrel.default_gates.X90" and len(args) == 1 and not kw:   # McKay.x90
            return Val(f"(x90 N {self.Zt(self.ex(args[0], env))})", "GATE")
        if cn == "opensquirrel.utils.identity_filter.filter_out_identities" and len(args) == 1 and not kw:
            m = self.ctx.mod("utils/identity_filter.py")
            m.pinned("filter_out_identities", unparse_body(m.func("filter_out_identities")),
                     "return [gate for gate in gates if not gate.is_identity()]")
            l = self.ex(args[0], env)
            if l.ty != "L" or l.t is None:
                raise Unsupported("filter_out_identities of something else than a list of gates")
            return Val(f"(filter_identities N {l.t})", "L")
        if cn == "sum" and len(args) == 1 and not kw and isinstance(args[0], ast.GeneratorExp):
            return self.sum_zip(args[0], env)
        if cn and cn.startswith("opensquirrel.default_gates.") and not kw and args:   # X(q), CNOT(c, t): default_gate
            qs = [self.Zt(self.ex(a, env)) for a in args]
            nm = cn.rsplit(".", 1)[1]
            return Val(f"default_gate N {coq_str(nm)} [" + "; ".join(f"AQ {q}" for q in qs) + "]", "RES", res="GATE")
        if cn == "opensquirrel.merger.general_merger.compose_bloch_sphere_rotations" and len(args) == 2 and not kw:
            a, b = (self.gate_pair(self.unres(self.ex(x, env))) for x in args)   # tied by compose_ok
            return Val(f"compose_gates N {a} {b}", "RES", res="BSRG")
        # ZXZDecomposer().decompose(g) on a BlochSphereRotation: ABA.aba_gates (tied by aba_gates_ok)
        f = e.func
        if isinstance(f, ast.Attribute) and f.attr == "get_decomposition_angles" and isinstance(f.value, ast.Call) and \
                not f.value.args and not f.value.keywords and self.canon(f.value.func, env) in ABA_CLASSES and \
                len(args) == 2 and not kw:                                # tied by aba_angles_ok
            ia, ib = aba_axes(self.ctx, self.canon(f.value.func, env).rsplit(".", 1)[1])
            alpha, axis = self.ex(args[0], env), self.ex(args[1], env)
            return Val(f"aba_angles N {ia} {ib} {self.F(alpha)} {self.Vt(axis)}", "RES", res="F3")
        if isinstance(f, ast.Attribute) and f.attr == "decompose" and isinstance(f.value, ast.Call) and \
                not f.value.args and not f.value.keywords and self.canon(f.value.func, env) in ABA_CLASSES and \
                len(args) == 1 and not kw:
            g = self.ex(args[0], env)
            if g.ty != "OBJ" or g.cls != BSR_CLS:
                raise Unsupported("decompose of something else than a BlochSphereRotation")
            ia, ib = aba_axes(self.ctx, self.canon(f.value.func, env).rsplit(".", 1)[1])
            return Val(f"aba_gates N {ia} {ib} {g.t}", "RES", res="L")
        raise Unsupported(f"call {ast.unparse(e.func)[:60]}")

    def gate_pair(self, v: Val) -> str:
        """a gate as the model's pair (gate, (generator, arguments))"""
        if v.ty == "GATE":
            return v.t
        if v.ty == "OBJ" and v.cls == BSR_CLS:
            if "generator" in v.fields:
                raise Unsupported("a gate with its generator as an argument")
            # the target of a ControlledGate: its generator is not part of the model (Ctrl c g)
            return f"({v.t}, anon)"
        raise Unsupported(f"a gate is expected, not {v.ty}")

    def sum_zip(self, g: ast.GeneratorExp, env) -> Val:
        """sum(f(u, v) for u, v in zip(us, vs)) on Python lists of floats of the same static length"""
        if len(g.generators) != 1:
            raise Unsupported("nested generator")
        c = g.generators[0]
        if c.ifs or c.is_async or not (isinstance(c.target, ast.Tuple) and all(isinstance(t, ast.Name) for t in c.target.elts)):
            raise Unsupported("generator shape")
        it = c.iter
        if not (isinstance(it, ast.Call) and self.canon(it.func, env) == "zip" and not it.keywords
                and len(it.args) == len(c.target.elts)):
            raise Unsupported("generator over something else than zip(...)")
        lists = [self.ex(a, env) for a in it.args]
        if any(l.ty != "FLIST" for l in lists) or len({len(l.items) for l in lists}) != 1 or not lists[0].items:
            raise Unsupported("zip of something else than lists of floats of one length")
        terms = []
        for row in zip(*(l.items for l in lists)):
            env2 = dict(env)
            for t, v in zip(c.target.elts, row):
                env2[t.id] = v
            terms.append(self.F(self.ex(g.elt, env2)))
        self.notes.append("sum(...) starts from the int 0: `0 + x` is written `x` (equal up to the sign of a zero)")
        t = terms[0]
        for x in terms[1:]:
            t = f"({opnd(t)} + {opnd(x)})"
        return Val(t, "F")

    def bsr_constructor(self, e: ast.Call, env, kw) -> Val:
        """BlochSphereRotation(qubit=, axis=, angle=, phase=, generator=, arguments=) is Construct.mk_bsr
           (axis normalised by mk_axis, angle and phase by normalize_angle) with its (generator, arguments)"""
        if e.args or not {"qubit", "axis", "angle"} <= set(kw) or \
                set(kw) - {"qubit", "axis", "angle", "phase", "generator", "arguments"}:
            raise Unsupported("BlochSphereRotation(...) call shape")
        q = self.Zt(self.ex(kw["qubit"], env))
        ax = self.Vt(self.ex(kw["axis"], env))
        ang = self.F(self.ex(kw["angle"], env))
        ph = self.F(self.ex(kw["phase"], env)) if "phase" in kw else "(nofZ N 0)"
        if "generator" in kw or "arguments" in kw:
            g = self.ex(kw["generator"], env) if "generator" in kw else Val("None", "NONE")
            a = self.ex(kw["arguments"], env) if "arguments" in kw else Val("None", "NONE")
            if g.ty not in ("GEN", "NONE") or a.ty not in ("ARGS", "NONE"):
                raise Unsupported("generator / arguments")
            gi = f"(mkGinfo {g.t} {a.t})"
        else:
            gi = "anon"
        return Val(f"(mk_bsr N {q} {ax} {ang} {ph}, {gi})", "GATE")

    def inline(self, m: Module, fn: ast.FunctionDef, actuals: list[Val]) -> Val:
        """a helper whose body is a single `return <expression>`: translated in place, in its own module"""
        if self.depth > 4:
            raise Unsupported("inlining depth")
        a = fn.args
        if a.vararg or a.kwarg or a.kwonlyargs or a.posonlyargs or len(a.args) != len(actuals):
            raise Unsupported(f"parameters of {fn.name}")
        body = body_of(fn)
        if len(body) != 1 or not isinstance(body[0], ast.Return) or body[0].value is None:
            raise Unsupported(f"{fn.name} is not a single return")
        sub = type(self)(self.ctx, m, self.monadic, self.notes)
        sub.depth = self.depth + 1
        return sub.ex(body[0].value, {p.arg: v for p, v in zip(a.args, actuals)})

    # ------------------------------------------------------------ statements
    @staticmethod
    def terminates(stmts) -> bool:
        if not stmts:
            return False
        s = stmts[-1]
        if isinstance(s, (ast.Return, ast.Raise)):
            return True
        return isinstance(s, ast.If) and KTrans.terminates(s.body) and KTrans.terminates(s.orelse)

    @staticmethod
    def has_exit(stmts) -> bool:
        return any(isinstance(n, (ast.Return, ast.Raise)) for s in stmts for n in ast.walk(s))

    @staticmethod
    def assigned(stmts) -> list[str]:
        out: list[str] = []

        def add(n):
            if n not in out:
                out.append(n)

        def target(t):
            if isinstance(t, ast.Name):
                add(t.id)
            elif isinstance(t, (ast.Tuple, ast.List)):
                for x in t.elts:
                    target(x)
            elif isinstance(t, ast.Subscript) and isinstance(t.value, ast.Name):
                add(t.value.id)
            else:
                raise Unsupported(f"assignment target {ast.unparse(t)[:40]}")

        for s in stmts:
            if isinstance(s, ast.Assign):
                for t in s.targets:
                    target(t)
            elif isinstance(s, (ast.AugAssign, ast.AnnAssign)):
                target(s.target)
            elif isinstance(s, ast.If):
                for n in KTrans.assigned(s.body) + KTrans.assigned(s.orelse):
                    add(n)
            elif isinstance(s, ast.Expr) and isinstance(s.value, ast.Call) and \
                    isinstance(s.value.func, ast.Attribute) and isinstance(s.value.func.value, ast.Name):
                add(s.value.func.value.id)
        return out

    RUNTIME = ("F", "B", "Z", "V", "GEN", "ARGS", "GATE", "L")

    def bind(self, name: str, v: Val, env: dict, rest, tail) -> list[str]:
        """`name = v` followed by the rest"""
        env = dict(env)
        self.forget(env, name)
        if v.ty == "RES":
            return self.bind_result([name], v, env, rest, tail)
        if v.ty == "L" and v.static == "SAME":
            raise Unsupported("the list [g] is only supported in a return")
        if v.ty == "FLIST":                                               # a list of floats: one let per item
            names = [f"{self.cn(name)}_{i}" for i in range(len(v.items))]
            env[name] = Val(None, "FLIST", items=[Val(n, "F") for n in names])
            return [f"let {n} := {strip_parens(it.t)} in" for n, it in zip(names, v.items)] + self.seq(rest, env, tail)
        if v.ty in ("I", "SF", "S", "NONE") or (v.ty == "B" and v.static is not None):
            env[name] = v                                                 # static: no let
            return self.seq(rest, env, tail)
        if v.ty not in self.RUNTIME:
            raise Unsupported(f"assignment of a {v.ty}")
        cn = self.cn(name)
        env[name] = Val(cn, v.ty, static=v.static, axid=v.axid, cls=v.cls)
        if v.t == cn:
            return self.seq(rest, env, tail)
        after = self.seq(rest, env, tail)
        if after == [cn]:                                                 # let x := e in x
            return [strip_parens(v.t)]
        return [f"let {cn} := {strip_parens(v.t)} in"] + after

    def ret(self, v: Val) -> str:
        raise NotImplementedError

    def unres(self, v: Val) -> Val:
        """a call that may raise, used inside an expression: it is evaluated (and may leave) before the statement"""
        if v.ty != "RES":
            return v
        if not self.monadic or v.res not in ("GATE", "BSRG", "L") or self.in_cond:
            raise Unsupported("a call that may raise inside a (conditional) expression")
        self.nres += 1
        name = f"r{self.nres}"
        self.hoisted.append((name, v.t))
        return Val(name, "L" if v.res == "L" else "GATE", cls=BSR_CLS if v.res == "BSRG" else None)

    def bind_result(self, names: list[str], v: Val, env: dict, rest, tail) -> list[str]:
        """x = f(...) where f may raise: the exception propagates"""
        if not self.monadic:
            raise Unsupported("a call that may raise in a function modelled as total")
        env = dict(env)
        if v.res in ("L", "GATE", "BSRG") and len(names) == 1:
            env[names[0]] = Val(self.cn(names[0]), "L" if v.res == "L" else "GATE",
                                cls=BSR_CLS if v.res == "BSRG" else None)
            pat = self.cn(names[0])
        elif v.res == "F3" and len(names) == 3:
            for n in names:
                env[n] = Val(self.cn(n), "F")
            pat = "(" + ", ".join(self.cn(n) for n in names) + ")"
        else:
            raise Unsupported(f"binding {len(names)} names to a result of {v.res}")
        return [f"match {v.t} with", "| Err e => Err e", f"| Ok {pat} =>"] + ind(self.seq(rest, env, tail)) + ["end"]

    def seq(self, stmts, env: dict, tail) -> list[str]:
        saved, self.hoisted = self.hoisted, []
        try:
            lines = self.seq1(stmts, env, tail)
            mine = self.hoisted
        finally:
            self.hoisted = saved
        for name, term in reversed(mine):
            lines = [f"match {term} with", "| Err e => Err e", f"| Ok {name} =>"] + ind(lines) + ["end"]
        return lines

    def seq1(self, stmts, env: dict, tail) -> list[str]:
        if not stmts:
            if tail is None:
                raise Unsupported("a path falls off the end of the function")
            return tail(env)
        s, rest = stmts[0], stmts[1:]
        if isinstance(s, ast.Expr) and isinstance(s.value, ast.Constant) and isinstance(s.value.value, str):
            return self.seq(rest, env, tail)
        if isinstance(s, ast.Pass):
            return self.seq(rest, env, tail)
        if isinstance(s, ast.Return):
            if rest:
                raise Unsupported("statements after return")
            if s.value is None:
                raise Unsupported("bare return")
            return [self.ret(self.ex(s.value, env))]
        if isinstance(s, ast.Raise):
            if rest:
                raise Unsupported("statements after raise")
            if not self.monadic:
                raise Unsupported("raise in a function modelled as total")
            x = s.exc
            if isinstance(x, ast.Call):
                x = x.func
            if not (isinstance(x, ast.Name) and x.id in ERRS) or s.cause is not None:
                raise Unsupported(f"raise {ast.unparse(s)[:40]}")
            return [f"Err {ERRS[x.id]}"]
        if isinstance(s, ast.Assign):
            if len(s.targets) != 1:
                raise Unsupported("chained assignment")
            return self.assign(s.targets[0], s.value, env, rest, tail)
        if isinstance(s, ast.AnnAssign):
            if s.value is None or not isinstance(s.target, ast.Name):
                raise Unsupported("annotated assignment shape")
            return self.assign(s.target, s.value, env, rest, tail)
        if isinstance(s, ast.AugAssign):
            if not isinstance(s.target, ast.Name) or s.target.id not in env:
                raise Unsupported("augmented assignment target")
            v = self.binop(s.op, env[s.target.id], self.ex(s.value, env))
            return self.bind(s.target.id, v, env, rest, tail)
        if isinstance(s, ast.Expr):
            return self.expr_stmt(s, env, rest, tail)
        if isinstance(s, ast.If):
            return self.if_stmt(s, env, rest, tail)
        raise Unsupported(f"statement {type(s).__name__}")

    def expr_stmt(self, s, env, rest, tail) -> list[str]:
        c = s.value
        if isinstance(c, ast.Call) and isinstance(c.func, ast.Attribute) and c.func.attr == "append" and \
                isinstance(c.func.value, ast.Name) and len(c.args) == 1 and not c.keywords:      # l.append(x)
            l, x = self.ex(c.func.value, env), self.ex(c.args[0], env)
            if l.ty == "L" and l.t is not None and x.ty == "GATE":
                return self.bind(c.func.value.id, Val(f"({l.t} ++ [{strip_parens(x.t)}])%list", "L"), env, rest, tail)
        raise Unsupported(f"expression statement {ast.unparse(s)[:60]}")

    def assign(self, target, value, env, rest, tail) -> list[str]:
        if isinstance(target, ast.Name):
            return self.bind(target.id, self.ex(value, env), env, rest, tail)
        if isinstance(target, ast.Tuple) and all(isinstance(t, ast.Name) for t in target.elts):
            v = self.ex(value, env)
            names = [t.id for t in target.elts]
            if v.ty == "V" and len(names) == 3:                          # iterating an Axis: value[0], [1], [2]
                env = dict(env)
                for n, p in zip(names, ("ax_x", "ax_y", "ax_z")):
                    env[n] = Val(f"({p} {v.t})", "F")
                return self.seq(rest, env, tail)
            if v.ty == "TUPLE" and len(v.items) == len(names):
                env2 = dict(env)
                lines: list[str] = []
                for n, it in zip(names, v.items):                        # the right-hand side is evaluated first
                    if it.ty not in self.RUNTIME:
                        raise Unsupported("tuple assignment of a static value")
                    env2[n] = Val(self.cn(n), it.ty)
                pat = ", ".join(self.cn(n) for n in names)
                val = ", ".join(strip_parens(it.t) for it in v.items)
                return [f"let '({pat}) := ({val}) in"] + self.seq(rest, env2, tail)
            if v.ty == "RES":
                return self.bind_result(names, v, env, rest, tail)
            raise Unsupported(f"tuple assignment from {v.ty}")
        if isinstance(target, ast.Subscript) and isinstance(target.value, ast.Name):   # l[i] = x
            l, i, x = self.ex(target.value, env), self.ex(target.slice, env), self.ex(value, env)
            if l.ty != "L" or l.t is None or i.ty != "I" or i.static < 0 or x.ty != "GATE":
                raise Unsupported(f"item assignment {ast.unparse(target)[:40]}")
            self.notes.append(f"`{ast.unparse(target)} = ...`: IndexError on a shorter list is not modelled "
                              "(Matrix.list_set leaves it unchanged, as the hand model does)")
            return self.bind(target.value.id, Val(f"(list_set {l.t} {i.static} {x.t})", "L"), env, rest, tail)
        raise Unsupported(f"assignment target {ast.unparse(target)[:40]}")

    def if_stmt(self, s: ast.If, env, rest, tail) -> list[str]:
        c = self.ex(s.test, env)
        if c.ty != "B":
            raise Unsupported(f"condition of type {c.ty}")
        if c.static is not None:                                         # e.g. isinstance of a known class
            self.notes.append(f"`{ast.unparse(s.test)[:70]}` is statically {c.static}: "
                              f"the {'else' if c.static else 'then'} branch is not translated")
            return self.seq((s.body if c.static else s.orelse) + rest, env, tail)
        tb, eb = self.terminates(s.body), self.terminates(s.orelse)
        env_then = self.with_facts(env, s.test)
        if tb and eb:
            if rest:
                raise Unsupported("statements after an if whose branches both leave")
            a, b = self.seq(s.body, env_then, None), self.seq(s.orelse, env, None)
            return [f"if {strip_parens(c.t)} then ("] + ind(a) + [") else ("] + ind(b) + [")"]
        if tb or eb:
            a = self.seq(s.body if tb else s.orelse, env_then if tb else env, None)
            b = self.seq((s.orelse if tb else s.body) + rest, env if tb else env_then, tail)
            cond = strip_parens(c.t) if tb else f"negb {c.t}"
            if len(a) == 1:
                return [f"if {cond} then {a[0]} else"] + b
            return [f"if {cond} then ("] + ind(a) + [") else"] + b
        if self.has_exit(s.body) or self.has_exit(s.orelse):
            raise Unsupported("a branch that leaves the function on some paths only")
        # join: first pass to learn what each branch defines, second pass to emit
        ends: list[dict] = []

        def capture(e):
            ends.append(e)
            return ["?"]

        self.seq(s.body, env_then, capture)
        self.seq(s.orelse, env, capture)
        names = []
        for n in self.assigned(s.body + s.orelse):
            if all(n in e for e in ends):
                vs = [e[n] for e in ends]
                if all(v.ty in self.RUNTIME or v.ty == "I" for v in vs) and any(v is not env.get(n) for v in vs):
                    ty = vs[0].ty
                    for v in vs[1:]:
                        ty = self.join_ty(Val(None, ty), v)
                    names.append((n, ty))
                elif any(v is not env.get(n) for v in vs) and not all(v.ty == "S" for v in vs):
                    raise Unsupported(f"variable {n} cannot be joined after the if")
        if not names:
            return self.seq(rest, env, tail)

        def tuple_tail(e):
            return ["(" + ", ".join(strip_parens(self.as_ty(e[n], ty)) for n, ty in names) + ")"
                    if len(names) > 1 else self.as_ty(e[names[0][0]], names[0][1])]

        a, b = self.seq(s.body, env_then, tuple_tail), self.seq(s.orelse, env, tuple_tail)
        env2 = {k: v for k, v in env.items()}
        for n in self.assigned(s.body + s.orelse):                       # what only one branch defines is gone
            if n not in [x for x, _ in names] and any(e.get(n) is not env.get(n) for e in ends):
                if all(n in e and e[n].ty == "S" for e in ends):
                    env2[n] = ends[0][n]
                else:
                    env2.pop(n, None)
        for n, ty in names:
            env2[n] = Val(self.cn(n), ty)
        pat = "'(" + ", ".join(self.cn(n) for n, _ in names) + ")" if len(names) > 1 else self.cn(names[0][0])
        if len(a) == 1 and len(b) == 1:
            head = [f"let {pat} := if {strip_parens(c.t)} then {a[0]} else {b[0]} in"]
        else:
            head = [f"let {pat} :=", f"  if {strip_parens(c.t)} then ("] + ind(ind(a)) + ["  ) else ("] + ind(ind(b)) + ["  ) in"]
        return head + self.seq(rest, env2, tail)


def ind(lines: list[str]) -> list[str]:
    return ["  " + l for l in lines]


def strip_parens(t: str) -> str:
    """drop one pair of outer parentheses when they enclose the whole term (and it is not a tuple)"""
    if t.startswith("(") and t.endswith(")"):
        depth = 0
        for i, ch in enumerate(t):
            depth += ch == "("
            depth -= ch == ")"
            if depth == 0 and i < len(t) - 1:
                return t
            if depth == 1 and ch == ",":
                return t
        return t[1:-1]
    return t


INFIX_TOKENS = {"+", "-", "*", "/", "<?", "<=?", "=?", "&&", "||", "if", "then", "else", "let", "in", ":=", "match",
                "fun", "=>"}


def opnd(t: str) -> str:
    """operand of an infix operator: a function application needs no parentheses there"""
    inner = strip_parens(t)
    if inner is t:
        return t
    depth, tok, toks = 0, "", []
    for ch in inner + " ":
        if depth == 0 and ch == " ":
            toks.append(tok)
            tok = ""
        elif depth == 0 and ch != "(":
            tok += ch
        depth += ch == "("
        depth -= ch == ")"
    return t if any(x in INFIX_TOKENS for x in toks) else inner


class Kernel(KTrans):
    """KTrans with the rendering of `return` for one kernel"""

    def __init__(self, ctx: Ctx, mod: Module, monadic: bool, notes: list[str], ret_kind: str):
        super().__init__(ctx, mod, monadic, notes)
        self.ret_kind = ret_kind

    def inline(self, m, fn, actuals):
        sub = KTrans(self.ctx, m, self.monadic, self.notes)
        sub.depth = self.depth + 1
        return KTrans.inline(sub, m, fn, actuals)

    def ret(self, v: Val) -> str:
        k = self.ret_kind
        if k == "F3":
            if v.ty == "V" and v.items:
                t = v.t
            elif v.ty == "TUPLE" and len(v.items) == 3:
                t = "(" + ", ".join(strip_parens(self.F(i)) for i in v.items) + ")"
            else:
                raise Unsupported(f"return of {v.ty}, a triple of floats is expected")
        elif k == "B":
            t = self.Bt(v)
        elif k == "GATE":
            if v.ty != "GATE":
                raise Unsupported(f"return of {v.ty}, a gate is expected")
            t = v.t
        elif k == "GATES":
            if v.ty != "L" or v.t is None:
                raise Unsupported(f"return of {v.ty}, a list of gates is expected")
            t = v.t
        elif k == "DITEMS":
            if v.ty != "L":
                raise Unsupported(f"return of {v.ty}, a list of gates is expected")
            t = "[DSame]" if v.static == "SAME" else f"(news {v.t})"
        else:
            raise Unsupported(f"return kind {k}")
        return f"Ok {t}" if self.monadic else strip_parens(t)


def field_binders(prefix: str, with_gi: bool) -> set[str]:
    return {f"{prefix}_{f}" for f in ("qubit", "axis", "angle", "phase")} | ({f"{prefix}_gi"} if with_gi else set())


def check_params(fn: ast.FunctionDef, n: int) -> list[str]:
    a = fn.args
    if a.vararg or a.kwarg or a.kwonlyargs or a.posonlyargs or len(a.args) != n:
        raise Unsupported(f"parameters of {fn.name}")
    return [x.arg for x in a.args]


def aba_axes(ctx: Ctx, cls: str) -> tuple[str, str]:
    """(ia, ib) of a named ABA decomposer, from its `ra` / `rb` properties and ABADecomposer._gate_list"""
    m = ctx.mod("decomposer/aba_decomposer.py")
    out = []
    for prop in ("ra", "rb"):
        fn = m.func(prop, cls)
        b = body_of(fn)
        if len(b) != 1 or not isinstance(b[0], ast.Return) or not isinstance(b[0].value, ast.Name):
            raise Unsupported(f"{cls}.{prop}")
        ax = ROT_GATES.get(m.alias.get(b[0].value.id, ""))
        if ax is None:
            raise Unsupported(f"{cls}.{prop} is not Rx, Ry or Rz")
        out.append(ax)
    return out[0], out[1]


def pin_aba_indices(m: Module) -> None:
    """index_a / index_b are the positions of ra / rb in [Rx, Ry, Rz]; the unused index is the third one"""
    m.pinned("ABADecomposer._find_unused_index", unparse_body(m.func("_find_unused_index", "ABADecomposer")),
             "return ({0, 1, 2} - {self.index_a, self.index_b}).pop()")
    m.pinned("ABADecomposer.__init__", unparse_body(m.func("__init__", "ABADecomposer")),
             "self.index_a = self._gate_list.index(self.ra)\nself.index_b = self._gate_list.index(self.rb)")
    gl = [s for s in m.scope("ABADecomposer") if isinstance(s, ast.AnnAssign) and isinstance(s.target, ast.Name)
          and s.target.id == "_gate_list"]
    if len(gl) != 1 or gl[0].value is None:
        raise Unsupported("ABADecomposer._gate_list")
    m.pinned("ABADecomposer._gate_list", ast.unparse(gl[0].value), "[Rx, Ry, Rz]")
    for n, ax in (("Rx", "AxX"), ("Ry", "AxY"), ("Rz", "AxZ")):
        if ROT_GATES.get(m.alias.get(n, "")) != ax:
            raise Unsupported(f"{n} in aba_decomposer.py is not default_gates.{n}")


def k_aba_angles(ctx: Ctx, notes) -> tuple[str, list[str]]:
    m = ctx.mod("decomposer/aba_decomposer.py")
    fn = m.func("get_decomposition_angles", "ABADecomposer")
    pin_aba_indices(m)
    me, alpha, axis = check_params(fn, 3)
    k = Kernel(ctx, m, True, notes, "F3")
    k.taken = {"ia", "ib"}
    env = {me: aba_self(k, m), alpha: Val(cname(alpha), "F"), axis: Val(cname(axis), "V")}
    return (f"(ia ib : axis_id) ({cname(alpha)} : T) ({cname(axis)} : axis3 T) : result (T * T * T)",
            k.seq(body_of(fn), env, None))


def aba_self(k: KTrans, m: Module) -> Val:
    """`self` of an ABADecomposer with axes ia, ib"""
    cls = m.dotted + ".ABADecomposer"
    k.methods[(cls, "_find_unused_index")] = \
        lambda: Val("(axis_index (unused_axis ia ib))", "Z", axid="(unused_axis ia ib)")
    # tied separately by aba_angles_ok
    k.methods[(cls, "get_decomposition_angles")] = \
        lambda alpha, axis: Val(f"aba_angles N ia ib {k.F(alpha)} {k.Vt(axis)}", "RES", res="F3")
    # self.ra is _gate_list[index_a] (pinned): the rotation gate about axis ia
    k.methods[(cls, "ra")] = lambda q, x: Val(f"(rot_gate N ia {k.Zt(q)} {k.F(x)})", "GATE")
    k.methods[(cls, "rb")] = lambda q, x: Val(f"(rot_gate N ib {k.Zt(q)} {k.F(x)})", "GATE")
    return Val(None, "OBJ", cls=cls, fields={"index_a": Val("(axis_index ia)", "Z", axid="ia"),
                                              "index_b": Val("(axis_index ib)", "Z", axid="ib")})


def k_aba_gates(ctx: Ctx, notes) -> tuple[str, list[str]]:
    m = ctx.mod("decomposer/aba_decomposer.py")
    fn = m.func("decompose", "ABADecomposer")
    pin_aba_indices(m)
    me, g = check_params(fn, 2)
    k = Kernel(ctx, m, True, notes, "GATES")
    k.taken = {"ia", "ib"} | field_binders(cname(g), False)
    env = {me: aba_self(k, m), g: bsr_obj(cname(g), False)}
    k.subject = env[g]
    return (f"(ia ib : axis_id) {bsr_binders(cname(g), False)} : result (list (gate T * ginfo T))",
            k.seq(body_of(fn), env, None))


def k_mckay(ctx: Ctx, notes) -> tuple[str, list[str]]:
    m = ctx.mod("decomposer/mckay_decomposer.py")
    fn = m.func("decompose", "McKayDecomposer")
    me, g = check_params(fn, 2)
    k = Kernel(ctx, m, True, notes, "DITEMS")
    k.taken = field_binders(cname(g), True)
    env = {me: Val(None, "OBJ", cls=m.dotted + ".McKayDecomposer", fields={}), g: bsr_obj(cname(g), True)}
    k.subject = env[g]
    return (f"{bsr_binders(cname(g), True)} : result (list (ditem T))", k.seq(body_of(fn), env, None))


def k_cnot(ctx: Ctx, notes) -> tuple[str, list[str]]:
    m = ctx.mod("decomposer/cnot_decomposer.py")
    fn = m.func("decompose", "CNOTDecomposer")
    me, g = check_params(fn, 2)
    k = Kernel(ctx, m, True, notes, "DITEMS")
    p = cname(g)
    k.taken = field_binders(p + "_target", False) | {f"{p}_control_qubit"}
    target = bsr_obj(p + "_target", False)
    gobj = Val(None, "OBJ", cls=IR + "ControlledGate",
               fields={"control_qubit": Val(f"{p}_control_qubit", "Z"), "target_gate": target})
    env = {me: Val(None, "OBJ", cls=m.dotted + ".CNOTDecomposer", fields={}), g: gobj}
    k.subject = gobj
    notes.append("the generator of the target gate is not part of the model (Ctrl c g): it is `anon` where a pair is needed")
    return (f"({p}_control_qubit : Z) {bsr_binders(p + '_target', False)} : result (list (ditem T))",
            k.seq(body_of(fn), env, None))


def k_compose(ctx: Ctx, notes) -> tuple[str, list[str]]:
    m = ctx.mod("merger/general_merger.py")
    fn = m.func("compose_bloch_sphere_rotations")
    a, b = check_params(fn, 2)
    k = Kernel(ctx, m, True, notes, "GATE")
    k.taken = field_binders(cname(a), True) | field_binders(cname(b), True)
    env = {a: bsr_obj(cname(a), True), b: bsr_obj(cname(b), True)}
    return (f"{bsr_binders(cname(a), True)} {bsr_binders(cname(b), True)} : result (gate T * ginfo T)",
            k.seq(body_of(fn), env, None))


def k_is_identity(ctx: Ctx, notes) -> tuple[str, list[str]]:
    m = ctx.mod("ir.py")
    fn = m.func("is_identity", "BlochSphereRotation")
    (me,) = check_params(fn, 1)
    k = Kernel(ctx, m, False, notes, "B")
    k.taken = field_binders(cname(me), False)
    return (f"{bsr_binders(cname(me), False)} : bool", k.seq(body_of(fn), {me: bsr_obj(cname(me), False)}, None))


def k_bsr_eq(ctx: Ctx, notes) -> tuple[str, list[str]]:
    m = ctx.mod("ir.py")
    fn = m.func("__eq__", "BlochSphereRotation")
    me, other = check_params(fn, 2)
    k = Kernel(ctx, m, False, notes, "B")
    k.taken = field_binders(cname(me), False) | field_binders(cname(other), False)
    env = {me: bsr_obj(cname(me), False), other: bsr_obj(cname(other), False)}
    return (f"{bsr_binders(cname(me), False)} {bsr_binders(cname(other), False)} : bool",
            k.seq(body_of(fn), env, None))


# ---- can1: complex 2x2 matrices with entries in {0, 1, -1, i, -i} times real scalars.
# numpy evaluates  cos * identity(2) - 1j * sin * (nx * X + ny * Y + nz * Z)  entry by entry; here the same
# evaluation is done symbolically, entry by entry, in the order of the source, and simplified ONLY by
#   0 * x = x * 0 = 0,  1 * x = x * 1 = x,  (-1) * x = -x,  0 + x = x + 0 = x,  x - 0 = x,  0 - x = -x,  -(-x) = x
# (exact over the reals; on doubles they can change the sign of a zero and the result on non-finite inputs only).

R0, R1 = (0, None), (1, None)


def r_render(a) -> str:
    c, t = a
    if c == 0:
        return "(nofZ N 0)"
    if t is None:
        return "(nofZ N 1)" if c > 0 else "(- (nofZ N 1))"
    return t if c > 0 else f"(- {t})"


def r_neg(a):
    return (-a[0], a[1])


def r_mul(a, b):
    if a[0] == 0 or b[0] == 0:
        return R0
    if a[1] is None:
        return (a[0] * b[0], b[1])
    if b[1] is None:
        return (a[0] * b[0], a[1])
    return (a[0] * b[0], f"({a[1]} * {b[1]})")


def r_add(a, b):
    if b[0] == 0:
        return a
    if a[0] == 0:
        return b
    return (1, f"({r_render(a)} + {r_render(b)})")


def r_sub(a, b):
    if b[0] == 0:
        return a
    if a[0] == 0:
        return r_neg(b)
    return (1, f"({r_render(a)} - {r_render(b)})")


def c_general(z) -> bool:
    return z[0] == "c" and z[1][0] != 0 and z[2][0] != 0


def c_render(z) -> str:
    return z[1] if z[0] == "o" else f"({strip_parens(r_render(z[1]))}, {strip_parens(r_render(z[2]))})"


def c_op(op: str, x, y):
    """complex scalars ('c', re, im); ('o', term) is an opaque product that is only returned"""
    if x[0] == "o" or y[0] == "o":
        raise Unsupported("arithmetic on a complex product")
    if op == "+":
        return ("c", r_add(x[1], y[1]), r_add(x[2], y[2]))
    if op == "-":
        return ("c", r_sub(x[1], y[1]), r_sub(x[2], y[2]))
    if op == "*":
        if c_general(x) and c_general(y):
            return ("o", f"cmul N {c_render(x)} {c_render(y)}")          # Num.cmul: (ac - bd, ad + bc)
        return ("c", r_sub(r_mul(x[1], y[1]), r_mul(x[2], y[2])), r_add(r_mul(x[1], y[2]), r_mul(x[2], y[1])))
    raise Unsupported(f"complex operator {op}")


class Can1(KTrans):
    def cval(self, e, env, senv):
        """('c', re, im) | ('o', term) | ('m', rows)"""
        if isinstance(e, ast.Name) and e.id in senv:
            return senv[e.id]
        if isinstance(e, ast.Constant) and isinstance(e.value, complex):
            if e.value.real != 0 or e.value.imag != 1:
                raise Unsupported(f"complex literal {e.value!r}")
            return ("c", R0, R1)
        try:
            v = self.ex(e, env)
            if v.ty == "I" and v.static in (0, 1, -1):
                return ("c", (v.static, None), R0)
            if v.ty in ("F", "I"):
                return ("c", (1, self.F(v)), R0)
        except Unsupported:
            pass
        if isinstance(e, ast.UnaryOp) and isinstance(e.op, ast.USub):
            x = self.cval(e.operand, env, senv)
            return self.bop("-", ("c", R0, R0), x)
        if isinstance(e, ast.BinOp):
            op = {ast.Add: "+", ast.Sub: "-", ast.Mult: "*"}.get(type(e.op))
            if op is None:
                raise Unsupported(f"matrix operator {type(e.op).__name__}")
            return self.bop(op, self.cval(e.left, env, senv), self.cval(e.right, env, senv))
        if isinstance(e, ast.Name):
            cn = self.canon(e, env)
            if cn and cn.startswith(self.mod.dotted + "."):
                return self.module_matrix(e.id)
        if isinstance(e, ast.Call):
            cn = self.canon(e.func, env)
            if cn == "numpy.identity" and len(e.args) == 1 and not e.keywords and \
                    isinstance(e.args[0], ast.Constant) and e.args[0].value == 2:
                return ("m", [[("c", R1, R0), ("c", R0, R0)], [("c", R0, R0), ("c", R1, R0)]])
            if cn == "numpy.asarray" and len(e.args) == 1 and [k.arg for k in e.keywords] in ([], ["dtype"]):
                if e.keywords and ast.unparse(e.keywords[0].value) != "np.complex128":
                    raise Unsupported("dtype")
                return self.cval(e.args[0], env, senv)
            if cn == "cmath.rect" and len(e.args) == 2 and not e.keywords:     # r * (cos phi + i sin phi)
                r = self.cval(e.args[0], env, senv)
                phi = self.F(self.ex(e.args[1], env))
                if r[0] != "c" or r[2][0] != 0:
                    raise Unsupported("cmath.rect modulus")
                return ("c", r_mul(r[1], (1, f"(ncos N {phi})")), r_mul(r[1], (1, f"(nsin N {phi})")))
        raise Unsupported(f"matrix expression {ast.unparse(e)[:60]}")

    def bop(self, op, x, y):
        if x[0] == "m" and y[0] == "m":
            if op == "*":
                raise Unsupported("elementwise product of two matrices")
            return ("m", [[c_op(op, a, b) for a, b in zip(ra, rb)] for ra, rb in zip(x[1], y[1])])
        if x[0] == "m":
            return ("m", [[c_op(op, a, y) for a in row] for row in x[1]])
        if y[0] == "m":
            return ("m", [[c_op(op, x, b) for b in row] for row in y[1]])
        return c_op(op, x, y)

    def module_matrix(self, name: str):
        """X = np.array([[0, 1], [1, 0]]) and the like, at module level"""
        val = [s.value for s in self.mod.tree.body if isinstance(s, ast.Assign) and len(s.targets) == 1
               and isinstance(s.targets[0], ast.Name) and s.targets[0].id == name]
        if len(val) != 1:
            raise Unsupported(f"module constant {name}")
        c = val[0]
        if not (isinstance(c, ast.Call) and self.canon(c.func, {}) == "numpy.array" and len(c.args) == 1
                and not c.keywords and isinstance(c.args[0], ast.List) and len(c.args[0].elts) == 2):
            raise Unsupported(f"module constant {name} is not a 2x2 np.array literal")
        rows = []
        for r in c.args[0].elts:
            if not (isinstance(r, ast.List) and len(r.elts) == 2):
                raise Unsupported(f"row of {name}")
            row = []
            for x in r.elts:
                neg = isinstance(x, ast.UnaryOp) and isinstance(x.op, ast.USub)
                k = x.operand if neg else x
                if not isinstance(k, ast.Constant) or isinstance(k.value, bool):
                    raise Unsupported(f"entry of {name}")
                s = -1 if neg else 1
                if isinstance(k.value, int) and k.value in (0, 1):
                    row.append(("c", (s * k.value, None), R0))
                elif isinstance(k.value, complex) and k.value == 1j:
                    row.append(("c", R0, (s, None)))
                else:
                    raise Unsupported(f"entry {ast.unparse(x)} of {name}")
            rows.append(row)
        return ("m", rows)


def k_can1(ctx: Ctx, notes) -> tuple[str, list[str]]:
    m = ctx.mod("utils/matrix_expander.py")
    fn = m.func("can1")
    if fn.args.vararg or fn.args.kwarg or fn.args.kwonlyargs or fn.args.posonlyargs or len(fn.args.args) != 3:
        raise Unsupported("parameters of can1")
    axis, angle, phase = (a.arg for a in fn.args.args)
    k = Can1(ctx, m, False, notes)
    env = {axis: Val(cname(axis), "V"), angle: Val(cname(angle), "F"), phase: Val(cname(phase), "F")}
    senv: dict = {}
    result = None
    body = body_of(fn)
    for i, s in enumerate(body):
        if isinstance(s, ast.Assign) and len(s.targets) == 1 and isinstance(s.targets[0], ast.Tuple):
            v = k.ex(s.value, env)
            names = [t.id for t in s.targets[0].elts if isinstance(t, ast.Name)]
            if v.ty != "V" or len(names) != 3 or len(s.targets[0].elts) != 3:
                raise Unsupported("tuple assignment in can1")
            for n, p in zip(names, ("ax_x", "ax_y", "ax_z")):
                env[n] = Val(f"({p} {v.t})", "F")
                senv.pop(n, None)
        elif isinstance(s, ast.Assign) and len(s.targets) == 1 and isinstance(s.targets[0], ast.Name):
            senv[s.targets[0].id] = k.cval(s.value, env, senv)
            env.pop(s.targets[0].id, None)
        elif isinstance(s, ast.Return) and s.value is not None and i == len(body) - 1:
            result = k.cval(s.value, env, senv)
        else:
            raise Unsupported(f"statement {type(s).__name__} in can1")
    if result is None or result[0] != "m":
        raise Unsupported("can1 does not return a 2x2 matrix")
    e = [[c_render(z) for z in row] for row in result[1]]
    notes.append("can1: entries simplified by the ring identities of 0 and 1 only (see translate.py, `can1`)")
    return (f"({cname(axis)} : axis3 T) ({cname(angle)} {cname(phase)} : T) : list (list (T * T))",
            [f"[[{e[0][0]};", f"  {e[0][1]}];", f" [{e[1][0]};", f"  {e[1][1]}]]"])


KERNELS_HEADER = """(* generated by translator/translate.py from the numeric kernels of the Python source:
     decomposer/aba_decomposer.py  ABADecomposer.get_decomposition_angles      -> gen_aba_angles
     merger/general_merger.py      compose_bloch_sphere_rotations               -> gen_compose
     utils/matrix_expander.py      can1                                         -> gen_can1
     ir.py                         BlochSphereRotation.is_identity, .__eq__     -> gen_is_identity, gen_bsr_eq
     decomposer/mckay_decomposer.py McKayDecomposer.decompose                   -> gen_mckay_decompose
     decomposer/cnot_decomposer.py CNOTDecomposer.decompose                     -> gen_cnot_decompose
   Statement by statement; local variables keep their Python names.  Gen/KernelCheck.v proves each of them equal
   to the hand-written model.  A kernel the translator cannot handle is a FALLBACK definition that is not equal. *)
From Coq Require Import ZArith List Bool String.
Import ListNotations.
From OSQ Require Import Num IR Construct DefaultTable Matrix Check ABA Merge McKay CNOTDec Constants.
Open Scope string_scope.

Section Kernels.
  Context {T : Type} (N : Num T).
  Notation "x + y" := (nadd N x y).
  Notation "x - y" := (nsub N x y).
  Notation "x * y" := (nmul N x y).
  Notation "x / y" := (ndiv N x y).
  Notation "- x" := (nneg N x).
  Notation "x <? y" := (nltb N x y).
  Notation "x <=? y" := (nleb N x y).
  Notation "x =? y" := (neqb N x y).

  (* common.ATOL, from Gen/Constants.v *)
  Definition gen_atol : T := nofZ N gen_atol_num / nofZ N gen_atol_den.

  (* numpy arithmetic on 3-vectors is componentwise *)
  Definition vscale (k : T) (v : axis3 T) : axis3 T := (k * ax_x v, k * ax_y v, k * ax_z v).
  Definition vadd (u v : axis3 T) : axis3 T := (ax_x u + ax_x v, ax_y u + ax_y v, ax_z u + ax_z v).
  Definition vsub (u v : axis3 T) : axis3 T := (ax_x u - ax_x v, ax_y u - ax_y v, ax_z u - ax_z v).
  Definition vround (d : Z) (v : axis3 T) : axis3 T := (nround N d (ax_x v), nround N d (ax_y v), nround N d (ax_z v)).

  (* l[i] and the attributes of a gate that is dynamically a BlochSphereRotation (only under guards) *)
  Definition gate_at (l : list (gate T * ginfo T)) (i : nat) : gate T * ginfo T := nth i l (Mat [] [], anon).
  Definition gate_is_bsr (x : gate T * ginfo T) : bool := match fst x with BSR _ _ _ _ => true | _ => false end.
  Definition gate_angle (x : gate T * ginfo T) : T := match fst x with BSR _ _ a _ => a | _ => nofZ N 0 end.
  Definition gate_axis (x : gate T * ginfo T) : axis3 T :=
    match fst x with BSR _ ax _ _ => ax | _ => (nofZ N 0, nofZ N 0, nofZ N 0) end.
"""

# name, translator, origin, fallback signature, fallback body
KERNELS = [
    ("gen_aba_angles", k_aba_angles, "decomposer/aba_decomposer.py: ABADecomposer.get_decomposition_angles",
     "(ia ib : axis_id) (alpha : T) (axis : axis3 T) : result (T * T * T)", "Err EOther"),
    ("gen_aba_gates", k_aba_gates, "decomposer/aba_decomposer.py: ABADecomposer.decompose (on a BlochSphereRotation)",
     f"(ia ib : axis_id) {bsr_binders('g', False)} : result (list (gate T * ginfo T))", "Err EOther"),
    ("gen_compose", k_compose, "merger/general_merger.py: compose_bloch_sphere_rotations",
     f"{bsr_binders('a', True)} {bsr_binders('b', True)} : result (gate T * ginfo T)", "Err EOther"),
    ("gen_can1", k_can1, "utils/matrix_expander.py: can1",
     "(axis : axis3 T) (angle phase : T) : list (list (T * T))", "[]"),
    ("gen_is_identity", k_is_identity, "ir.py: BlochSphereRotation.is_identity",
     f"{bsr_binders('self', False)} : bool", "negb (is_identity N (BSR self_qubit self_axis self_angle self_phase))"),
    ("gen_bsr_eq", k_bsr_eq, "ir.py: BlochSphereRotation.__eq__",
     f"{bsr_binders('self', False)} {bsr_binders('other', False)} : bool",
     "negb (bsr_eq N self_qubit self_axis self_angle self_phase other_qubit other_axis other_angle other_phase)"),
    ("gen_mckay_decompose", k_mckay, "decomposer/mckay_decomposer.py: McKayDecomposer.decompose (on a BlochSphereRotation)",
     f"{bsr_binders('g', True)} : result (list (ditem T))", "Err EOther"),
    ("gen_cnot_decompose", k_cnot, "decomposer/cnot_decomposer.py: CNOTDecomposer.decompose (on a controlled BlochSphereRotation)",
     f"(g_control_qubit : Z) {bsr_binders('g_target', False)} : result (list (ditem T))", "Err EOther"),
]


def wrap(line: str, width: int = 116) -> list[str]:
    """break a long line at spaces of the smallest nesting depth that makes every piece fit"""
    if len(line) <= width:
        return [line]
    indent = len(line) - len(line.lstrip())
    body, room = line.strip(), width - indent - 4
    depth, cands = 0, []
    for i, ch in enumerate(body):
        if ch in "([":
            depth += 1
        elif ch in ")]":
            depth -= 1
        elif ch == " ":
            cands.append((i, depth))
    pieces = [body]
    for d in range(max((x for _, x in cands), default=0) + 1):
        pieces, start, last = [], 0, None
        for i in [i for i, dd in cands if dd <= d] + [len(body)]:
            if i - start > room and last is not None and last > start:
                pieces.append(body[start:last])
                start = last + 1
            last = i
        pieces.append(body[start:])
        if all(len(x) <= room for x in pieces):
            break
    return [" " * indent + pieces[0]] + [" " * (indent + 4) + x for x in pieces[1:]]


def translate_kernels(repo: str, report: dict) -> str:
    out = [KERNELS_HEADER]
    report["kernels"] = {}
    try:
        ctx = Ctx(repo)
    except Exception as e:  # noqa: BLE001
        ctx = None
        ctx_err = f"{type(e).__name__}: {e}"
    for name, fn, origin, fsig, fbody in KERNELS:
        notes: list[str] = []
        try:
            if ctx is None:
                raise Unsupported(ctx_err)
            sig, lines = fn(ctx, notes)
            report["kernels"][name] = "translated"
        except Exception as e:  # noqa: BLE001  (any unexpected shape is a fallback, never a guess)
            msg = str(e) if isinstance(e, Unsupported) else f"{type(e).__name__}: {e}"
            report["fallbacks"].append(f"kernel {name}: {msg}")
            report["kernels"][name] = "fallback"
            notes = ["FALLBACK (not equal to the model on purpose): " + msg.replace("*)", "* )")]
            sig, lines = fsig, [f"(fun _ : Num T => {fbody}) N"]
        out.append(f"  (* {origin} *)")
        for n in dict.fromkeys(notes):
            out.append(f"  (* note: {n.replace('*)', '* )')} *)")
        body = [w for l in lines for w in wrap("    " + l)]
        body[-1] += "."
        out.append("\n".join(wrap(f"  Definition {name} {sig} :=")) + "\n" + "\n".join(body) + "\n")
    out.append("End Kernels.")
    return "\n".join(out) + "\n"


KERNELCHECK = """(* KernelCheck.v — the numeric kernels regenerated from the Python source (Gen/Kernels.v) equal the hand-written
   model, for every numeric type.  By computation: [reflexivity] where the two are convertible, otherwise the
   generic case analysis [tie] on every test both sides make.  The proof text does not depend on the source. *)
From Coq Require Import ZArith List Bool String.
Import ListNotations.
From OSQ Require Import Num IR Construct DefaultTable Matrix Check ABA Merge McKay CNOTDec Constants Kernels.

(* unfold everything except the functions both sides call with the same arguments *)
Ltac tie_norm :=
  cbv beta iota zeta delta -[default_gate rot_gate x90 aba_angles filter_identities normalize_angle
                              Z.eqb Z.sub Z.add Z.ltb Z.leb String.eqb].
(* the same, but the default gates X(q), CNOT(c, t) are computed from the table *)
Ltac tie_norm_gates :=
  cbv beta iota zeta delta -[rot_gate aba_angles filter_identities normalize_angle Z.eqb Z.sub Z.add Z.ltb Z.leb].
(* closed integer tests are evaluated *)
Ltac eval_closed :=
  repeat match goal with
  | |- context [Z.eqb ?a ?b] =>
      let v := eval compute in (Z.eqb a b) in
      match v with true => idtac | false => idtac end;
      change (Z.eqb a b) with v
  end.
(* one case analysis on a scrutinee that contains no other test *)
Ltac case_one :=
  once (match goal with
        | |- context [match ?c with _ => _ end] =>
            lazymatch c with
            | context [match _ with _ => _ end] => fail
            | _ => destruct c
            end
        end).
Ltac tie_cases :=
  tryif reflexivity then idtac
  else tryif case_one then (tie_norm; eval_closed; tie_cases)
  else fail "the kernel regenerated from the Python source differs from the hand-written model".
Ltac split_args :=
  repeat match goal with
         | x : axis_id |- _ => destruct x
         | x : ginfo _ |- _ => destruct x
         end.
Ltac tie := intros; tryif reflexivity then idtac else (split_args; tie_norm; eval_closed; tie_cases).

Lemma aba_angles_ok : forall (T : Type) (N : Num T) (ia ib : axis_id) (alpha : T) (ax : axis3 T),
  gen_aba_angles N ia ib alpha ax = aba_angles N ia ib alpha ax.
Proof. unfold aba_angles. tie. Qed.

Lemma aba_gates_ok : forall (T : Type) (N : Num T) (ia ib : axis_id) (q : Z) (ax : axis3 T) (angle phase : T),
  gen_aba_gates N ia ib q ax angle phase = aba_gates N ia ib (BSR q ax angle phase).
Proof. tie. Qed.

Lemma compose_ok : forall (T : Type) (N : Num T) (qa : Z) (axa : axis3 T) (anga pha : T) (gia : ginfo T)
    (qb : Z) (axb : axis3 T) (angb phb : T) (gib : ginfo T),
  gen_compose N qa axa anga pha gia qb axb angb phb gib =
  compose_gates N (BSR qa axa anga pha, gia) (BSR qb axb angb phb, gib).
Proof. tie. Qed.

Lemma can1_ok : forall (T : Type) (N : Num T) (ax : axis3 T) (angle phase : T),
  gen_can1 N ax angle phase = can1 N ax angle phase.
Proof. tie. Qed.

Lemma is_identity_ok : forall (T : Type) (N : Num T) (q : Z) (ax : axis3 T) (angle phase : T),
  gen_is_identity N q ax angle phase = is_identity N (BSR q ax angle phase).
Proof. tie. Qed.

Lemma bsr_eq_ok : forall (T : Type) (N : Num T) (q1 : Z) (ax1 : axis3 T) (a1 p1 : T) (q2 : Z) (ax2 : axis3 T) (a2 p2 : T),
  gen_bsr_eq N q1 ax1 a1 p1 q2 ax2 a2 p2 = bsr_eq N q1 ax1 a1 p1 q2 ax2 a2 p2.
Proof. tie. Qed.

Lemma mckay_decompose_ok : forall (T : Type) (N : Num T) (q : Z) (ax : axis3 T) (angle phase : T) (gi : ginfo T),
  gen_mckay_decompose N q ax angle phase gi = mckay_decompose N (BSR q ax angle phase) gi.
Proof. tie. Qed.

(* The control of a ControlledGate is not one of its target's qubits (ir.py, ControlledGate.__init__; Construct.mk_ctrl).
   Without this invariant the source builds CNOT(c, t) last and the model first: both then fail with a ValueError,
   possibly not the same one; the two are still equal (checked once with aba_angles unfolded, 12 minutes). *)
Lemma cnot_decompose_ok : forall (T : Type) (N : Num T) (c tq : Z) (ax : axis3 T) (angle phase : T) (gi : ginfo T),
  Z.eqb c tq = false ->
  gen_cnot_decompose N c tq ax angle phase = cnot_decompose N (Ctrl c (BSR tq ax angle phase)) gi.
Proof. intros T N c tq ax angle phase gi H. tie_norm_gates. destruct (Z.eqb c tq); [discriminate H|]. cbv beta iota zeta. eval_closed. tie_cases. Qed.

Definition source_kernels_checked : Prop :=
  (forall (T : Type) (N : Num T) ia ib alpha ax, gen_aba_angles N ia ib alpha ax = aba_angles N ia ib alpha ax) /\\
  (forall (T : Type) (N : Num T) ia ib q ax angle phase,
     gen_aba_gates N ia ib q ax angle phase = aba_gates N ia ib (BSR q ax angle phase)) /\\
  (forall (T : Type) (N : Num T) qa axa anga pha gia qb axb angb phb gib,
     gen_compose N qa axa anga pha gia qb axb angb phb gib =
     compose_gates N (BSR qa axa anga pha, gia) (BSR qb axb angb phb, gib)) /\\
  (forall (T : Type) (N : Num T) ax angle phase, gen_can1 N ax angle phase = can1 N ax angle phase) /\\
  (forall (T : Type) (N : Num T) q ax angle phase,
     gen_is_identity N q ax angle phase = is_identity N (BSR q ax angle phase)) /\\
  (forall (T : Type) (N : Num T) q1 ax1 a1 p1 q2 ax2 a2 p2,
     gen_bsr_eq N q1 ax1 a1 p1 q2 ax2 a2 p2 = bsr_eq N q1 ax1 a1 p1 q2 ax2 a2 p2) /\\
  (forall (T : Type) (N : Num T) q ax angle phase gi,
     gen_mckay_decompose N q ax angle phase gi = mckay_decompose N (BSR q ax angle phase) gi) /\\
  (forall (T : Type) (N : Num T) c tq ax angle phase gi, Z.eqb c tq = false ->
     gen_cnot_decompose N c tq ax angle phase = cnot_decompose N (Ctrl c (BSR tq ax angle phase)) gi).
Lemma source_kernels_ok : source_kernels_checked.
Proof.
  exact (conj aba_angles_ok (conj aba_gates_ok (conj compose_ok (conj can1_ok (conj is_identity_ok
        (conj bsr_eq_ok (conj mckay_decompose_ok cnot_decompose_ok))))))).
Qed.
"""


SIGCHECK = """(* SigCheck.v — names, parameter lists and membership lists regenerated from the Python source equal the
   hand-written ones (the part of the tables that parsing, building and writing depend on). By computation. *)
From Coq Require Import ZArith List String.
From OSQ Require Import Num IR Construct DefaultTable DefaultGates Constants.

Definition entry_sig (e : gentry) : string * list (string * pkind) := (e_name e, e_params e).
Lemma signatures_ok : map entry_sig gen_table = map entry_sig hand_table. Proof. reflexivity. Qed.
Lemma noparam_ok : gen_noparam = hand_noparam. Proof. reflexivity. Qed.
Lemma gate_set_ok : gen_gate_set = hand_gate_set. Proof. reflexivity. Qed.
Lemma aliases_ok : gen_aliases = hand_aliases. Proof. reflexivity. Qed.
Lemma measures_ok : gen_measures = hand_measures. Proof. reflexivity. Qed.
Lemma measure_set_ok : gen_measure_set = hand_measure_set. Proof. reflexivity. Qed.
Lemma resets_ok : gen_resets = hand_resets. Proof. reflexivity. Qed.
Lemma reset_set_ok : gen_reset_set = hand_reset_set. Proof. reflexivity. Qed.

Definition source_signatures_checked : Prop :=
  map entry_sig gen_table = map entry_sig hand_table /\\ gen_noparam = hand_noparam /\\ gen_gate_set = hand_gate_set /\\
  gen_aliases = hand_aliases /\\ gen_measures = hand_measures /\\ gen_measure_set = hand_measure_set /\\
  gen_resets = hand_resets /\\ gen_reset_set = hand_reset_set.
Lemma source_signatures_ok : source_signatures_checked.
Proof. repeat split; reflexivity. Qed.
"""

ATOLCHECK = """(* AtolCheck.v — the tolerance read from common.py on this run is the model's. By computation. *)
From Coq Require Import ZArith List String.
From OSQ Require Import Num IR Construct DefaultTable DefaultGates Constants.

Lemma atol_ok : (gen_atol_num = 1 /\\ gen_atol_den = 10000000)%Z. Proof. split; reflexivity. Qed.
"""

NORMALIZECHECK = """(* NormalizeCheck.v — normalize_angle regenerated from common.py equals the model's, for every numeric instance. *)
From Coq Require Import ZArith List String.
From OSQ Require Import Num IR Construct DefaultTable DefaultGates Constants.

Lemma normalize_ok : forall (T : Type) (N : Num T) (x : T), gen_normalize_angle N x = normalize_angle N x.
Proof. reflexivity. Qed.
"""

PRECISIONCHECK = """(* PrecisionCheck.v — the printing precisions read from writer.py, cqasmv1_exporter.py and
   quantify_scheduler_exporter.py on this run are the model's. By computation. *)
From Coq Require Import ZArith List String.
From OSQ Require Import Num IR Construct DefaultTable DefaultGates Constants.

Lemma precisions_ok : (gen_writer_precision = 8 /\\ gen_v1_precision = 8 /\\ gen_qs_deg_precision = 5)%Z.
Proof. repeat split; reflexivity. Qed.
"""

CONSTCHECK = """(* ConstCheck.v — the three constant ties in one statement *)
From Coq Require Import ZArith List String.
From OSQ Require Import Num IR Construct DefaultTable DefaultGates Constants.
From OSQ Require Export AtolCheck NormalizeCheck PrecisionCheck.

Definition source_constants_checked : Prop :=
  (gen_atol_num = 1 /\\ gen_atol_den = 10000000)%Z /\\
  (forall (T : Type) (N : Num T) (x : T), gen_normalize_angle N x = normalize_angle N x) /\\
  (gen_writer_precision = 8 /\\ gen_v1_precision = 8 /\\ gen_qs_deg_precision = 5)%Z.
Lemma source_constants_ok : source_constants_checked.
Proof. exact (conj atol_ok (conj normalize_ok precisions_ok)). Qed.
"""

TABLECHECK = """(* TableCheck.v — the DEFINITIONS of the default gates regenerated from the Python source equal the hand-written
   table all theorems are proved about; with SigCheck and ConstCheck, everything the property files need. *)
From Coq Require Import ZArith List String.
From OSQ Require Import Num IR Construct DefaultTable DefaultGates Constants SigCheck NormalizeCheck.

Lemma table_ok : gen_table = hand_table. Proof. reflexivity. Qed.

Definition source_tables_checked : Prop :=
  gen_table = hand_table /\\ gen_noparam = hand_noparam /\\ gen_gate_set = hand_gate_set /\\
  gen_aliases = hand_aliases /\\ gen_measures = hand_measures /\\ gen_measure_set = hand_measure_set /\\
  gen_resets = hand_resets /\\ gen_reset_set = hand_reset_set /\\
  (forall (T : Type) (N : Num T) (x : T), gen_normalize_angle N x = normalize_angle N x).
Lemma source_tables_ok : source_tables_checked.
Proof. repeat split; reflexivity. Qed.
"""


def write_if_changed(path: str, content: str) -> bool:
    if os.path.exists(path) and open(path).read() == content:
        return False
    with open(path, "w") as f:
        f.write(content)
    return True


def split_kernelcheck(text: str) -> list[tuple[str, str]]:
    """One file per kernel tie (so that a property rests only on the kernels it needs): the tactic prelude goes to
    KernelTactics.v, each `Lemma x_ok ... Qed.` with the comment above it to KC_x.v, the summary to KernelCheck.v."""
    lines = text.split("\n")
    first = next(i for i, l in enumerate(lines) if l.startswith("Lemma "))
    # comments directly above the first lemma belong to it
    start = first
    while start > 0 and lines[start - 1].strip() and not lines[start - 1].startswith(("Ltac", "From", "Import")) \
            and (lines[start - 1].lstrip().startswith("(*") or not lines[start - 1].rstrip().endswith(".")):
        if lines[start - 1].startswith("Ltac") or lines[start - 1].endswith("."):
            break
        start -= 1
    prelude = "\n".join(lines[:start]).rstrip() + "\n"
    req = next(l for l in lines if l.startswith("From OSQ Require Import"))
    head = "From Coq Require Import ZArith List Bool String.\nImport ListNotations.\n" + req.rstrip(".") + " KernelTactics.\n\n"
    files = [("KernelTactics.v", prelude)]
    names = []
    i = start
    block: list[str] = []
    summary_at = next(j for j, l in enumerate(lines) if l.startswith("Definition source_kernels_checked"))
    while i < summary_at:
        block.append(lines[i])
        if lines[i].rstrip().endswith("Qed."):
            lem = next(l for l in block if l.startswith("Lemma "))
            nm = lem.split()[1]
            names.append(nm)
            files.append((f"KC_{nm}.v", f"(* generated: tie of one numeric kernel to the hand model *)\n" + head + "\n".join(block).strip("\n") + "\n"))
            block = []
        i += 1
    summary = "(* KernelCheck.v — all kernel ties in one statement *)\n" + head.replace(" KernelTactics.", " KernelTactics " + " ".join(f"KC_{n}" for n in names) + ".") + \
        "\n".join(lines[summary_at:]).rstrip() + "\n"
    files.append(("KernelCheck.v", summary))
    return files


def main() -> int:
    repo, out = sys.argv[1], sys.argv[2]
    os.makedirs(out, exist_ok=True)
    report = {"fallbacks": [], "changed": []}
    for name, content in (("DefaultGates.v", translate_default_gates(repo, report)),
                          ("Constants.v", translate_constants(repo, report)),
                          ("Kernels.v", translate_kernels(repo, report)),
                          ("SigCheck.v", SIGCHECK), ("AtolCheck.v", ATOLCHECK), ("NormalizeCheck.v", NORMALIZECHECK),
                          ("PrecisionCheck.v", PRECISIONCHECK), ("ConstCheck.v", CONSTCHECK), ("TableCheck.v", TABLECHECK),
                          *split_kernelcheck(KERNELCHECK)):
        if write_if_changed(os.path.join(out, name), content):
            report["changed"].append(name)
    with open(os.path.join(out, "translator_report.json"), "w") as f:
        json.dump(report, f, indent=1)
    print(json.dumps(report))
    return 0


if __name__ == "__main__":
    sys.exit(main())
