#!/usr/bin/env python3
"""mutate.py — syntactic mutation campaign used to CALIBRATE the checks (not a check itself).

  mutate.py --n 200 --seed 1 [--files a.py,b.py] [--out tools/mutation_results.jsonl]

For each sampled mutation of the library source (comparison / arithmetic / boolean operator swaps, constant
changes, negated conditions, dropped unary minus, swapped call arguments, deleted statements):
  1. clone /repo into a scratch directory outside /repo and /verif, apply the mutation (ast.unparse of the mutated tree);
  2. run the repository's own test suite; a mutation the tests reject is of no interest (they already catch it);
  3. otherwise run every registered quick check against the clone (VERIF_REPO) in parallel and record which report
     a violation;
  4. remove the clone.
Survivors (tests pass, no check reports) are listed for inspection: equivalent mutations, behaviour outside every
property, or a weakness of the checks. Run it from a private copy of /verif (e.g. `vp run`), because the checks
regenerate coq/Gen from the tree under examination."""
import argparse, ast, copy, json, os, random, shutil, subprocess, sys, tempfile, time
from concurrent.futures import ThreadPoolExecutor

VERIF = os.path.dirname(os.path.dirname(os.path.abspath(__file__)))
REPO = "/repo"
PROPS = [f"C{i:02d}" for i in range(1, 21)]
TARGETS = ["opensquirrel/common.py", "opensquirrel/ir.py", "opensquirrel/circuit.py", "opensquirrel/circuit_builder.py",
           "opensquirrel/default_gates.py", "opensquirrel/instruction_library.py", "opensquirrel/register_manager.py",
           "opensquirrel/decomposer/aba_decomposer.py", "opensquirrel/decomposer/cnot_decomposer.py",
           "opensquirrel/decomposer/mckay_decomposer.py", "opensquirrel/decomposer/general_decomposer.py",
           "opensquirrel/merger/general_merger.py", "opensquirrel/mapper/qubit_remapper.py", "opensquirrel/mapper/mapping.py",
           "opensquirrel/mapper/utils.py", "opensquirrel/mapper/simple_mappers.py", "opensquirrel/mapper/general_mapper.py",
           "opensquirrel/reindexer/qubit_reindexer.py", "opensquirrel/utils/matrix_expander.py",
           "opensquirrel/circuit_matrix_calculator.py", "opensquirrel/writer/writer.py",
           "opensquirrel/exporter/cqasmv1_exporter.py", "opensquirrel/exporter/quantify_scheduler_exporter.py",
           "opensquirrel/parser/libqasm/parser.py"]

CMP = {ast.Lt: ast.LtE, ast.LtE: ast.Lt, ast.Gt: ast.GtE, ast.GtE: ast.Gt, ast.Eq: ast.NotEq, ast.NotEq: ast.Eq,
       ast.Is: ast.IsNot, ast.IsNot: ast.Is, ast.In: ast.NotIn, ast.NotIn: ast.In}
BIN = {ast.Add: ast.Sub, ast.Sub: ast.Add, ast.Mult: ast.Div, ast.Div: ast.Mult, ast.LShift: ast.RShift, ast.RShift: ast.LShift,
       ast.BitAnd: ast.BitOr, ast.BitOr: ast.BitAnd, ast.FloorDiv: ast.Div, ast.Mod: ast.FloorDiv, ast.MatMult: ast.Mult}


class Finder(ast.NodeVisitor):
    """enumerate mutation points as (kind, path) where path identifies the node by visiting order"""

    def __init__(self):
        self.points = []
        self.idx = 0
        self.skip_depth = 0

    def generic_visit(self, node):
        my = self.idx
        self.idx += 1
        skip = isinstance(node, ast.FunctionDef) and node.name in ("__repr__", "__str__", "__hash__")
        if skip:
            self.skip_depth += 1
        if not self.skip_depth:
            line = getattr(node, "lineno", 0)
            if isinstance(node, ast.Compare) and len(node.ops) == 1 and type(node.ops[0]) in CMP:
                self.points.append(("cmp", my, line))
            elif isinstance(node, ast.BinOp) and type(node.op) in BIN and not any(
                    isinstance(x, ast.JoinedStr) or (isinstance(x, ast.Constant) and isinstance(x.value, str)) for x in (node.left, node.right)):
                self.points.append(("bin", my, line))
            elif isinstance(node, ast.UnaryOp) and isinstance(node.op, (ast.USub, ast.Not)):
                self.points.append(("unary", my, line))
            elif isinstance(node, ast.BoolOp):
                self.points.append(("bool", my, line))
            elif isinstance(node, ast.Constant) and isinstance(node.value, (int, float)) and not isinstance(node.value, bool):
                self.points.append(("const", my, line))
            elif isinstance(node, ast.Constant) and isinstance(node.value, bool):
                self.points.append(("boolconst", my, line))
            elif isinstance(node, (ast.If, ast.While, ast.IfExp)):
                self.points.append(("negate", my, line))
            elif isinstance(node, ast.Call) and len(node.args) >= 2 and not any(isinstance(a, ast.Starred) for a in node.args):
                self.points.append(("swapargs", my, line))
            elif isinstance(node, (ast.Expr, ast.Raise, ast.AugAssign)) and not (isinstance(node, ast.Expr) and isinstance(node.value, ast.Constant)):
                self.points.append(("delete", my, line))
            elif isinstance(node, ast.Continue):
                self.points.append(("delete", my, line))
        super().generic_visit(node)
        if skip:
            self.skip_depth -= 1


class Mutator(ast.NodeTransformer):
    def __init__(self, kind, target, rng):
        self.kind, self.target, self.rng = kind, target, rng
        self.idx = 0
        self.desc = None

    def generic_visit(self, node):
        my = self.idx
        self.idx += 1
        node = super().generic_visit(node)
        if my != self.target:
            return node
        before = ast.unparse(node)[:120]
        k = self.kind
        if k == "cmp":
            node.ops = [CMP[type(node.ops[0])]()]
        elif k == "bin":
            node.op = BIN[type(node.op)]()
        elif k == "unary":
            node = node.operand
        elif k == "bool":
            node.op = ast.Or() if isinstance(node.op, ast.And) else ast.And()
        elif k == "const":
            v = node.value
            node = ast.copy_location(ast.Constant(value=(1 if v == 0 else (0 if v == 1 else (v + 1 if isinstance(v, int) else v * 2)))), node)
        elif k == "boolconst":
            node = ast.copy_location(ast.Constant(value=not node.value), node)
        elif k == "negate":
            node.test = ast.UnaryOp(op=ast.Not(), operand=node.test)
        elif k == "swapargs":
            i = self.rng.randrange(len(node.args) - 1)
            node.args[i], node.args[i + 1] = node.args[i + 1], node.args[i]
        elif k == "delete":
            node = ast.copy_location(ast.Pass(), node)
        self.desc = f"{before}  ==>  {ast.unparse(node)[:120]}"
        return node


def enumerate_points(files):
    pts = []
    for f in files:
        src = open(os.path.join(REPO, f)).read()
        fd = Finder()
        fd.visit(ast.parse(src))
        pts += [(f, k, i, line) for k, i, line in fd.points]
    return pts


def run_check(pid, repo):
    env = dict(os.environ, VERIF_REPO=repo, VERIF_SEED="0")
    try:
        r = subprocess.run(["/venv/bin/python", os.path.join(VERIF, "check.py"), pid, "--tier", "quick"], env=env, cwd=VERIF,
                           stdout=subprocess.PIPE, stderr=subprocess.STDOUT, timeout=1800)
        out = r.stdout.decode(errors="replace")
        vio = [l for l in out.splitlines() if l.startswith("VIOLATION")]
        return pid, r.returncode, ("nofail" if any("no-failing-input-found" in v for v in vio) else ("viol" if vio else ""))
    except subprocess.TimeoutExpired:
        return pid, 124, "timeout"


def main():
    ap = argparse.ArgumentParser()
    ap.add_argument("--n", type=int, default=100)
    ap.add_argument("--seed", type=int, default=1)
    ap.add_argument("--files", default=None)
    ap.add_argument("--out", default=os.path.join(VERIF, "tools", "mutation_results.jsonl"))
    a = ap.parse_args()
    files = a.files.split(",") if a.files else [f for f in TARGETS if os.path.exists(os.path.join(REPO, f))]
    rng = random.Random(a.seed)
    pts = enumerate_points(files)
    rng.shuffle(pts)
    print(f"{len(pts)} mutation points in {len(files)} files; sampling {a.n}", flush=True)
    done = 0
    for (f, kind, idx, line) in pts:
        if done >= a.n:
            break
        scratch = tempfile.mkdtemp(prefix="mutant_", dir="/tmp")
        repo = os.path.join(scratch, "repo")
        rec = {"file": f, "kind": kind, "line": line}
        try:
            subprocess.check_call(["git", "clone", "-q", REPO, repo])
            path = os.path.join(repo, f)
            tree = ast.parse(open(path).read())
            m = Mutator(kind, idx, rng)
            tree2 = ast.fix_missing_locations(m.visit(copy.deepcopy(tree)))
            if m.desc is None or ast.dump(tree2) == ast.dump(tree):
                continue
            rec["mutation"] = m.desc
            open(path, "w").write(ast.unparse(tree2) + "\n")
            t0 = time.time()
            r = subprocess.run(["/venv/bin/python", "-m", "pytest", "-x", "-q", "-p", "no:cacheprovider"], cwd=repo,
                               env=dict(os.environ, PYTHONPATH=repo), stdout=subprocess.PIPE, stderr=subprocess.STDOUT, timeout=900)
            rec["tests"] = "pass" if r.returncode == 0 else "fail"
            rec["tests_s"] = round(time.time() - t0, 1)
            done += 1
            if r.returncode == 0:
                t0 = time.time()
                # the first check builds (translator may change Gen); the rest then find everything built
                first = run_check(PROPS[6], repo)
                with ThreadPoolExecutor(max_workers=10) as ex:
                    res = [first] + list(ex.map(lambda p: run_check(p, repo), [p for p in PROPS if p != PROPS[6]]))
                rec["checks"] = {p: (rc, tag) for p, rc, tag in res if rc != 0}
                rec["checks_s"] = round(time.time() - t0, 1)
                rec["survived"] = not rec["checks"]
            print(json.dumps(rec), flush=True)
            with open(a.out, "a") as fo:
                fo.write(json.dumps(rec) + "\n")
        except Exception as e:  # noqa: BLE001
            print("error", f, kind, line, repr(e)[:200], flush=True)
        finally:
            shutil.rmtree(scratch, ignore_errors=True)
    subprocess.run(["/venv/bin/python", os.path.join(VERIF, "translator", "translate.py"), "/repo", os.path.join(VERIF, "coq", "Gen")],
                   stdout=subprocess.DEVNULL)
    subprocess.run(["timeout", "3000", "make", "-k", "-j16"], cwd=os.path.join(VERIF, "coq"), stdout=subprocess.DEVNULL, stderr=subprocess.DEVNULL)


if __name__ == "__main__":
    main()
