#!/usr/bin/env python3
"""run_patch_all.py <patch.diff> [--tag name] — apply a patch to a scratch clone of /repo (outside /repo and /verif), run
every registered quick check against it (VERIF_REPO), print which report what, remove the clone, restore Gen/.
Used for calibration with behaviour-preserving refactorings (expected: quiet, or `no-failing-input-found` where a
regenerated tie is syntactic) and with seeded changes."""
import json, os, shutil, subprocess, sys, tempfile
from concurrent.futures import ThreadPoolExecutor

VERIF = os.path.dirname(os.path.dirname(os.path.abspath(__file__)))
PROPS = [f"C{i:02d}" for i in range(1, 21)]


def run_check(pid, repo):
    env = dict(os.environ, VERIF_REPO=repo, VERIF_SEED="0")
    r = subprocess.run(["/venv/bin/python", os.path.join(VERIF, "check.py"), pid, "--tier", "quick"], env=env, cwd=VERIF,
                       stdout=subprocess.PIPE, stderr=subprocess.STDOUT, timeout=3000)
    out = r.stdout.decode(errors="replace")
    vio = [l for l in out.splitlines() if l.startswith("VIOLATION")]
    prob = [l[:300] for l in out.splitlines() if l.startswith(("PROBLEM", "DISAGREEMENT", "FAILURE"))][:2]
    tag = "" if not vio else ("nofail" if any("no-failing-input-found" in v for v in vio) else "VIOL")
    return pid, r.returncode, tag, prob


def main():
    patch = os.path.abspath(sys.argv[1])
    scratch = tempfile.mkdtemp(prefix="patched_", dir="/tmp")
    repo = os.path.join(scratch, "repo")
    try:
        subprocess.check_call(["git", "clone", "-q", "/repo", repo])
        subprocess.check_call(["git", "-C", repo, "apply", patch])
        first = run_check("C07", repo)      # builds once
        with ThreadPoolExecutor(max_workers=8) as ex:
            res = [first] + list(ex.map(lambda p: run_check(p, repo), [p for p in PROPS if p != "C07"]))
        bad = {p: (tag, prob) for p, rc, tag, prob in res if rc != 0}
        print(json.dumps({"patch": patch, "reported": {p: v[0] for p, v in bad.items()}}))
        for p, (tag, prob) in sorted(bad.items()):
            for l in prob:
                print("  ", p, tag, l)
    finally:
        shutil.rmtree(scratch, ignore_errors=True)
        subprocess.run(["/venv/bin/python", os.path.join(VERIF, "translator", "translate.py"), "/repo", os.path.join(VERIF, "coq", "Gen")],
                       stdout=subprocess.DEVNULL)
        subprocess.run(["timeout", "3000", "make", "-k", "-j16"], cwd=os.path.join(VERIF, "coq"), stdout=subprocess.DEVNULL, stderr=subprocess.DEVNULL)


if __name__ == "__main__":
    main()
