#!/bin/sh
# every seeded change against the check of its own property (quick, seed 0): one line each
for d in seeded/C*-[123]; do
  python3 tools/run_seeded.py $d 2>&1 | tail -1 | cut -c1-200 | sed "s|^|$d |"
done
