#!/bin/sh
# verify_seed.sh <PID> [n]: confirm in the scratch worktree /tmp/mut_<PID> that (1) the test suite passes with the change,
# (2) the demo fails with the change, (3) the demo passes without it; then copy the artefacts to seeded/<PID>-<n>/
# The agent's own _seed/patch.diff is the change; the worktree is reset and the patch re-applied (no git stash: the
# stash is shared between worktrees).
P=$1; N=${2:-1}
W=/tmp/mut_$P
cd $W || exit 1
git checkout -q -- opensquirrel
PYTHONPATH=$W /venv/bin/python _seed/demo.py >/tmp/demo_without_$P.txt 2>&1; B=$?
git apply _seed/patch.diff || { echo "$P patch does not apply"; exit 1; }
PYTHONPATH=$W /venv/bin/python _seed/demo.py >/tmp/demo_with_$P.txt 2>&1; A=$?
T=$(PYTHONPATH=$W /venv/bin/python -m pytest -q -p no:cacheprovider 2>&1 | grep -E "passed|failed" | tail -1)
D=/verif/seeded/$P-$N
mkdir -p $D
cp _seed/patch.diff $D/patch.diff
cp _seed/demo.py $D/demo.py
python3 - "$P" "$T" "$A" "$B" "$D" <<'PY'
import json,sys
p,t,a,b,d=sys.argv[1:]
m=json.load(open(f"/tmp/mut_{p}/_seed/meta.json"))
m.update({"property":p,"confirmed":{"tests":t,"demo_with_change_exit":int(a),"demo_without_change_exit":int(b),
  "how":"tools/verify_seed.sh: scratch worktree reset, demo.py run (must pass), patch applied, demo.py run (must fail), full pytest run with the change"}})
json.dump(m,open(d+"/meta.json","w"),indent=1)
print(p,t,"with:",a,"without:",b)
PY
