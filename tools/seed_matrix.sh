#!/bin/sh
# seed_matrix.sh: run every registered check (quick) against every seeded change; summary in seeded/MATRIX.md
ALL=C01,C02,C03,C04,C05,C06,C07,C08,C09,C10,C11,C12,C13,C14,C15,C16,C17,C18,C19,C20
PAT=${1:-*}
for d in seeded/C*-$PAT; do
  python3 tools/run_seeded.py $d --props $ALL > $d/matrix.log 2>&1
done
PAT=$PAT python3 - <<'PY'
import json, glob, os
rows=[]
import sys
for d in sorted(glob.glob('seeded/C*-'+os.environ.get('PAT','*'))):
    r=json.load(open(os.path.join(d,'result_quick.json')))['results']
    hit=[k.split('@')[0] + ('*' if any('no-failing-input-found' in v for v in r[k]['violation']) else '') for k in sorted(r) if r[k]['exit']!=0]
    m=json.load(open(os.path.join(d,'meta.json')))
    rows.append((os.path.basename(d), m.get('summary','')[:110], ', '.join(hit)))
with open('seeded/MATRIX.md','w') as f:
    f.write('| seeded change | summary | checks reporting a violation (quick tier, seed 0; * = no-failing-input-found) |\n|---|---|---|\n')
    for r in rows: f.write('| %s | %s | %s |\n' % r)
print(open('seeded/MATRIX.md').read())
PY
