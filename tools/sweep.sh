#!/bin/sh
# seed sweep on the unchanged tree: every registered check under N seeds; prints one line per run
N=${1:-20}
TIER=${2:-quick}
shift 2 2>/dev/null
PROPS=${*:-C01 C02 C03 C04 C05 C06 C07 C08 C09 C10 C11 C12 C13 C14 C15 C16 C17 C18 C19 C20}
for p in $PROPS; do
  s=1
  while [ $s -le $N ]; do
    VERIF_SEED=$s /venv/bin/python check.py $p --tier $TIER --no-build 2>&1 | grep "^C[0-9]\|^VIOLATION\|^PROBLEM" | cut -c1-300
    s=$((s+1))
  done
done
