#!/bin/sh
# as verify_seed.sh for the second round worktrees /tmp/mut5_<PID> -> seeded/<PID>-5
P=$1
W=/tmp/mut5_$P
cd $W || exit 1
git checkout -q -- opensquirrel
PYTHONPATH=$W /venv/bin/python _seed/demo.py >/tmp/demo5_without_$P.txt 2>&1; B=$?
git apply _seed/patch.diff || { echo "$P patch does not apply"; exit 1; }
PYTHONPATH=$W /venv/bin/python _seed/demo.py >/tmp/demo5_with_$P.txt 2>&1; A=$?
T=$(PYTHONPATH=$W /venv/bin/python -m pytest -q -p no:cacheprovider 2>&1 | grep -E "passed|failed" | tail -1)
D=/verif/seeded/$P-5
mkdir -p $D
cp _seed/patch.diff $D/patch.diff
cp _seed/demo.py $D/demo.py
python3 - "$P" "$T" "$A" "$B" "$D" <<'PY'
import json,sys
p,t,a,b,d=sys.argv[1:]
m=json.load(open(f"/tmp/mut5_{p}/_seed/meta.json"))
m.update({"property":p,"confirmed":{"tests":t,"demo_with_change_exit":int(a),"demo_without_change_exit":int(b),
  "how":"tools/verify_seed5.sh: scratch worktree reset, demo.py run (must pass), patch applied, demo.py run (must fail), full pytest run with the change"}})
json.dump(m,open(d+"/meta.json","w"),indent=1)
print(p,t,"with:",a,"without:",b)
PY
