#!/bin/sh
# every quick check against every behaviour-preserving refactoring in seeded/harmless/: expected quiet, or
# no-failing-input-found where a regenerated (syntactic) tie no longer matches
for d in seeded/harmless/*.diff; do
  /venv/bin/python tools/run_patch_all.py $d
done
