#!/usr/bin/env python3
"""run_seeded.py <seed dir> [--tier quick|thorough] [--props C01,C05] — apply a seeded change to a scratch copy of
/repo (outside /repo and /verif), run the checks against it (VERIF_REPO), record what each reported, remove the copy."""
import argparse, json, os, shutil, subprocess, sys, tempfile, time

VERIF = os.path.dirname(os.path.dirname(os.path.abspath(__file__)))

def main():
    ap = argparse.ArgumentParser()
    ap.add_argument("seed")
    ap.add_argument("--tier", default="quick")
    ap.add_argument("--props", default=None)
    ap.add_argument("--seeds", default="0")
    a = ap.parse_args()
    sd = os.path.abspath(a.seed)
    meta = json.load(open(os.path.join(sd, "meta.json")))
    props = a.props.split(",") if a.props else [meta["property"]]
    scratch = tempfile.mkdtemp(prefix="seeded_", dir="/tmp")
    repo = os.path.join(scratch, "repo")
    try:
        subprocess.check_call(["git", "clone", "-q", "/repo", repo])
        subprocess.check_call(["git", "-C", repo, "apply", os.path.join(sd, "patch.diff")])
        results = {}
        for p in props:
            for seed in a.seeds.split(","):
                env = dict(os.environ, VERIF_REPO=repo, VERIF_SEED=seed)
                t0 = time.time()
                r = subprocess.run(["/venv/bin/python", os.path.join(VERIF, "check.py"), p, "--tier", a.tier], env=env, cwd=VERIF,
                                   stdout=subprocess.PIPE, stderr=subprocess.STDOUT, timeout=7200)
                out = r.stdout.decode(errors="replace")
                vio = [l for l in out.splitlines() if l.startswith("VIOLATION")]
                summ = [l for l in out.splitlines() if l.startswith(p + " tier=")]
                first = [l[:600] for l in out.splitlines() if l.startswith(("FAILURE", "DISAGREEMENT", "PROBLEM"))][:3]
                results[f"{p}@{seed}"] = {"exit": r.returncode, "violation": vio, "summary": summ, "first": first, "wall_s": round(time.time() - t0, 1)}
                print(p, seed, "exit", r.returncode, vio[:1], summ[:1])
        json.dump({"tier": a.tier, "results": results}, open(os.path.join(sd, f"result_{a.tier}.json"), "w"), indent=1)
    finally:
        shutil.rmtree(scratch, ignore_errors=True)
        # regenerate Gen/ for the real repository
        subprocess.run(["/venv/bin/python", os.path.join(VERIF, "translator", "translate.py"), "/repo", os.path.join(VERIF, "coq", "Gen")],
                       stdout=subprocess.DEVNULL)
        subprocess.run(["timeout", "3000", "make", "-k", "-j16"], cwd=os.path.join(VERIF, "coq"), stdout=subprocess.DEVNULL, stderr=subprocess.DEVNULL)

if __name__ == "__main__":
    main()
