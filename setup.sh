#!/bin/sh
# Full clean build of the verification framework, offline, from files on disk only.
set -e
cd "$(dirname "$0")"
REPO="${VERIF_REPO:-/repo}"
mkdir -p coq/Gen evidence replays
if [ -f translator/translate.py ]; then /venv/bin/python translator/translate.py "$REPO" coq/Gen; fi
cd coq
coq_makefile -f _CoqProject -o Makefile
timeout 7200 make -j16
cd ..
sh ocaml/build.sh
echo "setup ok"
