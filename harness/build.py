"""Regenerate Gen/*.v from the repository, build the Coq development (full
.vo build), rebuild the extracted driver when needed, audit the sources and
collect Print Assumptions output for a property file."""
from __future__ import annotations

import fcntl
import glob
import os
import re
import subprocess
import time

from harness import env

FORBIDDEN = [
    r"\bAdmitted\b", r"\badmit\b", r"\bAxiom\b", r"\bAxioms\b", r"\bParameter\b", r"\bParameters\b",
    r"\bConjecture\b", r"Unset\s+Guard", r"bypass_check", r"type-in-type", r"impredicative-set",
    r"Admit\s+Obligations", r"Unset\s+Positivity", r"Unset\s+Universe", r"native_compute",
]
# axioms the standard library itself declares, allowed when named in the trusted base
ALLOWED_AXIOMS = {
    "ClassicalDedekindReals.sig_forall_dec", "ClassicalDedekindReals.sig_not_dec",
    "FunctionalExtensionality.functional_extensionality_dep", "Classical_Prop.classic",
    "functional_extensionality_dep", "sig_forall_dec", "sig_not_dec", "classic",
}


class Lock:
    def __enter__(self):
        self.f = open(os.path.join(env.VERIF, ".lock"), "w")
        fcntl.flock(self.f, fcntl.LOCK_EX)
        return self

    def __exit__(self, *a):
        fcntl.flock(self.f, fcntl.LOCK_UN)
        self.f.close()


def run(cmd, cwd=None, timeout=1800):
    p = subprocess.run(cmd, cwd=cwd, stdout=subprocess.PIPE, stderr=subprocess.STDOUT, timeout=timeout, shell=isinstance(cmd, str))
    return p.returncode, p.stdout.decode(errors="replace")


def translate() -> tuple[bool, str]:
    tr = os.path.join(env.VERIF, "translator", "translate.py")
    if not os.path.exists(tr):
        return True, "no translator"
    rc, out = run(["/venv/bin/python", tr, env.REPO, os.path.join(env.COQ, "Gen")], timeout=120)
    return rc == 0, out


def coq_files() -> list[str]:
    with open(os.path.join(env.COQ, "_CoqProject")) as f:
        return [l.strip() for l in f if l.strip().endswith(".v")]


def make(jobs: int = 16) -> tuple[bool, str, list[str]]:
    """Full .vo build. Returns (all_ok, log, failed .v files)."""
    if not os.path.exists(os.path.join(env.COQ, "Makefile")):
        rc, out = run(["coq_makefile", "-f", "_CoqProject", "-o", "Makefile"], cwd=env.COQ)
        if rc != 0:
            return False, out, coq_files()
    rc, out = run(["timeout", "3000", "make", "-k", f"-j{jobs}"], cwd=env.COQ, timeout=3100)
    with open(os.path.join(env.COQ, "build.log"), "w") as f:
        f.write(out)
    failed = []
    for m in re.finditer(r"\*\*\* \[Makefile:\d+: ([\w/]+)\.vo\] Error", out):
        failed.append(m.group(1) + ".v")
    for v in coq_files():
        if v in failed:
            continue
        vo = os.path.join(env.COQ, v[:-2] + ".vo")
        src = os.path.join(env.COQ, v)
        if not os.path.exists(vo) or os.path.getmtime(vo) < os.path.getmtime(src):
            failed.append(v)
    return rc == 0 and not failed, out, failed


def dep_closure(target_v: str) -> set[str]:
    """.v files the given .v file depends on (transitively, itself included), read from coq_makefile's .Makefile.d"""
    deps: dict[str, list[str]] = {}
    try:
        with open(os.path.join(env.COQ, ".Makefile.d")) as f:
            for line in f:
                if ":" not in line:
                    continue
                lhs, rhs = line.split(":", 1)
                heads = [h for h in lhs.split() if h.endswith(".vo")]
                if not heads:
                    continue
                deps[heads[0][:-1]] = [d[:-1] for d in rhs.split() if d.endswith(".vo")]
    except OSError:
        return set(coq_files())
    seen: set[str] = set()
    todo = [target_v]
    while todo:
        v = todo.pop()
        if v in seen:
            continue
        seen.add(v)
        todo += deps.get(v, [])
    return seen


def driver_stale() -> bool:
    if not os.path.exists(env.DRIVER):
        return True
    t = os.path.getmtime(env.DRIVER)
    deps = glob.glob(os.path.join(env.COQ, "Model", "*.vo")) + glob.glob(os.path.join(env.COQ, "Gen", "*.vo")) + \
        glob.glob(os.path.join(env.COQ, "Extract", "*.v")) + glob.glob(os.path.join(env.OCAML, "*.ml")) + \
        [os.path.join(env.OCAML, "build.sh")]
    return any(os.path.getmtime(d) > t for d in deps if os.path.exists(d))


def build_driver() -> tuple[bool, str]:
    rc, out = run(["sh", os.path.join(env.OCAML, "build.sh")], timeout=1300)
    return rc == 0, out


def audit() -> list[str]:
    """Forbidden constructs in the development (comments stripped)."""
    bad = []
    for v in glob.glob(os.path.join(env.COQ, "**", "*.v"), recursive=True):
        with open(v) as f:
            src = f.read()
        src = strip_comments(src)
        for pat in FORBIDDEN:
            for m in re.finditer(pat, src):
                line = src.count("\n", 0, m.start()) + 1
                bad.append(f"{os.path.relpath(v, env.COQ)}:{line}: {m.group(0)}")
        # Variable/Hypothesis/Context outside a section declare axioms
        depth = 0
        for i, line in enumerate(src.splitlines(), 1):
            s = line.strip()
            if re.match(r"(Section|Module)\s+\w+", s) and not re.match(r"Module\s+\w+\s*:=", s):
                depth += 1
            elif re.match(r"End\s+\w+\s*\.", s):
                depth = max(0, depth - 1)
            elif depth == 0 and re.match(r"(Variable|Variables|Hypothesis|Hypotheses)\b", s):
                bad.append(f"{os.path.relpath(v, env.COQ)}:{i}: {s.split()[0]} outside section")
    with open(os.path.join(env.COQ, "_CoqProject")) as f:
        proj = f.read()
    for flag in ("-type-in-type", "-impredicative-set", "-vos", "-vok"):
        if flag in proj:
            bad.append(f"_CoqProject: {flag}")
    return bad


def strip_comments(src: str) -> str:
    out = []
    depth = 0
    i = 0
    n = len(src)
    in_str = False
    while i < n:
        c = src[i]
        if depth == 0 and c == '"':
            in_str = not in_str
            out.append(c)
            i += 1
            continue
        if not in_str and src.startswith("(*", i):
            depth += 1
            i += 2
            continue
        if not in_str and depth > 0 and src.startswith("*)", i):
            depth -= 1
            i += 2
            continue
        if depth == 0:
            out.append(c)
        elif c == "\n":
            out.append(c)
        i += 1
    return "".join(out)


def props_status(pid: str) -> dict:
    """Compile Props/<pid>.v on its own (dependencies are already built) and
    read the theorem names and the Print Assumptions output under each."""
    rel = f"Props/{pid}.v"
    path = os.path.join(env.COQ, rel)
    res = {"file": rel, "theorems": [], "obligations": 0, "discharged": 0, "axioms": [], "ok": False,
           "checker_cmd": f"cd coq && make -k -j16 && coqc -R . OSQ {rel}", "log": ""}
    if not os.path.exists(path):
        res["log"] = "no property file"
        return res
    with open(path) as f:
        src = strip_comments(f.read())
    names = re.findall(r"^\s*(?:Theorem|Corollary)\s+(\w+)", src, flags=re.M)
    res["theorems"] = names
    res["obligations"] = len(names)
    rc, out = run(["timeout", "600", "coqc", "-R", ".", "OSQ", "-w", "-notation-overridden", rel], cwd=env.COQ, timeout=700)
    res["log"] = out[-4000:]
    if rc == 0:
        res["ok"] = True
        res["discharged"] = len(names)
    else:
        m = re.search(r"line (\d+), characters", out)
        if m:
            line = int(m.group(1))
            done = 0
            for mm in re.finditer(r"^\s*(?:Theorem|Corollary)\s+(\w+)", src, flags=re.M):
                # a theorem counts as discharged if its Qed precedes the failing line
                end = src.find("Qed.", mm.end())
                if end != -1 and src.count("\n", 0, end) + 1 < line:
                    done += 1
            res["discharged"] = done
    axioms = set()
    in_block = False
    for line in out.splitlines():
        if line.strip() == "Axioms:":
            in_block = True
            continue
        if in_block:
            if line.startswith((" ", "\t")):
                continue                      # continuation of a type
            m = re.match(r"^([A-Za-z_][\w.']*)\s*(:.*)?$", line)
            if m and m.group(1) not in ("Closed", "File", "Warning"):
                axioms.add(m.group(1))
            else:
                in_block = False
    res["axioms"] = sorted(axioms)
    res["closed"] = out.count("Closed under the global context")
    return res


def coqchk(pid: str) -> dict:
    """independent re-check of the compiled property file and everything it depends on (thorough tier)"""
    rc, out = run(["timeout", "3000", "coqchk", "-silent", "-o", "-R", ".", "OSQ", f"OSQ.Props.{pid}"], cwd=env.COQ, timeout=3100)
    axioms, mode = [], None
    for line in out.splitlines():
        t = line.strip()
        if t.startswith("* Axioms:"):
            mode = "ax"
            continue
        if t.startswith("* "):
            mode = t
            if "<none>" not in t and any(k in t for k in ("type-in-type", "unsafe", "positivity")):
                axioms.append("UNSAFE: " + t)
            continue
        if mode == "ax" and t:
            axioms.append(t)
    return {"ok": rc == 0, "axioms": axioms, "tail": out[-600:]}


def full_build(pid: str | None = None) -> dict:
    t0 = time.time()
    info: dict = {}
    with Lock():
        ok_t, out_t = translate()
        info["translate_ok"] = ok_t
        info["translate_log"] = out_t[-3000:]
        ok_m, out_m, failed = make()
        info["make_ok"] = ok_m
        info["failed_files"] = failed
        info["make_log_tail"] = out_m[-3000:]
        # the extracted driver is built from Model/ only; generated files and proofs do not enter it
        model_failed = [f for f in failed if f.startswith(("Model/", "Extract/"))]
        info["model_failed"] = model_failed
        if pid:
            info["closure"] = sorted(dep_closure(f"Props/{pid}.v"))
        if not model_failed and driver_stale():
            ok_d, out_d = build_driver()
            info["driver_ok"] = ok_d
            info["driver_log"] = out_d[-2000:]
        else:
            info["driver_ok"] = os.path.exists(env.DRIVER)
        info["audit"] = audit()
        if pid:
            info["props"] = props_status(pid)
    info["build_s"] = round(time.time() - t0, 2)
    return info
