"""Run the extracted Coq model (OCaml driver) on a batch of requests."""
from __future__ import annotations

import os
import subprocess
import tempfile

from harness import env, sexp


class ModelError(RuntimeError):
    pass


def call_many(requests: list[list], timeout: int = 600) -> list[tuple[float, object]]:
    """requests: list of [op, arg...] (python values for sexp.dumps).
    Returns list of (margin, parsed result) in the same order."""
    if not requests:
        return []
    if not os.path.exists(env.DRIVER):
        raise ModelError("model driver not built")
    lines = []
    for i, r in enumerate(requests):
        lines.append(sexp.dumps([i, sexp.Sym(r[0]), *r[1:]]))
    data = ("\n".join(lines) + "\n").encode()
    with tempfile.TemporaryFile() as fin:
        fin.write(data)
        fin.seek(0)
        p = subprocess.run([env.DRIVER], stdin=fin, stdout=subprocess.PIPE, stderr=subprocess.PIPE, timeout=timeout,
                           preexec_fn=_unlimit_stack)
    if p.returncode != 0:
        raise ModelError(f"driver exit {p.returncode}: {p.stderr.decode()[:500]}")
    out = p.stdout.decode().splitlines()
    if len(out) != len(requests):
        raise ModelError(f"driver returned {len(out)} lines for {len(requests)} requests")
    res = []
    for i, line in enumerate(out):
        v = sexp.loads(line)
        if str(v[0]) != str(i):
            raise ModelError(f"driver answer out of order at {i}: {line[:200]}")
        margin = float.fromhex(str(v[1])) if "x" in str(v[1]) else float(str(v[1]))
        res.append((margin, v[2]))
    return res


def _unlimit_stack() -> None:
    import resource

    try:
        resource.setrlimit(resource.RLIMIT_STACK, (resource.RLIM_INFINITY, resource.RLIM_INFINITY))
    except (ValueError, OSError):
        pass


def is_bad(result) -> bool:
    return isinstance(result, list) and len(result) > 0 and str(result[0]) == "bad"
