"""Writes MANIFEST.json from the list of claimed properties (kept in one place)."""
from __future__ import annotations

import json
import os

HERE = os.path.dirname(os.path.dirname(os.path.abspath(__file__)))

CLAIMS = {
    "C18": {
        "text": "Structural theorems (edge iff two-operand gate, other statements contribute nothing, accepted iff every gate has 1 or 2 operands, >=3 operands refused, node set) proved in Coq for all circuits over any element type, closed under the global context; the Gallina model is extracted and run against make_interaction_graph on exhaustive placements and random circuits.",
        "note": "Trusted: Coq kernel, extraction (ExtrOcamlBasic/ExtrOcamlString only), OCaml driver, serializer; networkx modelled as an edge set.",
        "technique": "Coq proof over executable Gallina model + extraction-based correspondence with the implementation + independent oracle search",
        "design_ref": "DESIGN.md §6 C18",
    },
}

NOT_YET = {}


def main() -> None:
    ids = [json.loads(l)["id"] for l in open(os.path.join(HERE, "properties.jsonl")) if l.strip()]
    checks = []
    for pid in ids:
        if pid not in CLAIMS:
            continue
        c = CLAIMS[pid]
        checks.append({
            "property_id": pid,
            "quick_cmd": f"/venv/bin/python check.py {pid} --tier quick",
            "thorough_cmd": f"/venv/bin/python check.py {pid} --tier thorough",
            "evidence_file": f"evidence/{pid}.json",
            "replay_cmd_template": f"/venv/bin/python check.py {pid} --replay {{path}}",
            "engine": "coq-model+correspondence",
            "level_claimed": {"category": "proof", "text": c["text"], "design_ref": c["design_ref"]},
            "level_note": c["note"],
            "technique": c["technique"],
        })
    na = [{"property_id": pid, "reason": NOT_YET.get(pid, "check under construction in this session: model and theorems not yet committed; the technique applies (see DESIGN.md §6) and the property will be claimed once its check passes 20 seeds")}
          for pid in ids if pid not in CLAIMS]
    m = {
        "version": 1,
        "setup_cmd": "./setup.sh",
        "hooks": {
            "guard": "OPENSQUIRREL_VERIF",
            "enable": "no source hooks are needed: checks import /repo's working tree in-process and wrap functions from the harness; the guard variable is set by the harness for completeness",
            "baseline_off_cmd": "cd /repo && /venv/bin/python -m pytest -ra -q -p no:cacheprovider --timeout=900 --continue-on-collection-errors",
            "source_commits": [],
            "add_only": True,
        },
        "engines": [{
            "name": "coq-model+correspondence",
            "path": "check.py",
            "serves_properties": [c["property_id"] for c in checks],
            "kind_free_text": "Coq 8.16.1 development (coq/) with an executable Gallina model, theorems per property in coq/Props, model tied to /repo by a translator for tables/constants (coq/Gen, regenerated each run) and by extraction to OCaml run against the implementation on generated inputs; independent numpy oracles search for failing inputs",
        }],
        "checks": checks,
        "not_applicable": na,
        "notes": "See DESIGN.md. Known findings in known_findings.json. VERIF_REPO selects the tree to examine (default /repo).",
    }
    with open(os.path.join(HERE, "MANIFEST.json"), "w") as f:
        json.dump(m, f, indent=1)


if __name__ == "__main__":
    main()
