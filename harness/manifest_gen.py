"""Writes MANIFEST.json from the list of claimed properties (kept in one place)."""
from __future__ import annotations

import json
import os

HERE = os.path.dirname(os.path.dirname(os.path.abspath(__file__)))

CLAIMS = {
    'C01': {
        "text": "Structural theorems of the decomposition loop (shape, every replacement checked, failure state, non-gates untouched, fresh identities: any Num instance, closed) and exactness of the numeric kernels over R in the exact regime: A-B-A angles for all six axis pairs (aba_angles_exact_strong, gate level aba_decompose_exact), McKay (McKayP), with the ATOL-band counterexample proved as a refutation. The model reproduces the implementation on every generated case (8 decomposers x axis/angle grid + random circuits incl. 100000-qubit registers); a Kraus-branch numpy simulation decides equivalence. Known finding F3 (ATOL bands wider than the checker's tolerance) is reported as KNOWN-FINDING. WHOLE-CIRCUIT theorems on a Kraus-operator semantics with measurements and resets (Theory/Kraus.v, = the extracted Model/Sem.v at R, run against the numpy simulation): the decomposition loop preserves the operation for every outcome assignment (decompose_loop_same_operation_any), flagships for the A-B-A, McKay and CNOT decomposers on any register (SemP, SemDecP). The numeric kernels are regenerated from the Python source on every run and proved equal to the model (Gen/KC_*_ok).",
        "note": "Trusted: Coq kernel (coqc, full .vo build; axioms printed per theorem, only those of the standard library's Reals where R is used), extraction with ExtrOcamlBasic/ExtrOcamlString only, the hand-written OCaml float dictionary (IEEE doubles + glibc libm stand in for R in the executable model) and driver, the Python serializer/comparator. Modelled, not verified: numpy, CPython float formatting/rounding, libqasm, quantify-scheduler, networkx. Exact-regime hypotheses exclude the ATOL bands (sampled densely instead); CNOT-decomposer exactness is proved at the SU(2)/block level where available (see Props/C01.v); doubles vs reals trusted and sampled.",
        "technique": 'Coq 8.16.1 proof over an executable Gallina model; model tied to /repo by extraction to OCaml run against the implementation on generated inputs (correspondence) and, for tables/constants, by a translator (tables, constants, numeric kernels) whose output is proved equal to the model; independent numpy oracle searches for failing inputs',
        "design_ref": "DESIGN.md section 6 C01",
    },
    'C02': {
        "text": 'merge_keeps_others, merge_per_qubit (exact per-qubit characterisation: nothing crosses a barrier on its qubit), merge_total / merge_ok_iff_wf for any Num instance (closed); compose_exact over R with the 7-decimal rounding idealised and bounded separately (Rround7_error). Exhaustive sequences over a 12-template alphabet plus random circuits run against the model and a Kraus-branch oracle. WHOLE-CIRCUIT: merge_same_operation (any circuit with measurements/resets, any register, every outcome assignment, exact setting) via commutation of operators on disjoint qubits; the 7-decimal rounding is bounded at the operator level and propagated along runs (RoundP: 1.37e-7 per composition, k*2.74e-7 per run). compose and is_identity are regenerated from the source and proved equal to the model.',
        "note": "Trusted: Coq kernel (coqc, full .vo build; axioms printed per theorem, only those of the standard library's Reals where R is used), extraction with ExtrOcamlBasic/ExtrOcamlString only, the hand-written OCaml float dictionary (IEEE doubles + glibc libm stand in for R in the executable model) and driver, the Python serializer/comparator. Modelled, not verified: numpy, CPython float formatting/rounding, libqasm, quantify-scheduler, networkx. compose exactness idealises np.round (error bound proved separately, not propagated to the matrix level); naming substitutes allclose default gates (tolerance 3e-5 per gate in the oracle).",
        "technique": 'Coq 8.16.1 proof over an executable Gallina model; model tied to /repo by extraction to OCaml run against the implementation on generated inputs (correspondence) and, for tables/constants, by a translator (tables, constants, numeric kernels) whose output is proved equal to the model; independent numpy oracle searches for failing inputs',
        "design_ref": "DESIGN.md section 6 C02",
    },
    'C03': {
        "text": 'mapping_ok_iff_perm, remap_relabels / skeleton / both descriptions, remap_inverse, refusals and error characterisation, all three text/export views and the replace-callback view (any element type, closed); conjugation by the qubit permutation at the matrix level (EmbedP.get_matrix_relabel, over R). Exhaustive candidate lists and permutations, circuits after earlier passes incl. shared callback objects. WHOLE-CIRCUIT: remap_same_operation_up_to_relabelling — the mapped circuit\'s Kraus operator is P K P^T for every outcome assignment (SemRemapP), composition with the other passes (SemAllP).',
        "note": "Trusted: Coq kernel (coqc, full .vo build; axioms printed per theorem, only those of the standard library's Reals where R is used), extraction with ExtrOcamlBasic/ExtrOcamlString only, the hand-written OCaml float dictionary (IEEE doubles + glibc libm stand in for R in the executable model) and driver, the Python serializer/comparator. Modelled, not verified: numpy, CPython float formatting/rounding, libqasm, quantify-scheduler, networkx. The functional model has no partially mapped state (remap returns Err and no circuit); object sharing is handled by the repaired implementation (each Qubit object once) and checked by correspondence.",
        "technique": 'Coq 8.16.1 proof over an executable Gallina model; model tied to /repo by extraction to OCaml run against the implementation on generated inputs (correspondence) and, for tables/constants, by a translator (tables, constants, numeric kernels) whose output is proved equal to the model; independent numpy oracle searches for failing inputs',
        "design_ref": "DESIGN.md section 6 C03",
    },
    'C04': {
        "text": "render_fix_is_literal / render_fix_value: every finite float is written as a literal of the cQASM 3 float grammar that reads back to the same 8-digit decimal, for ALL exponents; line structure, gate line shape, comment termination (closed under the global context). Written text of generated circuits is compared with the model's text and fed to the real parser. Known finding: measure_z is written but not parseable. TEXT LEVEL: an executable reader (Model/Reader.read3, run against libqasm on every written text) and the round trip read3_write3 (names, parameters as 8-digit literals, qubits, bit targets, comments incl. multi-line); END TO END parse_read_write (write -> read -> AST -> parser model) and the same operation on the Kraus semantics (RoundTripP).",
        "note": "Trusted: Coq kernel (coqc, full .vo build; axioms printed per theorem, only those of the standard library's Reals where R is used), extraction with ExtrOcamlBasic/ExtrOcamlString only, the hand-written OCaml float dictionary (IEEE doubles + glibc libm stand in for R in the executable model) and driver, the Python serializer/comparator. Modelled, not verified: numpy, CPython float formatting/rounding, libqasm, quantify-scheduler, networkx. The float-literal grammar (Theory/Lexer.v) is an assumption about libqasm 0.6.7 exercised by the real parser on every case; the double -> 8 digits decimalisation is an oracle (printf).",
        "technique": 'Coq 8.16.1 proof over an executable Gallina model; model tied to /repo by extraction to OCaml run against the implementation on generated inputs (correspondence) and, for tables/constants, by a translator (tables, constants, numeric kernels) whose output is proved equal to the model; independent numpy oracle searches for failing inputs',
        "design_ref": "DESIGN.md section 6 C04",
    },
    'C05': {
        "text": 'passes_preserve (PassesP): ANY finite sequence of decompose / replace / merge / map passes preserves well-formedness and coherence (name+arguments re-evaluate to the stored operation); unconditional for wf and qubit agreement, exact coherence after merge under the explicit numeric hypothesis compose_identity_exact (refuted for a degenerate Num instance). Bounded-exhaustive pass sequences with per-step correspondence and Kraus equivalence modulo the accumulated permutation. FLAGSHIP run_passes_all_same_operation: any sequence of decompose / replace / merge / map preserves the operation modulo the accumulated qubit permutation, K\' = z P K P^T for every outcome assignment (SemAllP; per-pass exactness hypotheses threaded).',
        "note": "Trusted: Coq kernel (coqc, full .vo build; axioms printed per theorem, only those of the standard library's Reals where R is used), extraction with ExtrOcamlBasic/ExtrOcamlString only, the hand-written OCaml float dictionary (IEEE doubles + glibc libm stand in for R in the executable model) and driver, the Python serializer/comparator. Modelled, not verified: numpy, CPython float formatting/rounding, libqasm, quantify-scheduler, networkx. Equivalence of the operation rests on the per-pass kernels (C01, C02, C03) and is checked by the oracle; write+parse has no model step (libqasm).",
        "technique": 'Coq 8.16.1 proof over an executable Gallina model; model tied to /repo by extraction to OCaml run against the implementation on generated inputs (correspondence) and, for tables/constants, by a translator (tables, constants, numeric kernels) whose output is proved equal to the model; independent numpy oracle searches for failing inputs',
        "design_ref": "DESIGN.md section 6 C05",
    },
    'C06': {
        "text": "check_sound (acceptance => on the gate's qubits, matrices agree up to one factor within 1e-8+1e-5|.|), completeness in the exact regime, empty list accepted for an identity gate, foreign qubits rejected first, failure state of the loop, replacer keyed on the generator name, and the embedding theorem (what was compared on k qubits is what happens on n). (gate, candidate) pairs with perturbations and faulty decomposers at every position. The checker's verdict is carried from the gate's own qubits to the register (check_exact_lifts, check_sound_lifts); replace(CNOT->H CZ H) and (CZ->H CNOT H) preserve the operation on any register; the repaired comparison (phase reference = largest entry, tolerance ATOL) is modelled and re-proved (argmax_entry_spec, equiv_up_to_phase_well_conditioned). The accepted factor is a phase: for well-formed gates acceptance implies both matrices on the gate's qubits are unitary and the one factor p has | |p| - 1 | <= about sqrt(d)*1e-7 + 1e-5 (FactorP.factor_modulus_bounds_sqrt, FactorWfP.check_factor_near_unit_wf, with non-vacuity examples). Scripted passes check that acceptance does not depend on what the pass accepted before.",
        "note": "Trusted: Coq kernel (coqc, full .vo build; axioms printed per theorem, only those of the standard library's Reals where R is used), extraction with ExtrOcamlBasic/ExtrOcamlString only, the hand-written OCaml float dictionary (IEEE doubles + glibc libm stand in for R in the executable model) and driver, the Python serializer/comparator. Modelled, not verified: numpy, CPython float formatting/rounding, libqasm, quantify-scheduler, networkx. Between distance 1e-9 and 1e-4 nothing is demanded of the verdict on a single pair (but the verdict must be the same alone and inside a pass).",
        "technique": 'Coq 8.16.1 proof over an executable Gallina model; model tied to /repo by extraction to OCaml run against the implementation on generated inputs (correspondence) and, for tables/constants, by a translator (tables, constants, numeric kernels) whose output is proved equal to the model; independent numpy oracle searches for failing inputs',
        "design_ref": "DESIGN.md section 6 C06",
    },
    'C07': {
        "text": 'One theorem per default gate over R against the standard matrices (up to phase for single-qubit gates, EXACT target operator for CNOT, CZ, CR(theta) for all theta, CRk(k) for all integer k), about the table regenerated from default_gates.py on every run (TableCheck by reflexivity). All gates x placements x parameter grids x three creation paths run against the model and numpy standard matrices.',
        "note": "Trusted: Coq kernel (coqc, full .vo build; axioms printed per theorem, only those of the standard library's Reals where R is used), extraction with ExtrOcamlBasic/ExtrOcamlString only, the hand-written OCaml float dictionary (IEEE doubles + glibc libm stand in for R in the executable model) and driver, the Python serializer/comparator. Modelled, not verified: numpy, CPython float formatting/rounding, libqasm, quantify-scheduler, networkx. Translator trusted to read the listed AST shapes (fail-closed); aliases are not parseable by libqasm (parser path excluded for them).",
        "technique": 'Coq 8.16.1 proof over an executable Gallina model; model tied to /repo by extraction to OCaml run against the implementation on generated inputs (correspondence) and, for tables/constants, by a translator (tables, constants, numeric kernels) whose output is proved equal to the model; independent numpy oracle searches for failing inputs',
        "design_ref": "DESIGN.md section 6 C07",
    },
    'C08': {
        "text": 'Bit lemmas for any operand list and any ket (closed); entry-wise bitwise specification of get_matrix for rotations, nested controls and matrix gates on a register of ANY size, refusals, product order, unitarity (MatrixP, over R where ring laws are needed). Exhaustive placements on 1..4 qubits, exhaustive bit functions, random circuits; independent einsum oracle. can1 is regenerated from the source and proved equal to the model (can1_ok).',
        "note": "Trusted: Coq kernel (coqc, full .vo build; axioms printed per theorem, only those of the standard library's Reals where R is used), extraction with ExtrOcamlBasic/ExtrOcamlString only, the hand-written OCaml float dictionary (IEEE doubles + glibc libm stand in for R in the executable model) and driver, the Python serializer/comparator. Modelled, not verified: numpy, CPython float formatting/rounding, libqasm, quantify-scheduler, networkx. numpy kron/matmul modelled by their definitions.",
        "technique": 'Coq 8.16.1 proof over an executable Gallina model; model tied to /repo by extraction to OCaml run against the implementation on generated inputs (correspondence) and, for tables/constants, by a translator (tables, constants, numeric kernels) whose output is proved equal to the model; independent numpy oracle searches for failing inputs',
        "design_ref": "DESIGN.md section 6 C08",
    },
    'C09': {
        "text": "Layout by prefix sums, disjoint consecutive ranges, zip semantics, element-wise expansion of gates / measures / resets, program order, first error wins, library lookup and aliases (closed). Programs rendered from flat instruction lists in random surface forms parsed by the real front end and by the model on libqasm's AST. Known finding: redeclared variable names.",
        "note": "Trusted: Coq kernel (coqc, full .vo build; axioms printed per theorem, only those of the standard library's Reals where R is used), extraction with ExtrOcamlBasic/ExtrOcamlString only, the hand-written OCaml float dictionary (IEEE doubles + glibc libm stand in for R in the executable model) and driver, the Python serializer/comparator. Modelled, not verified: numpy, CPython float formatting/rounding, libqasm, quantify-scheduler, networkx. libqasm (lexing, parsing, analysis, constant folding) is an oracle entering as the dumped AST.",
        "technique": 'Coq 8.16.1 proof over an executable Gallina model; model tied to /repo by extraction to OCaml run against the implementation on generated inputs (correspondence) and, for tables/constants, by a translator (tables, constants, numeric kernels) whose output is proved equal to the model; independent numpy oracle searches for failing inputs',
        "design_ref": "DESIGN.md section 6 C09",
    },
    'C10': {
        "text": "Target gate sets by branch enumeration of the models: A-B-A (<=3, order A,B,A, named, non-identity), McKay (<=5 from {Rz, X90}, <=2 X90; under pi/2 not below ATOL, proved at R; refuted for a degenerate instance), CNOT (<=2 CNOT + Ry/Rz on the two qubits), pass-through of out-of-scope gates as the same object. Shares C01's case space plus the CNOT->merge->McKay pipeline. Proposal exactness on any qubits of any register (mckay_proposal_exact, cnot_proposal_exact); kernels regenerated from the source.",
        "note": "Trusted: Coq kernel (coqc, full .vo build; axioms printed per theorem, only those of the standard library's Reals where R is used), extraction with ExtrOcamlBasic/ExtrOcamlString only, the hand-written OCaml float dictionary (IEEE doubles + glibc libm stand in for R in the executable model) and driver, the Python serializer/comparator. Modelled, not verified: numpy, CPython float formatting/rounding, libqasm, quantify-scheduler, networkx. Writable/re-parsable is checked by the real writer and parser on a sample.",
        "technique": 'Coq 8.16.1 proof over an executable Gallina model; model tied to /repo by extraction to OCaml run against the implementation on generated inputs (correspondence) and, for tables/constants, by a translator (tables, constants, numeric kernels) whose output is proved equal to the model; independent numpy oracle searches for failing inputs',
        "design_ref": "DESIGN.md section 6 C10",
    },
    'C11': {
        "text": 'One operation per statement in order, acquisition index = number of earlier measurements of the qubit, bit map = last write, unsupported statements raise (structural, closed); Rxy/Rz denotation incl. the signed -z case and CNOT/CZ only for exact controlled X/Z incl. the negated-axis representation (over R). Operations are read back from the real quantify-scheduler Schedule. WHOLE SCHEDULE: export_qs_same_operation (executing the exported operations does the circuit\'s operation for every outcome assignment, up to a global phase, exact families, unrounded degrees) with the rounding bounded (5e-6 degrees, 1.67e-7 per operator entry) and three tolerance observations proved (SemQSP).',
        "note": "Trusted: Coq kernel (coqc, full .vo build; axioms printed per theorem, only those of the standard library's Reals where R is used), extraction with ExtrOcamlBasic/ExtrOcamlString only, the hand-written OCaml float dictionary (IEEE doubles + glibc libm stand in for R in the executable model) and driver, the Python serializer/comparator. Modelled, not verified: numpy, CPython float formatting/rounding, libqasm, quantify-scheduler, networkx. quantify-scheduler enters as the list of operations; 5-decimal rounding contract proved (deg5_error).",
        "technique": 'Coq 8.16.1 proof over an executable Gallina model; model tied to /repo by extraction to OCaml run against the implementation on generated inputs (correspondence) and, for tables/constants, by a translator (tables, constants, numeric kernels) whose output is proved equal to the model; independent numpy oracle searches for failing inputs',
        "design_ref": "DESIGN.md section 6 C11",
    },
    'C12': {
        "text": "Line shapes of the cQASM 1 export (lower-cased name, qubits, parameters; measure_z / prep_z), anonymous gates refused at every position, exported qubits are the mapped ones (closed). Text compared with the model's and read back with a cQASM 1 meaning table. READ BACK: Model/Reader.read1 (run against the line oracle) and v1_read_back_statements / v1_read_back_same_operation: the exported text with the cQASM 1 meaning of each name is the circuit (8-digit parameters, bit targets = the qubit's own bit) (SemV1P).",
        "note": "Trusted: Coq kernel (coqc, full .vo build; axioms printed per theorem, only those of the standard library's Reals where R is used), extraction with ExtrOcamlBasic/ExtrOcamlString only, the hand-written OCaml float dictionary (IEEE doubles + glibc libm stand in for R in the executable model) and driver, the Python serializer/comparator. Modelled, not verified: numpy, CPython float formatting/rounding, libqasm, quantify-scheduler, networkx. Meaning table written for this check.",
        "technique": 'Coq 8.16.1 proof over an executable Gallina model; model tied to /repo by extraction to OCaml run against the implementation on generated inputs (correspondence) and, for tables/constants, by a translator (tables, constants, numeric kernels) whose output is proved equal to the model; independent numpy oracle searches for failing inputs',
        "design_ref": "DESIGN.md section 6 C12",
    },
    'C13': {
        "text": 'builder_wf / builder_run_wf: for EVERY call sequence the builder holds only well-formed statements; exact characterisation of accepted calls; refused calls have no effect; snapshots are prefixes (closed). Random call sequences with invalid indices/types/arity against the real CircuitBuilder; cQASM-source violations against the parser.',
        "note": "Trusted: Coq kernel (coqc, full .vo build; axioms printed per theorem, only those of the standard library's Reals where R is used), extraction with ExtrOcamlBasic/ExtrOcamlString only, the hand-written OCaml float dictionary (IEEE doubles + glibc libm stand in for R in the executable model) and driver, the Python serializer/comparator. Modelled, not verified: numpy, CPython float formatting/rounding, libqasm, quantify-scheduler, networkx. isinstance / inspect.signature modelled by explicit case analysis; raw Python floats as qubit operands are outside the generated calls.",
        "technique": 'Coq 8.16.1 proof over an executable Gallina model; model tied to /repo by extraction to OCaml run against the implementation on generated inputs (correspondence) and, for tables/constants, by a translator (tables, constants, numeric kernels) whose output is proved equal to the model; independent numpy oracle searches for failing inputs',
        "design_ref": "DESIGN.md section 6 C13",
    },
    'C14': {
        "text": 'merge_normal_form (no two rotations on a qubit without a barrier on it), merge_no_identity_emitted, lone gate keeps its name (compose_inherits), with the necessary hypothesis exhibited by a refutation (closed). Same case space as C02 with a second merge. merge_same_operation (merging, hence merging again, preserves the operation; exact setting); compose/is_identity regenerated from the source.',
        "note": "Trusted: Coq kernel (coqc, full .vo build; axioms printed per theorem, only those of the standard library's Reals where R is used), extraction with ExtrOcamlBasic/ExtrOcamlString only, the hand-written OCaml float dictionary (IEEE doubles + glibc libm stand in for R in the executable model) and driver, the Python serializer/comparator. Modelled, not verified: numpy, CPython float formatting/rounding, libqasm, quantify-scheduler, networkx. Idempotence of the operation is checked by the oracle.",
        "technique": 'Coq 8.16.1 proof over an executable Gallina model; model tied to /repo by extraction to OCaml run against the implementation on generated inputs (correspondence) and, for tables/constants, by a translator (tables, constants, numeric kernels) whose output is proved equal to the model; independent numpy oracle searches for failing inputs',
        "design_ref": "DESIGN.md section 6 C14",
    },
    'C15': {
        "text": 'normalize_angle range / congruence / identity on the range / idempotence, unit parallel axis, constructor refusals as iff (mk_ctrl, mk_mat), about the normalize_angle regenerated from common.py (TableCheck). (axis, angle, phase) grids incl. zero, tiny, huge, inf/nan axes; exhaustive operand lists.',
        "note": "Trusted: Coq kernel (coqc, full .vo build; axioms printed per theorem, only those of the standard library's Reals where R is used), extraction with ExtrOcamlBasic/ExtrOcamlString only, the hand-written OCaml float dictionary (IEEE doubles + glibc libm stand in for R in the executable model) and driver, the Python serializer/comparator. Modelled, not verified: numpy, CPython float formatting/rounding, libqasm, quantify-scheduler, networkx. Overflow/underflow/NaN behaviour only through the float layer (correspondence + oracle).",
        "technique": 'Coq 8.16.1 proof over an executable Gallina model; model tied to /repo by extraction to OCaml run against the implementation on generated inputs (correspondence) and, for tables/constants, by a translator (tables, constants, numeric kernels) whose output is proved equal to the model; independent numpy oracle searches for failing inputs',
        "design_ref": "DESIGN.md section 6 C15",
    },
    'C16': {
        "text": 'bsr_eq_iff (exact characterisation of rotation equality), equality of the operators in each accepting representation (can1 lemmas), dispatch to the matrix comparison for every other pair in both orders, soundness/completeness of the matrix comparison, relabel invariance. All ordered pairs of a pool with several representations per operation and near-misses. BlochSphereRotation.__eq__ is regenerated from the source and proved equal to the model (bsr_eq_ok); the repaired matrix comparison is re-proved.',
        "note": "Trusted: Coq kernel (coqc, full .vo build; axioms printed per theorem, only those of the standard library's Reals where R is used), extraction with ExtrOcamlBasic/ExtrOcamlString only, the hand-written OCaml float dictionary (IEEE doubles + glibc libm stand in for R in the executable model) and driver, the Python serializer/comparator. Modelled, not verified: numpy, CPython float formatting/rounding, libqasm, quantify-scheduler, networkx. Tolerance gap respected; the comparison factor is not forced to modulus 1 (observation for non-unitary matrix gates).",
        "technique": 'Coq 8.16.1 proof over an executable Gallina model; model tied to /repo by extraction to OCaml run against the implementation on generated inputs (correspondence) and, for tables/constants, by a translator (tables, constants, numeric kernels) whose output is proved equal to the model; independent numpy oracle searches for failing inputs',
        "design_ref": "DESIGN.md section 6 C16",
    },
    'C17': {
        "text": 'PARTIAL by nature: proved - the result of each pass does not depend on object identities (oid-irrelevance), untouched statements are the same objects, no pass takes the default tables as state, the matrix comparison is invariant under relabelling (the only iteration over a hashed set). Monitored at run time - byte-identical output across interleavings in one process and across fresh processes under PYTHONHASHSEED in {0,1,2,random}, table fingerprints, callback/shared-object mutation.',
        "note": "Trusted: Coq kernel (coqc, full .vo build; axioms printed per theorem, only those of the standard library's Reals where R is used), extraction with ExtrOcamlBasic/ExtrOcamlString only, the hand-written OCaml float dictionary (IEEE doubles + glibc libm stand in for R in the executable model) and driver, the Python serializer/comparator. Modelled, not verified: numpy, CPython float formatting/rounding, libqasm, quantify-scheduler, networkx. CPython string hashing, module-level state and ndarray aliasing cannot be exhibited by a Gallina function; they are monitored, not proved.",
        "technique": 'Coq 8.16.1 proof over an executable Gallina model; model tied to /repo by extraction to OCaml run against the implementation on generated inputs (correspondence) and, for tables/constants, by a translator (tables, constants, numeric kernels) whose output is proved equal to the model; independent numpy oracle searches for failing inputs',
        "design_ref": "DESIGN.md section 6 C17",
    },
    'C18': {
        "text": 'Edge iff a gate with exactly those two operands (any kind, any order), other statements contribute nothing, accepted iff every gate has 1 or 2 operands, >= 3 operands refused, node set (any element type, closed); the graph as a function of the circuit (GraphMoreP): the edge list is exactly the operand pairs of the two-operand gates in circuit order with multiplicity, composes over concatenation, is relabelled edge by edge when the circuit is mapped, its multiset is independent of statement order, and merging single-qubit gates leaves it untouched (any numeric instance, closed). Exhaustive placements on 4 qubits and random circuits.',
        "note": "Trusted: Coq kernel (coqc, full .vo build; axioms printed per theorem, only those of the standard library's Reals where R is used), extraction with ExtrOcamlBasic/ExtrOcamlString only, the hand-written OCaml float dictionary (IEEE doubles + glibc libm stand in for R in the executable model) and driver, the Python serializer/comparator. Modelled, not verified: numpy, CPython float formatting/rounding, libqasm, quantify-scheduler, networkx. networkx modelled as an edge set.",
        "technique": 'Coq 8.16.1 proof over an executable Gallina model; model tied to /repo by extraction to OCaml run against the implementation on generated inputs (correspondence) and, for tables/constants, by a translator (tables, constants, numeric kernels) whose output is proved equal to the model; independent numpy oracle searches for failing inputs',
        "design_ref": "DESIGN.md section 6 C18",
    },
    'C19': {
        "text": 'PARTIAL by nature: proved - matrices built by the checker have dimension 2^(operands of the gate) whatever the register (check_replacement_dim), every pass commutes with relabelling / order-preserving compression of qubit indices (CostP), the embedding theorem (EmbedP). Measured at run time - matrix sizes actually requested (wrapping MatrixExpander), wall time and tracemalloc peak on registers of 64..100000 qubits, equality with the compressed run.',
        "note": "Trusted: Coq kernel (coqc, full .vo build; axioms printed per theorem, only those of the standard library's Reals where R is used), extraction with ExtrOcamlBasic/ExtrOcamlString only, the hand-written OCaml float dictionary (IEEE doubles + glibc libm stand in for R in the executable model) and driver, the Python serializer/comparator. Modelled, not verified: numpy, CPython float formatting/rounding, libqasm, quantify-scheduler, networkx. Wall-clock time and memory are not provable in Coq; budgets 20 s / 400 MB per pipeline.",
        "technique": 'Coq 8.16.1 proof over an executable Gallina model; model tied to /repo by extraction to OCaml run against the implementation on generated inputs (correspondence) and, for tables/constants, by a translator (tables, constants, numeric kernels) whose output is proved equal to the model; independent numpy oracle searches for failing inputs',
        "design_ref": "DESIGN.md section 6 C19",
    },
    'C20': {
        "text": 'Line shapes for ANY name and ANY argument list (any number/position of parameters), relabelling of both descriptions, replacer keyed on the generator name, pass-through of gates a decomposer does not rewrite (closed). A family of user gates with arbitrary parameter names through the builder, every pass, both text outputs and replace(). The text-level round trip (read3_write3, read1_export_v1) holds for any identifier names and argument lists, hence for user gates.',
        "note": "Trusted: Coq kernel (coqc, full .vo build; axioms printed per theorem, only those of the standard library's Reals where R is used), extraction with ExtrOcamlBasic/ExtrOcamlString only, the hand-written OCaml float dictionary (IEEE doubles + glibc libm stand in for R in the executable model) and driver, the Python serializer/comparator. Modelled, not verified: numpy, CPython float formatting/rounding, libqasm, quantify-scheduler, networkx. User gate names cannot be re-parsed by libqasm (fixed instruction set).",
        "technique": 'Coq 8.16.1 proof over an executable Gallina model; model tied to /repo by extraction to OCaml run against the implementation on generated inputs (correspondence) and, for tables/constants, by a translator (tables, constants, numeric kernels) whose output is proved equal to the model; independent numpy oracle searches for failing inputs',
        "design_ref": "DESIGN.md section 6 C20",
    },
}

NOT_YET = {}


def main() -> None:
    ids = [json.loads(l)["id"] for l in open(os.path.join(HERE, "properties.jsonl")) if l.strip()]
    checks = []
    for pid in ids:
        if pid not in CLAIMS:
            continue
        c = CLAIMS[pid]
        checks.append({
            "property_id": pid,
            "quick_cmd": f"/venv/bin/python check.py {pid} --tier quick",
            "thorough_cmd": f"/venv/bin/python check.py {pid} --tier thorough",
            "evidence_file": f"evidence/{pid}.json",
            "replay_cmd_template": f"/venv/bin/python check.py {pid} --replay {{path}}",
            "engine": "coq-model+correspondence",
            "level_claimed": {"category": "proof", "text": c["text"], "design_ref": c["design_ref"]},
            "level_note": c["note"],
            "technique": c["technique"],
        })
    na = [{"property_id": pid, "reason": NOT_YET.get(pid, "check under construction in this session: model and theorems not yet committed; the technique applies (see DESIGN.md §6) and the property will be claimed once its check passes 20 seeds")}
          for pid in ids if pid not in CLAIMS]
    m = {
        "version": 1,
        "setup_cmd": "./setup.sh",
        "hooks": {
            "guard": "OPENSQUIRREL_VERIF",
            "enable": "no source hooks are needed: checks import /repo's working tree in-process and wrap functions from the harness; the guard variable is set by the harness for completeness",
            "baseline_off_cmd": "cd /repo && /venv/bin/python -m pytest -ra -q -p no:cacheprovider --timeout=900 --continue-on-collection-errors",
            "source_commits": [],
            "add_only": True,
        },
        "engines": [{
            "name": "coq-model+correspondence",
            "path": "check.py",
            "serves_properties": [c["property_id"] for c in checks],
            "kind_free_text": "Coq 8.16.1 development (coq/) with an executable Gallina model, theorems per property in coq/Props, model tied to /repo by a translator for tables/constants (coq/Gen, regenerated each run) and by extraction to OCaml run against the implementation on generated inputs; independent numpy oracles search for failing inputs",
        }],
        "checks": checks,
        "not_applicable": na,
        "notes": "See DESIGN.md. Known findings in known_findings.json. VERIF_REPO selects the tree to examine (default /repo).",
    }
    with open(os.path.join(HERE, "MANIFEST.json"), "w") as f:
        json.dump(m, f, indent=1)


if __name__ == "__main__":
    main()
