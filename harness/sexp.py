"""Minimal s-expression reader/printer matching ocaml/sexp.ml.

Python values: list -> (..), Sym(str) -> bare atom, str -> quoted string,
int -> decimal atom, float -> hex atom, bool -> true/false, None -> none.
Parsing returns lists, Sym for bare atoms and str for quoted strings.
"""
from __future__ import annotations


class Sym(str):
    __slots__ = ()

    def __repr__(self) -> str:
        return f"Sym({str.__repr__(self)})"


def fhex(x: float) -> str:
    return float(x).hex()


def dumps(v) -> str:
    out: list[str] = []
    _dump(v, out)
    return "".join(out)


def _esc(s: str) -> str:
    b = ['"']
    for ch in s.encode("utf-8", "surrogateescape"):
        c = chr(ch)
        if c == '"':
            b.append('\\"')
        elif c == "\\":
            b.append("\\\\")
        elif c == "\n":
            b.append("\\n")
        elif c == "\t":
            b.append("\\t")
        elif c == "\r":
            b.append("\\r")
        elif ch < 32 or ch > 126:
            b.append("\\x%02x" % ch)
        else:
            b.append(c)
    b.append('"')
    return "".join(b)


def _dump(v, out: list[str]) -> None:
    if isinstance(v, Sym):
        out.append(str(v))
    elif isinstance(v, bool):
        out.append("true" if v else "false")
    elif v is None:
        out.append("none")
    elif isinstance(v, str):
        out.append(_esc(v))
    elif isinstance(v, int):
        out.append(str(v))
    elif isinstance(v, float):
        out.append(fhex(v))
    elif isinstance(v, (list, tuple)):
        out.append("(")
        for i, x in enumerate(v):
            if i:
                out.append(" ")
            _dump(x, out)
        out.append(")")
    else:
        raise TypeError(f"cannot dump {type(v)}")


def loads(s: str):
    pos = 0
    n = len(s)

    def skip():
        nonlocal pos
        while pos < n and s[pos] in " \t\r\n":
            pos += 1

    def value():
        nonlocal pos
        skip()
        if pos >= n:
            raise ValueError("eof")
        c = s[pos]
        if c == "(":
            pos += 1
            items = []
            while True:
                skip()
                if pos >= n:
                    raise ValueError("unclosed")
                if s[pos] == ")":
                    pos += 1
                    return items
                items.append(value())
        if c == '"':
            pos += 1
            b = bytearray()
            while True:
                ch = s[pos]
                if ch == '"':
                    pos += 1
                    break
                if ch == "\\":
                    e = s[pos + 1]
                    if e == "n":
                        b.append(10); pos += 2
                    elif e == "t":
                        b.append(9); pos += 2
                    elif e == "r":
                        b.append(13); pos += 2
                    elif e == "x":
                        b.append(int(s[pos + 2:pos + 4], 16)); pos += 4
                    else:
                        b.extend(e.encode()); pos += 2
                else:
                    b.extend(ch.encode("utf-8")); pos += 1
            return b.decode("utf-8", "surrogateescape")
        start = pos
        while pos < n and s[pos] not in ' \t\r\n()"':
            pos += 1
        return Sym(s[start:pos])

    return value()


def atom_float(a) -> float:
    return float.fromhex(str(a))


def atom_int(a) -> int:
    return int(str(a))
