"""Paths and environment shared by the harness. The tree under examination is
VERIF_REPO (default /repo); it is put first on sys.path so that `opensquirrel`
is always imported from the current working tree of that directory."""
from __future__ import annotations

import os
import sys

VERIF = os.path.dirname(os.path.dirname(os.path.abspath(__file__)))
REPO = os.path.abspath(os.environ.get("VERIF_REPO", "/repo"))
COQ = os.path.join(VERIF, "coq")
OCAML = os.path.join(VERIF, "ocaml")
DRIVER = os.path.join(OCAML, "_build", "driver")
# evidence/ and replays/ describe runs against /repo; a run against another tree (VERIF_REPO: seeded changes,
# calibration) writes next to them so that it never overwrites what was observed on the repository itself
_OTHER = os.path.realpath(REPO) != os.path.realpath("/repo")
EVIDENCE = os.path.join(VERIF, "evidence_other" if _OTHER else "evidence")
REPLAYS = os.path.join(VERIF, "replays_other" if _OTHER else "replays")
GUARD = "OPENSQUIRREL_VERIF"


def activate_repo() -> None:
    """Make `import opensquirrel` resolve to REPO's working tree, fail closed otherwise."""
    for name in list(sys.modules):
        if name == "opensquirrel" or name.startswith("opensquirrel."):
            del sys.modules[name]
    if REPO in sys.path:
        sys.path.remove(REPO)
    sys.path.insert(0, REPO)
    os.environ[GUARD] = "1"
    import opensquirrel  # noqa: F401

    got = os.path.dirname(os.path.dirname(os.path.abspath(opensquirrel.__file__)))
    if os.path.realpath(got) != os.path.realpath(REPO):
        raise RuntimeError(f"opensquirrel imported from {got}, expected {REPO}")
