"""Helpers to run the implementation and the model on the same inputs and to
compare post-states."""
from __future__ import annotations

import signal
from contextlib import contextmanager

from harness import model, ser, sexp
from harness.sexp import Sym

DEC_NAMES = ["xyx", "xzx", "yxy", "yzy", "zxz", "zyz", "mckay", "cnot"]


def decomposer(name: str):
    from opensquirrel.decomposer import aba_decomposer as aba
    from opensquirrel.decomposer.cnot_decomposer import CNOTDecomposer
    from opensquirrel.decomposer.mckay_decomposer import McKayDecomposer

    return {"xyx": aba.XYXDecomposer, "xzx": aba.XZXDecomposer, "yxy": aba.YXYDecomposer, "yzy": aba.YZYDecomposer,
            "zxz": aba.ZXZDecomposer, "zyz": aba.ZYZDecomposer, "mckay": McKayDecomposer, "cnot": CNOTDecomposer}[name]()


ERRMAP = {"ValueError": "value", "IndexError": "index", "KeyError": "key", "TypeError": "type",
          "ExporterError": "export", "UnsupportedGateError": "export", "OSError": "parse"}


def errkind(e: BaseException) -> str:
    return ERRMAP.get(type(e).__name__, "other:" + type(e).__name__)


class Timeout(Exception):
    pass


@contextmanager
def time_limit(seconds: int):
    def handler(signum, frame):
        raise Timeout()

    import time as _time

    old = signal.signal(signal.SIGALRM, handler)
    prev = signal.getitimer(signal.ITIMER_REAL)[0]      # seconds (float) left on an enclosing limit, 0.0 = none
    signal.setitimer(signal.ITIMER_REAL, min(float(seconds), prev) if prev > 0 else float(seconds))
    t0 = _time.time()
    try:
        yield
    finally:
        signal.setitimer(signal.ITIMER_REAL, 0)
        signal.signal(signal.SIGALRM, old)
        if prev > 0:                             # re-arm the enclosing limit with what is left of it
            signal.setitimer(signal.ITIMER_REAL, max(0.01, prev - (_time.time() - t0)))


def canon_post(stmts) -> list:
    """Statements of the implementation -> canonical comparable structure (oids renumbered)."""
    v = ser.canon(sexp.loads(sexp.dumps(ser.ser_stmts(stmts))))
    return renumber(v)


def renumber(v: list) -> list:
    m: dict = {}
    out = []
    for s in v:
        s = list(s)
        if s and s[0] in ("gate", "measure", "reset"):
            s[1] = m.setdefault(s[1], len(m) + 1)
        out.append(s)
    return out


def model_post(res) -> list:
    return renumber(ser.canon(res))


def apply_pass(circuit, p: list):
    """p = ["decompose", name] | ["merge"] | ["replace", target, rule] | ["map", perm] | ["reparse"]."""
    k = p[0]
    # every second call (by the size of the circuit, so that it replays) passes the arguments by keyword
    kw = len(circuit.ir.statements) % 2 == 1
    if k == "decompose":
        circuit.decompose(decomposer=decomposer(p[1])) if kw else circuit.decompose(decomposer(p[1]))
    elif k == "merge":
        circuit.merge_single_qubit_gates()
    elif k == "replace":
        from opensquirrel import default_gates as dg

        target = getattr(dg, p[1])
        circuit.replace(f=RULES[p[2]], gate_generator=target) if kw else circuit.replace(target, RULES[p[2]])
    elif k == "map":
        from opensquirrel.mapper import HardcodedMapper
        from opensquirrel.mapper.mapping import Mapping

        mapper = HardcodedMapper(circuit.qubit_register_size, Mapping(list(p[1])))
        circuit.map(mapper=mapper) if kw else circuit.map(mapper)
    elif k == "reparse":
        from opensquirrel.circuit import Circuit

        c2 = Circuit.from_string(str(circuit))
        circuit.ir = c2.ir
        circuit.register_manager = c2.register_manager
    else:
        raise ValueError(k)


def _rule_cnot_to_hczh(c, t):
    from opensquirrel.default_gates import CZ, H

    return [H(t), CZ(c, t), H(t)]


def _rule_cz_to_hcnoth(c, t):
    from opensquirrel.default_gates import CNOT, H

    return [H(t), CNOT(c, t), H(t)]


def _rule_shared(c, t):
    from opensquirrel.default_gates import CZ, H

    h = H(t)
    return [h, CZ(c, t), h]


def _rule_wrong(c, t):
    from opensquirrel.default_gates import CZ, H

    return [H(t), CZ(c, t)]


RULES = {"cnot_to_hczh": _rule_cnot_to_hczh, "cz_to_hcnoth": _rule_cz_to_hcnoth, "shared": _rule_shared,
         "wrong": _rule_wrong}


def model_request(p: list, nq: int, pre: list) -> list:
    k = p[0]
    if k == "decompose":
        return ["decompose", Sym(p[1]), pre]
    if k == "merge":
        return ["merge", nq, pre]
    if k == "replace":
        return ["replace", p[1], Sym(p[2]), pre]
    if k == "map":
        return ["remap", nq, list(p[1]), pre]
    raise ValueError(k)


def model_outcome(p: list, res) -> tuple[str | None, list | None]:
    """-> (error kind or None, post statements or None)"""
    v = ser.canon(res)
    if p[0] in ("decompose", "replace"):
        err = None if v[0] == "none" else v[0][1]
        return err, renumber(v[1])
    if v[0] == "ok":
        return None, renumber(v[1])
    return v[1], None


def run_impl(circuit, p: list, limit: int = 20) -> tuple[str | None, list]:
    try:
        with time_limit(limit):
            apply_pass(circuit, p)
        err = None
    except Timeout:
        err = "timeout"
    except Exception as e:  # noqa: BLE001
        err = errkind(e)
    return err, canon_post(circuit.ir.statements)


def history_noise(circuit, rng) -> None:
    """Leave some history behind in the process: relabel the qubits of a circuit that has just been processed (and is
    about to be discarded) by a non-trivial permutation of its used qubits. On a library without hidden shared state this
    is invisible to every later case; if objects or caches are shared between circuits, later cases are corrupted."""
    from opensquirrel.mapper import HardcodedMapper
    from opensquirrel.mapper.mapping import Mapping

    n = circuit.qubit_register_size
    if n < 2 or n > 64:
        return
    perm = list(range(n))
    perm = perm[1:] + perm[:1]
    try:
        circuit.map(HardcodedMapper(n, Mapping(perm)))
    except Exception:  # noqa: BLE001
        pass


def history_twin(case_builder, passes, rng, prob: float = 0.3) -> bool:
    """With probability `prob`, build a twin of the circuit under test (same specification, separate objects), run
    the same passes on it and then relabel its qubits (history_noise). The twin is discarded; only state that the
    library shares between circuits can make this visible to later cases. Returns whether the twin was run (a replay
    of the case runs it again: run_twin)."""
    if rng.random() >= prob:
        return False
    run_twin(case_builder, passes)
    return True


def run_twin(case_builder, passes) -> None:
    try:
        twin = case_builder()
        for p in passes:
            apply_pass(twin, list(p))
        history_noise(twin, None)
    except Exception:  # noqa: BLE001
        pass
