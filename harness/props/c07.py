"""C07 — every default instruction denotes its cQASM standard operation."""
from __future__ import annotations

import itertools
import math

import numpy as np

from harness import gen, model, oracles, ser, sexp
from harness.sexp import Sym

ID = "C07"
TRUSTED = ["translator (translate.py): default_gates.py / default_measures.py / default_resets.py / common.py -> Gen/*.v, "
           "compared with the hand table by reflexivity (Gen/TableCheck.v)",
           "extraction + OCaml float dictionary for the executable model", "libqasm (parser path) is an oracle"]
ASSUMPTIONS = ["theorems are over R; doubles vs reals trusted and sampled",
               "oracle: numpy standard matrices, exact controlled form (no phase slack under control)"]
CLASSIFIERS: dict = {}
PI = math.pi


def theta_grid(rng, n_random):
    g = []
    for k in range(-8, 9):
        g += [k * PI / 2, k * PI / 2 + 1e-9, k * PI / 2 - 1e-6]
    g += [PI / 4, -PI / 4, 3.0, 4.0, -4.0, 1e-5, -1e-8, 0.0]
    g += [rng.uniform(-100, 100) for _ in range(n_random)]
    return g


def make_gate(path: str, name: str, args: list, nq: int):
    """Create the instruction through one of the three front ends; returns the statement object."""
    from opensquirrel import CircuitBuilder, default_gates
    from opensquirrel.circuit import Circuit
    from opensquirrel.ir import Float

    sig = gen.GATE_SIG[name]
    if path == "builder":
        conv = [Float(a) if k == "f" else a for a, k in zip(args, sig)]
        b = CircuitBuilder(nq, 2)
        getattr(b, name)(*conv)
        return b.to_circuit().ir.statements[0]
    if path == "kwargs":
        fn = default_gates.default_gate_aliases.get(name) or getattr(default_gates, name)
        import inspect

        names = list(inspect.signature(fn).parameters)
        conv = [(n, (Float(a) if k == "f" else a)) for n, a, k in zip(names, args, sig)]
        # keywords in signature order, reversed, or rotated (chosen by the arguments, so the case replays)
        import zlib

        h = zlib.crc32(repr((name, args)).encode()) % 3
        conv = conv if h == 0 else (conv[::-1] if h == 1 else conv[1:] + conv[:1])
        return fn(**dict(conv))
    if path == "parser":
        qs = ", ".join(f"q[{a}]" for a, k in zip(args, sig) if k == "q")
        ps = [a for a, k in zip(args, sig) if k != "q"]
        par = ""
        if ps:
            p = ps[0]
            par = "(" + (str(int(p)) if sig[-1] == "i" else f"{p:.25f}") + ")"
        src = f"version 3.0; qubit[{nq}] q; bit[2] b; {name}{par} {qs}"
        c = parse_shared(src)      # one Parser object parses every program of the run
        if len(c.ir.statements) != 1 or c.qubit_register_size != nq:
            raise RuntimeError(f"parsing one instruction on {nq} qubits gave {len(c.ir.statements)} statements on "
                               f"{c.qubit_register_size} qubits")
        return c.ir.statements[0]
    raise ValueError(path)


_PARSER = None
_PARSED: list = []       # [source the shared parser read before the last one, the last one]


def shared_parser():
    global _PARSER
    if _PARSER is None:
        from opensquirrel.parser.libqasm.parser import Parser

        _PARSER = Parser()
    return _PARSER


def parse_shared(src):
    _PARSED[:] = [_PARSED[-1] if _PARSED else None, src]
    return shared_parser().circuit_from_string(src)


def recorded(case):
    """the case as it is written to a replay file: a parser-path case with the history of the shared parser that a
    replay can re-create (the program it read immediately before this one)"""
    if case["path"] != "parser" or len(_PARSED) < 2 or _PARSED[0] is None:
        return case
    return {**case, "parser_prev": _PARSED[0]}


def replay_parser_history(case):
    """a fresh shared parser that has read what the record says it had read before the case"""
    global _PARSER
    _PARSER = None
    _PARSED[:] = []
    if case.get("parser_prev"):
        try:
            parse_shared(case["parser_prev"])
        except Exception:  # noqa: BLE001
            pass


def model_args(name, args):
    sig = gen.GATE_SIG[name]
    out = []
    for a, k in zip(args, sig):
        out.append([Sym("q"), int(a)] if k == "q" else [Sym("f"), float(a)] if k == "f" else [Sym("i"), int(a)])
    return out


def make_gate_checked(ctx, c):
    try:
        return make_gate(c["path"], c["name"], c["args"], c["nq"])
    except Exception as e:  # noqa: BLE001
        ctx.oracle_fail("std", recorded(c), f"front end raised {type(e).__name__}: {e}", None)
        ctx.seen(c)
        return None


def gate_request(c):
    canonical = {"Hadamard": "H", "Identity": "I"}.get(c["name"], c["name"])
    return ["default_gate", canonical, model_args(c["name"], c["args"])]


def check_gate_case(ctx, case, obj, mres):
    name, args, nq = case["name"], case["args"], case["nq"]
    canonical = {"Hadamard": "H", "Identity": "I"}.get(name, name)
    # --- correspondence with the model's table evaluation
    margin, r = mres
    impl = ser.canon(sexp.loads(sexp.dumps([ser.ser_gate(obj), ser.ser_ginfo(obj)])))
    mv = ser.canon(r)
    eq = False
    if mv[0] == "ok":
        d = ser.struct_diff(impl, mv[1], 1e-9)
        if case["path"] == "parser" and d and "f" in gen.GATE_SIG[name]:
            d = ser.struct_diff(impl, mv[1], 1e-7)  # decimal text of theta
        if d:
            ctx.disagree("table", case, d, margin)
        eq = d is None
    else:
        ctx.disagree("table", case, f"model error {mv}", margin)
    # --- oracle: the gate's fields denote the standard operation
    want_small, ops = oracles.std_gate(canonical, args)
    got_small, gops = oracles.gate_small(obj)
    if gops != ops:
        ctx.oracle_fail("std", case, f"operands {gops} != {ops}", eq)
        return
    want = oracles.embed(nq, want_small, ops)
    got = oracles.embed(nq, got_small, gops)
    if len(ops) == 1:
        d = oracles.phase_dist(got, want)
    else:
        d = float(np.abs(got - want).max())   # exact controlled form
    tol = 1e-9 if case["path"] != "parser" else 1e-7
    if d > tol:
        ctx.oracle_fail("std", case, f"distance from the cQASM standard operation {d:.3g}", eq)
        return
    # --- the library's own matrix of it agrees (C08 is checked separately; cheap cross-check here)
    from opensquirrel.utils.matrix_expander import get_matrix

    m = get_matrix(obj, nq)
    d2 = oracles.phase_dist(m, want) if len(ops) == 1 else float(np.abs(m - want).max())
    if d2 > tol:
        ctx.oracle_fail("std", case, f"get_matrix differs from the standard operation by {d2:.3g}", eq)
    if obj.generator is None or obj.generator.__name__ != canonical:
        ctx.oracle_fail("std", case, f"generator name {getattr(obj.generator, '__name__', None)} != {canonical}", eq)


def run(ctx):
    rng = ctx.rng
    ctx.rule("every default gate + alias x ordered operand placement in registers <= 4 x theta grid over [-4pi,4pi] "
             "(incl. +-pi, +-2pi and neighbours) and random |theta|<=100 x k in -3..64 x three creation paths "
             "(builder, keyword call, parser); measure/measure_z/reset; non-trivial = every case (distinct by gate, "
             "placement, parameter, path)")
    thetas = theta_grid(rng, ctx.pick(10, 200))
    cases = []
    names1 = gen.ONEQ_NOPARAM + ["Hadamard", "Identity"]
    for nq in (1, 2, 3, 4):
        for name in names1:
            for q in range(nq):
                cases.append({"name": name, "args": [q], "nq": nq})
        for name in gen.ONEQ_PARAM:
            for q in range(nq):
                for t in (rng.sample(thetas, ctx.pick(4, 40))):
                    cases.append({"name": name, "args": [q, t], "nq": nq})
        for a, b in itertools.permutations(range(nq), 2):
            cases.append({"name": "CNOT", "args": [a, b], "nq": nq})
            cases.append({"name": "CZ", "args": [a, b], "nq": nq})
            for t in rng.sample(thetas, ctx.pick(5, 50)):
                cases.append({"name": "CR", "args": [a, b, t], "nq": nq})
            for k in (range(-3, 65) if not ctx.quick else rng.sample(range(-3, 65), 8) + [0, -1, 1]):
                cases.append({"name": "CRk", "args": [a, b, k], "nq": nq})
    full = []
    for c in cases:
        for path in ("builder", "kwargs", "parser"):
            if path == "parser" and c["name"] in ("Hadamard", "Identity"):
                continue   # libqasm 0.6.7 does not know the alias names; aliases exist for builder / direct calls
            full.append({**c, "path": path})
    if ctx.quick:
        full = rng.sample(full, min(len(full), 2500))
    ctx.suite("gates", cases=len(full))
    objs, reqs, kept, recs = [], [], [], []
    for c in full:
        o = make_gate_checked(ctx, c)
        if o is None:
            continue
        objs.append(o)
        kept.append(c)
        recs.append(recorded(c))
        reqs.append(gate_request(c))
    mres = model.call_many(reqs)
    for c, rec, o, mr in zip(kept, recs, objs, mres):
        ctx.seen(c)
        ctx.bump("gate_" + c["name"])
        ctx.bump("path_" + c["path"])
        check_gate_case(ctx, rec, o, mr)
    ctx.sample(kept[0] if kept else None)
    ctx.sample(kept[-1] if kept else None)
    # measure / measure_z / reset: computational basis, named qubit and bit
    n_mr = 0
    for nq in (1, 2, 4):
        for q in range(nq):
            for b in range(2):
                for nm in ("measure", "measure_z"):
                    check_measure_reset(ctx, {"name": nm, "args": [q, b], "nq": nq, "path": "builder"})
                    n_mr += 1
            check_measure_reset(ctx, {"name": "reset", "args": [q], "nq": nq, "path": "builder"})
            n_mr += 1
    ctx.suite("measure_reset", cases=n_mr)


def check_measure_reset(ctx, case):
    from opensquirrel import CircuitBuilder
    from opensquirrel.ir import Bit

    nm, nq, q = case["name"], case["nq"], case["args"][0]
    bld = CircuitBuilder(nq, 2)
    if nm == "reset":
        bld.reset(q)
        s = bld.to_circuit().ir.statements[0]
        ctx.seen(case)
        if not (int(s.qubit.index) == q and s.generator.__name__ == "reset" and int(s.arguments[0].index) == q):
            ctx.oracle_fail("measure", case, "reset does not act on the named qubit", None)
        return
    b = case["args"][1]
    getattr(bld, nm)(q, Bit(b))
    s = bld.to_circuit().ir.statements[0]
    ctx.seen(case)
    ok = (int(s.qubit.index) == q and int(s.bit.index) == b and
          np.allclose(s.axis.value, [0, 0, 1], atol=0) and s.generator.__name__ == nm and
          [type(a).__name__ for a in s.arguments] == ["Qubit", "Bit"] and
          int(s.arguments[0].index) == q and int(s.arguments[1].index) == b)
    if not ok:
        ctx.oracle_fail("measure", case, "measure does not act in the computational basis on the named qubit and bit", None)


def replay(ctx, payload):
    from harness import framework

    suite, case = framework.replay_target(payload)
    if case is None:
        return framework.replay_nothing(payload)
    if case["name"] in ("measure", "measure_z", "reset"):
        check_measure_reset(ctx, case)
        return framework.replay_result(ctx)
    replay_parser_history(case)
    o = make_gate_checked(ctx, case)
    if o is not None:
        check_gate_case(ctx, case, o, model.call_many([gate_request(case)])[0])
    return framework.replay_result(ctx, gate=repr(o))
