"""C06 — replacement checking is sound, complete, and failure leaves the circuit intact."""
from __future__ import annotations

import math

import numpy as np

from harness import gen, implrun, model, oracles, ser, sexp
from harness.sexp import Sym

ID = "C06"
TRUSTED = ["extraction + OCaml float dictionary; numpy allclose modelled by its definition",
           "oracle: numpy distance up to global phase on the gate's own qubits, with the tolerance gap respected"]
ASSUMPTIONS = ["between 1e-9 and 1e-4 (distance up to phase) nothing is demanded: that is what 'numerical tolerance' means"]
CLASSIFIERS: dict = {}
PI = math.pi


def gate_objs(specs):
    return [gen.build_stmt(s) for s in specs]


def exact_decomposition(rng, gspec):
    """(list of specs) equal to the gate up to global phase, built from the library's own decomposers"""
    g = gen.build_stmt(gspec)
    cls = type(g).__name__
    if cls == "BlochSphereRotation":
        d = implrun.decomposer(rng.choice(["zyz", "xyx", "zxz", "mckay"]))
    elif cls == "ControlledGate" and type(g.target_gate).__name__ == "BlochSphereRotation":
        d = implrun.decomposer("cnot")
    else:
        return None
    try:
        out = d.decompose(g)
    except Exception:  # noqa: BLE001
        return None
    specs = []
    for h in out:
        if h is g:
            return None
        a = h.arguments
        vals = [int(x.index) if type(x).__name__ == "Qubit" else float(x.value) for x in a]
        specs.append(["named", h.generator.__name__, vals])
    return specs


def perturb(rng, specs, qubits, nq):
    """one perturbation of a candidate list -> (kind, new specs)"""
    kinds = ["angle", "drop", "dup", "reorder", "foreign", "relphase", "swapct"]
    k = rng.choice(kinds)
    s = [list(x) for x in specs]
    if k == "angle":
        idx = [i for i, x in enumerate(s) if x[0] == "named" and x[1] in ("Rx", "Ry", "Rz")]
        if not idx:
            return None
        i = rng.choice(idx)
        eps = rng.choice([1e-12, 1e-10, 1e-9, 1e-8, 1e-7, 1e-6, 1e-5, 1e-4, 1e-3, 1e-2, 0.1, 1.0]) * rng.choice([-1, 1])
        s[i] = ["named", s[i][1], [s[i][2][0], s[i][2][1] + eps]]
        return f"angle{eps:+.0e}", s
    if k == "drop" and len(s) >= 1:
        del s[rng.randrange(len(s))]
        return "drop", s
    if k == "dup" and len(s) >= 1:
        i = rng.randrange(len(s))
        s.insert(i, list(s[i]))
        return "dup", s
    if k == "reorder" and len(s) >= 2:
        i = rng.randrange(len(s) - 1)
        s[i], s[i + 1] = s[i + 1], s[i]
        return "reorder", s
    if k == "foreign":
        others = [q for q in range(nq) if q not in qubits]
        if not others:
            return None
        s.insert(rng.randint(0, len(s)), ["named", rng.choice(["I", "H", "X"]), [rng.choice(others)]])
        return "foreign", s
    if k == "relphase":
        q = rng.choice(qubits)
        s.insert(rng.randint(0, len(s)), ["named", "Rz", [q, rng.choice([1e-3, 0.1, 1.0, PI])]])
        return "relphase", s
    if k == "swapct":
        idx = [i for i, x in enumerate(s) if x[0] == "named" and x[1] in ("CNOT", "CZ", "CR")]
        if not idx:
            return None
        i = rng.choice(idx)
        a = list(s[i][2])
        a[0], a[1] = a[1], a[0]
        s[i] = ["named", s[i][1], a]
        return "swapct", s
    return None


def impl_check(g, repl):
    from opensquirrel.decomposer.general_decomposer import check_gate_replacement

    try:
        check_gate_replacement(g, repl)
        return "accepted"
    except ValueError:
        return "value"
    except Exception as e:  # noqa: BLE001
        return implrun.errkind(e)


def pair_suite(ctx):
    rng = ctx.rng
    items = []
    for _ in range(ctx.pick(500, 6000)):
        nq = rng.randint(2, 4)
        r = rng.random()
        if r < 0.5:
            q = rng.randrange(nq)
            gs = ["bsr", q, gen.rand_axis(rng), rng.uniform(-PI, PI), rng.uniform(-PI, PI)] if rng.random() < 0.7 else \
                ["named", rng.choice(gen.ONEQ_NOPARAM), [q]]
        elif r < 0.85:
            c, t = gen.rand_qubits(rng, nq, 2)
            gs = ["ctrl", c, ["bsr", t, gen.rand_axis(rng), rng.uniform(-PI, PI), rng.uniform(-PI, PI)]] if rng.random() < 0.6 else \
                ["named", rng.choice(["CNOT", "CZ"]), [c, t]]
        else:
            gs = ["named", "I", [rng.randrange(nq)]] if rng.random() < 0.6 else ["bsr", rng.randrange(nq), [1.0, 0.0, 0.0], 0.0, rng.uniform(-PI, PI)]
        exact = exact_decomposition(rng, gs)
        if exact is None:
            continue
        qubits = gen.spec_qubits(gs)
        variants = [("exact", exact)]
        if rng.random() < 0.3:
            variants.append(("empty", []))
        for _ in range(2):
            p = perturb(rng, exact, qubits, nq)
            if p:
                variants.append(p)
        for kind, cand in variants:
            items.append({"nq": nq, "gate": gs, "kind": kind, "cand": cand})
    gates = [gen.build_stmt(it["gate"]) for it in items]
    cands = [gate_objs(it["cand"]) for it in items]
    mres = model.call_many([pair_request(g, c) for g, c in zip(gates, cands)])
    ctx.suite("pairs", cases=len(items))
    for it, g, c, mr in zip(items, gates, cands, mres):
        check_pair(ctx, it, g, c, mr)
    if items:
        ctx.sample(items[0])


def pair_request(g, c):
    return ["check_replacement", ser.ser_gate(g), [ser.ser_gate(h) for h in c]]


def check_pair(ctx, it, g, c, mr):
    margin, r = mr
    ctx.seen(it)
    ctx.bump("kind_" + it["kind"].split("+")[0].split("-")[0][:8])
    im = impl_check(g, c)
    mv = ser.canon(r)
    mo = "accepted" if mv[0] == "ok" else mv[1]
    if im != mo:
        ctx.disagree("pairs", it, f"impl {im} model {mo}", margin)
    eq = im == mo
    ctx.bump("impl_" + im)
    qs = oracles.stmt_qubits(g)
    foreign = any(q not in qs for h in c for q in oracles.stmt_qubits(h))
    if foreign:
        if im == "accepted":
            ctx.oracle_fail("pairs", it, "a proposal touching other qubits was accepted", eq)
        return
    qm = {q: i for i, q in enumerate(sorted(qs))}
    d = oracles.phase_dist(oracles.kraus_ops([g], qm, []), oracles.kraus_ops(c, qm, []))
    if d <= 1e-9 and im != "accepted":
        ctx.oracle_fail("pairs", it, f"a proposal equal to the gate up to global phase (distance {d:.2g}) was rejected ({im})", eq)
    elif d > 1e-4 and im == "accepted":
        ctx.oracle_fail("pairs", it, f"a proposal differing by {d:.3g} was accepted", eq)


class FaultyDecomposer:
    """ZYZ before gate number k, wrong (or raising) at gate number k"""

    def __init__(self, k, mode):
        from opensquirrel.decomposer.aba_decomposer import ZYZDecomposer

        self.inner = ZYZDecomposer()
        self.k, self.mode, self.n = k, mode, 0

    def decompose(self, g):
        from opensquirrel.default_gates import H

        i = self.n
        self.n += 1
        if i == self.k:
            if self.mode == "raise":
                raise RuntimeError("decomposer failed")
            if self.mode == "wrong":
                return [H(g.get_qubit_operands()[0])]
            if self.mode == "foreign":
                return [g, H(max(q.index for q in g.get_qubit_operands()) + 1)]
        return self.inner.decompose(g)


def loop_suite(ctx):
    rng = ctx.rng
    n_cases = 0
    for _ in range(ctx.pick(150, 1500)):
        nq = rng.randint(2, 3)
        specs = gen.rand_circuit_spec(rng, nq, 1, rng.randint(2, 7), max_ctrl=1, allow_mat=False, wide_angles=False)
        gate_pos = [i for i, s in enumerate(specs) if gen.is_gate_spec(s)]
        if not gate_pos:
            continue
        for k in range(len(gate_pos)):
            mode = rng.choice(["wrong", "raise", "foreign"])
            n_cases += check_loop(ctx, {"nq": nq + 1, "nb": 1, "specs": specs, "k": k, "mode": mode})
    ctx.suite("loop_failure_at_k", cases=n_cases)


def check_loop(ctx, case):
    """a decomposer that is wrong / raises / touches a foreign qubit at gate number k; returns 1 if the case was run"""
    from opensquirrel.decomposer.general_decomposer import Decomposer

    specs, k, mode, n = case["specs"], case["k"], case["mode"], case["nq"]
    gate_pos = [i for i, s in enumerate(specs) if gen.is_gate_spec(s)]
    c = gen.build_circuit(n, 1, specs)
    before = list(c.ir.statements)
    ref = list(gen.build_circuit(n, 1, specs).ir.statements)      # independent of objects the pass may mutate
    kth = before[gate_pos[k]]
    if mode == "wrong" and type(kth).__name__ == "BlochSphereRotation" and \
            oracles.phase_dist(oracles.gate_small(kth)[0], oracles.STD1["H"]) < 1e-3:
        return 0
    fd = FaultyDecomposer(k, mode)
    dec = type("D", (Decomposer,), {"decompose": lambda self, g: fd.decompose(g)})()
    try:
        c.decompose(dec)
        err = None
    except Exception as e:  # noqa: BLE001
        err = type(e).__name__
    after = list(c.ir.statements)
    ctx.seen(case)
    # model expectation (theorem decompose_failure_state): rewritten prefix ++ offending gate ++ untouched suffix
    pre_specs = specs[:gate_pos[k]]
    cp = gen.build_circuit(n, 1, pre_specs)
    (m, r), = model.call_many([["decompose", Sym("zyz"), ser.ser_stmts(cp.ir.statements)]])
    merr, mpost = implrun.model_outcome(["decompose", "zyz"], r)
    if merr is None:
        suffix = implrun.canon_post(before[gate_pos[k]:])
        got = implrun.canon_post(after)
        want_len = len(mpost) + len(suffix)
        d = None
        if len(got) != want_len:
            d = f"state has {len(got)} statements, model predicts {want_len}"
        else:
            d = ser.struct_diff(strip_oids(got[:len(mpost)]), strip_oids(mpost), 2e-7) or \
                ser.struct_diff(strip_oids(got[len(mpost):]), strip_oids(suffix), 0)
        if d:
            ctx.disagree("loop", case, d, m)
        eq = d is None
    else:
        eq = None
    if err is None:
        ctx.oracle_fail("loop", case, "a wrong / raising proposal did not make the pass fail", eq)
        return 1
    # the circuit is left well-formed and equivalent to the original
    for s in after:
        qs = oracles.stmt_qubits(s)
        if len(set(qs)) != len(qs) or any(not (0 <= q < n) for q in qs):
            ctx.oracle_fail("loop", case, f"ill-formed statement after the failure: {s!r}", eq)
            break
    else:
        ok, why = oracles.kraus_equivalent(ref, after, 2e-6 * (1 + len(after)))
        if not ok:
            ctx.oracle_fail("loop", case, "after the rejected proposal the circuit is not equivalent to the original: " + why, eq)
        # the suffix is untouched (same objects)
        tail = before[gate_pos[k]:]
        if after[-len(tail):] != tail or any(x is not y for x, y in zip(after[-len(tail):], tail)):
            ctx.oracle_fail("loop", case, "statements after the failing gate were touched", eq)
    return 1


def script_suite(ctx):
    """history-independence of acceptance: the same gate several times in one pass, the decomposer proposing a correct
    list for the earlier occurrences and a near-miss (one angle off by 1e-6..1e-3, below the resolution of repr) or the
    correct list again for a later one; the pass must fail exactly when some proposal is rejected on its own"""
    rng = ctx.rng
    n_cases = 0
    for _ in range(ctx.pick(120, 1200)):
        nq = rng.randint(1, 3)
        r = rng.random()
        q = rng.randrange(nq)
        if r < 0.5:
            gs = ["named", rng.choice(gen.ONEQ_NOPARAM), [q]]
        else:
            gs = ["bsr", q, gen.rand_axis(rng), rng.uniform(-PI, PI), rng.uniform(-PI, PI)]
        exact = exact_decomposition(rng, gs)
        if not exact:
            continue
        reps = rng.randint(2, 4)
        k = rng.randrange(1, reps)
        cand_idx = [i for i, sp in enumerate(exact) if any(isinstance(v, float) for v in sp[2])]
        if not cand_idx:
            continue
        idx = rng.choice(cand_idx)
        delta = rng.choice([1.5e-6, 3e-6, 4e-6, 2e-5, 1e-4, 1e-3]) * rng.choice([-1, 1])
        n_cases += check_script(ctx, {"nq": nq, "script_gate": gs, "exact": exact, "reps": reps, "k": k, "idx": idx, "delta": delta})
    ctx.suite("scripted_pass", cases=n_cases)


def check_script(ctx, case):
    from opensquirrel.decomposer.general_decomposer import Decomposer

    gs, exact, reps, k, idx, delta = (case[x] for x in ("script_gate", "exact", "reps", "k", "idx", "delta"))
    near = [list(sp) for sp in exact]
    vals = list(near[idx][2])
    j = max(i for i, v in enumerate(vals) if isinstance(v, float))
    vals[j] = vals[j] + delta
    near[idx] = [near[idx][0], near[idx][1], vals]
    c = gen.build_circuit(case["nq"], 1, [gs] * reps)
    before = list(c.ir.statements)
    proposals = [gate_objs(near if i == k else exact) for i in range(reps)]
    alone = [impl_check(gen.build_stmt(gs), gate_objs(near if i == k else exact)) for i in range(reps)]
    state = {"n": 0}

    def dec_fn(self, g):
        i = state["n"]
        state["n"] += 1
        return proposals[i] if i < reps else [g]

    dec = type("D", (Decomposer,), {"decompose": dec_fn})()
    try:
        c.decompose(dec)
        err = None
    except Exception as e:  # noqa: BLE001
        err = type(e).__name__
    ctx.seen(case)
    first_bad = next((i for i, a in enumerate(alone) if a != "accepted"), None)
    if first_bad is None and err is not None:
        ctx.oracle_fail("script", case, f"every proposal is accepted on its own but the pass failed with {err}", None)
    elif first_bad is not None and err is None:
        after = list(c.ir.statements)
        ok, why = oracles.kraus_equivalent(before, after, 1e-9)
        ctx.oracle_fail("script", case, f"proposal number {first_bad} is rejected on its own ({alone[first_bad]}) but was spliced in during "
                        f"the pass (earlier occurrences of the same gate had been accepted); circuit equivalent within 1e-9: {ok} {why}", None)
    elif first_bad is not None:
        after = list(c.ir.statements)
        tail = before[first_bad:]
        if after[-len(tail):] != tail or any(x is not y for x, y in zip(after[-len(tail):], tail)):
            ctx.oracle_fail("script", case, "statements from the rejected gate on were touched", None)
    return 1


def strip_oids(stmts):
    out = []
    for s in stmts:
        s = list(s)
        if s and s[0] in ("gate", "measure", "reset"):
            s[1] = 0
        out.append(s)
    return out


def replace_suite(ctx):
    rng = ctx.rng
    cases = []
    for _ in range(ctx.pick(150, 1500)):
        nq = rng.randint(2, 4)
        specs = gen.rand_circuit_spec(rng, nq, 1, rng.randint(1, 8), max_ctrl=1, allow_mat=True, wide_angles=False)
        for _ in range(rng.randint(1, 3)):
            specs.insert(rng.randint(0, len(specs)), ["named", rng.choice(["CNOT", "CZ"]), gen.rand_qubits(rng, nq, 2)])
        target, rule = rng.choice([("CNOT", "cnot_to_hczh"), ("CZ", "cz_to_hcnoth"), ("CNOT", "wrong"), ("CNOT", "shared")])
        cases.append({"nq": nq, "nb": 1, "specs": specs, "pass": ["replace", target, rule]})
    from harness.props import decomp_common as dc

    evals = [dc.evaluate(c) for c in cases]
    eqs = dc.compare_with_model(ctx, "replace", cases, evals)
    for case, ev, eq in zip(cases, evals, eqs):
        check_replace(ctx, case, ev, eq)
    ctx.suite("replace", cases=len(cases))


def check_replace(ctx, case, ev, eq):
    ctx.seen(case)
    target, rule = case["pass"][1], case["pass"][2]
    before, after = ev["before"], ev["after"]
    has_target = any(getattr(s, "generator", None) is not None and s.generator.__name__ == target for s in before)
    if rule == "wrong":
        if has_target and ev["err"] is None:
            ctx.oracle_fail("replace", case, "a wrong replacement rule was accepted", eq)
        if ev["err"] is not None:
            ok, why = oracles.kraus_equivalent(ev.get("ref", before), after, 2e-6 * (1 + len(after)))
            if not ok:
                ctx.oracle_fail("replace", case, "after the rejected rule the circuit is not equivalent to the original: " + why, eq)
        return
    if ev["err"] is not None:
        ctx.oracle_fail("replace", case, f"a correct replacement rule was rejected ({ev['err']})", eq)
        return
    # only gates with the requested name are rewritten; others are the same objects, in place
    others_b = [s for s in before if not (getattr(s, "generator", None) is not None and s.generator.__name__ == target)]
    ids_after = [id(s) for s in after]
    pos = [ids_after.index(id(s)) if id(s) in ids_after else -1 for s in others_b]
    if -1 in pos or pos != sorted(pos):
        ctx.oracle_fail("replace", case, "a statement that does not have the requested name was rewritten or moved", eq)
        return
    if any(getattr(s, "generator", None) is not None and s.generator.__name__ == target and id(s) in {id(x) for x in before} for s in after):
        ctx.oracle_fail("replace", case, "a gate with the requested name was left in place", eq)
        return
    ok, why = oracles.kraus_equivalent(ev.get("ref", before), after, 2e-6 * (1 + len(after)))
    if not ok:
        ctx.oracle_fail("replace", case, "replacement changed the operation: " + why, eq)


SUITES = {"pairs": pair_suite, "loop": loop_suite, "script": script_suite, "replace": replace_suite}


def run(ctx, last=None):
    """last: stop after that suite (a replay re-creates the history of a case by running the suites up to its own)"""
    from harness.props import sem_common

    sem_common.run_semantics_suite(ctx, ctx.pick(60, 600))
    ctx.rule("(gate, candidate list) pairs from exact decompositions, their perturbations by 1e-12..1 in one angle, a dropped/"
             "duplicated/reordered element, control/target swapped, a relative phase on one operand, an extra gate on a foreign "
             "qubit, the empty list; for every gate position k a decomposer correct before k and wrong/raising/foreign at k; "
             "replace() with correct, wrong and object-sharing rules; non-trivial = every case")
    for name, suite in SUITES.items():
        suite(ctx)
        if name == last:
            break


def replay_alone(ctx, suite, case):
    from harness.props import decomp_common as dc

    if suite == "pairs":
        g, c = gen.build_stmt(case["gate"]), gate_objs(case["cand"])
        check_pair(ctx, case, g, c, model.call_many([pair_request(g, c)])[0])
    elif suite == "loop":
        check_loop(ctx, case)
    elif suite == "script":
        check_script(ctx, case)
    else:
        ev = dc.evaluate(case)
        check_replace(ctx, case, ev, dc.compare_with_model(ctx, "replace", [case], [ev])[0])


def replay(ctx, payload):
    from harness import framework
    from harness.props import sem_common

    suite, case = framework.replay_target(payload)
    if case is None:
        return framework.replay_nothing(payload)
    if sem_common.is_semantics(suite, case) and "gate" not in case:
        return sem_common.replay(ctx, case)
    suite = "pairs" if "gate" in case else "script" if "script_gate" in case else "loop" if "mode" in case else "replace" if "pass" in case else None
    if suite is None:
        return framework.replay_nothing(payload, "case of no suite of this property")
    # the library may share state between calls (a cache filled by the gates of earlier cases): first the history of the
    # run again, then the case on its own
    extra = framework.rerun_history(ctx, payload, case, lambda scratch: run(scratch, last=suite))
    if not (ctx.oracle_failures or ctx.disagreements):
        replay_alone(ctx, suite, case)
    return framework.replay_result(ctx, **extra)
