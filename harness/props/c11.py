"""C11 — schedule export reproduces the circuit operation for operation."""
from __future__ import annotations

import math

import numpy as np

from harness import gen, implrun, model, oracles, ser, sexp
from harness.props import text_common as tc

ID = "C11"
TRUSTED = ["quantify-scheduler 0.28.1 enters as the list of operations read back from the Schedule (gate_info)",
           "Python round(x, 5) and math.degrees modelled (correctly rounded decimal; x * 180/pi)",
           "extraction + OCaml float dictionary"]
ASSUMPTIONS = ["operations compared up to global phase and the 5-decimal degree rounding"]
CLASSIFIERS: dict = {}
PI = math.pi
ATOL = 1e-7


def export(c):
    from opensquirrel.exporter.export_format import ExportFormat

    try:
        sched, bm = c.export(ExportFormat.QUANTIFY_SCHEDULER)
    except Exception as e:  # noqa: BLE001
        return ("err", implrun.errkind(e))
    ops = []
    for s in sched.schedulables.values():
        gi = sched.operations[s["operation_id"]].data["gate_info"]
        t = gi["operation_type"]
        qs = [int(x[2:-1]) for x in gi["device_elements"]]
        if t == "Rxy":
            ops.append(["rxy", float(gi["theta"]), float(gi["phi"]), qs[0]])
        elif t == "Rz":
            ops.append(["rz", float(gi["theta"]), qs[0]])
        elif t in ("CNOT", "CZ"):
            ops.append([t.lower(), qs[0], qs[1]])
        elif t == "measure":
            ops.append(["measure", qs[0], int(gi["acq_channel_override"]), int(gi["acq_index"])])
        elif t == "reset":
            ops.append(["reset", qs[0]])
        else:
            ops.append(["unknown", t])
    return ("ok", ops, [None if a is None else [int(a), int(b)] for a, b in bm])


def deg_close(a, b, tol=2.5e-5):
    d = (a - b) % 360.0
    return min(d, 360.0 - d) <= tol


def ops_diff(io, mo):
    if len(io) != len(mo):
        return f"{len(io)} operations vs model {len(mo)}"
    for a, b in zip(io, mo):
        if a[0] != b[0]:
            return f"{a} vs model {b}"
        if a[0] == "rxy":
            if not (deg_close(a[1], b[1]) and deg_close(a[2], b[2]) and a[3] == b[3]):
                return f"{a} vs model {b}"
        elif a[0] == "rz":
            if not (deg_close(a[1], b[1]) and a[2] == b[2]):
                return f"{a} vs model {b}"
        elif a != b:
            return f"{a} vs model {b}"
    return None


def op_matrix(op):
    if op[0] == "rxy":
        th, ph = math.radians(op[1]), math.radians(op[2])
        return oracles.rot((math.cos(ph), math.sin(ph), 0.0), th), [op[3]]
    if op[0] == "rz":
        return oracles.rot((0, 0, 1), math.radians(op[1])), [op[2]]
    if op[0] == "cnot":
        return oracles.std_gate("CNOT", [op[1], op[2]])
    if op[0] == "cz":
        return oracles.std_gate("CZ", [op[1], op[2]])
    raise ValueError(op)


def expressible(s):
    """is the statement exactly expressible, per the property text"""
    cls = type(s).__name__
    if cls in ("Measure", "Reset", "Comment"):
        return True
    if cls == "MatrixGate":
        return False
    if cls == "BlochSphereRotation":
        x, y, z = (abs(float(v)) for v in s.axis.value)
        return z < ATOL or (x < ATOL and y < ATOL)
    if cls == "ControlledGate":
        t = s.target_gate
        if type(t).__name__ != "BlochSphereRotation":
            return False
        m, _ = oracles.gate_small(t)
        return float(np.abs(m - oracles.PX).max()) < 1e-6 or float(np.abs(m - oracles.PZ).max()) < 1e-6
    return False


def clearly_inexpressible(s):
    cls = type(s).__name__
    if cls == "MatrixGate":
        return True
    if cls == "BlochSphereRotation":
        x, y, z = (abs(float(v)) for v in s.axis.value)
        return z > 1e-6 and (x > 1e-6 or y > 1e-6)
    if cls == "ControlledGate":
        t = s.target_gate
        if type(t).__name__ != "BlochSphereRotation":
            return True
        m, _ = oracles.gate_small(t)
        return float(np.abs(m - oracles.PX).max()) > 1e-4 and float(np.abs(m - oracles.PZ).max()) > 1e-4
    return False


def check_case(ctx, case, c, mr):
    pub = {k: v for k, v in case.items() if not k.startswith("_")}
    ctx.seen(tc.seen_key(pub), len(case["specs"]) > 0)
    res = export(c)
    margin, r = mr
    mv = ser.canon(r)
    if res[0] == "ok":
        if mv[0] != "ok":
            d = f"impl exported, model {mv}"
        else:
            mops = mv[1][0]
            mbm = [None if x == "none" else list(x[1]) for x in mv[1][1]]
            d = ops_diff(res[1], mops) or (None if mbm == res[2] else f"bit map {res[2]} vs model {mbm}")
    else:
        d = None if (mv[0] == "err" and mv[1] == res[1]) else f"impl {res} model {str(mv)[:200]}"
    if d:
        ctx.disagree("qs", pub, d, margin)
    eq = d is None
    stmts = [s for s in c.ir.statements if type(s).__name__ != "Comment"]
    if any(clearly_inexpressible(s) for s in stmts):
        if res[0] == "ok":
            ctx.oracle_fail("qs", pub, "a statement that cannot be expressed was dropped or approximated instead of raising", eq)
        elif res[1] != "export":
            ctx.oracle_fail("qs", pub, f"unsupported statement raised {res[1]}, not the export error", eq)
        return
    if not all(expressible(s) for s in stmts):
        return          # inside a tolerance band: nothing demanded
    if res[0] != "ok":
        ctx.oracle_fail("qs", pub, f"expressible circuit refused: {res[1]}", eq)
        return
    ops, bm = res[1], res[2]
    if len(ops) != len(stmts):
        ctx.oracle_fail("qs", pub, f"{len(ops)} operations for {len(stmts)} statements", eq)
        return
    counts: dict[int, int] = {}
    last: dict[int, list] = {}
    for s, op in zip(stmts, ops):
        cls = type(s).__name__
        if cls == "Measure":
            q, b = int(s.qubit.index), int(s.bit.index)
            want = ["measure", q, q, counts.get(q, 0)]
            if op != want:
                ctx.oracle_fail("qs", pub, f"measurement exported as {op}, expected {want}", eq)
                return
            last[b] = [counts.get(q, 0), q]
            counts[q] = counts.get(q, 0) + 1
        elif cls == "Reset":
            if op != ["reset", int(s.qubit.index)]:
                ctx.oracle_fail("qs", pub, f"reset exported as {op}", eq)
                return
        else:
            try:
                m, mq = op_matrix(op)
            except ValueError:
                ctx.oracle_fail("qs", pub, f"gate exported as {op}", eq)
                return
            g, gq = oracles.gate_small(s)
            if mq != gq:
                ctx.oracle_fail("qs", pub, f"operation {op} acts on {mq}, the statement on {gq}", eq)
                return
            dist = oracles.phase_dist(m, g) if len(gq) == 1 else float(np.abs(m - g).max())
            if dist > 2e-6:
                ctx.oracle_fail("qs", pub, f"operation {op} differs from the statement {s!r} by {dist:.3g}", eq)
                return
    want_bm = [last.get(b) for b in range(c.bit_register_size)]
    if bm != want_bm:
        ctx.oracle_fail("qs", pub, f"bit map {bm}, expected {want_bm}", eq)


def qs_spec(rng, nq, nb):
    r = rng.random()
    q = rng.randrange(nq)
    if r < 0.25:
        ph = rng.choice([0.0, PI / 2, PI, -PI / 2, rng.uniform(-PI, PI)])
        z = rng.choice([0.0, 0.0, 0.0, 1e-9, -1e-8, 1e-12])
        return ["bsr", q, [math.cos(ph), math.sin(ph), z], gen.rand_angle(rng, False), 0.0]
    if r < 0.4:
        sgn = rng.choice([1.0, -1.0])
        eps = rng.choice([0.0, 0.0, 1e-9, -1e-8])
        return ["bsr", q, [eps, 0.0, sgn], gen.rand_angle(rng, False), rng.choice([0.0, 0.3])]
    if r < 0.5:
        return ["named", rng.choice(["X", "Y", "Z", "X90", "mX90", "Y90", "S", "T", "Rz", "Rx", "Ry", "I"]), [q]] \
            if False else ["named", rng.choice(["X", "Y", "Z", "X90", "mX90", "Y90", "mY90", "S", "Sdag", "T", "Tdag", "I"]), [q]]
    if r < 0.58:
        return ["named", rng.choice(gen.ONEQ_PARAM), [q, gen.rand_angle(rng)]]
    if r < 0.63:
        return rng.choice([["named", "H", [q]], ["bsr", q, gen.rand_axis(rng), 1.0, 0.0], ["bsr", q, [1.0, 0.0, 1e-3], 1.0, 0.0]])
    if r < 0.8 and nq >= 2:
        a, b = gen.rand_qubits(rng, nq, 2)
        k = rng.random()
        if k < 0.35:
            return ["named", rng.choice(["CNOT", "CZ"]), [a, b]]
        if k < 0.6:      # controlled X / Z with right and wrong phase, negated axis forms
            ax, ph = rng.choice([([1, 0, 0], PI / 2), ([1, 0, 0], 0.0), ([0, 0, 1], PI / 2), ([0, 0, 1], -PI / 2),
                                 ([-1, 0, 0], -PI / 2), ([0, 0, -1], PI / 2), ([0, 1, 0], PI / 2), ([1, 0, 0], PI / 2 + 1e-9)])
            ang = PI if ax[0] >= 0 and ax[2] >= 0 else -PI
            return ["ctrl", a, ["bsr", b, [float(x) for x in ax], ang, ph]]
        if k < 0.8:
            return ["named", "CR", [a, b, gen.rand_angle(rng)]]
        if nq >= 3 and rng.random() < 0.5:      # controlled gates whose target is not a rotation: unsupported
            c3 = [x for x in range(nq) if x not in (a, b)][0]
            return rng.choice([["ctrl", c3, ["named", "CNOT", [a, b]]], ["ctrl", c3, ["mat", [a, b], gen.perm_matrix([0, 1, 3, 2])]],
                               ["ctrl", c3, ["ctrl", a, ["bsr", b, [1.0, 0.0, 0.0], PI, PI / 2]]]])
        return ["mat", [a, b], gen.perm_matrix([0, 1, 3, 2])]
    if r < 0.92 and nb > 0:
        return ["measure", q, rng.randrange(nb)]
    if r < 0.97:
        return ["reset", q]
    return ["comment", "c"]


def run(ctx):
    rng = ctx.rng
    ctx.rule("circuits over rotations with axes in/near the xy-plane and on +-z (incl. negated-axis forms produced by merging), "
             "other axes, controlled gates with X/Z targets of right and wrong phase, repeated measurements into same/"
             "different bits, resets; fresh and after merge / decompose / map; non-trivial = non-empty circuit")
    cases, circuits = [], []
    pres = [[], [], [["merge"]], [["map", "perm"]], [["decompose", "mckay"]], [["merge"], ["map", "perm"]]]
    for _ in range(ctx.pick(400, 5000)):
        nq = rng.randint(1, 4)
        nb = rng.randint(0, 3)
        n = rng.randint(0, 8)
        specs = [qs_spec(rng, nq, nb) for _ in range(n)]
        if rng.random() < 0.5:      # keep only expressible statements so that whole exports are exercised
            specs = [s for s in specs if s[0] in ("measure", "reset", "comment") or
                     (s[0] == "named" and s[1] in ("X", "Y", "Z", "X90", "mX90", "Y90", "mY90", "S", "Sdag", "T", "Tdag", "I", "Rx", "Ry", "Rz", "CNOT", "CZ")) or
                     (s[0] == "bsr" and (abs(s[2][2]) < 1e-7 or (abs(s[2][0]) < 1e-7 and abs(s[2][1]) < 1e-7)))]
        pre = rng.choice(pres)
        c = gen.build_circuit(nq, nb, specs)
        applied = []
        if not tc.apply_pre(rng, c, pre, applied):
            continue
        cases.append({"nq": nq, "nb": nb, "specs": specs, "pre": pre, "pre_applied": applied})
        circuits.append(c)
    # the merged negated-axis form explicitly
    for a, b in ((-0.5, -0.25), (0.5, 0.25), (-3.0, -0.1), (1.0, -2.5)):
        specs = [["named", "Rz", [0, a]], ["named", "Rz", [0, b]], ["measure", 0, 0]]
        c = gen.build_circuit(1, 1, specs)
        c.merge_single_qubit_gates()
        cases.append({"nq": 1, "nb": 1, "specs": specs, "pre": [["merge"]]})
        circuits.append(c)
    # history: for a third of the circuits export first, then relabel the qubits in place; the export that is checked
    # below is then the SECOND export of the same circuit object
    for case, c in zip(cases, circuits):
        if rng.random() < 0.35 and c.qubit_register_size >= 2:
            export(c)
            perm = list(range(c.qubit_register_size))
            rng.shuffle(perm)
            try:
                implrun.apply_pass(c, ["map", perm])
                case["history"] = ["export", ["map", perm], "export"]
            except Exception:  # noqa: BLE001
                pass
    mres = model.call_many([["export_qs", c.qubit_register_size, c.bit_register_size, ser.ser_stmts(c.ir.statements)] for c in circuits])
    ctx.suite("qs", cases=len(cases))
    for case, c, mr in zip(cases, circuits, mres):
        check_case(ctx, case, c, mr)
    ctx.sample(cases[0])
    ctx.sample({"export": str(export(circuits[-1]))[:300]})


def replay(ctx, payload):
    from harness import framework

    suite, case = framework.replay_target(payload)
    if case is None:
        return framework.replay_nothing(payload)
    c = gen.build_circuit(case["nq"], case["nb"], case["specs"])
    if not tc.replay_pre(c, case):
        return {"fails": False, "note": "an earlier pass raised: the run skips such circuits (C01's concern)"}
    tc.replay_history(c, case, export)
    mres = model.call_many([["export_qs", c.qubit_register_size, c.bit_register_size, ser.ser_stmts(c.ir.statements)]])
    check_case(ctx, case, c, mres[0])
    return framework.replay_result(ctx, export=str(export(c))[:1000])
