"""The formal semantics in which the whole-circuit theorems are stated (Theory/Kraus.v = Model/Sem.v at R, by
Proofs/SemGenP.kraus_gen_is_kraus), run as extracted code against the independent numpy Kraus simulation used by
the oracles: same operator, entry by entry, for random circuits with measurements and resets and random outcome
assignments. This ties the SPECIFICATION side of the theorems to the notion of "operation" the checks test."""
from __future__ import annotations

import numpy as np

from harness import gen, model, oracles, ser


def mat_from(res):
    v = ser.canon(res)
    if v[0] != "ok":
        return ("err", v[1])
    return ("ok", np.array([[complex(a, b) for a, b in row] for row in v[1]]))


def run_semantics_suite(ctx, n_cases: int) -> None:
    rng = ctx.rng
    cases, reqs, circuits = [], [], []
    for _ in range(n_cases):
        nq = rng.randint(1, 3)
        nb = 2
        specs = gen.rand_circuit_spec(rng, nq, nb, rng.randint(1, 7), max_ctrl=min(2, nq - 1) if nq > 1 else 0)
        specs = [s for s in specs if s[0] != "measure_z"]
        c = gen.build_circuit(nq, nb, specs)
        nbp = oracles.n_branch_points(c.ir.statements)
        outs = [rng.random() < 0.5 for _ in range(nbp)]
        cases.append({"kind": "semantics", "nq": nq, "specs": specs, "outcomes": outs})
        circuits.append(c)
        reqs.append(semantics_request(cases[-1], c))
    mres = model.call_many(reqs)
    for case, c, mr in zip(cases, circuits, mres):
        check_semantics(ctx, case, c, mr)
    ctx.suite("semantics_vs_simulation", cases=len(cases))


def semantics_request(case, c):
    return ["kraus", case["nq"], case["outcomes"], ser.ser_stmts(c.ir.statements)]


def check_semantics(ctx, case, c, mr) -> None:
    margin, r = mr
    ctx.seen(case, oracles.n_branch_points(c.ir.statements) > 0)
    st, M = mat_from(r)
    n = case["nq"]
    want = oracles.kraus_ops(c.ir.statements, {q: q for q in range(n)}, [int(b) for b in case["outcomes"]])
    if st != "ok":
        ctx.disagree("semantics", case, f"formal semantics undefined ({M}) on a circuit the simulation accepts", margin)
        return
    d = float(np.abs(M - want).max())
    if d > 1e-9:
        ctx.disagree("semantics", case, f"formal Kraus operator differs from the numpy simulation by {d:.3g}", margin)


def is_semantics(suite, case) -> bool:
    return suite == "semantics" or (isinstance(case, dict) and case.get("kind") == "semantics")


def replay(ctx, case) -> dict:
    """re-run one case of the semantics suite (shared by every property whose run() starts with it)"""
    from harness import framework

    c = gen.build_circuit(case["nq"], 2, case["specs"])
    mr, = model.call_many([semantics_request(case, c)])
    check_semantics(ctx, case, c, mr)
    return framework.replay_result(ctx)
