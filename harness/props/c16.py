"""C16 — gate and circuit equality agree with equality of operations."""
from __future__ import annotations

import itertools
import math

import numpy as np

from harness import gen, implrun, model, oracles, ser, sexp

ID = "C16"
TRUSTED = ["extraction + OCaml float dictionary; Python's dispatch of == modelled by explicit case analysis (gate_eq)",
           "oracle: numpy distance on the union of the operands (phase-sensitive for two rotations, up to phase otherwise)"]
ASSUMPTIONS = ["between 1e-9 and 1e-4 nothing is demanded (numerical tolerance)"]
PI = math.pi


def cls_asymmetric(f):
    """F17: == is dispatched on the class of the LEFT operand: BlochSphereRotation.__eq__ answers False for any
    non-rotation, while Gate.__eq__ (controlled / matrix gates) compares matrices. So for a rotation r and a
    matrix/controlled gate m denoting the same operation, r == m is False although m == r is True."""
    c = f["case"]
    return c.get("left_kind") == "BlochSphereRotation" and c.get("right_kind") != "BlochSphereRotation" and \
        "equal operations compare unequal" in f["detail"]


CLASSIFIERS = {"eq_dispatch_asymmetric": cls_asymmetric}


def kron_mat(a, b):
    m = np.kron(a, b)
    return [[[float(x.real), float(x.imag)] for x in row] for row in m]


def pool(rng, quick):
    P = []
    I2 = np.eye(2)
    X = oracles.PX
    # rotations and their representations
    rots = [([1.0, 0.0, 0.0], PI, PI / 2), ([0.0, 0.0, 1.0], PI / 2, 0.0), ([1.0, 1.0, 0.0], 1.0, 0.3), ([0.0, 1.0, 0.0], 0.0, 0.0),
            ([1.0, 0.0, 1.0], PI, PI / 2), ([0.3, -0.5, 0.8], -2.0, -1.0)]
    for ax, a, p in rots:
        for q in (0, 1):
            P.append(["bsr", q, ax, a, p])
            P.append(["bsr", q, [-x for x in ax], -a, p])
            if abs(a - PI) < 1e-12:
                P.append(["bsr", q, [-x for x in ax], a, p + PI])
                P.append(["bsr", q, [-x for x in ax], a, p])          # differs by a sign = global phase: told apart by phase
            if a == 0.0:
                P.append(["bsr", q, [0.0, 0.0, 1.0], 0.0, p])
                P.append(["bsr", q, [1.0, 0.0, 0.0], 0.0, p + 0.5])
            for eps in (1e-12, 1e-9, 1e-6, 1e-3, 1e-2):
                P.append(["bsr", q, ax, a + eps, p])
            P.append(["bsr", q, ax, a, p + 1e-3])
            P.append(["bsr", q, ax, a, p + 1e-12])
    P += [["named", n, [0]] for n in ("X", "Z", "H", "S", "I", "Rz")[:5]]
    P.append(["named", "Rz", [0, PI / 2]])
    # controlled vs matrix forms, operand orders, embeddings
    cnot = gen.perm_matrix([0, 1, 3, 2])
    cnot_rev = gen.perm_matrix([0, 3, 2, 1])
    cz = [[[1.0 if r == c else 0.0, 0.0] for c in range(4)] for r in range(4)]
    cz[3][3] = [-1.0, 0.0]
    P += [["named", "CNOT", [0, 1]], ["named", "CNOT", [1, 0]], ["mat", [0, 1], cnot], ["mat", [1, 0], cnot_rev],
          ["mat", [1, 0], cnot], ["named", "CZ", [0, 1]], ["named", "CZ", [1, 0]], ["mat", [0, 1], cz], ["mat", [1, 0], cz],
          ["ctrl", 0, ["bsr", 1, [1.0, 0.0, 0.0], PI, PI / 2]], ["ctrl", 0, ["bsr", 1, [1.0, 0.0, 0.0], PI, 0.0]],
          ["named", "CR", [0, 1, PI]], ["named", "CRk", [0, 1, 1]], ["named", "CR", [0, 1, PI + 1e-6]],
          ["mat", [1, 0], kron_mat(I2, X)], ["mat", [0, 1], kron_mat(X, I2)], ["mat", [2, 0], kron_mat(I2, X)],
          ["mat", [0, 2], cnot], ["named", "CNOT", [0, 2]], ["ctrl", 2, ["named", "CNOT", [0, 1]]],
          ["ctrl", 0, ["named", "CNOT", [2, 1]]], ["mat", [0, 1], kron_mat(I2, I2)], ["named", "I", [1]],
          ["mat", [0, 1], kron_mat(oracles.STD1["S"], I2)], ["mat", [0, 1], kron_mat(np.exp(0.7j) * X, I2)]]
    # under a control, a global phase of the target is a relative phase: these must compare UNEQUAL
    def scaled(m, z):
        return [[[(complex(re, im) * z).real, (complex(re, im) * z).imag] for re, im in row] for row in m]
    P += [["ctrl", 0, ["mat", [1, 2], cnot]], ["ctrl", 0, ["mat", [1, 2], scaled(cnot, -1)]], ["ctrl", 0, ["mat", [1, 2], scaled(cnot, 1j)]],
          ["ctrl", 0, ["ctrl", 1, ["named", "X", [2]]]], ["ctrl", 0, ["ctrl", 1, ["bsr", 2, [1.0, 0.0, 0.0], PI, 0.0]]],
          ["ctrl", 0, ["mat", [1, 2], kron_mat(I2, I2)]], ["ctrl", 0, ["mat", [1, 2], scaled(kron_mat(I2, I2), -1)]],
          ["ctrl", 1, ["mat", [0, 2], cnot]], ["ctrl", 1, ["mat", [0, 2], scaled(cnot, -1)]]]
    # the bare target of every controlled gate above, on the same operands, and the same operation written as a matrix
    # over all three qubits: compared with the controlled forms on a three-qubit union
    P += [["mat", [1, 2], cnot], ["named", "CNOT", [1, 2]], ["mat", [1, 2], kron_mat(I2, I2)], ["named", "CNOT", [2, 1]],
          ["mat", [2, 1], cnot_rev], ["named", "X", [2]], ["bsr", 2, [1.0, 0.0, 0.0], PI, 0.0], ["named", "I", [0]]]
    bare = gen.build_stmt(["mat", [1, 2], cnot])
    full = union_op(bare, {0: 0, 1: 1, 2: 2}, 3)
    rows = [[[float(x.real), float(x.imag)] for x in row] for row in full]
    for ops in ([0, 1, 2], [2, 1, 0]):
        cand = gen.build_stmt(["mat", ops, rows])
        if oracles.phase_dist(union_op(cand, {0: 0, 1: 1, 2: 2}, 3), full) < 1e-12:
            P.append(["mat", ops, rows])
    if not quick:
        for _ in range(25):
            P.append(gen.rand_gate_spec(rng, 3, max_ctrl=2))
    return P


def union_op(g, qm, n):
    m, ops = oracles.gate_small(g)
    return oracles.embed(n, m, [qm[q] for q in ops])


def py_eq(a, b):
    try:
        return bool(a == b)
    except Exception as e:  # noqa: BLE001
        return "raised " + type(e).__name__


def run(ctx):
    rng = ctx.rng
    ctx.rule("all ordered pairs from a pool of gates holding, for many operations, several representations (negated axis and "
             "angle, half turn with negated axis and shifted phase, identity with any axis, controlled vs matrix form, operands "
             "in different order, embedded on different operand sets) and near-misses (1e-12..1e-2, relative phases); circuit "
             "equality statement-wise; compare, map the circuit, compare again on the same gate objects (answers must be those of freshly built gates); non-trivial = pairs of distinct pool entries")
    P, objs = run_pairs_and_history(ctx)
    ctx.sample({"left": P[0], "right": P[1], "equal": py_eq(objs[0], objs[1])})
    # circuit equality is statement-wise
    n_c = 0
    for _ in range(ctx.pick(80, 800)):
        nq = rng.randint(1, 3)
        specs = gen.rand_circuit_spec(rng, nq, 1, rng.randint(0, 6), max_ctrl=1)
        check_circuit_eq(ctx, {"nq": nq, "specs": specs, "kind": "circuit"}, rng.randrange)
        n_c += 1
    ctx.suite("circuits", cases=n_c)
    # equality after compare -> map -> compare on the same gate objects
    n_m = 0
    for _ in range(ctx.pick(150, 1500)):
        nq = rng.randint(2, 3)
        specs = gen.rand_circuit_spec(rng, nq, 1, rng.randint(1, 5), max_ctrl=1)
        perm = list(range(nq))
        while perm == list(range(nq)):
            rng.shuffle(perm)
        check_mapped_eq(ctx, {"nq": nq, "specs": specs, "perm": perm, "kind": "mapped"})
        n_m += 1
    ctx.suite("compare_map_compare", cases=n_m)


def run_pairs_and_history(ctx):
    """the pair suite and, on the very same gate objects, the history suite (every comparison asked again after all the
    others have run): a replay of a history case runs both again, which is the only way to re-create that history"""
    rng = ctx.rng
    P = pool(rng, ctx.quick)
    objs = [gen.build_stmt(s) for s in P]
    pairs = list(itertools.product(range(len(P)), repeat=2))
    if ctx.quick:
        pairs = rng.sample(pairs, min(len(pairs), 3000))
    mres = model.call_many([pair_request(objs[i], objs[j]) for i, j in pairs])
    ctx.suite("pairs", cases=len(pairs), pool=len(P))
    for (i, j), mr in zip(pairs, mres):
        check_pair(ctx, pair_case(P[i], P[j], objs[i], objs[j]), objs[i], objs[j], mr, i == j)
    # history: every answer given above is asked for again, in another order, after all the other comparisons have run
    first = {}
    for (i, j) in pairs:
        first.setdefault((i, j), None)
    again = list(first)
    rng.shuffle(again)
    answers = {(i, j): py_eq(objs[i], objs[j]) for (i, j) in again}
    fresh = {}
    n_hist = 0
    for (i, j) in again[:ctx.pick(1500, 20000)]:
        fa, fb = gen.build_stmt(P[i]), gen.build_stmt(P[j])
        key = (i, j)
        fresh[key] = py_eq(fa, fb)
        n_hist += 1
        if fresh[key] != answers[key]:
            case = {**pair_case(P[i], P[j], fa, fb), "kind": "history"}
            ctx.seen(case)
            ctx.oracle_fail("history", case, f"the same comparison answered {answers[key]} and then {fresh[key]} on freshly built gates", None)
    ctx.suite("history", cases=n_hist)
    return P, objs


def pair_request(a, b):
    return ["gate_eq", ser.ser_gate(a), ser.ser_gate(b)]


def pair_case(left, right, a, b):
    return {"left": left, "right": right, "left_kind": type(a).__name__, "right_kind": type(b).__name__}


def check_pair(ctx, case, a, b, mr, same_object):
    margin, r = mr
    ctx.seen(case, not same_object)
    if same_object:
        case = {**case, "same_object": True}         # as recorded: a replay compares one object with itself
    im = py_eq(a, b)
    mv = ser.canon(r)
    mo = (mv[1] == "true") if mv[0] == "ok" else "raised"
    eq = (im == mo) or (isinstance(im, str) and mo == "raised")
    if not eq:
        ctx.disagree("pairs", case, f"impl {im} model {mv}", margin)
    qs = sorted(set(oracles.stmt_qubits(a)) | set(oracles.stmt_qubits(b)))
    qm = {q: k for k, q in enumerate(qs)}
    A, B = union_op(a, qm, len(qs)), union_op(b, qm, len(qs))
    both_rot = type(a).__name__ == type(b).__name__ == "BlochSphereRotation"
    d = float(np.abs(A - B).max()) if both_rot else oracles.phase_dist(A, B)
    ctx.bump("equal" if im is True else "unequal")
    if isinstance(im, str):
        ctx.oracle_fail("pairs", case, f"comparison {im}", eq)
    elif d < 1e-9 and im is not True:
        ctx.oracle_fail("pairs", case, f"equal operations compare unequal (distance {d:.2g})", eq)
    elif d > 1e-4 and im is True:
        ctx.oracle_fail("pairs", case, f"different operations (distance {d:.3g}) compare equal", eq)
    # symmetry (gap respected): a == b and b == a must not disagree when the operations are clearly equal / different
    if (d < 1e-9 or d > 1e-4) and py_eq(b, a) != im and not isinstance(im, str):
        if not (type(a).__name__ == "BlochSphereRotation") != (type(b).__name__ == "BlochSphereRotation"):
            ctx.oracle_fail("pairs", case, f"equality is not symmetric: a==b is {im}, b==a is {py_eq(b, a)}", eq)
    if same_object and im is not True:
        ctx.oracle_fail("pairs", case, "equality is not reflexive", eq)


def check_circuit_eq(ctx, case, pick):
    """pick(n): which of the n statements is exchanged for another one (drawn in a run, recorded for a replay)"""
    nq, specs = case["nq"], case["specs"]
    c1 = gen.build_circuit(nq, 1, specs)
    c2 = gen.build_circuit(nq, 1, specs)
    ctx.seen(case)
    if not (c1 == c2):
        ctx.oracle_fail("circuits", case, "two circuits built from the same statements compare unequal", None)
        return
    if specs:
        k = pick(len(specs))
        alt = [list(s) for s in specs]
        alt[k] = ["named", "H", [0]] if specs[k] != ["named", "H", [0]] else ["named", "X", [0]]
        c3 = gen.build_circuit(nq, 1, alt)
        a, b = c1.ir.statements[k], c3.ir.statements[k]
        same_stmt = py_eq(a, b) is True
        if (c1 == c3) != same_stmt:
            ctx.oracle_fail("circuits", {**case, "alt_index": k}, "circuit equality is not statement-wise", None)


def check_mapped_eq(ctx, case):
    """compare, map the circuit (Circuit.map relabels the gate objects in place), compare again: what == answers for a
    gate object that has been compared before and relabelled since must be what it answers for a freshly built gate"""
    from harness import implrun
    from harness.props import decomp_common as dc

    nq, specs, perm = case["nq"], case["specs"], case["perm"]
    c = gen.build_circuit(nq, 1, specs)
    twin = gen.build_circuit(nq, 1, specs)
    ctx.seen(case)
    stmts = list(c.ir.statements)
    tw = list(twin.ir.statements)
    for x, y in zip(stmts, tw):            # every statement takes part in a comparison before the mapping
        py_eq(x, y)
        py_eq(y, x)
    py_eq(c, twin)
    try:
        implrun.apply_pass(c, ["map", perm])
    except Exception:  # noqa: BLE001
        return
    ref = list(gen.build_circuit(nq, 1, dc.relabel_specs(specs, {q: perm[q] for q in range(nq)})).ir.statements)
    after = list(c.ir.statements)
    if len(after) != len(ref):
        return
    for i, (m, r, t) in enumerate(zip(after, ref, tw)):
        if not oracles.is_gate(r):
            continue
        r2 = gen.build_stmt(dc.relabel_spec(specs[i], {q: perm[q] for q in range(nq)}))
        for name, got, want in (("mapped == fresh relabelled", py_eq(m, r), py_eq(r2, r)),
                                ("fresh relabelled == mapped", py_eq(r, m), py_eq(r, r2)),
                                ("mapped == unmapped twin", py_eq(m, t), py_eq(r, t)),
                                ("unmapped twin == mapped", py_eq(t, m), py_eq(t, r))):
            if got != want:
                ctx.oracle_fail("mapped", case, f"statement {i}: `{name}` answers {got} for the gate object that was compared before the "
                                f"mapping, {want} for freshly built gates", None)
                return


def replay(ctx, payload):
    from harness import framework

    suite, case = framework.replay_target(payload)
    if case is None:
        return framework.replay_nothing(payload)
    if case.get("kind") == "mapped":
        check_mapped_eq(ctx, {k: case[k] for k in ("nq", "specs", "perm", "kind")})
        return framework.replay_result(ctx)
    if case.get("kind") == "circuit":
        check_circuit_eq(ctx, {k: case[k] for k in ("nq", "specs", "kind")}, lambda n: case.get("alt_index", 0) % n)
        return framework.replay_result(ctx)
    # the answers of the pair and history suites may depend on every comparison made before on the same gate objects
    # and through the library's caches: first the history of the run again, then the pair on its own
    extra = framework.rerun_history(ctx, payload, case, run_pairs_and_history)
    if case.get("kind") == "history" or ctx.oracle_failures or ctx.disagreements:
        return framework.replay_result(ctx, **extra)
    a = gen.build_stmt(case["left"])
    b = a if case.get("same_object") else gen.build_stmt(case["right"])
    pub = {k: v for k, v in case.items() if k != "same_object"}
    check_pair(ctx, pub, a, b, model.call_many([pair_request(a, b)])[0], bool(case.get("same_object")))
    return framework.replay_result(ctx, **extra, **{"a==b": py_eq(a, b), "b==a": py_eq(b, a)})
