"""C08 — gate-to-matrix semantics follow the textbook definition on any register."""
from __future__ import annotations

import itertools
import math

import numpy as np

from harness import gen, model, oracles, ser, sexp

ID = "C08"
TRUSTED = ["extraction + OCaml float dictionary; numpy kron/matmul modelled by their mathematical definitions",
           "oracle: independent einsum embedding (no code shared with the library)"]
ASSUMPTIONS = ["bit lemmas hold for any operand list and any ket; matrix theorems over R"]
CLASSIFIERS: dict = {}


def mat_from(res):
    v = ser.canon(res)
    if v[0] != "ok":
        return ("err", v[1])
    return ("ok", np.array([[complex(a, b) for a, b in row] for row in v[1]]))


def impl_matrix(g, n):
    from opensquirrel.utils.matrix_expander import get_matrix

    try:
        return ("ok", get_matrix(g, n))
    except IndexError:
        return ("err", "index")
    except ValueError:
        return ("err", "value")
    except Exception as e:  # noqa: BLE001
        return ("err", type(e).__name__)


def gate_cases(ctx):
    rng = ctx.rng
    cases = []
    swap = gen.perm_matrix([0, 2, 1, 3])
    nmax = ctx.pick(3, 4)
    for n in range(1, nmax + 1):
        for q in range(n):
            cases.append((n, ["bsr", q, gen.rand_axis(rng), gen.rand_angle(rng), gen.rand_angle(rng)]))
            cases.append((n, ["named", rng.choice(gen.ONEQ_NOPARAM), [q]]))
        for depth in (1, 2, 3):
            if depth + 1 > n:
                continue
            for qs in itertools.permutations(range(n), depth + 1):
                g = ["bsr", qs[-1], gen.rand_axis(rng), gen.rand_angle(rng), gen.rand_angle(rng)]
                for c in reversed(qs[:-1]):
                    g = ["ctrl", c, g]
                cases.append((n, g))
        for k in (2, 3, 4):
            if k > n:
                continue
            for ops in itertools.permutations(range(n), k):
                if k == 2:
                    if ctx.quick and rng.random() < 0.5:
                        continue
                    cases.append((n, ["mat", list(ops), gen.rand_unitary(rng, 4)]))
                elif rng.random() < ctx.pick(0.2, 1.0):
                    cases.append((n, ["mat", list(ops), gen.rand_unitary(rng, 1 << k)]))
    # all 24 computational-basis permutation matrices on 2 operands, both operand orders, registers 2..3
    for perm in itertools.permutations(range(4)):
        for n in (2, 3):
            for ops in itertools.permutations(range(n), 2):
                cases.append((n, ["mat", list(ops), gen.perm_matrix(list(perm))]))
    # 5 qubits sampled
    for _ in range(ctx.pick(10, 120)):
        cases.append((5, gen.rand_gate_spec(rng, 5, max_ctrl=3)))
    # out of range operands (refused)
    for _ in range(ctx.pick(30, 200)):
        n = rng.randint(1, 3)
        sp = gen.rand_gate_spec(rng, n + 2, max_ctrl=2)
        cases.append((n, sp))
    return cases


def run_gates(ctx):
    cases = gate_cases(ctx)
    ctx.suite("gates", cases=len(cases))
    objs = [gen.build_stmt(sp) for _, sp in cases]
    mres = model.call_many([["get_matrix", n, ser.ser_gate(g)] for (n, _), g in zip(cases, objs)])
    for (n, sp), g, mr in zip(cases, objs, mres):
        check_gate(ctx, {"n": n, "spec": sp}, g, mr)
    ctx.sample({"n": cases[0][0], "spec": cases[0][1]})


def check_gate(ctx, case, g, mr):
    n, sp = case["n"], case["spec"]
    margin, r = mr
    ctx.seen(case)
    im = impl_matrix(g, n)
    mm = mat_from(r)
    ops = gen.spec_qubits(sp)
    in_range = all(0 <= q < n for q in ops)
    ctx.bump("in_range" if in_range else "out_of_range")
    ctx.bump("kind_" + sp[0])
    eq = True
    if im[0] != mm[0]:
        ctx.disagree("gates", case, f"impl {im[0]}:{im[1] if im[0]=='err' else ''} model {mm[0]}:{mm[1] if mm[0]=='err' else ''}", margin)
        eq = False
    elif im[0] == "ok":
        d = float(np.abs(im[1] - mm[1]).max())
        if d > 1e-12:
            ctx.disagree("gates", case, f"matrix entries differ by {d:.3g}", margin)
            eq = False
    elif im[1] != mm[1]:
        ctx.disagree("gates", case, f"error kinds {im[1]} vs {mm[1]}", margin)
        eq = False
    # oracle
    if not in_range:
        if im[0] == "ok":
            ctx.oracle_fail("gates", case, "operand outside the register accepted", eq)
        return
    if im[0] != "ok":
        ctx.oracle_fail("gates", case, f"valid gate refused: {im[1]}", eq)
        return
    small, sops = oracles.gate_small(g)
    want = oracles.embed(n, small, sops)
    d = float(np.abs(im[1] - want).max())
    if d > 1e-12:
        ctx.oracle_fail("gates", case, f"matrix differs from the textbook embedding by {d:.3g}", eq)
        return
    u = im[1]
    du = float(np.abs(u.conj().T @ u - np.eye(1 << n)).max())
    if du > 1e-9:
        ctx.oracle_fail("gates", case, f"not unitary ({du:.3g})", eq)


def bits_request(c):
    return ["reduced_ket", c["ket"], c["qs"]] if c["fn"] == "reduced_ket" else ["expand_ket", c["base"], c["red"], c["qs"]]


def impl_bits(c):
    from opensquirrel.ir import Qubit
    from opensquirrel.utils.matrix_expander import expand_ket, get_reduced_ket

    qs = [Qubit(q) for q in c["qs"]]
    return get_reduced_ket(c["ket"], qs) if c["fn"] == "reduced_ket" else expand_ket(c["base"], c["red"], qs)


def run_bits(ctx):
    want, cases = [], []
    nbits = ctx.pick(5, 6)
    lists = [list(p) for k in range(0, 4) for p in itertools.product(range(nbits), repeat=k)]
    kets = range(1 << nbits)
    for qs in lists:
        for ket in (kets if not ctx.quick else list(kets)[::3]):
            cases.append({"fn": "reduced_ket", "ket": ket, "qs": qs})
            want.append(impl_bits(cases[-1]))
    for qs in lists:
        for base in (kets if not ctx.quick else list(kets)[::5]):
            for red in range(1 << min(3, len(qs) + 1)):
                cases.append({"fn": "expand_ket", "base": base, "red": red, "qs": qs})
                want.append(impl_bits(cases[-1]))
    mres = model.call_many([bits_request(c) for c in cases])
    for c, w, mr in zip(cases, want, mres):
        check_bits(ctx, c, w, mr)
    ctx.suite("bits", cases=len(cases), exhaustive=True, bits=nbits, max_list_length=3)
    ctx.exhaustive = True


def check_bits(ctx, c, w, mr):
    _, r = mr
    v = int(str(r))
    # oracle: bit-level definition
    if c["fn"] == "reduced_ket":
        o = sum(((c["ket"] >> q) & 1) << i for i, q in enumerate(c["qs"]))
    else:
        o = c["base"]
        for i, q in enumerate(c["qs"]):
            o = (o & ~(1 << q)) | (((c["red"] >> i) & 1) << q)
    if v != w:
        ctx.disagree("bits", c, f"impl {w} model {v}")
    if w != o:
        ctx.oracle_fail("bits", c, f"impl {w} expected {o}", v == w)
    ctx.seen(c, len(c["qs"]) > 0)


def run_circuits(ctx):
    rng = ctx.rng
    cases = []
    for _ in range(ctx.pick(120, 1500)):
        n = rng.randint(1, 4)
        specs = gen.rand_circuit_spec(rng, n, 1, rng.randint(0, 12), p_nongate=0.15)
        cases.append((n, specs))
    circuits = [gen.build_circuit(n, 1, specs) for n, specs in cases]
    mres = model.call_many([["circuit_matrix", n, ser.ser_stmts(c.ir.statements)] for (n, _), c in zip(cases, circuits)])
    for (n, specs), c, mr in zip(cases, circuits, mres):
        check_circuit(ctx, {"n": n, "nb": 1, "specs": specs}, c, mr)
    ctx.suite("circuits", cases=len(cases))


def check_circuit(ctx, case, c, mr):
    from opensquirrel.circuit_matrix_calculator import get_circuit_matrix

    n, specs = case["n"], case["specs"]
    margin, r = mr
    ctx.seen(case, any(gen.is_gate_spec(s) for s in specs))
    m = get_circuit_matrix(c)
    mm = mat_from(r)
    eq = mm[0] == "ok" and float(np.abs(m - mm[1]).max()) < 1e-10
    if not eq:
        ctx.disagree("circuits", case, "circuit matrix differs from the model's", margin)
    want = oracles.circuit_unitary(c.ir.statements, n)
    d = float(np.abs(m - want).max())
    if d > 1e-10:
        ctx.oracle_fail("circuits", case, f"circuit matrix is not the product of its gates in program order ({d:.3g})", eq)


def run_history(ctx):
    """matrix, in-place pass on the same objects, matrix again: the second matrix must be the operator of the NEW state"""
    rng = ctx.rng
    n_cases = 0
    for _ in range(ctx.pick(80, 800)):
        n = rng.randint(2, 4)
        specs = [s for s in gen.rand_circuit_spec(rng, n, 1, rng.randint(1, 7), p_nongate=0.1, max_ctrl=2) if s[0] != "measure_z"]
        perm = list(range(n))
        rng.shuffle(perm)
        step = rng.choice([["map", perm], ["map", perm], ["merge"], ["decompose", "zyz"]])
        check_history(ctx, {"n": n, "nb": 1, "specs": specs, "history": ["matrix", step, "matrix"]})
        n_cases += 1
    ctx.suite("history", cases=n_cases)


def check_history(ctx, case):
    from opensquirrel.circuit_matrix_calculator import get_circuit_matrix
    from opensquirrel.utils.matrix_expander import get_matrix

    from harness import implrun

    n, specs, step = case["n"], case["specs"], case["history"][1]
    c = gen.build_circuit(n, 1, specs)
    ctx.seen(case, any(gen.is_gate_spec(s) for s in specs))
    try:
        get_circuit_matrix(c)
        for s in c.ir.statements:
            if oracles.is_gate(s):
                get_matrix(s, n)
        implrun.apply_pass(c, step)
    except Exception:  # noqa: BLE001
        return
    m2 = get_circuit_matrix(c)
    want = oracles.circuit_unitary(c.ir.statements, n)
    d = float(np.abs(m2 - want).max())
    (mg, r), = model.call_many([["circuit_matrix", n, ser.ser_stmts(c.ir.statements)]])
    mm = mat_from(r)
    eq = mm[0] == "ok" and float(np.abs(m2 - mm[1]).max()) < 1e-10
    if not eq:
        ctx.disagree("history", case, "circuit matrix after an in-place pass differs from the model's matrix of the new state", mg)
    if d > 1e-10:
        ctx.oracle_fail("history", case, f"after {step[0]} the circuit matrix is not the product of the gates as they are now ({d:.3g})", eq)
        return
    for s in c.ir.statements:
        if oracles.is_gate(s):
            small, sops = oracles.gate_small(s)
            dd = float(np.abs(get_matrix(s, n) - oracles.embed(n, small, sops)).max())
            if dd > 1e-12:
                ctx.oracle_fail("history", case, f"after {step[0]} get_matrix of {s!r} is not the operator on its current qubits ({dd:.3g})", eq)
                break


def run(ctx):
    ctx.rule("every gate kind x every injective operand placement in registers 1..4 (quick 1..3; 5 sampled), control depth "
             "0..3, matrix gates on 2..4 operands with random unitaries, all 24 basis-permutation matrices on 2 operands; "
             "out-of-range operands; the two bit functions exhaustively for kets < 2^6 (quick 2^5, strided) and all operand "
             "lists of length <= 3; random circuits <= 12 gates; non-trivial = every gate case, circuits with a gate")
    run_gates(ctx)
    run_bits(ctx)
    run_circuits(ctx)
    run_history(ctx)


def replay(ctx, payload):
    from harness import framework

    suite, c = framework.replay_target(payload)
    if c is None:
        return framework.replay_nothing(payload)
    if "spec" in c:
        g = gen.build_stmt(c["spec"])
        check_gate(ctx, c, g, model.call_many([["get_matrix", c["n"], ser.ser_gate(g)]])[0])
    elif "fn" in c:
        check_bits(ctx, c, impl_bits(c), model.call_many([bits_request(c)])[0])
    elif "history" in c:
        check_history(ctx, c)
    else:
        circuit = gen.build_circuit(c["n"], 1, c["specs"])
        check_circuit(ctx, c, circuit, model.call_many([["circuit_matrix", c["n"], ser.ser_stmts(circuit.ir.statements)]])[0])
    return framework.replay_result(ctx)
