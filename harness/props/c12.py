"""C12 — cQASM 1.0 export corresponds to the circuit statement by statement."""
from __future__ import annotations

import re

import numpy as np

from harness import gen, implrun, model, oracles, ser, sexp
from harness.props import text_common as tc

ID = "C12"
TRUSTED = ["cQASM 1.0 meaning table written for this check (names -> standard operations)",
           "CPython format(x, '.8') decimalisation is an oracle; extraction + OCaml driver"]
ASSUMPTIONS = ["reading back uses the cQASM 1 meaning of each lower-cased default name"]
CLASSIFIERS: dict = {}

V1_NAMES = {n.lower(): n for n in gen.GATE_SIG if n not in ("Hadamard", "Identity")}


def export(c):
    from opensquirrel.exporter.export_format import ExportFormat

    try:
        return ("ok", c.export(ExportFormat.CQASM_V1))
    except Exception as e:  # noqa: BLE001
        return ("err", implrun.errkind(e))


def parse_v1(text):
    """line reader for the exporter's image: -> (nq, [(name, qubits, params) | ("comment", text)])"""
    lines = text.split("\n")
    if lines[0] != "version 1.0":
        raise ValueError("header")
    nq = None
    out = []
    i = 1
    while i < len(lines):
        l = lines[i]
        i += 1
        if not l.strip():
            continue
        m = re.fullmatch(r"qubits (\d+)", l)
        if m and nq is None:
            nq = int(m.group(1))
            continue
        if l.startswith("/*"):
            txt = l
            while not txt.rstrip().endswith("*/") or txt.strip() == "/*":
                txt += "\n" + lines[i]
                i += 1
            out.append(("comment", txt[3:-3]))
            continue
        m = re.fullmatch(r"(\S+) (.*)", l)
        if not m:
            raise ValueError("line " + l)
        name, rest = m.group(1), m.group(2)
        parts = [p.strip() for p in rest.split(",")]
        qs = [int(re.fullmatch(r"q\[(-?\d+)\]", p).group(1)) for p in parts if p.startswith("q[")]
        ps = [p for p in parts if not p.startswith("q[")]
        if [p.startswith("q[") for p in parts] != sorted([p.startswith("q[") for p in parts], reverse=True):
            raise ValueError("qubits must precede parameters: " + l)
        out.append((name, qs, ps))
    return nq, out


def check_case(ctx, case, c, mr):
    pub = {k: v for k, v in case.items() if not k.startswith("_")}
    ctx.seen(tc.seen_key(pub), len(case["specs"]) > 0)
    st, txt = export(c)
    margin, r = mr
    mv = ser.canon(r)
    if st == "ok":
        eq = mv[0] == "ok" and mv[1][1] == txt
    else:
        eq = mv[0] == "err" and mv[1] == txt
    if not eq:
        ctx.disagree("v1", pub, f"impl {st}:{txt[:300]} model {str(mv)[:300]}")
    has_anon = any(oracles.is_gate(s) and s.arguments is None for s in c.ir.statements)
    if has_anon:
        if st == "ok":
            ctx.oracle_fail("v1", pub, "circuit with an anonymous gate was exported instead of refused", eq)
        elif txt != "export":
            ctx.oracle_fail("v1", pub, f"anonymous gate refused with {txt}, not the unsupported-gate error", eq)
        return
    if st != "ok":
        ctx.oracle_fail("v1", pub, f"export raised {txt}", eq)
        return
    try:
        nq, items = parse_v1(txt)
    except Exception as e:  # noqa: BLE001
        ctx.oracle_fail("v1", pub, f"exported text is not line-structured: {e}\n{txt}", eq)
        return
    if nq != c.qubit_register_size:
        ctx.oracle_fail("v1", pub, f"header declares {nq} qubits for a register of {c.qubit_register_size}", eq)
        return
    stmts = list(c.ir.statements)
    if len(items) != len(stmts):
        ctx.oracle_fail("v1", pub, f"{len(items)} lines for {len(stmts)} statements\n{txt}", eq)
        return
    for s, it in zip(stmts, items):
        cls = type(s).__name__
        if cls == "Comment":
            if it[0] != "comment" or it[1] != s.str:
                ctx.oracle_fail("v1", pub, "comment not kept", eq)
                return
            continue
        name, qs, ps = it
        if cls == "Measure":
            ok = name == "measure_z" and qs == [int(s.qubit.index)] and not ps
        elif cls == "Reset":
            ok = name == "prep_z" and qs == [int(s.qubit.index)] and not ps
        else:
            ok = name in V1_NAMES and qs == oracles.stmt_qubits(s)
            if ok:
                std = V1_NAMES[name]
                sig = gen.GATE_SIG[std]
                try:
                    args = list(qs) + [int(p) if sig[-1] == "i" else float(p) for p in ps]
                    want, ops = oracles.std_gate(std, args)
                    got, gops = oracles.gate_small(s)
                    if len(ops) == 1:
                        d = oracles.phase_dist(got, want)
                    else:
                        d = float(np.abs(got - want).max())
                    # a merged gate keeps the name of a lone gate when the other factor is an identity within the
                    # library's tolerance (|angle| < ATOL): name and fields may differ by up to ATOL/2
                    tol = 1e-7 + sum(6e-8 * max(1.0, abs(float(p))) for p in ps if sig[-1] == "f")
                    ok = d <= tol
                except Exception:  # noqa: BLE001
                    ok = False
        if not ok:
            ctx.oracle_fail("v1", pub, f"line `{name} {qs} {ps}` does not denote the statement {s!r}", eq)
            return


def run(ctx):
    rng = ctx.rng
    ctx.rule("circuits over the default instruction set (every gate, parameter range as in C04), fresh and after each pass "
             "incl. mapping; circuits with anonymous gates at every position; non-trivial = non-empty circuit")
    cases, circuits = [], []
    for i in range(ctx.pick(500, 6000)):
        anon = rng.random() < 0.2
        nq, nb, specs = tc.printable_circuit(rng, anonymous=False)
        pre = rng.choice(tc.PRE_PASSES) if nq <= 8 else []
        if anon:
            pos = rng.randint(0, len(specs))
            specs = specs[:pos] + [["bsr", rng.randrange(nq), gen.rand_axis(rng), 1.0, 0.0]] + specs[pos:]
            pre = []
        c = gen.build_circuit(nq, nb, specs)
        applied = []
        if not tc.apply_pre(rng, c, pre, applied):
            continue
        cases.append({"nq": nq, "nb": nb, "specs": specs, "pre": pre, "pre_applied": applied})
        circuits.append(c)
    # anonymous gate at every position of a fixed circuit
    base = [["named", "H", [0]], ["named", "CNOT", [0, 1]], ["measure", 0, 0], ["comment", "c"], ["reset", 1]]
    for pos in range(len(base) + 1):
        for g in (["bsr", 1, [0.0, 1.0, 1.0], 0.5, 0.0], ["ctrl", 0, ["bsr", 1, [1.0, 0.0, 0.0], 0.5, 0.0]],
                  ["mat", [0, 1], gen.perm_matrix([0, 1, 3, 2])]):
            specs = base[:pos] + [g] + base[pos:]
            cases.append({"nq": 2, "nb": 1, "specs": specs, "pre": []})
            circuits.append(gen.build_circuit(2, 1, specs))
    # history: a third of the circuits are exported once, relabelled in place, and the export under test is the second one
    for case, c in zip(cases, circuits):
        if rng.random() < 0.35 and c.qubit_register_size >= 2:
            export(c)
            perm = list(range(c.qubit_register_size))
            rng.shuffle(perm)
            try:
                implrun.apply_pass(c, ["map", perm])
                case["history"] = ["export", ["map", perm], "export"]
            except Exception:  # noqa: BLE001
                pass
    mres = model.call_many([["export_v1", c.qubit_register_size, ser.ser_stmts(c.ir.statements)] for c in circuits])
    ctx.suite("v1", cases=len(cases))
    for case, c, mr in zip(cases, circuits, mres):
        check_case(ctx, case, c, mr)
    # the reader of the round-trip theorem (Model/Reader.read1, extracted) against this module's own line reader, on the
    # text the implementation exported (comments on one line only: the theorem's hypothesis)
    texts = []
    for case, c in zip(cases, circuits):
        txt = reader_text(c)
        if txt is not None:
            texts.append((case, txt))
    rres = model.call_many([["read1", t] for _, t in texts])
    for (case, txt), (_, r) in zip(texts, rres):
        check_reader(ctx, case, txt, r)
    ctx.suite("reader_vs_line_oracle", cases=len(texts))
    ctx.sample(cases[0])
    ctx.sample({"text": export(circuits[0])[1][:300]})


def reader_text(c):
    """the exported text when it is within the reader theorem's hypotheses, else None"""
    st, txt = export(c)
    if st == "ok":
        return txt
    return None


def unstr(v):
    if isinstance(v, tuple) and len(v) == 2 and v[0] == "str":
        return v[1]
    if isinstance(v, list):
        return [unstr(x) for x in v]
    return v


def check_reader(ctx, case, txt, r):
    rv = unstr(ser.canon(r))
    try:
        nq, lines = parse_v1(txt)
    except Exception:  # noqa: BLE001
        return
    if rv[0] != "some":
        ctx.disagree("reader", {k: v for k, v in case.items()}, f"the verified reader refuses an exported text\n{txt}")
        return
    rnq, rlines = rv[1]
    good = int(rnq) == (nq or 0) and len(rlines) == len(lines)
    if good:
        for rl, ln in zip(rlines, lines):
            if ln[0] == "comment" and len(ln) == 2:
                good = good and rl[0] == "comment" and rl[1] == ln[1]
            else:
                name, qs, ps = ln
                good = good and rl[0] == "gate" and rl[1] == name and [int(q) for q in rl[3]] == qs and \
                    [str(a[1]) for a in rl[2]] == ps
            if not good:
                break
    if not good:
        ctx.disagree("reader", {k: v for k, v in case.items()}, f"the verified reader and the line oracle read the exported text differently\n{txt}\n{rv}")


def replay(ctx, payload):
    from harness import framework

    suite, case = framework.replay_target(payload)
    if case is None:
        return framework.replay_nothing(payload)
    c = gen.build_circuit(case["nq"], case["nb"], case["specs"])
    if not tc.replay_pre(c, case):
        return {"fails": False, "note": "an earlier pass raised: the run skips such circuits (C01's concern)"}
    tc.replay_history(c, case, export)
    mres = model.call_many([["export_v1", c.qubit_register_size, ser.ser_stmts(c.ir.statements)]])
    check_case(ctx, case, c, mres[0])
    txt = reader_text(c)
    if txt is not None:
        check_reader(ctx, case, txt, model.call_many([["read1", txt]])[0][1])
    return framework.replay_result(ctx, export=export(c))
