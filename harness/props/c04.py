"""C04 — written cQASM means what the circuit means (write/parse round trip)."""
from __future__ import annotations

import math

from harness import gen, implrun, model, oracles, ser, sexp
from harness.props import text_common as tc

ID = "C04"
TRUSTED = ["libqasm 0.6.7 is the parser (an oracle); the float-literal grammar of Theory/Lexer.v is an assumption about it, "
           "exercised here by feeding every written text to the real parser",
           "CPython format(x, '.8') decimalisation is an oracle (printf %.7e in the OCaml driver); the rendering of the digits is modelled (render_py8)"]
ASSUMPTIONS = ["round trip compared to 8 significant digits, as the property states"]


def cls_measure_z(f):
    """measure_z is in the default measure set and is written, but libqasm 0.6.7 has no such instruction"""
    # only the parser's refusal of the instruction itself: the error must point at the token measure_z, and it must be
    # the FIRST thing the parser objects to (another defect in the same text would be reported at an earlier position
    # or with another message)
    d = f["detail"]
    return d.startswith("written text rejected by the parser") and "at 'measure_z'" in d.split("\n")[0] and \
        d.split("\n")[0].count("Error at") == 1 and \
        any(s[0] == "measure_z" for s in f["case"]["specs"])


CLASSIFIERS = {"measure_z_not_in_libqasm": cls_measure_z}


def fmt8(x: float) -> float:
    return float(f"{x:.8}")


def stmt_sig(s):
    """(kind, name, qubits, bit, params) of a statement for the round-trip comparison"""
    cls = type(s).__name__
    if cls == "Comment":
        return None
    name = s.generator.__name__ if getattr(s, "generator", None) else None
    qs = oracles.stmt_qubits(s)
    bit = int(s.bit.index) if cls == "Measure" else None
    params = []
    for a in (s.arguments or ()):
        an = type(a).__name__
        if an == "Float":
            params.append(("f", float(a.value)))
        elif an == "Int":
            params.append(("i", int(a.value)))
    return (cls, name, qs, bit, params)


def run_case(ctx, case, c):
    from opensquirrel.circuit import Circuit

    ctx.seen(tc.seen_key(case), len(case["specs"]) > 0)
    text = str(c)
    has_anon = any(oracles.is_gate(s) and s.arguments is None for s in c.ir.statements)
    # correspondence with the writer model
    (margin, r), = case["_mres"]
    mv = ser.canon(r)
    eq = mv[0] == "ok" and tc.normalize_anonymous(text) == mv[1][1]
    if not eq:
        mt = mv[1][1] if mv[0] == "ok" else str(mv)
        ctx.disagree("writer", _pub(case), f"text differs\n--- impl ---\n{text}\n--- model ---\n{mt}")
    # one line per statement, none omitted
    body = text.split("\n")
    n_stmt_lines = sum(1 for s in c.ir.statements if type(s).__name__ != "Comment")
    lines = [l for l in body[3:] if l.strip() and not l.startswith("bit[")]
    in_comment = False
    count = 0
    for l in lines:
        if in_comment:
            if l.rstrip().endswith("*/"):
                in_comment = False
            continue
        if l.startswith("/*"):
            if not l.rstrip().endswith("*/") or l.strip() == "/*":
                in_comment = True
            continue
        count += 1
    if count != n_stmt_lines:
        ctx.oracle_fail("writer", _pub(case), f"{count} statement lines written for {n_stmt_lines} statements\n{text}", eq)
        return
    for s in c.ir.statements:
        if type(s).__name__ == "Comment" and f"/* {s.str} */" not in text:
            ctx.oracle_fail("writer", _pub(case), "a comment did not survive", eq)
            return
    if has_anon:
        return
    # accepted by the parser and parses back to the same circuit
    try:
        c2 = Circuit.from_string(text)
    except Exception as e:  # noqa: BLE001
        ctx.oracle_fail("writer", _pub(case), f"written text rejected by the parser: {str(e)[:300]}\n{text}", eq)
        return
    if c2.qubit_register_size != c.qubit_register_size or c2.bit_register_size != c.bit_register_size:
        ctx.oracle_fail("writer", _pub(case), "register sizes changed in the round trip", eq)
        return
    a = [stmt_sig(s) for s in c.ir.statements if type(s).__name__ != "Comment"]
    b = [stmt_sig(s) for s in c2.ir.statements]
    if len(a) != len(b):
        ctx.oracle_fail("writer", _pub(case), f"{len(a)} statements written, {len(b)} parsed back", eq)
        return
    for x, y in zip(a, b):
        ok = x[:4] == y[:4] and len(x[4]) == len(y[4])
        if ok:
            for (k1, v1), (k2, v2) in zip(x[4], y[4]):
                if k1 == "i":
                    ok = ok and k2 == "i" and v1 == v2
                else:
                    w = fmt8(v1)
                    ok = ok and abs(float(v2) - w) <= 1e-15 * max(1.0, abs(w))
        if not ok:
            ctx.oracle_fail("writer", _pub(case), f"statement does not round-trip: written {x}, parsed {y}", eq)
            return
    # the reader of the round-trip theorem (Model/Reader.read3, extracted) on the text the implementation wrote:
    # it must read what libqasm + the OpenSquirrel parser read (c2) and keep the comments of the circuit
    rd = case.get("_read")
    if rd is not None:
        rv = ser.canon(rd[1])
        if rv[0] != "some":
            ctx.disagree("reader", _pub(case), f"the verified reader refuses a text that libqasm accepts\n{text}")
        else:
            def unstr(v):
                if isinstance(v, tuple) and len(v) == 2 and v[0] == "str":
                    return v[1]
                if isinstance(v, list):
                    return [unstr(x) for x in v]
                return v
            ver, rnq, rnb, rlines = unstr(rv[1])
            want_comments = [s.str for s in c.ir.statements if type(s).__name__ == "Comment"]
            got_comments = [l[1] for l in rlines if l[0] == "comment"]
            body_lines = [l for l in rlines if l[0] != "comment"]
            okr = (ver == "3.0" and int(rnq) == c2.qubit_register_size and int(rnb) == c2.bit_register_size
                   and got_comments == want_comments and len(body_lines) == len(b))
            why = "header / comments / number of lines"
            if okr:
                for l, y in zip(body_lines, b):
                    cls, name, qs, bit, params = y
                    if l[0] == "assign":
                        good = cls == "Measure" and int(l[1]) == bit and l[2] == name and [int(l[3])] == qs
                    elif l[0] == "gate":
                        good = cls != "Measure" and l[1] == name and [int(q) for q in l[3]] == qs and len(l[2]) == len(params)
                        if good:
                            for ra, (k2, v2) in zip(l[2], params):
                                if ra[0] == "int":
                                    good = good and k2 == "i" and int(ra[1]) == v2
                                elif ra[0] == "lit":
                                    fv = float(ra[1])
                                    good = good and k2 == "f" and abs(fv - float(v2)) <= 1e-15 * max(1.0, abs(fv))
                                else:
                                    good = False
                    else:
                        good = False
                    if not good:
                        okr, why = False, f"line {l} vs parsed statement {y}"
                        break
            if not okr:
                ctx.disagree("reader", _pub(case), f"the verified reader and libqasm read the written text differently: {why}\n{text}")
    # hence the same operation (to 8 digits)
    if c.qubit_register_size <= 5:
        # parameters agree to 8 significant digits: an angle theta may move by 5e-8 * |theta|
        tol = 1e-9 + sum(6e-8 * max(1.0, abs(v)) for x in a for k, v in x[4] if k == "f")
        okk, why = oracles.kraus_equivalent(list(c.ir.statements), list(c2.ir.statements), tol)
        if not okk:
            ctx.oracle_fail("writer", _pub(case), "parsed circuit is a different operation: " + why, eq)


def _pub(case):
    return {k: v for k, v in case.items() if not k.startswith("_")}


def run(ctx):
    rng = ctx.rng
    ctx.rule("circuits over the default gate/measure/reset set: parameters over magnitudes 1e-12..1e3, -0.0, integers-as-"
             "floats, values straddling the notation switch, CRk exponents incl. 0 and negatives, every operand order, "
             "registers 1..64, fresh and after decompose/merge/replace/map; circuits with anonymous gates; "
             "non-trivial = non-empty circuit")
    cases, circuits = [], []
    for i in range(ctx.pick(500, 8000)):
        anon = rng.random() < 0.15
        nq, nb, specs = tc.printable_circuit(rng, anonymous=anon)
        pre = rng.choice(tc.PRE_PASSES) if not anon and nq <= 8 else []
        c = gen.build_circuit(nq, nb, specs)
        applied = []
        if not tc.apply_pre(rng, c, pre, applied):
            continue
        cases.append({"nq": nq, "nb": nb, "specs": specs, "pre": pre, "pre_applied": applied})
        circuits.append(c)
    # single-float sweep: every rendering class
    vals = [0.0, -0.0, 1e-5, -1e-5, 1e-4, 9.9999999e-5, 1e7, 9999999.5, 12345678.0, 1e8, 1e-12, 999.99999, 1e3, 1.0000000e-7]
    vals += [m * 10.0 ** e for e in range(-12, 9) for m in (1.0, 2.0, 1.5, 9.99999995)]
    for v in vals:
        cases.append({"nq": 1, "nb": 0, "specs": [["named", "Rz", [0, v]]], "pre": []})
        circuits.append(gen.build_circuit(1, 0, cases[-1]["specs"]))
    reqs = [["write3", c.qubit_register_size, c.bit_register_size, ser.ser_stmts(c.ir.statements)] for c in circuits]
    mres = model.call_many(reqs)
    rres = model.call_many([["read3", str(c)] for c in circuits])
    ctx.suite("writer", cases=len(cases))
    ctx.suite("reader_vs_libqasm", cases=len(cases))
    for case, c, mr, rr in zip(cases, circuits, mres, rres):
        case["_mres"] = [mr]
        case["_read"] = rr
        ctx.bump("pre_" + ("+".join(p[0] for p in case["pre"]) or "fresh"))
        run_case(ctx, case, c)
    ctx.sample(_pub(cases[0]))
    ctx.sample({"text": str(circuits[1])[:400]})


def replay(ctx, payload):
    from harness import framework

    suite, case = framework.replay_target(payload)
    if case is None:
        return framework.replay_nothing(payload)
    c = gen.build_circuit(case["nq"], case["nb"], case["specs"])
    if not tc.replay_pre(c, case):
        return {"fails": False, "note": "an earlier pass raised: the run skips such circuits (C01's concern)"}
    case["_mres"] = model.call_many([["write3", c.qubit_register_size, c.bit_register_size, ser.ser_stmts(c.ir.statements)]])
    case["_read"] = model.call_many([["read3", str(c)]])[0]
    run_case(ctx, case, c)
    return framework.replay_result(ctx, text=str(c))
