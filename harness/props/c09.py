"""C09 — parsing expands cQASM programs element-wise, in order, with correct offsets."""
from __future__ import annotations

import math

from harness import gen, implrun, model, oracles, ser, sexp
from harness.sexp import Sym

ID = "C09"
TRUSTED = ["libqasm 0.6.7 (lexing, parsing, semantic analysis, constant folding) is an oracle: it enters as the analysed AST "
           "dumped through the cqasm API, and as accept/reject for malformed programs",
           "extraction + OCaml float dictionary"]
ASSUMPTIONS = ["operand lists of unequal length (accepted by libqasm 0.6.7, truncated by zip) are outside the property text: logged, not checked"]
PI = math.pi


def cls_redeclared(f):
    """a variable name declared twice (libqasm 0.6.7 accepts it: the second declaration shadows the first); the
    register manager maps variable NAMES to ranges, so a reference made before the redeclaration lands in the
    range of the later variable"""
    import re

    names = re.findall(r"^(?:qubit|bit)(?:\[\d+\])? (\w+)$", f["case"].get("text", ""), flags=re.M)
    return len(names) != len(set(names))


CLASSIFIERS = {"redeclared_variable_name": cls_redeclared}

REDECLARED = [
    ("version 3.0\nqubit[2] q\nH q[0]\nqubit[3] q\nX q[0]\n", 5, 0, [["named", "H", [0]], ["named", "X", [2]]]),
    ("version 3.0\nqubit[2] q\nbit[1] b\nb[0] = measure q[1]\nbit[2] b\nb[0] = measure q[0]\n", 2, 3,
     [["measure", 1, 0], ["measure", 0, 1]]),
]

MALFORMED = [
    "qubit[2] q\nH q[0]",                                   # no version
    "version 3.0\nqubit[2] q\nFoo q[0]",                    # unknown gate
    "version 3.0\nqubit[2] q\nH q[2]",                      # index out of range
    "version 3.0\nqubit[2] q\nH q[-1]",
    "version 3.0\nqubit[2] q\nCNOT q[0]",                   # arity
    "version 3.0\nqubit[2] q\nH q[0], q[1]",
    "version 3.0\nqubit[2] q\nRx q[0]",                     # missing parameter
    "version 3.0\nqubit[2] q\nRx(1.0, 2.0) q[0]",
    "version 3.0\nqubit[2] q\nH(1.0) q[0]",
    "version 3.0\nqubit[2] q\nbit[1] b\nb[1] = measure q[0]",   # bit out of range
    "version 3.0\nqubit[2] q\nbit[1] b\nb[0] = measure q[2]",
    "version 3.0\nqubit[2] q\nbit[1] b\nq[0] = measure b[0]",   # types swapped
    "version 3.0\nqubit[2] q\nH b[0]",                       # undeclared variable
    "version 3.0\nqubit[2] q\nH q[0",                        # syntax
    "version 3.0\nqubit[2] q\nbit[2] b\nH b[0]",             # bit where a qubit is expected
    "version 3.0\nqubit[2] q\nCRk(1.5) q[0], q[1]",          # float where an int is expected
    "version 3.0\nqubit[0] q",                               # empty register
    "version 3.0\nqubit[2] q\nreset b",
    "version 4.0\nqubit[2] q\nH q[0]",
]


def dump_ast(text):
    import cqasm.v3x as cqasm

    a = cqasm.Analyzer("3.0", False)
    r = a.analyze_string(text)
    if isinstance(r, list):
        return None
    vs = []
    for v in r.variables:
        tn = type(v.typ).__name__
        kind = "q" if tn in ("Qubit", "QubitArray") else "b" if tn in ("Bit", "BitArray") else "o"
        vs.append([str(v.name), Sym(kind), int(v.typ.size)])
    sts = []
    for s in r.block.statements:
        ops = []
        for o in s.operands:
            tn = type(o).__name__
            if tn == "VariableRef":
                ops.append([Sym("var"), str(o.variable.name)])
            elif tn == "IndexRef":
                ops.append([Sym("index"), str(o.variable.name), [int(i.value) for i in o.indices]])
            elif tn == "ConstInt":
                ops.append([Sym("int"), int(o.value)])
            elif tn == "ConstFloat":
                ops.append([Sym("float"), float(o.value)])
            else:
                ops.append([Sym("other"), tn])
        sts.append([str(s.name), ops])
    return vs, sts


def render_operand(rng, var, size, is_array, idxs):
    """one of the equivalent surface forms of the element list idxs of variable var"""
    if not is_array:
        return var
    forms = []
    if idxs == list(range(size)):
        forms.append(var)
    if len(idxs) >= 1 and idxs == list(range(idxs[0], idxs[0] + len(idxs))):
        forms.append(f"{var}[{idxs[0]}:{idxs[-1]}]")
    forms.append(f"{var}[{', '.join(map(str, idxs))}]")
    if len(idxs) == 1:
        forms.append(f"{var}[{idxs[0]}]")
    return rng.choice(forms)


def render_param(rng, x, is_int):
    if is_int:
        return str(int(x))
    named = {PI: "pi", -PI: "-pi", PI / 2: "pi/2", -PI / 3: "-pi/3", PI / 4: "pi / 4", 2 * PI: "2*pi", 1.0: "1.0", 0.5: "0.5",
             3.0: "3.0", -1.5: "-1.5", 1e-3: "1.0e-3", 0.0: "0.0"}
    return named[x]


def make_program(rng):
    """a random flat instruction list and one of its renderings -> (text, flat list, nq, nb)"""
    nqv = rng.randint(1, 3)
    nbv = rng.randint(0, 3)
    qvars = [(f"q{chr(97 + i)}", rng.randint(1, 5), rng.random() < 0.8) for i in range(nqv)]
    bvars = [(f"b{chr(97 + i)}", rng.randint(1, 5), rng.random() < 0.8) for i in range(nbv)]
    qvars = [(n, s if arr else 1, arr) for n, s, arr in qvars]
    bvars = [(n, s if arr else 1, arr) for n, s, arr in bvars]
    decls = [("qubit", v) for v in qvars] + [("bit", v) for v in bvars]
    rng.shuffle(decls)
    # offsets in declaration order per kind
    off = {}
    cq = cb = 0
    for kind, (n, s, arr) in decls:
        if kind == "qubit":
            off[n] = cq; cq += s
        else:
            off[n] = cb; cb += s
    n_mid = rng.randint(0, len(decls) - 1) if rng.random() < 0.4 else 0
    early, late = decls[:len(decls) - n_mid], decls[len(decls) - n_mid:]
    declared = {v[0] for _, v in early}
    lines = ["version 3.0", ""]
    for kind, (n, s, arr) in early:
        lines.append(f"{kind}[{s}] {n}" if arr else f"{kind} {n}")
    flat = []
    n_stmts = rng.randint(1, 8)
    params = [PI, -PI, PI / 2, -PI / 3, PI / 4, 2 * PI, 1.0, 0.5, 3.0, -1.5, 1e-3, 0.0]
    for si in range(n_stmts):
        if late and rng.random() < 0.4:
            kind, (n, s, arr) = late.pop(0)
            lines.append(f"{kind}[{s}] {n}" if arr else f"{kind} {n}")
            declared.add(n)
        if rng.random() < 0.15:
            lines.append(rng.choice(["", "// a comment", "/* block\ncomment */"]))
        qv = [v for v in qvars if v[0] in declared]
        bv = [v for v in bvars if v[0] in declared]
        if not qv:
            continue
        r = rng.random()
        if r < 0.12 and bv:
            var, size, arr = rng.choice(qv)
            bvar, bsize, barr = rng.choice(bv)
            m = rng.randint(1, min(size, bsize))
            qi = sorted(rng.sample(range(size), m)) if rng.random() < 0.7 else rng.sample(range(size), m)
            bi = sorted(rng.sample(range(bsize), m)) if rng.random() < 0.7 else rng.sample(range(bsize), m)
            if not arr:
                qi = [0]; m = 1; bi = bi[:1]
            if not barr:
                bi = [0]; m = 1; qi = qi[:1]
            lines.append(f"{render_operand(rng, bvar, bsize, barr, bi)} = measure {render_operand(rng, var, size, arr, qi)}")
            for a, b in zip(qi, bi):
                flat.append(["measure", off[var] + a, off[bvar] + b])
        elif r < 0.2:
            if rng.random() < 0.3:
                lines.append("reset")
                for q in range(sum(s for _, (n, s, a) in decls if _ == "qubit" and n in declared) if False else cq):
                    flat.append(["reset", q])
            else:
                var, size, arr = rng.choice(qv)
                m = rng.randint(1, size)
                qi = rng.sample(range(size), m) if arr else [0]
                lines.append(f"reset {render_operand(rng, var, size, arr, qi)}")
                for a in qi:
                    flat.append(["reset", off[var] + a])
        else:
            name = rng.choice(gen.ONEQ_NOPARAM + gen.ONEQ_PARAM + gen.TWOQ)
            sig = gen.GATE_SIG[name]
            nqa = sig.count("q")
            if nqa == 1:
                var, size, arr = rng.choice(qv)
                m = rng.randint(1, size)
                cols = [(var, size, arr, (rng.sample(range(size), m) if arr else [0]))]
            else:
                # two operand lists of equal length on disjoint elements
                pool = [(v, i) for v in qv for i in range(v[1])]
                if len(pool) < 2:
                    continue
                v1 = rng.choice(qv)
                v2 = rng.choice(qv)
                if v1[0] == v2[0]:
                    if v1[1] < 2:
                        continue
                    m = rng.randint(1, v1[1] // 2)
                    idx = rng.sample(range(v1[1]), 2 * m)
                    cols = [(v1[0], v1[1], v1[2], idx[:m]), (v1[0], v1[1], v1[2], idx[m:])]
                else:
                    m = rng.randint(1, min(v1[1], v2[1]))
                    cols = [(v1[0], v1[1], v1[2], rng.sample(range(v1[1]), m) if v1[2] else [0]),
                            (v2[0], v2[1], v2[2], rng.sample(range(v2[1]), m) if v2[2] else [0])]
                    mm = min(len(cols[0][3]), len(cols[1][3]))
                    cols = [(c[0], c[1], c[2], c[3][:mm]) for c in cols]
            par = None
            ptxt = ""
            if sig[-1] == "f":
                par = rng.choice(params)
                ptxt = f"({render_param(rng, par, False)})"
            elif sig[-1] == "i":
                par = rng.choice([0, 1, 2, 3, 7])
                ptxt = f"({par})"
            ops = ", ".join(render_operand(rng, *c) for c in cols)
            lines.append(f"{name}{ptxt} {ops}")
            m = len(cols[0][3])
            for i in range(m):
                args = [off[c[0]] + c[3][i] for c in cols]
                if par is not None:
                    args.append(par)
                flat.append(["named", name, args])
    for kind, (n, s, arr) in late:
        lines.append(f"{kind}[{s}] {n}" if arr else f"{kind} {n}")
    return "\n".join(lines) + "\n", flat, cq, cb


BAD_FIRST = ["version 3.0\nqubit[4] q\nH q[3]\nCNOT q[1], q[1]\n", "version 3.0\nqubit[2] q\nX q[0]\nFoo q[1]\n",
             "version 3.0\nqubit[3] q\nbit[1] b\nY q[2]\nb[0] = measure q[1]\nCZ q[0], q[0]\n", "version 3.0\nqubit[2] q\nH q[5]\n"]


def feed(parser, text):
    """hand a program to a long-lived Parser object, whatever it makes of it"""
    try:
        parser.circuit_from_string(text)
    except Exception:  # noqa: BLE001
        pass


def run(ctx):
    rng = ctx.rng
    ctx.rule("programs rendered from a random flat instruction list choosing per operand among whole variable, range a:b, "
             "index list, single index; parameters as literals and constant expressions (-pi/3, 2*pi); 1..3 qubit and 0..3 bit "
             "variables of sizes 1..5 in shuffled, also mid-program, declaration order, scalars and arrays, comments and blank "
             "lines; fixed corpus of malformed programs; non-trivial = program with at least one instruction")
    from opensquirrel.parser.libqasm.parser import Parser

    reused = Parser()
    n = ctx.pick(400, 6000)
    progs = [make_program(rng) for _ in range(n)]
    asts, reqs, idx = [], [], []
    for i, (text, flat, nq, nb) in enumerate(progs):
        d = dump_ast(text)
        asts.append(d)
        if d is not None:
            reqs.append(["parse_program", d[0], d[1]])
            idx.append(i)
    mres = dict(zip(idx, model.call_many(reqs)))
    ctx.suite("programs", cases=len(progs))
    prev = None
    for i, (text, flat, nq, nb) in enumerate(progs):
        # the same program through ONE Parser object reused for the whole run must give the same circuit; now and then
        # the reused parser is first fed a program that is refused (by libqasm, or by OpenSquirrel after some statements)
        check_program(ctx, {"text": text, "flat": flat, "nq": nq, "nb": nb, "reused_prev": prev}, asts[i], mres.get(i),
                      reused, lambda: rng.choice(BAD_FIRST) if rng.random() < 0.15 else None)
        prev = text
    ctx.sample({"text": progs[0][0], "flat": progs[0][1]})
    # malformed corpus
    for text in MALFORMED:
        check_malformed(ctx, {"text": text, "malformed": True})
    ctx.suite("malformed", cases=len(MALFORMED))
    # shadowed redeclarations (accepted by libqasm 0.6.7)
    for text, nq, nb, flat in REDECLARED:
        check_redeclared(ctx, {"text": text, "redeclared": True}, nq, nb, flat)
    ctx.suite("redeclared", cases=len(REDECLARED))


def check_program(ctx, prog, ast, mr, reused, refused_first):
    """prog: the program with the flat list it was rendered from and the history of the reused parser (the program it
    read before; refused_first() says which refused program, if any, it is fed first)"""
    from opensquirrel.circuit import Circuit

    text, flat, nq, nb = prog["text"], prog["flat"], prog["nq"], prog["nb"]
    case = {"text": text}
    ctx.seen(case, len(flat) > 0)
    ctx.bump(f"instructions_{min(len(flat), 12)}")
    try:
        c = Circuit.from_string(text)
        err = None
    except Exception as e:  # noqa: BLE001
        c, err = None, implrun.errkind(e)
    bad = refused_first()
    if bad is not None:
        feed(reused, bad)
    case = {**prog, "refused_first": bad}        # as recorded: everything a replay needs
    try:
        c_re = reused.circuit_from_string(text)
        same = err is None and (c_re.qubit_register_size, c_re.bit_register_size) == (c.qubit_register_size, c.bit_register_size) \
            and not ser.struct_diff(implrun.canon_post(c_re.ir.statements), implrun.canon_post(c.ir.statements), 0)
    except Exception as e:  # noqa: BLE001
        same = err is not None
    if not same:
        ctx.oracle_fail("programs", case, "a Parser object that already parsed other programs gives a different circuit", None)
        return
    eq = None
    if ast is None:
        ctx.oracle_fail("programs", case, f"generator bug or parser defect: libqasm rejected a supported program ({err})", None)
        return
    margin, r = mr
    mv = ser.canon(r)
    if err is not None:
        eq = mv[0] == "err"
        if not eq:
            ctx.disagree("programs", case, f"impl raised {err}, model parsed")
        ctx.oracle_fail("programs", case, f"supported program raised {err}", eq)
        return
    post = implrun.canon_post(c.ir.statements)
    if mv[0] != "ok":
        ctx.disagree("programs", case, f"model error {mv}")
        eq = False
    else:
        mnq, mnb, mir = mv[1]
        d = None
        if (mnq, mnb) != (c.qubit_register_size, c.bit_register_size):
            d = f"register sizes impl {(c.qubit_register_size, c.bit_register_size)} model {(mnq, mnb)}"
        else:
            d = ser.struct_diff(post, implrun.renumber(mir), 1e-12)
        if d:
            ctx.disagree("programs", case, d, margin)
        eq = d is None
    # oracle: the flat list the text was rendered from
    if (c.qubit_register_size, c.bit_register_size) != (nq, nb):
        ctx.oracle_fail("programs", case, f"register sizes {(c.qubit_register_size, c.bit_register_size)}, declared {(nq, nb)}", eq)
        return
    ref = gen.build_circuit(nq, nb, flat)
    want = implrun.canon_post(ref.ir.statements)
    dd = ser.struct_diff(post, want, 1e-12)
    if dd:
        ctx.oracle_fail("programs", case, "circuit is not the element-wise expansion in source order: " + dd, eq)


def check_malformed(ctx, case):
    from opensquirrel.circuit import Circuit

    ctx.seen(case)
    try:
        Circuit.from_string(case["text"])
        ctx.oracle_fail("malformed", case, "a program the language rejects produced a circuit", None)
    except Exception:  # noqa: BLE001
        pass


def check_redeclared(ctx, case, nq, nb, flat):
    from opensquirrel.circuit import Circuit

    text = case["text"]
    ctx.seen(case)
    try:
        c = Circuit.from_string(text)
    except Exception as e:  # noqa: BLE001
        return        # refusing would be fine
    want = implrun.canon_post(gen.build_circuit(nq, nb, flat).ir.statements)
    got = implrun.canon_post(c.ir.statements)
    dd = ser.struct_diff(got, want, 1e-12)
    if dd or (c.qubit_register_size, c.bit_register_size) != (nq, nb):
        d = dump_ast(text)
        (_, r), = model.call_many([["parse_program", d[0], d[1]]])
        mv = ser.canon(r)
        eqm = mv[0] == "ok" and not ser.struct_diff(got, implrun.renumber(mv[1][2]), 1e-12)
        ctx.oracle_fail("redeclared", case, f"a reference made before the redeclaration is given the offsets of the later variable: {dd}", eqm)


def replay_program(ctx, case):
    """a program of the random suite again, with a new long-lived Parser that is given the recorded history first"""
    from opensquirrel.parser.libqasm.parser import Parser

    reused = Parser()
    if case.get("reused_prev"):
        feed(reused, case["reused_prev"])
    ast = dump_ast(case["text"])
    mr = model.call_many([["parse_program", ast[0], ast[1]]])[0] if ast is not None else None
    prog = {k: case.get(k) for k in ("text", "flat", "nq", "nb", "reused_prev")}
    check_program(ctx, prog, ast, mr, reused, lambda: case.get("refused_first"))


def replay(ctx, payload):
    from harness import framework

    suite, case = framework.replay_target(payload)
    if case is None:
        return framework.replay_nothing(payload)
    if case.get("malformed"):
        check_malformed(ctx, case)
    elif case.get("redeclared"):
        for text, nq, nb, flat in REDECLARED:
            if text == case["text"]:
                check_redeclared(ctx, case, nq, nb, flat)
    elif "flat" in case:
        replay_program(ctx, case)
    else:
        return framework.replay_nothing(payload, "record without the instruction list the program was rendered from")
    return framework.replay_result(ctx)
