"""Generators and helpers shared by the text outputs (C04 writer round trip, C12 cQASM 1 export, C20)."""
from __future__ import annotations

import math

from harness import gen, implrun, model, ser, sexp

PI = math.pi


def param_value(rng) -> float:
    r = rng.random()
    if r < 0.15:
        return rng.choice([0.0, -0.0, 1.0, -1.0, 2.0, 3.0, 10.0, 100.0, 1000.0])
    if r < 0.35:
        m = rng.choice([1.0, 1.5, 9.9999999, 1.00000001, 2.5, 9.99999995, 1.2345678, 5.0])
        e = rng.choice([-12, -9, -7, -6, -5, -4, -3, 0, 3, 6, 7, 8])
        return rng.choice([-1, 1]) * m * 10.0 ** e
    if r < 0.55:
        return rng.choice([PI, -PI, PI / 2, PI / 4, 3.1415927, 1.5707963, 1e-5, 1e-4, 12345678.0, 1234567.0, 0.0001, 0.00001234])
    if r < 0.8:
        return rng.uniform(-PI, PI)
    return rng.uniform(-1, 1) * 10.0 ** rng.randint(-12, 3)


def printable_spec(rng, nq, nb, allow_measure_z=True):
    r = rng.random()
    if r < 0.3:
        return ["named", rng.choice(gen.ONEQ_NOPARAM), [rng.randrange(nq)]]
    if r < 0.5:
        return ["named", rng.choice(gen.ONEQ_PARAM), [rng.randrange(nq), param_value(rng)]]
    if r < 0.75 and nq >= 2:
        nm = rng.choice(gen.TWOQ)
        a, b = gen.rand_qubits(rng, nq, 2)
        if nm == "CR":
            return ["named", nm, [a, b, param_value(rng)]]
        if nm == "CRk":
            return ["named", nm, [a, b, rng.choice([0, 1, 2, 3, 5, 10, 64, -1, -3])]]
        return ["named", nm, [a, b]]
    if r < 0.85 and nb > 0:
        return [rng.choice(["measure", "measure_z"] if allow_measure_z else ["measure"]), rng.randrange(nq), rng.randrange(nb)]
    if r < 0.93:
        return ["reset", rng.randrange(nq)]
    return ["comment", rng.choice(["a comment", "x", "* star", "/ slash /", "multi\nline", "  padded  ", "q[0] = H"])]


def printable_circuit(rng, max_len=10, anonymous=False, allow_measure_z=True):
    nq = rng.choice([1, 2, 3, 4, 5, 8, 17, 64])
    nb = rng.choice([0, 1, 2, 5])
    specs = [printable_spec(rng, nq, nb, allow_measure_z) for _ in range(rng.randint(0, max_len))]
    if anonymous:
        for _ in range(rng.randint(1, 3)):
            pos = rng.randint(0, len(specs))
            k = rng.random()
            if k < 0.5 or nq < 2:
                g = ["bsr", rng.randrange(nq), gen.rand_axis(rng), gen.rand_angle(rng), gen.rand_angle(rng)]
            elif k < 0.8:
                a, b = gen.rand_qubits(rng, nq, 2)
                g = ["ctrl", a, ["bsr", b, gen.rand_axis(rng), gen.rand_angle(rng), 0.0]]
            else:
                g = ["mat", gen.rand_qubits(rng, nq, 2), gen.rand_unitary(rng, 4)]
            specs.insert(pos, g)
    return nq, nb, specs


def normalize_anonymous(text: str) -> str:
    return "\n".join("Anonymous gate: <repr>" if l.startswith("Anonymous gate: ") else l for l in text.split("\n"))


PRE_PASSES = [[], [], [["decompose", "zyz"]], [["decompose", "mckay"]], [["decompose", "cnot"]], [["merge"]],
              [["replace", "CNOT", "cnot_to_hczh"]], [["map", "perm"]], [["decompose", "xyx"], ["map", "perm"]],
              [["decompose", "cnot"], ["merge"], ["decompose", "mckay"]],
              [["replace", "CNOT", "shared"], ["merge"], ["map", "perm"]],
              [["replace", "CNOT", "shared"], ["map", "perm"], ["merge"], ["map", "perm"]]]


def apply_pre(rng, c, pre, applied=None):
    """apply a pre-pass list; returns False if a pass raised (those are C01's concern). The passes as they were run
    (the drawn permutation in place of "perm") are appended to `applied`, from which replay_pre runs them again."""
    for p in pre:
        p = list(p)
        if p[0] == "map":
            perm = list(range(c.qubit_register_size))
            rng.shuffle(perm)
            p = ["map", perm]
        if applied is not None:
            applied.append(p)
        try:
            implrun.apply_pass(c, p)
        except Exception:  # noqa: BLE001
            return False
    return True


def seen_key(case):
    """the case as it is counted (ctx.seen): without what was added to it for the replay"""
    return {k: v for k, v in case.items() if k != "pre_applied"}


def replay_pre(c, case):
    """the earlier passes of a recorded case again, with the permutations the run had drawn"""
    import random

    if "pre_applied" not in case:       # records written before the permutations were kept
        return apply_pre(random.Random(0), c, case.get("pre", []))
    for p in case["pre_applied"]:
        try:
            implrun.apply_pass(c, list(p))
        except Exception:  # noqa: BLE001
            return False
    return True


def replay_history(c, case, export):
    """the recorded history of a case again: ["export", ["map", perm], "export"]"""
    for h in case.get("history", []):
        if h == "export":
            export(c)
        else:
            implrun.apply_pass(c, list(h))
