"""C03 — qubit mapping relabels the whole circuit, in every view of it."""
from __future__ import annotations

import copy
import itertools

from harness import gen, implrun, model, oracles, ser, sexp

ID = "C03"
TRUSTED = ["extraction + OCaml driver", "serializer reads object fields and id(); libqasm for the text view"]
ASSUMPTIONS = ["oracle: relabelling applied to the serialised pre-state (both descriptions), independent of the library"]
CLASSIFIERS: dict = {}


def relabel_canon(stmts, f):
    """apply f to every qubit field of a canonical (ser.canon) statement list"""
    def gate(g):
        if g[0] == "bsr":
            return ["bsr", f(g[1]), *g[2:]]
        if g[0] == "ctrl":
            return ["ctrl", f(g[1]), gate(g[2])]
        return ["mat", g[1], [f(q) for q in g[2]]]

    def ginfo(gi):
        args = gi[2]
        if args == "none":
            return gi
        return ["gi", gi[1], ["some", [["q", f(a[1])] if a[0] == "q" else a for a in args[1]]]]

    out = []
    for s in stmts:
        if s[0] == "gate":
            out.append(["gate", s[1], gate(s[2]), ginfo(s[3])])
        elif s[0] == "measure":
            out.append(["measure", s[1], f(s[2]), s[3], s[4], ginfo(s[5])])
        elif s[0] == "reset":
            out.append(["reset", s[1], f(s[2]), ginfo(s[3])])
        else:
            out.append(s)
    return out


def mapping_lists(ctx):
    n = ctx.pick(4, 5)
    lists = [list(l) for k in range(0, n + 1) for l in itertools.product(range(n + 1), repeat=k)]
    lists += [[-1, 0], [0, -1, 1], [1, 0, 5], [0, 0], [2, 1, 0, 3, 5, 4], list(range(11, -1, -1))]
    return n, lists


def mapping_suite(ctx):
    n, lists = mapping_lists(ctx)
    reqs = [["mapping_ok", l] for l in lists]
    mres = model.call_many(reqs)
    for l, mr in zip(lists, mres):
        check_mapping(ctx, l, mr)
    ctx.suite("mapping_lists", cases=len(lists), exhaustive=True, max_value=n, max_length=n)
    ctx.exhaustive = True


def check_mapping(ctx, l, mr):
    from opensquirrel.mapper import HardcodedMapper
    from opensquirrel.mapper.mapping import Mapping

    _, r = mr
    case = {"mapping": l}
    ctx.seen(case, len(l) > 0)
    try:
        Mapping(l)
        im = True
    except ValueError:
        im = False
    mv = str(r) == "true"
    if im != mv:
        ctx.disagree("mapping", case, f"impl {im} model {mv}")
    want = sorted(l) == list(range(len(l)))
    if im != want:
        ctx.oracle_fail("mapping", case, f"Mapping({l}) accepted={im}, is a permutation={want}", im == mv)
    if im:
        for size in {len(l) - 1, len(l), len(l) + 1} - {-1}:
            try:
                HardcodedMapper(size, Mapping(l))
                ok = True
            except ValueError:
                ok = False
            if ok != (size == len(l)):
                ctx.oracle_fail("mapping", {"mapping": l, "mapper_size": size}, f"Mapper size check: accepted={ok}", None)


SEED_SPECS = {
    1: [["named", "H", [0]], ["comment", "c"], ["bsr", 0, [1.0, 1.0, 0.0], 0.7, 0.1], ["measure", 0, 0], ["reset", 0]],
    2: [["named", "H", [1]], ["named", "CNOT", [0, 1]], ["named", "CR", [1, 0, 0.5]], ["measure", 1, 0], ["reset", 0],
        ["mat", [1, 0], gen.perm_matrix([0, 2, 1, 3])]],
    3: [["named", "Rx", [2, 0.4]], ["ctrl", 0, ["ctrl", 2, ["bsr", 1, [0.0, 0.0, 1.0], 1.0, 0.5]]], ["named", "CZ", [2, 0]],
        ["comment", "x"], ["measure", 2, 1], ["measure", 0, 0], ["reset", 1], ["mat", [2, 0, 1], gen.perm_matrix([1, 0, 2, 3, 4, 5, 7, 6])]],
    4: [["named", "CRk", [3, 1, 2]], ["named", "Y90", [0]], ["ctrl", 3, ["named", "X", [2]]], ["measure", 3, 0],
        ["named", "CNOT", [2, 0]], ["reset", 2]],
    5: [["named", "CNOT", [4, 0]], ["named", "T", [3]], ["mat", [1, 4], gen.perm_matrix([0, 1, 3, 2])], ["measure", 2, 1],
        ["ctrl", 1, ["bsr", 3, [1.0, 0.0, 0.0], 3.0, 0.0]]],
}


def views(circuit):
    """every outward view of the circuit as comparable data"""
    from opensquirrel.exporter.export_format import ExportFormat

    out = {}
    try:
        out["v3"] = str(circuit)
    except Exception as e:  # noqa: BLE001
        out["v3"] = "raised " + type(e).__name__
    try:
        out["v1"] = circuit.export(ExportFormat.CQASM_V1)
    except Exception as e:  # noqa: BLE001
        out["v1"] = "raised " + type(e).__name__
    return out


def _funcs(case):
    """user-defined gates (qubit parameters also in another order than the operands) when the case uses them"""
    if not case.get("user"):
        return None
    from harness.props import c20

    return c20.user_functions()


def remap_case(ctx, suite, nq, nb, specs, perm, pre_passes=(), user=False):
    from opensquirrel.mapper import HardcodedMapper
    from opensquirrel.mapper.mapping import Mapping

    case = {"nq": nq, "nb": nb, "specs": specs, "perm": list(perm), "pre": [list(p) for p in pre_passes]}
    if user:
        case["user"] = True
    c = gen.build_circuit(nq, nb, specs, _funcs(case))
    for p in pre_passes:
        try:
            implrun.apply_pass(c, list(p))
        except Exception:  # noqa: BLE001
            return None
    pre_ser = ser.ser_stmts(c.ir.statements)
    pre = implrun.renumber(ser.canon(sexp.loads(sexp.dumps(pre_ser))))
    before_stmts = list(c.ir.statements)
    before_copy = copy.deepcopy(c)
    f = lambda q: perm[q] if 0 <= q < len(perm) else q  # noqa: E731
    try:
        mapper = HardcodedMapper(nq, Mapping(list(perm)))
    except ValueError:
        return None
    views(c)        # views of this very object before mapping: whatever the library caches per circuit is now populated
    err, post = implrun.run_impl(c, ["map", list(perm)])
    return case, c, pre_ser, pre, err, post, f, before_copy, before_stmts


def check_remap(ctx, suite, item, mres):
    case, c, pre_ser, pre, err, post, f, before_copy, before_stmts = item
    case_views_before = views(before_copy)
    ctx.seen(case, len(case["specs"]) > 0 and case["perm"] != sorted(case["perm"]))
    margin, r = mres
    merr, mpost = implrun.model_outcome(["map"], r)
    d = None
    if (err is None) != (merr is None):
        d = f"impl error={err} model error={merr}"
    elif mpost is not None:
        d = ser.struct_diff(post, mpost, 1e-12)
    if d:
        ctx.disagree(suite, case, d)
    eq = d is None
    if err is not None:
        ctx.oracle_fail(suite, case, f"mapping with a permutation of the register raised {err}", eq)
        return
    want = relabel_canon(pre, f)
    dd = ser.struct_diff(post, want, 1e-12)
    if dd:
        ctx.oracle_fail(suite, case, "statements are not the relabelled originals (both descriptions): " + dd, eq)
        return
    # same statement objects, same order (in-place relabelling)
    if len(c.ir.statements) != len(before_stmts) or any(x is not y for x, y in zip(c.ir.statements, before_stmts)):
        ctx.oracle_fail(suite, case, "statement objects or order changed", eq)
        return
    # views show the mapped qubits: compare with the views of a circuit built directly on the relabelled spec
    if not case["pre"]:
        ref = gen.build_circuit(case["nq"], case["nb"], dc_relabel(case["specs"], f), _funcs(case))
        v, vr = views(c), views(ref)
        for k in v:
            if v[k] != vr[k]:
                ctx.oracle_fail(suite, case, f"view {k} does not show the mapped qubits:\n{v[k]}\n--- expected ---\n{vr[k]}", eq)
                return
        # operation = original conjugated by the qubit permutation
        ok, why = oracles.kraus_equivalent(list(before_copy.ir.statements), list(c.ir.statements), 1e-9,
                                           qubit_perm={q: f(q) for q in range(case["nq"])})
        if not ok:
            ctx.oracle_fail(suite, case, "operation is not the original conjugated by the permutation: " + why, eq)
            return
    else:
        import re

        f_txt = lambda t: re.sub(r"q\[(\d+)\]", lambda m: f"q[{f(int(m.group(1)))}]", t)  # noqa: E731
        v_after = views(c)
        for k, before_txt in case_views_before.items():
            if before_txt.startswith("raised") or "Anonymous gate" in before_txt:
                continue
            if f_txt(before_txt) != v_after[k]:
                ctx.oracle_fail(suite, case, f"view {k} after mapping is not the view before with q[i] -> q[p(i)]:\n{v_after[k]}\n--- expected ---\n{f_txt(before_txt)}", eq)
                return
    # p then p^-1 restores
    inv = [0] * len(case["perm"])
    for i, p in enumerate(case["perm"]):
        inv[p] = i
    err2, post2 = implrun.run_impl(c, ["map", inv])
    if err2 is not None or ser.struct_diff(post2, pre, 1e-12):
        ctx.oracle_fail(suite, case, "mapping with p then p^-1 does not restore the circuit", eq)


def dc_relabel(specs, f):
    from harness.props.decomp_common import relabel_specs

    m = {q: f(q) for q in range(64)}
    return relabel_specs(specs, m)


def remap_suite(ctx):
    rng = ctx.rng
    items = []
    nmax = ctx.pick(4, 5)
    for n in range(1, nmax + 1):
        for perm in itertools.permutations(range(n)):
            it = remap_case(ctx, "perms", n, 2, SEED_SPECS[n], perm)
            if it:
                items.append(("perms", it))
    for _ in range(ctx.pick(60, 800)):
        n = rng.randint(2, 12)
        perm = list(range(n))
        rng.shuffle(perm)
        specs = gen.rand_circuit_spec(rng, n, 2, rng.randint(1, 10), max_ctrl=2)
        it = remap_case(ctx, "random", n, 2, specs, perm)
        if it:
            items.append(("random", it))
    # user-defined named gates among the statements: their arguments (in the order of THEIR parameters, which need not be
    # the order of the operands of the gate they build) must be relabelled like everything else
    from harness.props import c20

    c20.user_functions()
    for _ in range(ctx.pick(40, 400)):
        n = rng.randint(3, 6)
        perm = list(range(n))
        rng.shuffle(perm)
        specs = gen.rand_circuit_spec(rng, n, 2, rng.randint(0, 4), max_ctrl=1)
        for _k in range(rng.randint(1, 3)):
            specs.insert(rng.randint(0, len(specs)), c20.rand_user_spec(rng, n))
        it = remap_case(ctx, "user_gates", n, 2, specs, perm, user=True)
        if it:
            items.append(("user_gates", it))
    # circuits produced by earlier passes, and by callbacks returning one object several times
    pre_choices = [[["decompose", "zyz"]], [["merge"]], [["decompose", "cnot"], ["merge"]],
                   [["replace", "CNOT", "shared"]], [["replace", "CNOT", "cnot_to_hczh"], ["decompose", "mckay"]],
                   [["replace", "CNOT", "shared"], ["merge"]], [["replace", "CNOT", "shared"], ["merge"], ["decompose", "zyz"]],
                   [["replace", "CNOT", "shared"], ["decompose", "xyx"], ["merge"]]]
    for _ in range(ctx.pick(60, 600)):
        n = rng.randint(2, 4)
        perm = list(range(n))
        rng.shuffle(perm)
        specs = gen.rand_circuit_spec(rng, n, 1, rng.randint(1, 6), allow_mat=False, max_ctrl=1, wide_angles=False)
        specs.append(["named", "CNOT", gen.rand_qubits(rng, n, 2)])
        it = remap_case(ctx, "after_passes", n, 1, specs, perm, rng.choice(pre_choices))
        if it:
            items.append(("after_passes", it))
    reqs = [["remap", it[0]["nq"], it[0]["perm"], it[2]] for _, it in items]
    mres = model.call_many(reqs)
    for (suite, it), mr in zip(items, mres):
        check_remap(ctx, suite, it, mr)
    ctx.suite("remap", cases=len(items), exhaustive_perms_up_to=nmax)
    if items:
        ctx.sample({"case": items[len(items) // 2][1][0]})


def refusal_suite(ctx):
    """shorter / longer mappings, uncovered qubits: refused without leaving the circuit partially mapped"""
    rng = ctx.rng
    n_cases = 0
    for _ in range(ctx.pick(80, 800)):
        nq = rng.randint(2, 5)
        specs = gen.rand_circuit_spec(rng, nq, 1, rng.randint(1, 8), max_ctrl=2)
        k = rng.choice([nq - 1, nq - 2, nq + 1, nq + 2, nq])
        if k < 1:
            continue
        if rng.random() < 0.4 and k < nq:
            # the qubits the short mapping does not cover are used ONLY by measurements / resets, placed anywhere
            specs = [s for s in specs if all(q < k for q in gen.spec_qubits(s))]
            for _ in range(rng.randint(1, 2)):
                q = rng.randrange(k, nq)
                specs.insert(rng.randint(0, len(specs)), rng.choice([["measure", q, 0], ["reset", q]]))
        perm = list(range(k))
        rng.shuffle(perm)
        check_refusal(ctx, {"nq": nq, "nb": 1, "specs": specs, "perm": perm})
        n_cases += 1
    ctx.suite("refusal", cases=n_cases)


def check_refusal(ctx, case):
    from opensquirrel.mapper.mapping import Mapping
    from opensquirrel.mapper.qubit_remapper import remap_ir

    nq, specs, perm = case["nq"], case["specs"], case["perm"]
    k = len(perm)
    c = gen.build_circuit(nq, 1, specs)
    pre_ser = ser.ser_stmts(c.ir.statements)
    pre = implrun.canon_post(c.ir.statements)
    try:
        remap_ir(c, Mapping(perm))
        err = None
    except Exception as e:  # noqa: BLE001
        err = implrun.errkind(e)
    post = implrun.canon_post(c.ir.statements)
    (m, r), = model.call_many([["remap", nq, perm, pre_ser]])
    merr, mpost = implrun.model_outcome(["map"], r)
    ctx.seen(case)
    eq = (err is None) == (merr is None) and (mpost is None or not ser.struct_diff(post, mpost, 1e-12))
    if not eq:
        ctx.disagree("refusal", case, f"impl err={err} model err={merr}")
    used = {q for s in specs for q in gen.spec_qubits(s)}
    covered = all(q < k for q in used)
    if k > nq:
        if err is None:
            ctx.oracle_fail("refusal", case, "mapping longer than the register accepted", eq)
    elif not covered:
        if err is None:
            ctx.oracle_fail("refusal", case, "mapping not covering a used qubit accepted", eq)
    elif err is not None:
        ctx.oracle_fail("refusal", case, f"covering mapping refused ({err})", eq)
    if err is not None and ser.struct_diff(post, pre, 0):
        ctx.oracle_fail("refusal", case, "failed mapping left the circuit partially mapped", eq)


def run(ctx):
    from harness.props import sem_common

    sem_common.run_semantics_suite(ctx, ctx.pick(60, 600))
    ctx.rule("all integer lists over 0..n, n<=5 (quick 4) as candidate mappings (exhaustive); all permutations of registers "
             "1..5 (quick 1..4) on seed circuits with every statement kind (nested controls, matrix gates), random "
             "permutations up to 12; circuits after decompose/merge/replace incl. a callback returning one object twice; "
             "mappings shorter/longer than the register; non-trivial = non-identity permutation on a non-empty circuit")
    mapping_suite(ctx)
    remap_suite(ctx)
    refusal_suite(ctx)


def replay(ctx, payload):
    from harness import framework
    from harness.props import sem_common

    suite, case = framework.replay_target(payload)
    if case is None:
        return framework.replay_nothing(payload)
    if sem_common.is_semantics(suite, case):
        return sem_common.replay(ctx, case)
    if "mapping" in case:
        check_mapping(ctx, case["mapping"], model.call_many([["mapping_ok", case["mapping"]]])[0])
    elif "pre" not in case:         # the refusal suite is the one without earlier passes in its records
        check_refusal(ctx, case)
    else:
        it = remap_case(ctx, suite or "replay", case["nq"], case["nb"], case["specs"], case["perm"], case.get("pre", ()),
                        user=bool(case.get("user")))
        if it is None:
            return {"fails": False, "note": "an earlier pass raised or the mapping is not constructible: nothing to check"}
        mres = model.call_many([["remap", case["nq"], case["perm"], it[2]]])
        check_remap(ctx, suite or "replay", it, mres[0])
    return framework.replay_result(ctx)
