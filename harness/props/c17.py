"""C17 — compilation is deterministic and free of hidden shared state (partial: see level note)."""
from __future__ import annotations

import hashlib
import itertools
import json
import os
import subprocess
import sys

from harness import env, gen, implrun, model, oracles, ser, sexp

ID = "C17"
TRUSTED = ["CPython's per-process string hashing, module-level state and ndarray sharing cannot be exhibited by a Gallina "
           "function: they are monitored at run time (interleavings in one process, fresh processes under several PYTHONHASHSEED)",
           "the model is a function, so model determinism is by construction; the theorems state independence from object identities"]
ASSUMPTIONS = ["byte-identical output is required across processes and hash seeds for every (source, pipeline) pair of the pool"]
CLASSIFIERS: dict = {}

POOL = [
    ("version 3.0\nqubit[3] q\nbit[2] b\nH q[0]\nCNOT q[0], q[1]\nCR(1.25) q[1], q[2]\nb[0] = measure q[0]\nRx(0.5) q[2]\nRy(-0.5) q[2]\n",
     [["decompose", "cnot"], ["merge"], ["decompose", "mckay"]]),
    ("version 3.0\nqubit[2] q\nX q[0]\nY q[0]\nCZ q[0], q[1]\nreset q[1]\nT q[1]\nTdag q[1]\n",
     [["merge"], ["decompose", "zyz"]]),
    ("version 3.0\nqubit[4] q\nH q[0:3]\nCNOT q[0:1], q[2:3]\nRz(3.0) q[1]\nCRk(3) q[3], q[0]\n",
     [["replace", "CNOT", "cnot_to_hczh"], ["map", [2, 0, 3, 1]], ["decompose", "xyx"]]),
    ("version 3.0\nqubit[3] q\nbit[3] b\nY90 q[2]\nmX90 q[1]\nS q[0]\nCZ q[2], q[0]\nb = measure q\n",
     [["map", [1, 2, 0]], ["merge"]]),
    ("version 3.0\nqubit[2] q\nRx(1.0) q[0]\nRz(0.3) q[0]\nCNOT q[1], q[0]\nH q[1]\n",
     [["decompose", "cnot"], ["decompose", "yzy"], ["merge"], ["map", [1, 0]]]),
    ("version 3.0\nqubit[2] q\nH q[0]\nY90 q[1]\nCNOT q[0], q[1]\nH q[0]\n",
     [["decompose", "zyz"], ["map", [1, 0]]]),
    ("version 3.0\nqubit[2] q\nH q[0]\nY90 q[1]\nCNOT q[0], q[1]\nH q[0]\n",
     [["decompose", "zyz"]]),
    ("version 3.0\nqubit[3] q\nX90 q[2]\nH q[1]\nS q[0]\nH q[1]\n",
     [["decompose", "mckay"], ["map", [2, 0, 1]], ["decompose", "xzx"]]),
    # circuits that are not parsed but built (comments exist only there): rotations pending on several qubits around
    # comments, then merged / mapped — anything iterating over a set of qubits shows under PYTHONHASHSEED
    (("specs", 4, 1, [["named", "H", [0]], ["named", "X90", [1]], ["named", "Y90", [2]], ["named", "S", [3]], ["comment", "entangle"],
                      ["named", "CNOT", [0, 1]], ["named", "T", [3]], ["comment", "second"], ["named", "CNOT", [2, 3]], ["measure", 3, 0]]),
     [["merge"]]),
    (("specs", 5, 0, [["named", "Rx", [4, 0.3]], ["named", "Ry", [2, 0.4]], ["named", "Rz", [0, 0.5]], ["named", "H", [1]], ["named", "H", [3]],
                      ["comment", "a"], ["named", "Rx", [4, 0.1]], ["named", "Z", [3]], ["reset", 2], ["named", "CZ", [1, 3]]]),
     [["merge"], ["map", [4, 2, 0, 3, 1]], ["decompose", "zyz"]]),
]

WORKER = r"""
import sys, json
sys.path.insert(0, sys.argv[1]); sys.path.insert(0, sys.argv[2])
from harness import env; env.activate_repo()
from harness.props import c17
order = json.loads(sys.argv[3])
print(json.dumps(c17.compile_many(order)))
"""


def pool_circuit(src, parser=None):
    """the circuit of a pool entry: parsed from its text, or built from its specification"""
    from opensquirrel.circuit import Circuit

    if isinstance(src, (tuple, list)):
        return gen.build_circuit(src[1], src[2], src[3])
    return Circuit.from_string(src) if parser is None else parser.circuit_from_string(src)


def compile_one(i, parser=None):
    from opensquirrel.circuit import Circuit
    from opensquirrel.exporter.export_format import ExportFormat

    src, pipeline = POOL[i]
    try:
        c = pool_circuit(src, parser)
        for p in pipeline:
            implrun.apply_pass(c, list(p))
    except Exception as e:  # noqa: BLE001
        return f"raised {type(e).__name__}: {str(e)[:120]}"
    out = str(c)
    try:
        out += "\n#v1\n" + c.export(ExportFormat.CQASM_V1)
    except Exception as e:  # noqa: BLE001
        out += "\n#v1 raised " + type(e).__name__
    return out


def compile_many(order):
    return [compile_one(i) for i in order]


def table_fingerprint():
    """default gate definitions, gate sets and aliases as plain data"""
    from opensquirrel import default_gates, default_measures, default_resets
    from opensquirrel.ir import Float

    fp = {"gate_set": [f.__name__ for f in default_gates.default_gate_set],
          "aliases": sorted((k, v.__name__) for k, v in default_gates.default_gate_aliases.items()),
          "measure_set": [f.__name__ for f in default_measures.default_measure_set],
          "reset_set": [f.__name__ for f in default_resets.default_reset_set],
          "noparam": [f.__name__ for f in default_gates.default_bloch_sphere_rotations_without_params]}
    gates = {}
    for f in default_gates.default_gate_set:
        sig = gen.GATE_SIG[f.__name__]
        args = [0, 1][:sig.count("q")] + ([Float(0.75)] if "f" in sig else []) + ([3] if "i" in sig else [])
        g = f(*args)
        gates[f.__name__] = sexp.dumps(ser.ser_gate(g))
    fp["gates"] = gates
    return hashlib.sha1(json.dumps(fp, sort_keys=True).encode()).hexdigest(), fp


REFUSED = ["version 3.0\nqubit[2] q\nH q[5]\n", "version 3.0\nqubit[2] q\nnosuchgate q[0]\n", "version 3.0\nqubit q\nbit b\nH q\nH b\n"]


def worker(order, hash_seed):
    """compile_many(order) in a fresh process -> (list of outputs | None, stderr)"""
    envv = dict(os.environ, PYTHONHASHSEED=hash_seed, VERIF_REPO=env.REPO)
    p = subprocess.run([sys.executable, "-c", WORKER, env.VERIF, env.REPO, json.dumps(order)], env=envv,
                       stdout=subprocess.PIPE, stderr=subprocess.PIPE, timeout=600)
    if p.returncode != 0:
        return None, p.stderr.decode()
    return json.loads(p.stdout.decode().strip().splitlines()[-1]), ""


def reference_outputs():
    """every pool entry compiled alone in a fresh process (no compilation history at all)"""
    ref = []
    for i in range(len(POOL)):
        outs, _ = worker([i], "0")
        ref.append(outs[0] if outs is not None else "worker failed")
    return ref


def check_in_process(ctx, case, ref, compiled):
    """compiled: the pool entries compiled in this process so far, in order (recorded as the history of the case)"""
    order = case["order"]
    ctx.seen(case, len(order) >= 2)
    before = len(compiled)
    outs = compile_many(order)
    compiled += order
    for i, o in zip(order, outs):
        if o != ref[i]:
            ctx.oracle_fail("in_process", {**case, "history": compiled[:before]},
                            f"compiling pool entry {i} after {order} gave different output", None)
            break


def check_shared_parser(ctx, case, ref, compiled):
    from opensquirrel.parser.libqasm.parser import Parser

    parser = Parser()
    if case.get("refused_first"):
        try:
            parser.circuit_from_string(case["refused_first"])
        except Exception:  # noqa: BLE001
            pass
    ctx.seen(case, True)
    before = len(compiled)
    for i in case["order"]:
        compiled.append(i)
        if compile_one(i, parser) != ref[i]:
            ctx.oracle_fail("shared_parser", {**case, "history": compiled[:before]},
                            f"pool entry {i} read by a Parser that had read other programs before gave different output", None)
            break


def check_process(ctx, case, ref):
    ordr = case["order"]
    ctx.seen(case)
    outs, stderr = worker(ordr, case["hash_seed"])
    if outs is None:
        ctx.oracle_fail("processes", case, "worker failed: " + stderr[-400:], None)
        return
    for i, o in zip(ordr, outs):
        if o != ref[i]:
            ctx.oracle_fail("processes", case, f"pool entry {i}: output differs across processes / hash seeds", None)
            break


def check_sharing(ctx, case, fp0):
    """gates handed to a callback and gates shared with another circuit are never modified; returns False when the
    default tables changed (the run stops the suite there)"""
    from opensquirrel import default_gates as dg

    nq, specs = case["nq"], case["specs"]
    c1 = gen.build_circuit(nq, 1, specs)
    c2 = gen.build_circuit(nq, 1, [])
    for s in c1.ir.statements:           # c2 shares c1's statement objects
        c2.ir.statements.append(s)
    shared_before = implrun.canon_post(c1.ir.statements)
    handed = []

    def rule(c, t):
        out = implrun._rule_cnot_to_hczh(c, t)
        handed.append((out, implrun.canon_post(out)))
        return out
    ctx.seen(case)
    try:
        c2.replace(dg.CNOT, rule)
        c2.decompose(implrun.decomposer("zyz"))
        c2.merge_single_qubit_gates()
    except Exception:  # noqa: BLE001
        return True
    # passes on c2 rebuild c2's statement LIST; the shared objects themselves (still in c1) must be unchanged
    if ser.struct_diff(shared_before, implrun.canon_post(c1.ir.statements), 0):
        ctx.oracle_fail("sharing", case, "a pass on one circuit modified statements of another circuit sharing the objects", None)
    fp2, _ = table_fingerprint()
    if fp2 != fp0:
        ctx.oracle_fail("tables", case, "default gate definitions / gate sets changed during a pass", None)
        return False
    return True


def check_pool_vs_model(ctx, i):
    """the model (a function) gives the same result as the implementation for pool pipeline i; returns the steps run"""
    from opensquirrel.circuit import Circuit

    src, pipeline = POOL[i]
    c = pool_circuit(src)
    nq = c.qubit_register_size
    for p in pipeline:
        pre = ser.ser_stmts(c.ir.statements)
        err, post = implrun.run_impl(c, list(p))
        (mg, r), = model.call_many([implrun.model_request(list(p), nq, pre)])
        merr, mpost = implrun.model_outcome(list(p), r)
        if (err is None) != (merr is None) or (mpost is not None and ser.struct_diff(post, mpost, 3e-7)):
            ctx.disagree("pool_vs_model", {"pool": i, "pass": p}, "implementation and model differ on a pool pipeline", mg)
    return len(pipeline)


def run(ctx):
    rng = ctx.rng
    ctx.rule("all interleavings (ordered selections with repetition) of up to k compilations (quick 2, thorough 3; 4 sampled) "
             "from a pool of 5 source/pipeline pairs, in one process; the same pool in fresh processes with PYTHONHASHSEED in "
             "{0,1,2,random}; module tables fingerprinted before/after; gates handed to a callback and gates copied from another "
             "circuit checked for mutation; non-trivial = interleaving of at least 2 compilations")
    fp0, _ = table_fingerprint()
    ref = reference_outputs()
    k = ctx.pick(2, 3)
    orders = [list(o) for n in range(1, k + 1) for o in itertools.product(range(len(POOL)), repeat=n)]
    orders += [[rng.randrange(len(POOL)) for _ in range(4)] for _ in range(ctx.pick(10, 120))]
    compiled: list = []
    for order in orders:
        check_in_process(ctx, {"order": order}, ref, compiled)
    ctx.suite("in_process_interleavings", cases=len(orders))
    # the same interleavings with ONE Parser object reading every source of the interleaving (a compilation service keeps
    # its parser); now and then the parser is first handed a program it refuses
    n_sh = 0
    for order in orders:
        if len(order) < 2 and rng.random() < 0.5:
            continue
        case = {"order": order, "kind": "shared_parser"}
        if rng.random() < 0.3:
            case["refused_first"] = rng.choice(REFUSED)
        check_shared_parser(ctx, case, ref, compiled)
        n_sh += 1
    ctx.suite("shared_parser_interleavings", cases=n_sh)
    fp1, _ = table_fingerprint()
    if fp1 != fp0:
        ctx.oracle_fail("tables", {"check": "tables", "history": list(compiled)},
                        "default gate definitions / gate sets changed while compiling", None)
    # fresh processes under several hash seeds
    seeds = ["0", "1", "2", "random"] if not ctx.quick else ["0", "2", "random"]
    order = list(range(len(POOL)))
    n_proc = 0
    for hs in seeds:
        for ordr in ([order, order[::-1]] if not ctx.quick else [order[::-1]]):
            check_process(ctx, {"hash_seed": hs, "order": ordr}, ref)
            n_proc += 1
    ctx.suite("fresh_processes", cases=n_proc, hash_seeds=seeds)
    # gates handed to a callback, and gates copied from another circuit, are never modified
    n_cb = 0
    for _ in range(ctx.pick(40, 400)):
        nq = rng.randint(2, 4)
        specs = gen.rand_circuit_spec(rng, nq, 1, rng.randint(2, 7), max_ctrl=1, allow_mat=False, wide_angles=False)
        specs.append(["named", "CNOT", gen.rand_qubits(rng, nq, 2)])
        n_cb += 1
        if not check_sharing(ctx, {"nq": nq, "nb": 1, "specs": specs}, fp0):
            break
    ctx.suite("callbacks_and_sharing", cases=n_cb)
    # correspondence: the model (a function) gives the same result as the implementation for the pool pipelines
    n_m = 0
    for i in range(len(POOL)):
        n_m += check_pool_vs_model(ctx, i)
    ctx.suite("pool_vs_model", cases=n_m)
    ctx.sample({"pool_entry": 0, "output": ref[0][:300]})


def replay_history(case):
    """compile again, in this process, what the run had compiled before the case"""
    compiled = []
    for i in case.get("history", []):
        compile_one(i)
        compiled.append(i)
    return compiled


def replay(ctx, payload):
    from harness import framework

    suite, case = framework.replay_target(payload)
    if case is None:
        return framework.replay_nothing(payload)
    pub = {k: v for k, v in case.items() if k != "history"}
    if "pool" in case:
        check_pool_vs_model(ctx, case["pool"])
    elif "hash_seed" in case:
        check_process(ctx, pub, reference_outputs())
    elif case.get("check") == "tables":
        fp0, _ = table_fingerprint()
        replay_history(case)
        if table_fingerprint()[0] != fp0:
            ctx.oracle_fail("tables", case, "default gate definitions / gate sets changed while compiling", None)
    elif "specs" in case:
        check_sharing(ctx, pub, table_fingerprint()[0])
    elif case.get("kind") == "shared_parser":
        check_shared_parser(ctx, pub, reference_outputs(), replay_history(case))
    else:
        check_in_process(ctx, pub, reference_outputs(), replay_history(case))
    return framework.replay_result(ctx)
