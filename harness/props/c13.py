"""C13 — front ends build only well-formed circuits and refuse the rest cleanly."""
from __future__ import annotations

import copy

from harness import gen, implrun, model, oracles, ser, sexp
from harness.sexp import Sym

ID = "C13"
TRUSTED = ["extraction + OCaml driver; Python's isinstance / inspect.signature modelled by explicit case analysis (convert)",
           "libqasm performs the parser-side range and arity checks (oracle)"]
ASSUMPTIONS = ["qubit operands given as raw Python floats (accepted by the library's QubitLike) are outside the generated calls"]
CLASSIFIERS: dict = {}


def pyval(v):
    """a call argument description -> (python object, model value)"""
    from opensquirrel.ir import Bit, Float, Int, Qubit

    k, x = v
    if k == "int":
        return x, [Sym("int"), x]
    if k == "bool":
        return bool(x), [Sym("bool"), bool(x)]
    if k == "str":
        return x, [Sym("str"), x]
    if k == "none":
        return None, Sym("none")
    if k == "qubit":
        return Qubit(x), [Sym("qubit"), x]
    if k == "bit":
        return Bit(x), [Sym("bit"), x]
    if k == "floatobj":
        return Float(x), [Sym("floatobj"), float(x)]
    if k == "intobj":
        return Int(x), [Sym("intobj"), x]
    raise ValueError(k)


def rand_index(rng, n):
    return rng.choice([-2, -1, 0, n - 1, n, n + 1, 10 ** 6, rng.randrange(max(1, n))])


def rand_call(rng, nq, nb):
    r = rng.random()
    if r < 0.05:
        return ["comment", rng.choice(["fine", "bad */ text", "*/", "a * / b", ""])]
    names = list(gen.GATE_SIG) + ["measure", "measure_z", "reset", "Foo", "h", "cnot", "comment2", "Measure"]
    name = rng.choice(names)
    sig = gen.GATE_SIG.get(name) or {"measure": "qb", "measure_z": "qb", "reset": "q"}.get(name, "q")
    args = []
    valid = rng.random() < 0.45
    for k in sig:
        if k == "q":
            i = rng.randrange(nq) if valid else rand_index(rng, nq)
            args.append(rng.choice([["int", i], ["int", i], ["qubit", i], ["intobj", i]]) if valid or rng.random() < 0.8
                        else rng.choice([["str", "0"], ["none", None], ["floatobj", 0.0], ["bit", 0], ["bool", True]]))
        elif k == "f":
            args.append(["floatobj", rng.choice([0.0, 1.5, -3.0])] if valid or rng.random() < 0.7
                        else rng.choice([["int", 1], ["str", "1.0"], ["none", None], ["qubit", 0]]))
        elif k == "i":
            args.append(rng.choice([["int", 2], ["intobj", 1], ["bool", True], ["int", 0]]) if valid or rng.random() < 0.7
                        else rng.choice([["floatobj", 1.0], ["str", "2"], ["qubit", 1], ["none", None]]))
        elif k == "b":
            i = rng.randrange(max(1, nb)) if valid and nb > 0 else rand_index(rng, nb)
            args.append(["bit", i] if valid or rng.random() < 0.8 else rng.choice([["int", 0], ["qubit", 0], ["none", None]]))
    if not valid:
        r2 = rng.random()
        if r2 < 0.15 and args:
            args = args[:-1]                                 # missing argument
        elif r2 < 0.3:
            args = args + [rng.choice([["int", 0], ["floatobj", 1.0]])]     # extra argument
        elif r2 < 0.4 and len(args) >= 2 and sig[:2] == "qq":
            args[1] = list(args[0])                          # equal operands
    return ["instr", name, args]


def run_builder(nq, nb, calls, snapshots_at):
    """run the calls on a real CircuitBuilder; returns per-call error kinds, final IR, snapshots"""
    from opensquirrel import CircuitBuilder

    b = CircuitBuilder(nq, nb)
    log, snaps = [], []
    for i, c in enumerate(calls):
        before = implrun.canon_post(b.ir.statements)
        try:
            if c[0] == "comment":
                b.comment(c[1])
            else:
                getattr(b, c[1])(*[pyval(a)[0] for a in c[2]])
            log.append(None)
        except Exception as e:  # noqa: BLE001
            log.append(implrun.errkind(e))
            after = implrun.canon_post(b.ir.statements)
            if ser.struct_diff(before, after, 0):
                log[-1] = log[-1] + "+MUTATED"
        if i in snapshots_at:
            snaps.append((i, b.to_circuit()))
    return b, log, snaps


def wf_circuit(c, nq, nb):
    for s in c.ir.statements:
        cls = type(s).__name__
        if cls == "Comment":
            if "*/" in s.str:
                return "comment contains */"
            continue
        qs = oracles.stmt_qubits(s)
        if any(not (0 <= q < nq) for q in qs):
            return f"qubit index out of range in {s!r}"
        if len(set(qs)) != len(qs):
            return f"repeated qubit operands in {s!r}"
        if cls == "Measure" and not (0 <= int(s.bit.index) < nb):
            return f"bit index out of range in {s!r}"
        if s.generator is None or s.arguments is None:
            return f"unnamed instruction {s!r}"
        if s.generator.__name__ not in gen.GATE_SIG and s.generator.__name__ not in ("measure", "measure_z", "reset"):
            return f"unknown name {s.generator.__name__}"
    return None


def model_calls(calls):
    out = []
    for c in calls:
        if c[0] == "comment":
            out.append([Sym("comment"), c[1]])
        else:
            out.append([Sym("instr"), c[1], [pyval(a)[1] for a in c[2]]])
    return out


def run(ctx):
    rng = ctx.rng
    ctx.rule("builder call sequences over valid and invalid calls: indices in {-2,-1,0,n-1,n,n+1,large}, equal operands, "
             "missing/extra/wrongly-typed arguments, unknown names, bit index at and beyond the register size, comments with "
             "and without */; interleaved with to_circuit() snapshots and passes on them; the same violations in cQASM "
             "source; non-trivial = sequence with at least one accepted and one refused call")
    seqs = []
    for _ in range(ctx.pick(300, 4000)):
        nq = rng.randint(1, 4)
        nb = rng.randint(0, 2)
        calls = [rand_call(rng, nq, nb) for _ in range(rng.randint(1, 10))]
        seqs.append((nq, nb, calls))
    mres = model.call_many([["builder_run", nq, nb, model_calls(calls)] for nq, nb, calls in seqs])
    ctx.suite("builder", cases=len(seqs))
    for (nq, nb, calls), mr in zip(seqs, mres):
        snaps_at = set(rng.sample(range(len(calls)), min(2, len(calls))))
        check_builder(ctx, {"nq": nq, "nb": nb, "calls": calls}, snaps_at, mr)
    ctx.sample({"nq": seqs[0][0], "nb": seqs[0][1], "calls": seqs[0][2]})
    # the same index / arity violations in cQASM source
    srcs = parser_sources()
    from opensquirrel.parser.libqasm.parser import Parser

    reused = Parser()
    rng.shuffle(srcs)
    for i, (text, ok) in enumerate(srcs):
        check_source(ctx, {"text": text}, ok, reused, [t for t, _ in srcs[:i]])
    ctx.suite("parser_source", cases=len(srcs))


def check_builder(ctx, case, snaps_at, mr):
    nq, nb, calls = case["nq"], case["nb"], case["calls"]
    margin, r = mr
    b, log, snaps = run_builder(nq, nb, calls, snaps_at)
    ctx.seen(case, any(l is None for l in log) and any(l is not None for l in log))
    case = {**case, "snaps_at": sorted(snaps_at)}        # as recorded: with the snapshot positions the run had drawn
    for l in log:
        ctx.bump("call_" + (l or "accepted"))
    mv = ser.canon(r)
    mir, mlog = implrun.renumber(mv[0]), [None if x == "none" else x[1] for x in mv[1]]
    post = implrun.canon_post(b.ir.statements)
    d = None
    if [l is None for l in log] != [l is None for l in mlog]:
        d = f"accept/refuse pattern impl {log} model {mlog}"
    elif ser.struct_diff(post, mir, 1e-12):
        d = "builder IR differs: " + ser.struct_diff(post, mir, 1e-12)
    if d:
        ctx.disagree("builder", case, d)
    eq = d is None
    if any(l and l.endswith("+MUTATED") for l in log):
        ctx.oracle_fail("builder", case, f"a refused call changed the builder's circuit: {log}", eq)
        return
    final = b.to_circuit()
    bad = wf_circuit(final, nq, nb)
    if bad:
        ctx.oracle_fail("builder", case, "builder accepted an ill-formed instruction: " + bad, eq)
        return
    # snapshots are independent: later builder calls and passes on one snapshot never change another
    for i, snap in snaps:
        n_at = sum(1 for l in log[:i + 1] if l is None)
        if len(snap.ir.statements) != n_at:
            ctx.oracle_fail("builder", case, f"snapshot taken after call {i} has {len(snap.ir.statements)} statements, expected {n_at}", eq)
            break
    if len(snaps) >= 1 and final.ir.statements:
        ref = implrun.canon_post(snaps[0][1].ir.statements)
        ref_b = implrun.canon_post(b.ir.statements)
        try:
            final.merge_single_qubit_gates()
            final.decompose(implrun.decomposer("zyz"))
        except Exception:  # noqa: BLE001
            pass
        if ser.struct_diff(ref, implrun.canon_post(snaps[0][1].ir.statements), 0) or \
                ser.struct_diff(ref_b, implrun.canon_post(b.ir.statements), 0):
            ctx.oracle_fail("builder", case, "a pass run on one snapshot changed another snapshot or the builder", eq)


def parser_sources():
    srcs = []
    for nq in (1, 2, 3):
        for i in (-1, 0, nq - 1, nq, nq + 1):
            srcs.append((f"version 3.0\nqubit[{nq}] q\nbit[1] b\nH q[{i}]\n", 0 <= i < nq))
            srcs.append((f"version 3.0\nqubit[{nq}] q\nbit[1] b\nb[0] = measure q[{i}]\n", 0 <= i < nq))
            srcs.append((f"version 3.0\nqubit[{nq}] q\nbit[1] b\nb[{i}] = measure q[0]\n", 0 <= i < 1))
        srcs.append((f"version 3.0\nqubit[{nq}] q\nCNOT q[0], q[0]\n", False))
        srcs.append((f"version 3.0\nqubit[{nq}] q\nCNOT q[0]\n", False))
        srcs.append((f"version 3.0\nqubit[{nq}] q\nRx q[0]\n", False))
        srcs.append((f"version 3.0\nqubit[{nq}] q\nH q[0], q[0]\n", False))
        srcs.append((f"version 3.0\nqubit[{nq}] q\nNope q[0]\n", False))
        srcs.append((f"version 3.0\nqubit[{nq + 1}] q\nH q[{nq}]\nCNOT q[0], q[0]\n", False))      # refused by OpenSquirrel after H was converted
        srcs.append((f"version 3.0\nqubit[{nq}] q\nX q[0]\n", True))
    return srcs


def check_source(ctx, case, ok, reused, history):
    """history: the programs the long-lived Parser `reused` was given before this one (recorded for the replay)"""
    from opensquirrel.circuit import Circuit

    text = case["text"]
    ctx.seen(case)
    case = {**case, "well_formed": ok, "history": history}
    try:
        c = Circuit.from_string(text)
        accepted = True
    except Exception:  # noqa: BLE001
        accepted = False
    # refusal must be clean: the same Parser object, used for accepted and refused programs alike, keeps giving
    # exactly what a fresh parser gives
    try:
        c_re = reused.circuit_from_string(text)
        same = accepted and (c_re.qubit_register_size, c_re.bit_register_size) == (c.qubit_register_size, c.bit_register_size) \
            and not ser.struct_diff(implrun.canon_post(c_re.ir.statements), implrun.canon_post(c.ir.statements), 0)
    except Exception:  # noqa: BLE001
        same = not accepted
    if not same:
        ctx.oracle_fail("parser", case, "a Parser object that earlier refused or parsed other programs behaves differently from a fresh one", None)
        return
    if accepted and not ok:
        ctx.oracle_fail("parser", case, "ill-formed program accepted", None)
    elif accepted:
        bad = wf_circuit(c, c.qubit_register_size, c.bit_register_size)
        if bad:
            ctx.oracle_fail("parser", case, bad, None)
    elif ok:
        ctx.oracle_fail("parser", case, "well-formed program refused", None)


def replay_source(ctx, case):
    """a source program again, through a new long-lived Parser that is first given the recorded history"""
    from opensquirrel.parser.libqasm.parser import Parser

    reused = Parser()
    for text in case.get("history", []):
        try:
            reused.circuit_from_string(text)
        except Exception:  # noqa: BLE001
            pass
    ok = case.get("well_formed", dict(parser_sources()).get(case["text"]))
    check_source(ctx, {"text": case["text"]}, ok, reused, case.get("history", []))


def replay(ctx, payload):
    from harness import framework

    suite, case = framework.replay_target(payload)
    if case is None:
        return framework.replay_nothing(payload)
    if "calls" not in case:
        replay_source(ctx, case)
        return framework.replay_result(ctx)
    snaps_at = set(case.get("snaps_at", range(min(2, len(case["calls"])))))
    pub = {k: case[k] for k in ("nq", "nb", "calls")}
    mr, = model.call_many([["builder_run", case["nq"], case["nb"], model_calls(case["calls"])]])
    check_builder(ctx, pub, snaps_at, mr)
    return framework.replay_result(ctx)
