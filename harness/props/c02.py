"""C02 — see DESIGN.md section 6."""
from __future__ import annotations

from harness.props import merge_common as mc

ID = "C02"
TRUSTED = ["extraction + OCaml float dictionary; numpy round/dot/cross modelled by their mathematical definitions",
           "numpy oracle: Kraus-branch simulation"]
ASSUMPTIONS = ["compose_exact is proved over R with the 7-decimal rounding idealised (bounded separately by Rround7_error)"]
CLASSIFIERS: dict = {}


def run(ctx):
    from harness.props import sem_common

    sem_common.run_semantics_suite(ctx, ctx.pick(60, 600))
    ctx.rule("exhaustive: all statement sequences up to length k (quick 3, thorough 4) over a 12-template alphabet on 3 qubits "
             "(named/anonymous rotations incl. cancelling pairs, CNOT, CZ, matrix gate, measure, reset, comment); random: "
             "circuits up to 40 statements on 1..4 qubits, all octants, angles around 0 and +-pi, opposite/identical axes; "
             "non-trivial = contains a single-qubit rotation")
    mc.run_suites(ctx, mc.oracle_c02)


def replay(ctx, payload):
    return mc.replay(ctx, payload, mc.oracle_c02)
