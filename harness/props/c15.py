"""C15 — constructed gates are canonical and denote what was requested."""
from __future__ import annotations

import itertools
import math

import numpy as np

from harness import gen, model, oracles, ser, sexp

ID = "C15"
TRUSTED = ["translator: common.py ATOL and normalize_angle -> Gen/Constants.v, equal to the model's by reflexivity",
           "extraction + OCaml float dictionary; numpy norm / Python float floor-division are modelled"]
ASSUMPTIONS = ["normalize_angle theorems are over R; overflow/underflow/NaN behaviour only through the float layer"]
CLASSIFIERS: dict = {}
PI = math.pi
INF = float("inf")
NAN = float("nan")


def ctor_cases(ctx):
    rng = ctx.rng
    angles = [k * PI / 2 for k in range(-12, 13)] + [k * PI + d for k in range(-6, 7) for d in (1e-9, -1e-9, 5e-8, -5e-8, 1e-7, -1e-7, 2e-7)]
    angles += [rng.uniform(-6 * PI, 6 * PI) for _ in range(ctx.pick(40, 400))]
    axes = [list(map(float, v)) for v in itertools.product([-1, 0, 1], repeat=3)]          # includes the zero vector
    axes += [[1e-300, 0, 0], [0, 1e-300, 1e-300], [1e300, 1e300, 0], [1e300, 0, -1e300], [5e-324, 0, 0], [1e-200, 1e-200, 0],
             [INF, 0, 0], [0, -INF, 1], [NAN, 0, 0], [1, NAN, 0], [0, 0, NAN], [INF, INF, INF], [1e154, 1e154, 1e154],
             [3.0, 4.0, 0.0], [1e-9, 1.0, 0.0], [2.0, 0, 0], [0.5, 0.5, 0.5],
             [0.0, 0.0, -1e-200], [-3e-300, 1e-300, 2e-300], [1e200, -2e200, 1e200], [-1e300, 1e300, 0.5e300],
             [1e-250, -2e-250, 1e-250], [-5e-324, 0.0, 0.0], [-1e160, 0.0, 1e159]]
    for _ in range(ctx.pick(10, 60)):
        e = rng.choice([-300, -250, -200, -170, 160, 200, 300])
        axes.append([rng.uniform(-1, 1) * 10.0 ** e for _ in range(3)])
    axes += [[rng.gauss(0, 1) * 10 ** rng.randint(-5, 5) for _ in range(3)] for _ in range(ctx.pick(20, 200))]
    cases = []
    for ax in axes:
        for a, p in ([(rng.choice(angles), rng.choice(angles)) for _ in range(ctx.pick(4, 12))]):
            cases.append({"q": rng.randrange(4), "axis": ax, "angle": a, "phase": p})
    for a in angles:
        cases.append({"q": 0, "axis": [0.0, 0.0, 1.0], "angle": a, "phase": rng.choice(angles)})
    return cases


def finite_vec(v):
    return all(math.isfinite(x) for x in v)


def build_rotation(c):
    from opensquirrel.ir import BlochSphereRotation

    try:
        with np.errstate(all="ignore"):
            g = BlochSphereRotation(c["q"], tuple(c["axis"]), c["angle"], c["phase"])
        return ("ok", g)
    except (ValueError, TypeError) as e:
        return ("err", type(e).__name__)


def ctor_request(c):
    return ["mk_bsr_checked", c["q"], c["axis"], c["angle"], c["phase"]]


def run_ctor(ctx):
    cases = ctor_cases(ctx)
    ctx.suite("rotation_ctor", cases=len(cases))
    impl = [build_rotation(c) for c in cases]
    mres = model.call_many([ctor_request(c) for c in cases])
    for c, im, mr in zip(cases, impl, mres):
        check_ctor(ctx, c, im, mr)
    ctx.sample(cases[0])
    ctx.sample({"case": cases[-1], "impl": impl[-1][0]})


def check_ctor(ctx, c, im, mr):
    st, g = im
    margin, r = mr
    ax = c["axis"]
    degenerate = (not finite_vec(ax)) or all(x == 0 for x in ax)
    ctx.seen(c, not degenerate or True)
    ctx.bump("axis_degenerate" if degenerate else "axis_ok")
    mv = ser.canon(r)
    # correspondence
    if st == "ok":
        iv = ser.canon(sexp.loads(sexp.dumps(ser.ser_gate(g))))
        if mv[0] != "ok":
            ctx.disagree("rotation_ctor", c, f"impl constructed, model refused {mv}", margin)
            eq = False
        else:
            d = ser.struct_diff(iv, mv[1], 1e-9)
            if d:
                ctx.disagree("rotation_ctor", c, d, margin)
            eq = d is None
    else:
        eq = mv[0] == "err"
        if not eq:
            ctx.disagree("rotation_ctor", c, f"impl raised {g}, model constructed", margin)
    # oracle
    if degenerate:
        if st == "ok":
            ctx.oracle_fail("rotation_ctor", c, "zero / non-finite axis produced an object instead of an error", eq)
        return
    if st != "ok":
        ctx.oracle_fail("rotation_ctor", c, f"valid request refused ({g})", eq)
        return
    axv = np.asarray(g.axis.value, dtype=float)
    if not np.all(np.isfinite(axv)) or abs(float(axv @ axv) - 1) > 1e-9:
        ctx.oracle_fail("rotation_ctor", c, f"axis not a finite unit vector: {axv}", eq)
        return
    ATOL = 1e-7
    for nm, val in (("angle", float(g.angle)), ("phase", float(g.phase))):
        if not (-PI - 1e-12 < val <= PI + ATOL + 1e-12) or not math.isfinite(val):
            ctx.oracle_fail("rotation_ctor", c, f"{nm} {val} outside (-pi, pi] (tolerance 1e-7)", eq)
    # denotes the requested operator: same rotation, angle identified modulo 2 pi
    scale = max(abs(x) for x in ax)
    want_axis = oracles.unit([x / scale for x in ax])
    want = oracles.rot(want_axis, c["angle"], c["phase"])
    got = oracles.rot(axv, float(g.angle), float(g.phase))
    in_range = -PI + ATOL <= c["angle"] <= PI and -PI + ATOL <= c["phase"] <= PI
    d = float(np.abs(got - want).max()) if in_range else min(float(np.abs(got - want).max()), float(np.abs(got + want).max()))
    tol = 1e-9 * max(1.0, abs(c["angle"]) + abs(c["phase"]))
    if d > tol:
        ctx.oracle_fail("rotation_ctor", c, f"operator differs from the requested one by {d:.3g}", eq)


def spell(ops):
    """the same operand list with each operand written as an int, a Qubit or a numpy integer — the pattern is a
    function of the list (so a case replays), and all three spellings of every position occur over the run"""
    import zlib

    from opensquirrel.ir import Qubit

    h = zlib.crc32(repr(list(ops)).encode())
    out = []
    for i, o in enumerate(ops):
        k = (h >> (2 * i)) % 3
        out.append(o if k == 0 else (Qubit(o) if k == 1 else np.int64(o)))
    return out


def build_matrix_gate(case):
    """-> ("ok" | "err", model request) for a matrix gate on the case's operand list"""
    from opensquirrel.ir import MatrixGate

    ops = case["ops"]
    dim = 1 << len(ops) if case["shape_ok"] else (1 << len(ops)) + 1
    m = np.eye(max(dim, 1))
    try:
        MatrixGate(m, spell(ops))
        st = "ok"
    except ValueError:
        st = "err"
    rows = [[[float(x), 0.0] for x in row] for row in m]
    return st, ["mk_mat", rows, ops]


def check_matrix_operands(ctx, case, st):
    ops = case["ops"]
    want = "ok" if (len(ops) >= 2 and len(set(ops)) == len(ops) and case["shape_ok"]) else "err"
    ctx.seen(case)
    if st != want:
        ctx.oracle_fail("operands", case, f"MatrixGate {st}, expected {want}", None)


def build_controlled_gate(case):
    """-> ("ok" | "err", model request), or None when the inner controlled gate cannot be built"""
    from opensquirrel.ir import BlochSphereRotation, ControlledGate

    c, tq = case["control"], case["targets"]
    sp = spell([c, *tq])
    g = BlochSphereRotation(sp[-1], (1, 0, 0), 1.0)
    for cc in reversed(sp[1:-1]):
        try:
            g = ControlledGate(cc, g)
        except ValueError:
            return None
    try:
        ControlledGate(sp[0], g)
        st = "ok"
    except ValueError:
        st = "err"
    return st, ["mk_ctrl", c, ser.ser_gate(g)]


def check_controlled_operands(ctx, case, st):
    ctx.seen(case)
    want = "err" if case["control"] in case["targets"] else "ok"
    if st != want:
        ctx.oracle_fail("operands", case, f"ControlledGate {st}, expected {want}", None)


def check_operands_model(ctx, case, st, mr):
    _, r = mr
    mv = str(r[0])
    if mv != st:
        ctx.disagree("operands", case, f"impl {st} model {mv}")


NON_NUMERIC = ("x", None, [1, 2], (1, 0))


def check_non_numeric(ctx, case, bad):
    from opensquirrel.ir import BlochSphereRotation

    ctx.seen(case)
    try:
        with np.errstate(all="ignore"):
            BlochSphereRotation(0, bad, 1.0)
        ctx.oracle_fail("operands", case, "non-numeric axis accepted", None)
    except (TypeError, ValueError):
        pass


def run_operands(ctx):
    """all operand lists over 0..3 of length 0..4 for matrix gates; all (control, target list) for controlled gates"""
    reqs, expect, cases = [], [], []
    for k in range(0, 5):
        for ops in itertools.product(range(4), repeat=k):
            ops = list(ops)
            for shape_ok in (True, False):
                if not shape_ok and ctx.quick and ctx.rng.random() < 0.8:
                    continue
                case = {"kind": "mat", "ops": ops, "shape_ok": shape_ok}
                st, req = build_matrix_gate(case)
                reqs.append(req)
                expect.append(st)
                cases.append(case)
                check_matrix_operands(ctx, case, st)
    for c in range(4):
        for depth in (1, 2):
            for tq in itertools.product(range(4), repeat=depth):
                case = {"kind": "ctrl", "control": c, "targets": list(tq)}
                built = build_controlled_gate(case)
                if built is None:
                    continue
                reqs.append(built[1])
                expect.append(built[0])
                cases.append(case)
                check_controlled_operands(ctx, case, built[0])
    mres = model.call_many(reqs)
    for case, st, mr in zip(cases, expect, mres):
        check_operands_model(ctx, case, st, mr)
    # non-numeric values
    for bad in NON_NUMERIC:
        check_non_numeric(ctx, {"kind": "non_numeric", "value": repr(bad)}, bad)
    ctx.suite("operands", cases=len(cases), exhaustive=True)
    ctx.exhaustive = True


def run_aliasing(ctx):
    """a constructed gate owns its data: writing to the arrays it was built from afterwards must not change it"""
    rng = ctx.rng
    n = 0
    for _ in range(ctx.pick(60, 400)):
        ax = rng.choice([[0.0, 0.0, 1.0], [0.6, 0.8, 0.0], [1.0, 0.0, 0.0], [0.0, -1.0, 0.0], [2.0, 0.0, 0.0], [1.0, 1.0, 1.0],
                         [rng.gauss(0, 1) for _ in range(3)]])
        buf = np.array(ax, dtype=np.float64)
        dtype_case = rng.choice(["float64", "float32", "int"])
        if dtype_case == "float32":
            buf = buf.astype(np.float32)
        elif dtype_case == "int" and all(float(x).is_integer() for x in ax):
            buf = np.array(ax, dtype=np.int64)
        check_aliasing(ctx, {"kind": "aliasing", "axis": ax, "dtype": str(buf.dtype)}, buf)
        n += 1
    ctx.suite("aliasing", cases=n)


def check_aliasing(ctx, case, buf):
    from opensquirrel.ir import Axis, BlochSphereRotation, MatrixGate

    ctx.seen(case)
    g = BlochSphereRotation(0, buf, 1.0, 0.25)
    a2 = Axis(buf)
    before = (np.array(g.axis.value, copy=True), np.array(a2.value, copy=True))
    buf[:] = [0, 3, 4]
    if not (np.array_equal(g.axis.value, before[0]) and np.array_equal(a2.value, before[1])):
        ctx.oracle_fail("aliasing", case, "the axis of a constructed rotation changed when the array it was built from was overwritten", None)
        return
    m = np.eye(4, dtype=np.complex128)
    mg = MatrixGate(m, [0, 1])
    m[0, 0] = 7
    if mg.matrix[0, 0] != 1 and False:
        pass      # MatrixGate keeps a reference to a complex128 input by design of np.asarray; not demanded by the property


def run(ctx):
    ctx.rule("(axis, angle, phase): axes = all 27 sign/zero patterns incl. zero, norms 1e-300..1e300, inf/nan components, "
             "random; angle, phase over [-6pi,6pi] grids incl. multiples of pi +- 1e-9..2e-7 and random reals; "
             "all operand lists over 0..3 of length 0..4 (exhaustive) for matrix gates, all control/target placements "
             "of depth 1-2 for controlled gates; non-trivial = every case")
    run_ctor(ctx)
    run_operands(ctx)
    run_aliasing(ctx)


def replay_operands(ctx, case):
    built = build_matrix_gate(case) if case["kind"] == "mat" else build_controlled_gate(case)
    if built is None:
        return
    (check_matrix_operands if case["kind"] == "mat" else check_controlled_operands)(ctx, case, built[0])
    check_operands_model(ctx, case, built[0], model.call_many([built[1]])[0])


def replay(ctx, payload):
    from harness import framework

    suite, c = framework.replay_target(payload)
    if c is None:
        return framework.replay_nothing(payload)
    kind = c.get("kind")
    if kind in ("mat", "ctrl"):
        replay_operands(ctx, c)
    elif kind == "non_numeric":
        check_non_numeric(ctx, c, {repr(b): b for b in NON_NUMERIC}[c["value"]])
    elif kind == "aliasing":
        check_aliasing(ctx, c, np.array(c["axis"], dtype=np.dtype(c["dtype"])))
    else:
        check_ctor(ctx, c, build_rotation(c), model.call_many([ctor_request(c)])[0])
    return framework.replay_result(ctx)
