"""C01 — built-in decomposition preserves circuit meaning and never fails."""
from __future__ import annotations

from harness import gen, implrun, model, oracles, ser
from harness.props import decomp_common as dc

ID = "C01"
TRUSTED = ["extraction + OCaml float dictionary (IEEE doubles, glibc libm) stand in for R in the executable model",
           "numpy oracle: Kraus-branch simulation on the compressed register"]
ASSUMPTIONS = ["exact-regime theorems over R; tolerance bands are sampled, not proved",
               "float arithmetic vs real arithmetic is trusted and sampled (see DESIGN.md section 1)"]


# each ATOL decision (band shortcut or filtered near-identity gate) costs at most 1e-7 in the operator; a proposal has at
# most 8 gates: a residual up to 8e-7 is tolerance-sized, anything larger is a different defect
BAND_RESIDUAL = 8e-7
BAND_FLOOR = 9e-8


def _first_failing_gate(f):
    """Re-run the case gate by gate to find the gate the decomposer fails on (angle, axis)."""
    case = f["case"]
    d = implrun.decomposer(case["pass"][1])
    from opensquirrel.decomposer.general_decomposer import check_gate_replacement

    c = gen.build_circuit(case["nq"], case["nb"], case["specs"])
    for s in c.ir.statements:
        if not oracles.is_gate(s):
            continue
        try:
            check_gate_replacement(s, d.decompose(s))
        except Exception:  # noqa: BLE001
            return s
    return None


def _proposal_distance(g, dec_name):
    """distance up to global phase between gate g and the decomposer's proposal for it, on g's qubits"""
    out = implrun.decomposer(dec_name).decompose(g)
    qs = oracles.stmt_qubits(g)
    if any(q not in qs for h in out for q in oracles.stmt_qubits(h)):
        return None, out
    qm = {q: i for i, q in enumerate(sorted(qs))}
    return oracles.phase_dist(oracles.kraus_ops([g], qm, []), oracles.kraus_ops(out, qm, [])), out


def cls_atol_band(f):
    """F3: the decomposers decide with ATOL = 1e-7 (alpha == pi branch, |a| < ATOL, |a -/+ 1| < ATOL,
    |sin(theta2/2)| < ATOL, |angle| < ATOL, identity filtering), so for a gate strictly inside one of
    these bands the proposal is off by up to ~1e-7 per decision -- right to the library's own tolerance -- while
    check_gate_replacement compares with allclose(atol=1e-8) and raises. Signature: decompose raised
    ValueError at a gate whose proposal is within 8e-7 of the gate (up to phase) on the gate's qubits."""
    if "raised value" not in f["detail"]:
        return False
    g = _first_failing_gate(f)
    if g is None:
        return False
    d, _ = _proposal_distance(g, f["case"]["pass"][1])
    # ... and not closer than the checker's own absolute tolerance (ATOL = 1e-7 since fix b507e3a): a refusal of a
    # proposal that is right to the tolerance is another defect (the checker rejecting what it should accept)
    return d is not None and BAND_FLOOR <= d <= BAND_RESIDUAL


def cls_cnot_lemma55(f):
    """F4: CNOT decomposer, single-CNOT (lemma 5.5) branch: the emitted circuit differs from the
    gate by Z on the control, i.e. it becomes right when pi is added to the control's Rz."""
    import math

    import numpy as np
    from opensquirrel.ir import ControlledGate

    if f["case"]["pass"][1] != "cnot":
        return False
    g = _first_failing_gate(f)
    if g is None or type(g).__name__ != "ControlledGate" or type(g.target_gate).__name__ != "BlochSphereRotation":
        return False
    out = implrun.decomposer("cnot").decompose(g)
    n_cnot = sum(1 for h in out if type(h).__name__ == "ControlledGate")
    if n_cnot != 1:
        return False
    c, t = int(g.control_qubit.index), int(g.target_gate.qubit.index)
    qm = {c: 1, t: 0}
    want = oracles.kraus_ops([g], qm, [])
    got = oracles.kraus_ops(out, qm, [])
    zc = oracles.embed(2, oracles.PZ, [1])
    return oracles.phase_dist(want, got) > 1e-6 and oracles.phase_dist(want, zc @ got) <= BAND_RESIDUAL


CLASSIFIERS = {"atol_band_residual": cls_atol_band, "cnot_lemma55_control_sign": cls_cnot_lemma55}


def run(ctx):
    from harness.props import sem_common

    sem_common.run_semantics_suite(ctx, ctx.pick(60, 600))
    ctx.rule("kernel: decomposer x axis (26 sign patterns, near-degenerate, random) x angle grid (specials, +-1e-9..1e-3, "
             "8-digit renderings, out of range, random) x phase; loop: random circuits 1..4 qubits (8% on sparse huge "
             "indices) over all statement kinds x 8 decomposers; non-trivial = contains a gate")
    dc.run_suites(ctx, dc.oracle_c01)


def replay(ctx, payload):
    from harness import framework
    from harness.props import sem_common

    suite, case = framework.replay_target(payload)
    if case is None:
        return framework.replay_nothing(payload)
    if sem_common.is_semantics(suite, case):
        return sem_common.replay(ctx, case)
    ev, eq, history = dc.replay_case(ctx, suite or "replay", case, dc.oracle_c01)
    return framework.replay_result(ctx, impl_error=ev["err"], post=ev["post"], impl_eq_model=eq, history=history)
