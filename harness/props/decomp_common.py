"""Suites shared by C01 (decomposition preserves meaning, never fails) and
C10 (decomposers deliver their target gate set)."""
from __future__ import annotations

import itertools
import math

from harness import gen, implrun, model, oracles, ser
from harness.implrun import DEC_NAMES

PI = math.pi
ABA_AXES = {"xyx": ("Rx", "Ry"), "xzx": ("Rx", "Rz"), "yxy": ("Ry", "Rx"), "yzy": ("Ry", "Rz"),
            "zxz": ("Rz", "Rx"), "zyz": ("Rz", "Ry")}


def sign_patterns():
    return [list(map(float, v)) for v in itertools.product([-1, 0, 1], repeat=3) if any(v)]


def grid_angles():
    sp = [0.0, PI / 4, -PI / 4, PI / 2, -PI / 2, PI, -PI]
    out = list(sp)
    for a in sp:
        for off in (1e-9, 1e-6, 1e-3):
            out += [a + off, a - off]
    out += [float(f"{a:.8}") for a in sp if a]
    out += [2 * PI, 3 * PI, -3 * PI, 7.0, -5.5, 1.0, -2.0, 2.5]
    return out


def kernel_cases(ctx):
    rng = ctx.rng
    axes = sign_patterns()
    near = []
    for _ in range(12):
        near.append(gen.rand_axis(rng))
    for _ in range(20):
        near.append([rng.gauss(0, 1) for _ in range(3)])
    angles = grid_angles() + [rng.uniform(-PI, PI) for _ in range(6)]
    full = [(d, ax, a) for d in DEC_NAMES for ax in axes + near for a in angles]
    if ctx.quick:
        full = rng.sample(full, 1400)
    cases = []
    # regression corpus (runs first): inputs of repaired defects, kept so that the defect is reported if it returns
    #  - 25b4a83: the checker took the global phase from a small first entry (matrix entry [0][0] ~ 7e-6 here)
    for d in ("zxz", "zyz", "xzx", "yzy", "xyx", "yxy", "mckay"):
        for ax in ([-1.0, 1.0, 1e-05], [1e-05, -1.0, 1.0], [1.0, 1e-05, -1.0], [1.0, 1.0, 1e-4], [-1.0, 1e-6, 1.0]):
            for a in (3.141592652589793, -3.141592652589793, 3.1415926525, 3.14159264):
                cases.append({"nq": 1, "nb": 0, "specs": [["bsr", 0, ax, a, 0.0]], "pass": ["decompose", d]})
    #  - the witness of the OPEN finding F3 (edge of an ATOL band): always exercised, so that the KNOWN-FINDING line is
    #    printed on every run for as long as the finding is listed and real
    cases.append({"nq": 1, "nb": 0, "specs": [["bsr", 0, [0.0, -1e-07, 1.0], -2.4018829939767645, 0.7853981633974483]],
                  "pass": ["decompose", "zyz"]})
    #  - b507e3a: the comparison used numpy's default atol 1e-8: the library's own 8-digit pi was refused
    for d in DEC_NAMES:
        for ax in ([1.0, 0.0, 0.0], [0.0, 1.0, 0.0], [0.0, 0.0, 1.0], [-1.0, 1.0, 0.0], [1.0, 1.0, 1.0]):
            for a in (3.1415927, -3.1415927, 1.5707963, 3.14159265):
                if d == "cnot":
                    cases.append({"nq": 2, "nb": 0, "specs": [["ctrl", 0, ["bsr", 1, ax, a, 0.0]]], "pass": ["decompose", d]})
                else:
                    cases.append({"nq": 1, "nb": 0, "specs": [["bsr", 0, ax, a, 0.0]], "pass": ["decompose", d]})
    #  - axes tilted by 1e-6 .. 5e-4 off a coordinate axis, every decomposer (shortcuts taken "near" an axis)
    for d in DEC_NAMES:
        for tilt in (1e-6, 1e-5, 1e-4, 3e-4):
            for ax in ([tilt, 0.0, 1.0], [0.0, -tilt, 1.0], [tilt, tilt, -1.0], [1.0, tilt, 0.0], [0.0, 1.0, -tilt], [-1.0, 0.0, tilt]):
                for a in (PI / 2, PI, -PI / 4):
                    if d == "cnot":
                        cases.append({"nq": 2, "nb": 0, "specs": [["ctrl", 0, ["bsr", 1, ax, a, 0.0]]], "pass": ["decompose", d]})
                    else:
                        cases.append({"nq": 1, "nb": 0, "specs": [["bsr", 0, ax, a, 0.0]], "pass": ["decompose", d]})
    #  - random directions x angles inside the ATOL band around +-pi (8-digit renderings and pi -+ 5e-8): the half-turn
    #    branches are entered although the angle is not pi, with an axis of no special shape
    for d in DEC_NAMES:
        for _ in range(40 if d == "cnot" else 8):
            ax = gen.rand_axis(rng) if rng.random() < 0.5 else [rng.gauss(0, 1) for _ in range(3)]
            for a in (3.1415927, -3.1415927, PI - 5e-8, -PI + 5e-8):
                ph = rng.choice([0.0, PI / 2, rng.uniform(-PI, PI)])
                if d == "cnot":
                    cases.append({"nq": 2, "nb": 0, "specs": [["ctrl", 0, ["bsr", 1, ax, a, ph]]], "pass": ["decompose", d]})
                else:
                    cases.append({"nq": 1, "nb": 0, "specs": [["bsr", 0, ax, a, ph]], "pass": ["decompose", d]})
    for d, ax, a in full:
        ph = rng.choice([0.0, PI / 2, rng.uniform(-PI, PI)])
        if d == "cnot":
            specs = [["ctrl", 0, ["bsr", 1, ax, a, ph]]]
            nq = 2
        else:
            specs = [["bsr", 0, ax, a, ph]]
            nq = 1
        cases.append({"nq": nq, "nb": 0, "specs": specs, "pass": ["decompose", d]})
    return cases


def loop_cases(ctx):
    rng = ctx.rng
    n = ctx.pick(500, 12000)
    cases = []
    for _ in range(n):
        big = rng.random() < 0.08
        nq = rng.randint(1, 4)
        nb = rng.randint(0, 2)
        specs = gen.rand_circuit_spec(rng, nq, nb, rng.randint(0, 7))
        if big:
            # sparse use of very large indices
            remap = {q: rng.choice([q, 1000 + 17 * q, 99990 + q]) for q in range(nq)}
            specs = relabel_specs(specs, remap)
            nq = 100000
        cases.append({"nq": nq, "nb": nb, "specs": specs, "pass": ["decompose", rng.choice(DEC_NAMES)]})
    return cases


def relabel_specs(specs, m):
    out = []
    for sp in specs:
        out.append(relabel_spec(sp, m))
    return out


def relabel_spec(sp, m):
    k = sp[0]
    if k == "named":
        sig = gen.GATE_SIG.get(sp[1], "")
        return [k, sp[1], [m.get(a, a) if i < len(sig) and sig[i] == "q" else a for i, a in enumerate(sp[2])]]
    if k == "bsr":
        return [k, m.get(sp[1], sp[1]), *sp[2:]]
    if k == "ctrl":
        return [k, m.get(sp[1], sp[1]), relabel_spec(sp[2], m)]
    if k == "mat":
        return [k, [m.get(q, q) for q in sp[1]], sp[2]]
    if k in ("measure", "measure_z"):
        return [k, m.get(sp[1], sp[1]), sp[2]]
    if k == "reset":
        return [k, m.get(sp[1], sp[1])]
    return sp


def evaluate(case):
    """Run implementation on one case -> dict with everything the oracles need."""
    c = gen.build_circuit(case["nq"], case["nb"], case["specs"])
    before = list(c.ir.statements)
    pre = ser.ser_stmts(c.ir.statements)
    # the reference the result is judged against is built independently: a pass that mutates the statement objects it was
    # given (and then checks its proposal against the mutated gate) must not drag the oracle's reference along
    ref = list(gen.build_circuit(case["nq"], case["nb"], case["specs"]).ir.statements)
    err, post = implrun.run_impl(c, case["pass"])
    return {"circuit": c, "before": before, "ref": ref, "pre": pre, "err": err, "post": post, "after": list(c.ir.statements)}


def compare_with_model(ctx, suite, cases, evals, tol=2e-7, twins=None):
    reqs = [implrun.model_request(case["pass"], case["nq"], ev["pre"]) for case, ev in zip(cases, evals)]
    mres = model.call_many(reqs)
    eqs = []
    for case, ev, (margin, r), twin in zip(cases, evals, mres, twins or [False] * len(cases)):
        if model.is_bad(r):
            ctx.disagree(suite, recorded(case, twin), f"model driver: {r}")
            eqs.append(False)
            continue
        merr, mpost = implrun.model_outcome(case["pass"], r)
        d = None
        if (ev["err"] is None) != (merr is None):
            d = f"impl error={ev['err']} model error={merr}"
        elif mpost is not None:
            d = ser.struct_diff(ev["post"], mpost, tol)
        if d:
            ctx.disagree(suite, recorded(case, twin), d, margin)
        eqs.append(d is None)
    return eqs


def gates_count(stmts):
    return sum(1 for s in stmts if oracles.is_gate(s))


def oracle_c01(ctx, suite, case, ev, eq):
    if ev["err"] is not None:
        ctx.oracle_fail(suite, case, f"decompose raised {ev['err']}", eq, tags=failure_tags(case, ev))
        return
    before, after = ev["before"], ev["after"]
    # comments, measures, resets untouched and in place (same objects, same order)
    nb = [s for s in before if not oracles.is_gate(s)]
    na = [s for s in after if not oracles.is_gate(s)]
    if len(nb) != len(na) or any(x is not y for x, y in zip(nb, na)):
        ctx.oracle_fail(suite, case, "non-gate statements changed", eq)
        return
    c = ev["circuit"]
    if c.qubit_register_size != case["nq"] or c.bit_register_size != case["nb"]:
        ctx.oracle_fail(suite, case, "registers changed", eq)
        return
    tol = 2e-6 * (1 + gates_count(after))
    ok, why = oracles.kraus_equivalent(ev.get("ref", before), after, tol)
    if not ok:
        ctx.oracle_fail(suite, case, "not equivalent: " + why, eq, tags=failure_tags(case, ev))


def failure_tags(case, ev):
    """Facts about the first gate the pass would have failed on, for the known-finding classifiers."""
    tags = {"decomposer": case["pass"][1] if case["pass"][0] == "decompose" else None}
    return tags


def case_builder(case):
    return lambda: gen.build_circuit(case["nq"], case["nb"], case["specs"])


def run_suites(ctx, oracle_fn):
    for name, cases in (("kernel", kernel_cases(ctx)), ("loop", loop_cases(ctx))):
        ctx.suite(name, cases=len(cases))
        for i in range(0, len(cases), 1500):
            chunk = cases[i:i + 1500]
            evals, twins = [], []
            for c in chunk:
                evals.append(evaluate(c))
                twins.append(c["nq"] <= 64 and implrun.history_twin(case_builder(c), [c["pass"]], ctx.rng, 0.25))
            eqs = compare_with_model(ctx, name, chunk, evals, twins=twins)

            for case, ev, eq, twin in zip(chunk, evals, eqs, twins):
                nontrivial = any(gen.is_gate_spec(s) for s in case["specs"])
                ctx.seen(case, nontrivial)
                ctx.bump("dec_" + case["pass"][1])
                ctx.bump("impl_raised" if ev["err"] else "impl_ok")
                oracle_fn(ctx, name, recorded(case, twin), ev, eq)
            if chunk:
                ctx.sample({"case": chunk[0], "impl_error": evals[0]["err"], "post_len": len(evals[0]["post"])})


def recorded(case, twin):
    """the case as it is written to a replay file: with the history the run added to it (its twin was run after it)"""
    return {**case, "twin": True} if twin else case


TWIN_FIRST = ("the case passes on its own: run again after a twin of the same circuit (pass, then qubits relabelled), which "
              "stands for the twins the run had run for earlier cases")


def replay_case(ctx, suite, case, oracle_fn):
    """one case of the kernel / loop suites again: pass, twin (when the run had run one), model, oracle. A case that
    passes like this is run once more after a twin of its own, the history a single record cannot carry (twins of
    EARLIER cases); a library without state shared between circuits cannot tell the difference."""
    ev, eq = replay_once(ctx, suite, case, oracle_fn)
    history = "as recorded"
    if not (ctx.oracle_failures or ctx.disagreements) and case["nq"] <= 64:
        implrun.run_twin(case_builder(case), [case["pass"]])
        ev, eq = replay_once(ctx, suite, case, oracle_fn)
        history = TWIN_FIRST
    return ev, eq, history


def replay_once(ctx, suite, case, oracle_fn):
    ev = evaluate(case)
    if case.get("twin"):
        implrun.run_twin(case_builder(case), [case["pass"]])
    eqs = compare_with_model(ctx, suite, [case], [ev])
    oracle_fn(ctx, suite, case, ev, eqs[0])
    return ev, eqs[0]
