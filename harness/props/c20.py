"""C20 — user-defined named gates are first-class citizens."""
from __future__ import annotations

import math

import numpy as np

from harness import gen, implrun, model, oracles, ser, sexp

ID = "C20"
TRUSTED = ["extraction + OCaml driver; CPython format decimalisation oracle",
           "libqasm cannot re-parse user gate names (fixed instruction set): the cQASM 3 line shape is checked by a line oracle"]
ASSUMPTIONS = ["user gates are defined with the naming decorator and annotated with QubitLike / Float / SupportsInt"]
CLASSIFIERS: dict = {}
PI = math.pi
USER_SIG = {"myrot": "qf", "u2": "fqf", "swp": "qq", "cph": "qiq", "ccx": "qqq", "g3": "qfif", "flip": "q", "cxy": "qq",
            "cphase": "qqf", "xx": "qfq", "tcx": "qq", "t3": "qqq"}
_FUNCS = None


def user_functions():
    """a family of user gates: 1..3 qubit parameters under arbitrary names, 0..3 Float/int parameters in any
    position, semantics of each of the three kinds"""
    global _FUNCS
    if _FUNCS is not None:
        return _FUNCS
    from typing import SupportsInt

    from opensquirrel.default_gates import X
    from opensquirrel.ir import BlochSphereRotation, ControlledGate, Float, Int, MatrixGate, QubitLike, named_gate

    @named_gate
    def myrot(q1: QubitLike, a: Float) -> BlochSphereRotation:
        return BlochSphereRotation(qubit=q1, axis=(1, 1, 0), angle=a.value, phase=0)

    @named_gate
    def u2(a: Float, tgt: QubitLike, b: Float) -> BlochSphereRotation:
        return BlochSphereRotation(qubit=tgt, axis=(0, 0, 1), angle=a.value + b.value, phase=0.25)

    @named_gate
    def swp(a: QubitLike, b: QubitLike) -> MatrixGate:
        return MatrixGate([[1, 0, 0, 0], [0, 0, 1, 0], [0, 1, 0, 0], [0, 0, 0, 1]], [a, b])

    @named_gate
    def cph(ctrl: QubitLike, k: SupportsInt, tgt: QubitLike) -> ControlledGate:
        th = math.pi / (2 ** Int(k).value)
        return ControlledGate(ctrl, BlochSphereRotation(qubit=tgt, axis=(0, 0, 1), angle=th, phase=th / 2))

    @named_gate
    def ccx(c1: QubitLike, c2: QubitLike, t: QubitLike) -> ControlledGate:
        return ControlledGate(c1, ControlledGate(c2, X(t)))

    @named_gate
    def g3(q: QubitLike, a: Float, k: SupportsInt, b: Float) -> BlochSphereRotation:
        return BlochSphereRotation(qubit=q, axis=(0, 1, 0), angle=a.value * Int(k).value + b.value, phase=0)

    @named_gate
    def flip(target: QubitLike) -> BlochSphereRotation:
        return BlochSphereRotation(qubit=target, axis=(1, 0, 0), angle=math.pi, phase=math.pi / 2)

    @named_gate
    def cxy(x: QubitLike, y: QubitLike) -> ControlledGate:
        return ControlledGate(x, BlochSphereRotation(qubit=y, axis=(1, 0, 0), angle=math.pi, phase=math.pi / 2))

    @named_gate
    def cphase(a: QubitLike, b: QubitLike, theta: Float) -> ControlledGate:
        # written out with explicit cos/sin so that theta and theta + 4 pi denote the same operation
        t = theta.value
        return ControlledGate(a, BlochSphereRotation(qubit=b, axis=(0, 0, 1), angle=t, phase=0))

    @named_gate
    def xx(q1: QubitLike, t: Float, q2: QubitLike) -> MatrixGate:
        c, s_ = math.cos(t.value / 2), math.sin(t.value / 2)
        return MatrixGate([[c, 0, 0, -1j * s_], [0, c, -1j * s_, 0], [0, -1j * s_, c, 0], [-1j * s_, 0, 0, c]], [q1, q2])

    # qubit parameters declared in ANOTHER order than the operands of the gate that is built
    @named_gate
    def tcx(tgt: QubitLike, ctrl: QubitLike) -> ControlledGate:
        return ControlledGate(ctrl, X(tgt))

    @named_gate
    def t3(t: QubitLike, c1: QubitLike, c2: QubitLike) -> MatrixGate:
        m = np.eye(8)
        m[[3, 7]] = m[[7, 3]]           # flips operand 2 (most significant) when operands 0 and 1 are set
        return MatrixGate(m, [c1, c2, t])

    d = gen.default_functions()
    d.update({f.__name__: f for f in (myrot, u2, swp, cph, ccx, g3, flip, cxy, cphase, xx, tcx, t3)})
    gen.GATE_SIG.update(USER_SIG)
    _FUNCS = d
    return d


def rand_user_spec(rng, nq):
    name = rng.choice([n for n, s in USER_SIG.items() if s.count("q") <= nq])
    sig = USER_SIG[name]
    qs = gen.rand_qubits(rng, nq, sig.count("q"))
    args = []
    for k in sig:
        if k == "q":
            args.append(qs.pop(0))
        elif k == "f":
            args.append(rng.choice([0.5, -1.25, 1e-5, 3.0, 0.1, 2.0]))
        else:
            args.append(rng.choice([0, 1, 2, 3]))
    return ["named", name, args]


def expected_lines(stmt):
    """(cQASM 3 line, cQASM 1 line) from the statement's name and arguments, by the rule of the property text"""
    name = stmt.generator.__name__
    qs, ps = [], []
    for a in stmt.arguments:
        an = type(a).__name__
        if an == "Qubit":
            qs.append(f"q[{a.index}]")
        elif an == "Float":
            ps.append(a.value)
        else:
            ps.append(int(a.value))
    def f3(x):
        if isinstance(x, int):
            return str(x)
        s = f"{x:.8}"
        m, e, ex = s.partition("e")
        return (m if "." in m or not e else m + ".0") + e + ex
    def f1(x):
        return str(x) if isinstance(x, int) else f"{x:.8}"
    v3 = name + ("(" + ", ".join(f3(p) for p in ps) + ")" if ps else "") + " " + ", ".join(qs)
    v1 = name.lower() + " " + ", ".join(qs) + (", " + ", ".join(f1(p) for p in ps) if ps else "")
    return v3, v1


def user_gate_set(funcs):
    return [funcs[n] for n in gen.GATE_SIG if n in funcs and n not in ("Hadamard", "Identity", "measure", "measure_z", "reset")]


def user_position(specs):
    """where the user gate is (the circuits of the suite hold exactly one; a shrunk record may have moved it)"""
    return next(i for i, sp in enumerate(specs) if sp[0] == "named" and sp[1] in USER_SIG)


def build_through_builder(ctx, case, funcs):
    """the circuit through the builder (accepted when listed in the gate set) and directly -> (circuit, reference) or None"""
    from opensquirrel import CircuitBuilder
    from opensquirrel.ir import Bit, Float

    nq, specs = case["nq"], case["specs"]
    b = CircuitBuilder(nq, 1, gate_set=user_gate_set(funcs))
    try:
        for sp in specs:
            if sp[0] == "named":
                sig = gen.GATE_SIG[sp[1]]
                conv = [Float(a) if k == "f" else a for a, k in zip(sp[2], sig)]
                getattr(b, sp[1])(*conv)
            elif sp[0] in ("measure", "measure_z"):
                getattr(b, sp[0])(sp[1], Bit(sp[2]))
            elif sp[0] == "reset":
                b.reset(sp[1])
            elif sp[0] == "comment":
                b.comment(sp[1])
            else:
                b.ir.add_gate(gen.build_stmt(sp, funcs))
        c = b.to_circuit()
    except Exception as e:  # noqa: BLE001
        ctx.oracle_fail("user", case, f"builder refused a listed user gate: {type(e).__name__}: {e}", None)
        return None
    ref = gen.build_circuit(nq, 1, specs, funcs)
    if ser.struct_diff(implrun.canon_post(c.ir.statements), implrun.canon_post(ref.ir.statements), 0):
        ctx.oracle_fail("user", case, "builder and direct construction disagree", None)
        return None
    return c, ref


def check_user_pass(ctx, case, c, ref, perm, funcs):
    """the recorded pass on the circuit holding a user gate: operation, name and arguments, text outputs.
    perm: the permutation drawn for a mapping pass (recorded with the case for the replay)"""
    from opensquirrel.exporter.export_format import ExportFormat

    nq, specs, p = case["nq"], case["specs"], case["pass"]
    pos = user_position(specs)
    u = specs[pos]
    case = {**case, "perm": perm}
    before = list(c.ir.statements)
    ustmt = before[pos]
    uname, uargs = ustmt.generator.__name__, ser.canon_args(ustmt.arguments)
    pre_ser = ser.ser_stmts(c.ir.statements)
    err = None
    called = []
    try:
        if p is None:
            pass
        elif p[0] == "map":
            implrun.apply_pass(c, ["map", perm])
        elif p[0] == "replace_user":
            def rule(*args):
                called.append(args)
                return [funcs[uname](*args)]
            c.replace(funcs[uname], rule)
        else:
            implrun.apply_pass(c, p)
    except Exception as e:  # noqa: BLE001
        err = implrun.errkind(e)
    after = list(c.ir.statements)
    # model correspondence for the passes the model has
    eq = None
    if p is not None and p[0] in ("decompose", "merge", "map"):
        mp = ["map", perm] if p[0] == "map" else p
        (margin, r), = model.call_many([implrun.model_request(mp, nq, pre_ser)])
        merr, mpost = implrun.model_outcome(mp, r)
        d = None
        if (err is None) != (merr is None):
            d = f"impl error={err} model error={merr}"
        elif mpost is not None:
            d = ser.struct_diff(implrun.canon_post(after), mpost, 3e-7)
        if d:
            ctx.disagree("user", case, d, margin)
        eq = d is None
    if err is not None:
        return        # decomposition failures are C01's concern
    # --- operation preserved (treated purely through its operation)
    qperm = {q: perm[q] for q in range(nq)} if p and p[0] == "map" else None
    # mapping mutates the statement objects in place: compare with the independently built reference circuit
    ok, why = oracles.kraus_equivalent(list(ref.ir.statements), after, 3e-5 * (1 + len(after)), qubit_perm=qperm)
    if not ok:
        ctx.oracle_fail("user", case, "operation changed: " + why, eq)
        return
    # --- name and arguments kept by passes that do not rewrite it; relabelled in both descriptions by mapping
    survivors = [s for s in after if s is ustmt]
    rewritten_ok = p is not None and ((p[0] == "decompose" and scope_rewrites(p[1], ustmt)) or
                                        (p[0] == "merge" and type(ustmt).__name__ == "BlochSphereRotation") or p[0] == "replace_user")
    if not survivors and not rewritten_ok:
        ctx.oracle_fail("user", case, "the user gate disappeared in a pass that does not rewrite it", eq)
        return
    if p is not None and p[0] == "merge" and type(ustmt).__name__ == "BlochSphereRotation":
        # merging rewrites a user rotation only by composing it with a neighbour: when the statements next to it on its
        # qubit are not single-qubit gates there is nothing to compose it with, and it keeps its name and arguments (an
        # identity-valued rotation is dropped by the merger: nothing is demanded for it)
        uq = oracles.stmt_qubits(ustmt)[0]

        def neighbour_is_rotation(rng_):
            for i in rng_:
                t = before[i]
                if type(t).__name__ == "Comment":
                    continue
                if uq in oracles.stmt_qubits(t):
                    return type(t).__name__ == "BlochSphereRotation"
                # (the merger flushes every qubit at a barrier-like statement; statements on other qubits do not matter)
            return False

        lone = not neighbour_is_rotation(range(pos - 1, -1, -1)) and not neighbour_is_rotation(range(pos + 1, len(before)))
        if lone and not ustmt.is_identity() and not any(oracles.is_gate(t) and getattr(t, "generator", None) is not None and t.generator.__name__ == uname
                            and ser.canon_args(t.arguments) == uargs for t in after):
            ctx.oracle_fail("user", case, "merging found nothing to compose the user gate with, yet the gate lost its name or arguments", eq)
            return
    if p and p[0] == "replace_user":
        if len(called) != 1 or ser.canon_args(called[0]) != uargs:
            ctx.oracle_fail("user", case, f"replace() keyed on the user gate called the rule {len(called)} times / with other arguments", eq)
            return
    for s in survivors:
        if s.generator.__name__ != uname:
            ctx.oracle_fail("user", case, "user gate lost its name", eq)
        want_args = uargs
        if p and p[0] == "map":
            want_args = [("q", perm[a[1]]) if a[0] == "q" else a for a in uargs]
            # the operands of the gate as an independently built copy has them (a user gate may declare its qubit
            # parameters in another order than the operands of the gate it builds), relabelled
            if oracles.stmt_qubits(s) != [perm[q] for q in oracles.stmt_qubits(ref.ir.statements[pos])]:
                ctx.oracle_fail("user", case, "mapping did not relabel the user gate's semantic qubits", eq)
        if ser.canon_args(s.arguments) != want_args:
            ctx.oracle_fail("user", case, f"user gate arguments {ser.canon_args(s.arguments)} != {want_args}", eq)
    # --- text outputs: one well-formed line per gate
    named_only = all(getattr(s, "arguments", 1) is not None for s in after if oracles.is_gate(s))
    txt = str(c)
    (m3, r3), = model.call_many([["write3", nq, 1, ser.ser_stmts(after)]])
    mv = ser.canon(r3)
    from harness.props.text_common import normalize_anonymous

    if not (mv[0] == "ok" and mv[1][1] == normalize_anonymous(txt)):
        ctx.disagree("user_text", case, f"cQASM 3 text differs from the model's:\n{txt}\n---\n{mv}")
    lines3 = txt.split("\n")
    for s in survivors:
        v3, v1 = expected_lines(s)
        if v3 not in lines3:
            ctx.oracle_fail("user_text", case, f"cQASM 3 line `{v3}` not written:\n{txt}", eq)
            break
        if named_only:
            t1 = c.export(ExportFormat.CQASM_V1)
            if v1 not in t1.split("\n"):
                ctx.oracle_fail("user_text", case, f"cQASM 1 line `{v1}` not written:\n{t1}", eq)
                break


def equality_request(x, y):
    return ["gate_eq", ser.ser_gate(x), ser.ser_gate(y)]


def check_user_equality(ctx, case, want, x, y, mres):
    mg, mr = mres
    ctx.seen(case)
    case = {**case, "equal_operations": want}        # as recorded: with the answer the oracle expects
    got = bool(x == y)
    mv = ser.canon(mr)
    eqm = mv[0] == "ok" and (mv[1] == "true") == got
    if not eqm:
        ctx.disagree("user_equality", case, f"impl {got} model {mv}", mg)
    if got != want or bool(y == x) != want:
        ctx.oracle_fail("user_equality", case, f"== is {got} / {bool(y == x)}, the operations are {'equal' if want else 'different'}", eqm)


def check_same_name(ctx, case, funcs):
    """two programs of one process define a gate of the same name differently: each builder must build ITS definition"""
    from opensquirrel import CircuitBuilder
    from opensquirrel.ir import BlochSphereRotation, Float, QubitLike, named_gate

    gate_set = user_gate_set(funcs)
    ax_a, ax_b, t = tuple(case["axis_a"]), tuple(case["axis_b"]), case["theta"]

    def mk(ax):
        @named_gate
        def tilt(q: QubitLike, theta: Float) -> BlochSphereRotation:
            return BlochSphereRotation(qubit=q, axis=ax, angle=theta.value, phase=0)
        return tilt
    fa, fb = mk(ax_a), mk(ax_b)
    ba = CircuitBuilder(2, gate_set=[*gate_set, fa])
    ba.tilt(0, Float(t))
    bb = CircuitBuilder(2, gate_set=[*gate_set, fb])
    bb.tilt(1, Float(t))
    ctx.seen(case)
    ga, gb = ba.to_circuit().ir.statements[0], bb.to_circuit().ir.statements[0]
    ok = np.allclose(ga.axis.value, ax_a) and np.allclose(gb.axis.value, ax_b) and gb.generator is fb and ga.generator is fa
    if not ok:
        ctx.oracle_fail("user", case, "a builder built another gate set's definition of a gate with the same name", None)
    try:
        CircuitBuilder(2).tilt(0, Float(t))
        ctx.oracle_fail("user", case, "a builder accepted a user gate that is not in its gate set", None)
    except Exception:  # noqa: BLE001
        pass


def run(ctx):
    rng = ctx.rng
    funcs = user_functions()
    ctx.rule("a family of user gates with 1..3 qubit parameters under arbitrary names, 0..3 Float/int parameters in any "
             "position, rotation / controlled / matrix semantics, at every position of circuits that also contain default "
             "gates, measurements and resets; through the builder, every pass, both text outputs and replace() keyed on the "
             "user gate; non-trivial = circuit containing a user gate")
    passes = [None] + [["decompose", d] for d in implrun.DEC_NAMES] + [["merge"], ["map", "perm"], ["replace_user"]]
    n_cases = 0
    for _ in range(ctx.pick(250, 3000)):
        nq = rng.randint(2, 4)
        base = gen.rand_circuit_spec(rng, nq, 1, rng.randint(0, 5), max_ctrl=1, allow_mat=False, wide_angles=False)
        pos = rng.randint(0, len(base))
        u = rand_user_spec(rng, nq)
        specs = base[:pos] + [u] + base[pos:]
        p = rng.choice(passes)
        case = {"nq": nq, "nb": 1, "specs": specs, "pass": p}
        n_cases += 1
        ctx.seen(case)
        ctx.bump("user_" + u[1])
        built = build_through_builder(ctx, case, funcs)
        if built is None:
            continue
        perm = list(range(nq))
        rng.shuffle(perm)
        check_user_pass(ctx, case, built[0], built[1], perm, funcs)
    ctx.suite("user_gates", cases=n_cases)
    # --- equality purely through the operation: the same user gate with arguments that differ but denote the same
    # operation compares equal; different operations compare unequal; a user gate equals the default gate it denotes
    eq_cases = []
    for _ in range(ctx.pick(60, 600)):
        a, b = gen.rand_qubits(rng, 3, 2)
        t = rng.choice([0.7, -1.3, 2.0, 0.1])
        shift = rng.choice([4 * PI, -4 * PI, 8 * PI])
        near = rng.choice([0.3, -0.2, 1.0])
        eq_cases += [(["named", "cphase", [a, b, t]], ["named", "cphase", [a, b, t + shift]], True),
                     (["named", "cphase", [a, b, t]], ["named", "cphase", [a, b, t + near]], False),
                     (["named", "xx", [a, t, b]], ["named", "xx", [a, t + shift, b]], True),
                     (["named", "xx", [a, t, b]], ["named", "xx", [b, t, a]], True),
                     (["named", "xx", [a, t, b]], ["named", "xx", [a, t + near, b]], False),
                     (["named", "cxy", [a, b]], ["named", "CNOT", [a, b]], True),
                     (["named", "swp", [a, b]], ["named", "swp", [b, a]], True),
                     (["named", "cph", [a, 1, b]], ["named", "cph", [a, 2, b]], False),
                     (["named", "flip", [a]], ["named", "X", [a]], True)]
    objs_l = [gen.build_stmt(l, funcs) for l, _, _ in eq_cases]
    objs_r = [gen.build_stmt(r, funcs) for _, r, _ in eq_cases]
    mres = model.call_many([equality_request(x, y) for x, y in zip(objs_l, objs_r)])
    for (l, r, want), x, y, mr in zip(eq_cases, objs_l, objs_r, mres):
        check_user_equality(ctx, {"left": l, "right": r, "kind": "equality"}, want, x, y, mr)
    ctx.suite("user_equality", cases=len(eq_cases))
    # --- two programs of one process define a gate of the same name differently: each builder must build ITS definition
    n_two = 0
    for k in range(ctx.pick(6, 40)):
        axes = [(1, 0, 0), (0, 1, 0), (0, 0, 1)]
        ax_a, ax_b = rng.sample(axes, 2)
        t = rng.choice([0.7, -1.1, 2.0])
        check_same_name(ctx, {"kind": "same_name_two_gate_sets", "axis_a": ax_a, "axis_b": ax_b, "theta": t}, funcs)
        n_two += 1
    ctx.suite("same_name_two_gate_sets", cases=n_two)
    ctx.sample({"user_gates": sorted(USER_SIG), "example": rand_user_spec(rng, 3)})


def scope_rewrites(dec, g):
    cls = type(g).__name__
    if dec == "cnot":
        return cls == "ControlledGate" and type(g.target_gate).__name__ == "BlochSphereRotation"
    return cls == "BlochSphereRotation"


def replay_user(ctx, case, funcs):
    pub = {k: case[k] for k in ("nq", "nb", "specs", "pass")}
    if pub["pass"] and pub["pass"][0] == "map" and "perm" not in case:
        return {"fails": False, "not_rerun": True, "note": "record without the permutation that was drawn for the mapping pass"}
    built = build_through_builder(ctx, pub, funcs)
    if built is not None:
        check_user_pass(ctx, pub, built[0], built[1], case.get("perm", list(range(case["nq"]))), funcs)
    return None


def replay(ctx, payload):
    from harness import framework

    suite, case = framework.replay_target(payload)
    if case is None:
        return framework.replay_nothing(payload)
    funcs = user_functions()
    if case.get("kind") == "same_name_two_gate_sets":
        check_same_name(ctx, case, funcs)
    elif case.get("kind") == "equality":
        if "equal_operations" not in case:
            return framework.replay_nothing(payload, "record without the expected answer")
        x, y = gen.build_stmt(case["left"], funcs), gen.build_stmt(case["right"], funcs)
        check_user_equality(ctx, {k: case[k] for k in ("left", "right", "kind")}, case["equal_operations"], x, y,
                            model.call_many([equality_request(x, y)])[0])
    else:
        out = replay_user(ctx, case, funcs)
        if out is not None:
            return out
    return framework.replay_result(ctx)
