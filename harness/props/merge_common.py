"""Suites shared by C02 (merging preserves meaning) and C14 (normal form, stability)."""
from __future__ import annotations

import itertools
import math

from harness import gen, implrun, model, oracles, ser

PI = math.pi
SWAP = gen.perm_matrix([0, 2, 1, 3])
ALPHABET = [
    ["named", "H", [0]],
    ["named", "Rx", [0, 0.3]],
    ["named", "Rx", [0, -0.3]],                       # cancels the previous one exactly
    ["named", "Rx", [0, -0.29998]],                   # nearly cancels it: the product is a rotation by 2e-5
    ["bsr", 1, [0.0, 1.0, 1.0], 1.0, 0.0],
    ["bsr", 1, [0.0, -1.0, -1.0], 1.0, 0.25],         # opposite axis: product is a pure phase
    ["named", "CNOT", [0, 1]],
    ["named", "CZ", [1, 2]],
    ["mat", [0, 2], SWAP],
    ["measure", 0, 0],
    ["reset", 1],
    ["comment", "c"],
]


def exhaustive_cases(kmax):
    out = []
    for k in range(0, kmax + 1):
        for seq in itertools.product(range(len(ALPHABET)), repeat=k):
            out.append({"nq": 3, "nb": 1, "specs": [ALPHABET[i] for i in seq], "pass": ["merge"]})
    return out


def random_cases(ctx, n):
    rng = ctx.rng
    out = []
    for _ in range(n):
        nq = rng.randint(1, 4)
        nb = rng.randint(0, 2)
        length = rng.randint(0, 40) if rng.random() < 0.3 else rng.randint(0, 12)
        specs = []
        for _ in range(length):
            r = rng.random()
            if r < 0.55:
                q = rng.randrange(nq)
                rr = rng.random()
                if rr < 0.35:
                    specs.append(["named", rng.choice(gen.ONEQ_NOPARAM), [q]])
                elif rr < 0.55:
                    specs.append(["named", rng.choice(gen.ONEQ_PARAM), [q, gen.rand_angle(rng)]])
                else:
                    ang = rng.choice([0.0, 1e-9, -1e-8, 1e-6, -1e-5, 1e-4, 5e-4, -8e-4, PI, -PI, PI - 1e-6, PI - 3e-4, 1.0,
                                      gen.rand_angle(rng)])
                    specs.append(["bsr", q, gen.rand_axis(rng), ang, gen.rand_angle(rng)])
                    if rng.random() < 0.3:      # follow with the opposite / identical axis so products cancel
                        prev = specs[-1]
                        sign = rng.choice([-1.0, 1.0])
                        delta = rng.choice([0.0, 0.0, 1e-6, -2e-5, 3e-4, -7e-4])      # exact and near cancellation
                        specs.append(["bsr", q, [sign * x for x in prev[2]], rng.choice([prev[3], -prev[3]]) + delta, 0.0])
            elif r < 0.8 and nq >= 2:
                specs.append(gen.rand_gate_spec(rng, nq, allow_multi=True))
            else:
                specs += gen.rand_circuit_spec(rng, nq, nb, 1, p_nongate=1.0)
        if rng.random() < 0.25:
            q = rng.randrange(nq)
            a, b = rng.choice([("T", "T"), ("Tdag", "Tdag"), ("S", "Sdag"), ("T", "Tdag"), ("X90", "mX90"), ("S", "T")])
            specs += [["named", a, [q]], ["named", b, [q]]]       # products that the naming step may turn into a default gate
        out.append({"nq": nq, "nb": nb, "specs": specs, "pass": ["merge"]})
    return out


def evaluate(case):
    c = gen.build_circuit(case["nq"], case["nb"], case["specs"])
    before = list(c.ir.statements)
    pre = ser.ser_stmts(c.ir.statements)
    ref = list(gen.build_circuit(case["nq"], case["nb"], case["specs"]).ir.statements)   # independent of objects the pass may mutate
    err, post = implrun.run_impl(c, ["merge"])
    after = list(c.ir.statements)
    ev = {"circuit": c, "before": before, "ref": ref, "pre": pre, "err": err, "post": post, "after": after}
    if err is None:
        n1 = len(after)
        err2, post2 = implrun.run_impl(c, ["merge"])
        ev.update({"err2": err2, "after2": list(c.ir.statements), "n1": n1})
    return ev


def compare_with_model(ctx, suite, cases, evals, tol=3e-7, twins=None):
    reqs = [["merge", case["nq"], ev["pre"]] for case, ev in zip(cases, evals)]
    mres = model.call_many(reqs)
    eqs = []
    for case, ev, (margin, r), twin in zip(cases, evals, mres, twins or [False] * len(cases)):
        case = recorded(case, twin)
        merr, mpost = implrun.model_outcome(["merge"], r)
        d = None
        if (ev["err"] is None) != (merr is None):
            d = f"impl error={ev['err']} model error={merr}"
        elif mpost is not None:
            d = ser.struct_diff(ev["post"], mpost, tol)
        if d:
            ctx.disagree(suite, case, d, margin)
        eqs.append(d is None)
    return eqs


def is_rot(s):
    return type(s).__name__ == "BlochSphereRotation"


def is_barrier(s):
    return type(s).__name__ in ("ControlledGate", "MatrixGate", "Measure", "Reset")


def oracle_c02(ctx, suite, case, ev, eq):
    if ev["err"] is not None:
        ctx.oracle_fail(suite, case, f"merge raised {ev['err']}", eq)
        return
    before, after = ev["before"], ev["after"]
    nb = [s for s in before if not is_rot(s)]
    na = [s for s in after if not is_rot(s)]
    if len(nb) != len(na) or any(x is not y for x, y in zip(nb, na)):
        ctx.oracle_fail(suite, case, "a multi-qubit gate, measurement, reset or comment was dropped, duplicated, replaced or reordered", eq)
        return
    # no rotation moved across a barrier touching its qubit: per qubit, the segments between barriers must match
    for q in range(case["nq"]):
        def segs(stmts):
            out, cur = [], []
            for s in stmts:
                if is_rot(s) and int(s.qubit.index) == q:
                    cur.append(s)
                elif is_barrier(s) and q in oracles.stmt_qubits(s):
                    out.append(cur)
                    cur = []
            out.append(cur)
            return out
        sb, sa = segs(before), segs(after)
        for i, (x, y) in enumerate(zip(sb, sa)):
            if not x and y:
                ctx.oracle_fail(suite, case, f"qubit {q}: a rotation appears in segment {i} that had none", eq)
                return
    # merging is exact up to the 7-decimal rounding of axis and phase (<= 1e-7 per merged gate); only the final
    # naming step may substitute a default gate that is allclose (1e-5 relative) to the merged rotation
    renamed = sum(1 for s in after if is_rot(s) and s.generator is not None and s.generator.__name__ in gen.ONEQ_NOPARAM)
    tol = 2e-6 * (1 + len(before)) + 3e-5 * renamed
    ok, why = oracles.kraus_equivalent(ev.get("ref", before), after, tol)
    if not ok:
        ctx.oracle_fail(suite, case, "not equivalent: " + why, eq)


def oracle_c14(ctx, suite, case, ev, eq):
    if ev["err"] is not None:
        return
    after = ev["after"][:ev["n1"]] if False else None
    # normal form on the result of the first merge (recorded before the second merge mutated the circuit)
    first = ev["first"]
    open_rot = set()
    for s in first:
        if is_rot(s):
            q = int(s.qubit.index)
            if q in open_rot:
                ctx.oracle_fail(suite, case, f"two single-qubit gates on qubit {q} with no barrier on that qubit between them", eq)
                return
            open_rot.add(q)
            if abs(float(s.angle)) < 1e-7:
                # its operator is a multiple of the identity, whatever its phase
                ctx.oracle_fail(suite, case, "an identity gate (zero-angle rotation) remains after merging", eq)
                return
        elif is_barrier(s):
            for q in oracles.stmt_qubits(s):
                open_rot.discard(q)
    # merging again: same number of statements, same operation
    if ev.get("err2") is not None:
        ctx.oracle_fail(suite, case, f"second merge raised {ev['err2']}", eq)
        return
    second = ev["after2"]
    if len(second) != len(first):
        ctx.oracle_fail(suite, case, f"merging again changed the number of statements {len(first)} -> {len(second)}", eq)
        return
    renamed2 = sum(1 for s in second if is_rot(s) and s.generator is not None and s.generator.__name__ in gen.ONEQ_NOPARAM)
    ok, why = oracles.kraus_equivalent(first, second, 2e-6 * (1 + len(first)) + 3e-5 * renamed2)
    if not ok:
        ctx.oracle_fail(suite, case, "merging again changed the operation: " + why, eq)
        return
    # a gate that had nothing to fuse with keeps its name and parameters
    before = ev["before"]
    for q in range(case["nq"]):
        cur, segs_b = [], []
        for s in before:
            if is_rot(s) and int(s.qubit.index) == q:
                cur.append(s)
            elif is_barrier(s) and q in oracles.stmt_qubits(s):
                segs_b.append(cur); cur = []
        segs_b.append(cur)
        cur, segs_a = [], []
        for s in first:
            if is_rot(s) and int(s.qubit.index) == q:
                cur.append(s)
            elif is_barrier(s) and q in oracles.stmt_qubits(s):
                segs_a.append(cur); cur = []
        segs_a.append(cur)
        if len(segs_a) != len(segs_b):
            continue
        for x, y in zip(segs_b, segs_a):
            if len(x) == 1 and x[0].generator is not None and len(y) == 1:
                g, h = x[0], y[0]
                lone_small = abs(math.sin(float(g.angle) / 2)) < 1e-7
                if lone_small:
                    continue
                if h.generator is None or h.generator.__name__ != g.generator.__name__ or \
                        ser.canon_args(h.arguments) != ser.canon_args(g.arguments):
                    ctx.oracle_fail(suite, case, f"lone gate {g.generator.__name__} on qubit {q} lost its name or parameters", eq)
                    return


def run_suites(ctx, oracle_fn, with_second=False):
    kmax = ctx.pick(3, 4)
    suites = (("exhaustive", exhaustive_cases(kmax)), ("random", random_cases(ctx, ctx.pick(400, 6000))))
    ctx.exhaustive = True
    for name, cases in suites:
        ctx.suite(name, cases=len(cases), **({"max_length": kmax, "alphabet": len(ALPHABET)} if name == "exhaustive" else {}))
        for i in range(0, len(cases), 2000):
            chunk = cases[i:i + 2000]
            evals, twins = [], []
            for c in chunk:
                ev = evaluate_first(c)
                evals.append(ev)
                twins.append(implrun.history_twin(case_builder(c), [["merge"]], ctx.rng))
            eqs = compare_with_model(ctx, name, chunk, evals, twins=twins)
            for case, ev, eq, twin in zip(chunk, evals, eqs, twins):
                nrot = sum(1 for s in case["specs"] if s[0] in ("bsr",) or (s[0] == "named" and s[1] in gen.ONEQ_NOPARAM + gen.ONEQ_PARAM))
                ctx.seen(case, nrot >= 1)
                ctx.bump(f"rotations_{min(nrot, 6)}")
                oracle_fn(ctx, name, recorded(case, twin), ev, eq)
            if chunk:
                ctx.sample({"specs": chunk[len(chunk) // 2]["specs"], "post_len": len(evals[len(chunk) // 2]["post"])})


def evaluate_first(case):
    """merge once (recording the result), then once more"""
    c = gen.build_circuit(case["nq"], case["nb"], case["specs"])
    before = list(c.ir.statements)
    pre = ser.ser_stmts(c.ir.statements)
    err, post = implrun.run_impl(c, ["merge"])
    first = list(c.ir.statements)
    ev = {"circuit": c, "before": before, "pre": pre, "err": err, "post": post, "after": first, "first": first}
    if err is None:
        err2, _ = implrun.run_impl(c, ["merge"])
        ev.update({"err2": err2, "after2": list(c.ir.statements)})
    return ev


def case_builder(case):
    return lambda: gen.build_circuit(case["nq"], case["nb"], case["specs"])


def recorded(case, twin):
    """the case as it is written to a replay file: with the history the run added to it (its twin was run after it)"""
    return {**case, "twin": True} if twin else case


def replay(ctx, payload, oracle_fn):
    """one case of the exhaustive / random suites again: merge twice, twin (when the run had run one), model, oracle"""
    from harness import framework
    from harness.props import sem_common

    suite, case = framework.replay_target(payload)
    if case is None:
        return framework.replay_nothing(payload)
    if sem_common.is_semantics(suite, case):
        return sem_common.replay(ctx, case)
    suite = suite or "replay"
    ev, eq = replay_once(ctx, suite, case, oracle_fn)
    history = "as recorded"
    if not (ctx.oracle_failures or ctx.disagreements):
        # the history a single record cannot carry: the twins of EARLIER cases. A twin of the case itself, run first,
        # stands for them; a library without state shared between circuits cannot tell the difference
        implrun.run_twin(case_builder(case), [["merge"]])
        ev, eq = replay_once(ctx, suite, case, oracle_fn)
        history = "the case passes on its own: run again after a twin of the same circuit (merged, then qubits relabelled)"
    return framework.replay_result(ctx, impl_error=ev["err"], post=ev["post"], impl_eq_model=eq, history=history)


def replay_once(ctx, suite, case, oracle_fn):
    ev = evaluate_first(case)
    if case.get("twin"):
        implrun.run_twin(case_builder(case), [["merge"]])
    eqs = compare_with_model(ctx, suite, [case], [ev])
    oracle_fn(ctx, suite, case, ev, eqs[0])
    return ev, eqs[0]
