"""C05 — any sequence of passes keeps the circuit valid, coherent and equivalent."""
from __future__ import annotations

import copy
import itertools
import math

import numpy as np

from harness import gen, implrun, model, oracles, ser, sexp
from harness.props import c01

ID = "C05"
TRUSTED = ["extraction + OCaml float dictionary; libqasm for the write+parse pass",
           "numpy oracle: Kraus-branch simulation modulo the accumulated qubit permutation"]
ASSUMPTIONS = ["per-step correspondence: the model is run on the implementation's state before each pass",
               "coherence after merging is exact only up to the numeric hypothesis compose_identity_exact (PassesP.merge_coherent_partial); checked here to 3e-7"]
PI = math.pi

SEEDS = [
    (2, 1, [["named", "H", [0]], ["named", "CNOT", [0, 1]], ["measure", 0, 0]]),
    (3, 1, [["named", "Rx", [0, 0.7]], ["named", "CZ", [1, 2]], ["comment", "c"], ["named", "T", [1]], ["reset", 2], ["named", "CR", [0, 2, 1.1]]]),
    (2, 0, [["bsr", 0, [1.0, 1.0, 1.0], 1.0, 0.5], ["ctrl", 1, ["bsr", 0, [0.0, 1.0, 1.0], 2.0, 0.3]], ["named", "Y90", [1]]]),
    (3, 2, [["named", "X", [2]], ["named", "CRk", [2, 0, 2]], ["measure", 2, 1], ["named", "S", [0]], ["named", "Sdag", [0]], ["measure", 0, 0]]),
    (3, 0, [["mat", [0, 2], gen.perm_matrix([0, 2, 1, 3])], ["named", "H", [1]], ["named", "H", [1]], ["named", "CNOT", [1, 0]]]),
    (1, 1, [["named", "I", [0]], ["named", "Rz", [0, 2.5]], ["named", "Ry", [0, -1.0]], ["measure", 0, 0], ["named", "mX90", [0]]]),
    (4, 0, [["ctrl", 3, ["ctrl", 1, ["named", "X", [0]]]], ["named", "CNOT", [2, 3]], ["named", "Z", [2]], ["named", "Rx", [1, PI]]]),
    # runs that multiply to a small rotation (5e-4, 4e-4, ~4e-4): small is not nothing
    (2, 1, [["named", "Rz", [0, 0.0005]], ["named", "Rx", [1, 0.8]], ["named", "Rx", [1, -0.8004]], ["named", "CNOT", [0, 1]],
            ["named", "Ry", [0, 0.0003]], ["named", "Rz", [0, 0.0003]], ["measure", 1, 0]]),
]


def pass_alphabet(nq):
    perms = [list(range(nq))[::-1]]
    if nq >= 3:
        perms.append([1, 2, 0] + list(range(3, nq)))        # a 3-cycle
    if nq >= 2:
        perms.append([1, 0] + list(range(2, nq)))
    P = [["decompose", d] for d in implrun.DEC_NAMES] + [["merge"], ["replace", "CNOT", "cnot_to_hczh"], ["replace", "CZ", "cz_to_hcnoth"]]
    P += [["map", p] for p in perms] + [["reparse"]]
    return P


def coherent_stmt(s):
    """re-evaluate generator(*arguments) and compare with the statement itself"""
    if getattr(s, "arguments", None) is None or s.generator is None:
        return None
    try:
        t = s.generator(*s.arguments)
    except Exception as e:  # noqa: BLE001
        return f"generator raised {type(e).__name__} on the stored arguments of {s!r}"
    cls = type(s).__name__
    if type(t).__name__ != cls:
        return f"{s!r}: generator yields a {type(t).__name__}"
    if cls in ("Measure", "Reset"):
        ok = int(t.qubit.index) == int(s.qubit.index) and (cls == "Reset" or int(t.bit.index) == int(s.bit.index))
        return None if ok else f"name/arguments of {s!r} denote another qubit/bit"
    m1, o1 = oracles.gate_small(s)
    m2, o2 = oracles.gate_small(t)
    if o1 != o2:
        return f"{s.generator.__name__}{[repr(a) for a in s.arguments]} acts on {o2}, the statement on {o1}"
    d = float(np.abs(m1 - m2).max())
    if d > 3e-7:
        return f"name and arguments of {s!r} denote a different operation (distance {d:.3g})"
    return None


def wf_stmt(s, nq, nb):
    cls = type(s).__name__
    if cls == "Comment":
        return None
    qs = oracles.stmt_qubits(s)
    if any(not (0 <= q < nq) for q in qs) or len(set(qs)) != len(qs):
        return f"ill-formed operands in {s!r}"
    if cls == "Measure" and not (0 <= int(s.bit.index) < nb):
        return f"bit out of range in {s!r}"
    return None


def printable(c):
    return all(getattr(s, "arguments", 1) is not None for s in c.ir.statements if oracles.is_gate(s)) and \
        not any(getattr(s, "generator", None) is not None and s.generator.__name__ == "measure_z" for s in c.ir.statements)


def run_sequence(ctx, suite, nq, nb, specs, passes):
    case = {"nq": nq, "nb": nb, "specs": specs, "passes": passes}
    c = gen.build_circuit(nq, nb, specs)
    original = list(gen.build_circuit(nq, nb, specs).ir.statements)
    perm = {q: q for q in range(nq)}
    ctx.seen(case, len(passes) > 0)
    for k, p in enumerate(passes):
        ctx.bump("pass_" + p[0])
        if p[0] == "reparse" and not printable(c):
            continue
        pre_ser = ser.ser_stmts(c.ir.statements)
        err, post = implrun.run_impl(c, p)
        eq = None
        if p[0] != "reparse":
            (margin, r), = model.call_many([implrun.model_request(p, nq, pre_ser)])
            merr, mpost = implrun.model_outcome(p, r)
            d = None
            if (err is None) != (merr is None):
                d = f"step {k} {p}: impl error={err} model error={merr}"
            elif mpost is not None:
                d = ser.struct_diff(post, mpost, 3e-7)
                if d:
                    d = f"step {k} {p}: {d}"
            if d:
                ctx.disagree(suite, case, d, margin)
            eq = d is None
        if err is not None:
            step_case = {**case, "failed_step": k}
            # the state before the failing step, as a replayable single-pass case for the classifiers
            ctx.oracle_fail(suite, step_case, f"pass {p} raised {err} at step {k}", eq,
                            tags={"pre_state": sexp.dumps(pre_ser)[:20000], "pass": p})
            return
        if p[0] == "map":
            perm = {q: p[1][perm[q]] for q in perm}
        stmts = list(c.ir.statements)
        for s in stmts:
            bad = wf_stmt(s, c.qubit_register_size, c.bit_register_size) or coherent_stmt(s)
            if bad:
                ctx.oracle_fail(suite, {**case, "failed_step": k}, f"after step {k} {p}: {bad}", eq)
                return
        tol = 3e-5 * (1 + len(stmts) + len(original)) * (k + 1)
        ok, why = oracles.kraus_equivalent(original, stmts, tol, qubit_perm=perm)
        if not ok:
            ctx.oracle_fail(suite, {**case, "failed_step": k}, f"after step {k} {p}: not equivalent to the original: {why}", eq)
            return


def cls_band(f):
    """C01's finding F3 surfacing in a pass sequence: a decomposition step raised on a gate inside an ATOL band"""
    if "raised value" not in f["detail"] or f["tags"].get("pass", [None])[0] != "decompose":
        return False
    case = f["case"]
    c = gen.build_circuit(case["nq"], case["nb"], case["specs"])
    for p in case["passes"][:case["failed_step"]]:
        if p[0] == "reparse" and not printable(c):
            continue        # as in run_sequence
        try:
            implrun.apply_pass(c, p)
        except Exception:  # noqa: BLE001
            return False
    dec = f["tags"]["pass"][1]
    from opensquirrel.decomposer.general_decomposer import check_gate_replacement

    d = implrun.decomposer(dec)
    for s in c.ir.statements:
        if not oracles.is_gate(s):
            continue
        try:
            check_gate_replacement(s, d.decompose(s))
        except Exception:  # noqa: BLE001
            dist, _ = c01._proposal_distance(s, dec)
            return dist is not None and c01.BAND_FLOOR <= dist <= c01.BAND_RESIDUAL
    return False


CLASSIFIERS = {"atol_band_residual": cls_band}


def run(ctx):
    from harness.props import sem_common

    sem_common.run_semantics_suite(ctx, ctx.pick(60, 600))
    rng = ctx.rng
    ctx.rule("all pass sequences up to length L (quick 2, thorough 3) over {8 decomposers, merge, replace CNOT->H.CZ.H, replace "
             "CZ->H.CNOT.H, map by several permutations incl. a 3-cycle, write+parse when printable} from seed circuits covering "
             "every statement kind (bounded-exhaustive; quick samples the length-2 level), plus random sequences up to 8 passes; "
             "non-trivial = at least one pass")
    L = ctx.pick(2, 3)
    n = 0
    # the witness of the open finding F3 (always exercised: the KNOWN-FINDING line is printed on every run)
    run_sequence(ctx, "exhaustive", 1, 0, [["bsr", 0, [0.0, -1e-07, 1.0], -2.4018829939767645, 0.7853981633974483]],
                 [["decompose", "zyz"]])
    for nq, nb, specs in SEEDS:
        A = pass_alphabet(nq)
        seqs = [list(t) for k in range(1, L + 1) for t in itertools.product(A, repeat=k)]
        if ctx.quick:
            ones = [s for s in seqs if len(s) == 1]
            twos = [s for s in seqs if len(s) == 2]
            seqs = ones + rng.sample(twos, min(len(twos), 40))
        elif len(seqs) > 1200:
            small = [s for s in seqs if len(s) <= 2]
            seqs = small + rng.sample([s for s in seqs if len(s) == 3], 1200 - len(small) if len(small) < 1200 else 300)
        for seq in seqs:
            run_sequence(ctx, "exhaustive", nq, nb, specs, seq)
            n += 1
    ctx.suite("bounded_exhaustive", cases=n, max_length=L)
    m = 0
    for _ in range(ctx.pick(120, 1500)):
        nq = rng.randint(1, 4)
        nb = rng.randint(0, 2)
        specs = gen.rand_circuit_spec(rng, nq, nb, rng.randint(1, 8), max_ctrl=2, wide_angles=True)
        specs = [s for s in specs if s[0] != "measure_z"]
        A = pass_alphabet(nq)
        seq = [rng.choice(A) for _ in range(rng.randint(1, 8))]
        run_sequence(ctx, "random", nq, nb, specs, seq)
        m += 1
    ctx.suite("random_sequences", cases=m)
    ctx.sample({"seed_circuit": SEEDS[1][2], "sequence": [["decompose", "cnot"], ["merge"], ["map", [1, 2, 0]]]})


def replay(ctx, payload):
    from harness import framework
    from harness.props import sem_common

    suite, case = framework.replay_target(payload)
    if case is None:
        return framework.replay_nothing(payload)
    if sem_common.is_semantics(suite, case):
        return sem_common.replay(ctx, case)
    run_sequence(ctx, suite or "replay", case["nq"], case["nb"], case["specs"], case["passes"])
    return framework.replay_result(ctx)
