"""C18 — the interaction graph contains exactly the two-qubit interactions."""
from __future__ import annotations

import itertools

from harness import gen, model, ser
from harness.sexp import Sym

ID = "C18"
TRUSTED = [
    "extraction (ExtrOcamlBasic, ExtrOcamlString; no Extract Constant/Inductive of our own) and the OCaml driver",
    "networkx.Graph enters as a set of undirected edges plus the nodes they mention (modelled, not verified)",
]
ASSUMPTIONS = [
    "model Graph.graph_edges is tied to make_interaction_graph by running both on the same circuits",
    "oracle: operand sets computed from the circuit specification, independent of the library",
]
CLASSIFIERS: dict = {}


def impl_graph(circuit):
    from opensquirrel.mapper.utils import make_interaction_graph

    try:
        g = make_interaction_graph(circuit.ir)
    except ValueError:
        return ["err", "value"]
    except Exception as e:  # noqa: BLE001
        return ["err", type(e).__name__]
    nodes = sorted(int(q.index) for q in g.nodes)
    edges = sorted(sorted([int(a.index), int(b.index)]) for a, b in g.edges)
    return ["ok", nodes, edges]


def norm_model(res):
    v = ser.canon(res)
    if v[0] == "err":
        return ["err", v[1]]
    nodes, edges = v[1]
    return ["ok", sorted(nodes), sorted(sorted(e) for e in {tuple(sorted(e)) for e in edges})]


def oracle(specs):
    edges = set()
    for sp in specs:
        if not gen.is_gate_spec(sp):
            continue
        qs = gen.spec_qubits(sp)
        if len(qs) > 2:
            return ["err", "value"]
        if len(qs) == 2:
            edges.add(tuple(sorted(qs)))
    nodes = sorted({q for e in edges for q in e})
    return ["ok", nodes, sorted(list(e) for e in edges)]


def check_cases(ctx, suite, cases):
    circuits = [gen.build_circuit(nq, nb, specs) for nq, nb, specs in cases]
    impl = [impl_graph(c) for c in circuits]
    reqs = [["graph", ser.ser_stmts(c.ir.statements)] for c in circuits]
    mres = model.call_many(reqs)
    for (nq, nb, specs), im, (margin, mr) in zip(cases, impl, mres):
        case = {"nq": nq, "nb": nb, "specs": specs}
        nontrivial = any(len(gen.spec_qubits(s)) >= 2 for s in specs if gen.is_gate_spec(s))
        ctx.seen(case, nontrivial)
        ctx.bump("result_" + im[0])
        ctx.bump(f"len_{min(len(specs), 10)}")
        mo = norm_model(mr) if not model.is_bad(mr) else ["bad", mr]
        eq = (mo == im)
        if not eq:
            ctx.disagree(suite, case, f"impl={im} model={mo}")
        orc = oracle(specs)
        if orc != im:
            ctx.oracle_fail(suite, case, f"impl={im} expected={orc}", impl_eq_model=eq)
    if cases:
        ctx.sample({"nq": cases[-1][0], "specs": cases[-1][2], "impl": impl[-1]})


def placements_4q():
    """All CNOT / CZ / 2-operand matrix-gate placements on 4 qubits (ordered pairs x 3 kinds)."""
    out = []
    swap = gen.perm_matrix([0, 2, 1, 3])
    for a, b in itertools.permutations(range(4), 2):
        out.append(["named", "CNOT", [a, b]])
        out.append(["named", "CZ", [a, b]])
        out.append(["mat", [a, b], swap])
    return out


def run(ctx):
    rng = ctx.rng
    ctx.rule("exhaustive: all sequences of <=k placements from {CNOT,CZ,matrix gate} x ordered qubit pairs on 4 qubits "
             "(k=2 quick, 3 thorough); random circuits on 2..8 qubits with named, controlled, doubly-controlled, "
             "matrix gates, measures, resets, comments; non-trivial = contains a gate on >=2 qubits")
    pl = placements_4q()
    kmax = ctx.pick(2, 3)
    cases = []
    for k in range(0, kmax + 1):
        for combo in itertools.combinations(range(len(pl)), k):
            cases.append((4, 0, [pl[i] for i in combo]))
    ctx.suite("exhaustive_placements", cases=len(cases), max_gates=kmax)
    ctx.exhaustive = True
    for i in range(0, len(cases), 2000):
        check_cases(ctx, "exhaustive_placements", cases[i:i + 2000])
    n = ctx.pick(600, 8000)
    rcases = []
    for _ in range(n):
        nq = rng.randint(2, 8)
        nb = rng.randint(0, 3)
        length = rng.randint(0, 14)
        wide = rng.random() < 0.35
        specs = gen.rand_circuit_spec(rng, nq, nb, length, max_ctrl=(2 if wide else 1), allow_mat=True)
        if not wide:
            specs = [s for s in specs if len(gen.spec_qubits(s)) <= 2]
        rcases.append((nq, nb, specs))
    ctx.suite("random_circuits", cases=len(rcases))
    for i in range(0, len(rcases), 2000):
        check_cases(ctx, "random_circuits", rcases[i:i + 2000])
    run_history(ctx)


def run_history(ctx):
    """graphs of circuits that went through earlier passes (map incl. the identity mapping, decompose, merge), with a
    user-defined named matrix gate among the statements"""
    rng = ctx.rng
    n_cases = 0
    for _ in range(ctx.pick(80, 800)):
        nq = rng.randint(2, 6)
        specs = [s for s in gen.rand_circuit_spec(rng, nq, 1, rng.randint(1, 8), max_ctrl=1, allow_mat=True) if len(gen.spec_qubits(s)) <= 2]
        n_stmts = len(gen.build_circuit(nq, 1, specs).ir.statements)
        extra, where = [], []
        for _ in range(rng.randint(0, 2)):
            a, b = gen.rand_qubits(rng, nq, 2)
            where.append(rng.randint(0, n_stmts + len(extra)))
            extra.append((a, b))
        perm = list(range(nq))
        rng.shuffle(perm)
        hist = rng.choice([["identity_map"], ["map"], ["map", "map"], ["decompose", "map"], ["merge", "map"], ["map", "decompose"]])
        check_history(ctx, {"nq": nq, "nb": 1, "specs": specs, "user_swaps": extra, "history": hist, "perm": perm}, where)
        n_cases += 1
    ctx.suite("history", cases=n_cases)


def user_swap():
    from opensquirrel.ir import MatrixGate, QubitLike, named_gate

    @named_gate
    def uswap(a: QubitLike, b: QubitLike) -> MatrixGate:
        return MatrixGate([[1, 0, 0, 0], [0, 0, 1, 0], [0, 1, 0, 0], [0, 0, 0, 1]], [a, b])
    return uswap


def check_history(ctx, case, where):
    """where: the positions at which the user gates were inserted, one after the other (recorded for the replay)"""
    from opensquirrel.mapper import HardcodedMapper, IdentityMapper
    from opensquirrel.mapper.mapping import Mapping

    from harness import implrun

    nq, specs, extra, hist, perm = case["nq"], case["specs"], case["user_swaps"], case["history"], case["perm"]
    uswap = user_swap()
    c = gen.build_circuit(nq, 1, specs)
    for (a, b), pos in zip(extra, where):
        c.ir.statements.insert(pos, uswap(a, b))
    ctx.seen(case)
    case = {**case, "swap_positions": list(where)}
    f = {q: q for q in range(nq)}
    try:
        for h in hist:
            if h == "identity_map":
                c.map(IdentityMapper(nq))
            elif h == "map":
                c.map(HardcodedMapper(nq, Mapping(perm)))
                f = {q: perm[f[q]] for q in f}
            elif h == "decompose":
                implrun.apply_pass(c, ["decompose", "zyz"])
            else:
                implrun.apply_pass(c, ["merge"])
    except Exception:  # noqa: BLE001
        return
    im = impl_graph(c)
    want = set()
    for sp in specs:
        if gen.is_gate_spec(sp) and len(gen.spec_qubits(sp)) == 2:
            a, b = gen.spec_qubits(sp)
            want.add(tuple(sorted((f[a], f[b]))))
    for a, b in extra:
        want.add(tuple(sorted((f[a], f[b]))))
    orc = ["ok", sorted({q for e in want for q in e}), sorted(list(e) for e in want)]
    (_, mr), = model.call_many([["graph", ser.ser_stmts(c.ir.statements)]])
    mo = norm_model(mr)
    if mo != im:
        ctx.disagree("history", case, f"impl={im} model={mo}")
    if im != orc:
        ctx.oracle_fail("history", case, f"after {hist}: impl={im} expected={orc}", mo == im)


def replay(ctx, payload):
    from harness import framework

    suite, case = framework.replay_target(payload)
    if case is None:
        return framework.replay_nothing(payload)
    if "history" in case:
        pub = {k: v for k, v in case.items() if k != "swap_positions"}
        pub["user_swaps"] = [tuple(x) for x in pub["user_swaps"]]
        check_history(ctx, pub, case.get("swap_positions", [0] * len(case["user_swaps"])))
    else:
        check_cases(ctx, suite or "replay", [(case["nq"], case["nb"], case["specs"])])
    return framework.replay_result(ctx)
