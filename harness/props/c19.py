"""C19 — compilation cost follows the circuit, never the 2^n size of the register (partial: see level note)."""
from __future__ import annotations

import time
import tracemalloc

from harness import gen, implrun, model, oracles, ser, sexp
from harness.props.decomp_common import relabel_specs

ID = "C19"
TRUSTED = ["wall-clock time and peak memory cannot be exhibited by a Gallina function: they are measured here (tracemalloc, "
           "time.perf_counter) against fixed budgets; the sizes of the matrices actually requested are recorded by wrapping "
           "MatrixExpander.__init__ and _CircuitMatrixCalculator.__init__ from the harness process (no source hooks)",
           "the theorems (CostP, EmbedP) state that every pass commutes with relabelling / compression of the qubit indices"]
ASSUMPTIONS = ["budgets: each pipeline step on a register of up to 100 000 qubits within 20 s and 400 MB (pinned tree: < 4 s, "
               "dominated by merge's linear accumulator set-up); matrices never larger than 2^(operands of the widest gate)"]
CLASSIFIERS: dict = {}
TIME_BUDGET = 20.0
MEM_BUDGET = 400e6


class SizeRecorder:
    def __init__(self):
        self.sizes = []

    def __enter__(self):
        from opensquirrel import circuit_matrix_calculator as cmc
        from opensquirrel.utils import matrix_expander as me

        self._me, self._cmc = me, cmc
        self._o1, self._o2 = me.MatrixExpander.__init__, cmc._CircuitMatrixCalculator.__init__
        rec = self

        def init1(obj, n):
            rec.sizes.append(int(n))
            return rec._o1(obj, n)

        def init2(obj, n):
            rec.sizes.append(int(n))
            return rec._o2(obj, n)
        me.MatrixExpander.__init__ = init1
        cmc._CircuitMatrixCalculator.__init__ = init2
        return self

    def __exit__(self, *a):
        self._me.MatrixExpander.__init__ = self._o1
        self._cmc._CircuitMatrixCalculator.__init__ = self._o2


def pipelines(nq_small):
    perm = list(range(nq_small))[::-1]
    P = [[["decompose", d]] for d in implrun.DEC_NAMES]
    P += [[["merge"]], [["replace", "CNOT", "cnot_to_hczh"]], [["replace", "CZ", "cz_to_hcnoth"]],
          [["decompose", "cnot"], ["merge"], ["decompose", "mckay"]], [["map", "reverse"]], [["write"]], [["v1"]], [["qs"]], [["eq"]], [["parse"]]]
    return P


def run_steps(c, steps, nq):
    """apply the steps; returns a comparable result (canonical statements or text)"""
    from opensquirrel.circuit import Circuit
    from opensquirrel.exporter.export_format import ExportFormat

    out = None
    for p in steps:
        if p[0] == "map":
            # reverse the USED qubits among themselves (a permutation of the register that is cheap to build)
            used = sorted({q for s in c.ir.statements for q in oracles.stmt_qubits(s)})
            perm = list(range(nq))
            for a, b in zip(used, used[::-1]):
                perm[a] = b
            implrun.apply_pass(c, ["map", perm])
        elif p[0] == "write":
            out = str(c)
        elif p[0] == "parse":
            c2 = Circuit.from_string(str(c))
            out = implrun.canon_post(c2.ir.statements)
        elif p[0] == "v1":
            try:
                out = c.export(ExportFormat.CQASM_V1)
            except Exception as e:  # noqa: BLE001
                out = "raised " + type(e).__name__
        elif p[0] == "qs":
            from harness.props import c11

            out = c11.export(c)
        elif p[0] == "eq":
            gs = [s for s in c.ir.statements if oracles.is_gate(s)]
            out = [bool(a == b) for a in gs[:6] for b in gs[:6]]
        else:
            implrun.apply_pass(c, p)
    return out if out is not None else implrun.canon_post(c.ir.statements)


def compress_result(res, inv):
    """map the qubit indices of a result on the big register back to the small register"""
    import re

    if isinstance(res, tuple):
        if res[0] != "ok":
            return res
        f = lambda q: inv.get(q, q)  # noqa: E731
        ops = []
        for o in res[1]:
            o = list(o)
            if o[0] == "rxy":
                o[3] = f(o[3])
            elif o[0] == "rz":
                o[2] = f(o[2])
            elif o[0] in ("cnot", "cz"):
                o[1], o[2] = f(o[1]), f(o[2])
            elif o[0] == "measure":
                o[1], o[2] = f(o[1]), f(o[2])
            elif o[0] == "reset":
                o[1] = f(o[1])
            ops.append(o)
        return ("ok", ops, [None if b is None else [b[0], f(b[1])] for b in res[2]])
    if isinstance(res, str):
        res = re.sub(r"Qubit\[(\d+)\]", lambda m: f"Qubit[{inv.get(int(m.group(1)), int(m.group(1)))}]", res)
        return re.sub(r"\bq\[(\d+)\]", lambda m: f"q[{inv.get(int(m.group(1)), int(m.group(1)))}]", res)
    if isinstance(res, list) and res and isinstance(res[0], bool):
        return res
    from harness.props.c03 import relabel_canon

    return relabel_canon(res, lambda q: inv.get(q, q))


def timed_run(c, steps, N):
    """run the steps on a big register under the size recorder and the time limit -> (result, error kind, seconds, sizes)"""
    t0 = time.perf_counter()
    try:
        with SizeRecorder() as rec, implrun.time_limit(int(TIME_BUDGET) + 20):
            got = run_steps(c, steps, N)
        gerr = None
    except implrun.Timeout:
        got, gerr = None, "timeout"
    except MemoryError:
        got, gerr = None, "memory"
    except Exception as e:  # noqa: BLE001
        got, gerr = None, implrun.errkind(e)
    return got, gerr, time.perf_counter() - t0, rec.sizes


def peak_memory(specs, steps, N):
    """memory: a second run under tracemalloc (slows execution, so not timed)"""
    big2 = gen.build_circuit(N, 1, specs)
    tracemalloc.start()
    try:
        with implrun.time_limit(300):
            run_steps(big2, steps, N)
    except Exception:  # noqa: BLE001
        pass
    _, peak = tracemalloc.get_traced_memory()
    tracemalloc.stop()
    return peak


def check_register(ctx, case, idx, with_memory):
    """the circuit on the operands idx of a register of N qubits against the same circuit on a register of k qubits;
    idx and with_memory are drawn in a run and recorded with the case (as "idx", "memory_measured") for the replay"""
    k, N, specs, steps = case["k"], case["N"], case["specs"], case["steps"]
    widest = max([len(gen.spec_qubits(s)) for s in specs if gen.is_gate_spec(s)] + [1])
    m = {i: idx[i] for i in range(k)}
    inv = {v: kk for kk, v in m.items()}
    big_specs = relabel_specs(specs, m)
    ctx.seen(case, widest >= 2)
    ctx.bump(f"N_{N}")
    case = {**case, "idx": list(idx), "memory_measured": bool(with_memory)}
    small = gen.build_circuit(k, 1, specs)
    big = gen.build_circuit(N, 1, big_specs)
    try:
        want = run_steps(small, steps, k)
        werr = None
    except Exception as e:  # noqa: BLE001
        want, werr = None, implrun.errkind(e)
    got, gerr, dt, sizes = timed_run(big, steps, N)
    peak = 0
    if with_memory:
        peak = peak_memory(big_specs, steps, N)
        ctx.bump("memory_measured")
    if gerr in ("timeout", "memory") or dt > TIME_BUDGET or peak > MEM_BUDGET:
        ctx.oracle_fail("cost", case, f"time {dt:.1f}s / peak memory {peak/1e6:.0f} MB on a register of {N} qubits ({gerr})", None)
        return
    if sizes and max(sizes) > max(widest, 2) + (0 if steps[0][0] != "eq" else widest):
        ctx.oracle_fail("cost", case, f"a matrix on {max(sizes)} qubits was built; the widest gate has {widest} operands", None)
        return
    if gerr != werr:
        ctx.oracle_fail("cost", case, f"big register: {gerr}, small register: {werr}", None)
        return
    if gerr is None:
        a = compress_result(got, inv)
        if steps[0][0] in ("write", "v1", "parse"):
            import re

            a2 = re.sub(r"qubit\[\d+\]|qubits \d+", "", a) if isinstance(a, str) else a
            w2 = re.sub(r"qubit\[\d+\]|qubits \d+", "", want) if isinstance(want, str) else want
            same = a2 == w2
        elif isinstance(a, (str, tuple)) or (isinstance(a, list) and a and isinstance(a[0], bool)):
            same = a == want
        else:
            same = ser.struct_diff(a, want, 1e-12) is None
        if not same:
            ctx.oracle_fail("cost", case, "result on the big register differs from the compressed run", None)


def check_wide(ctx, case, rep):
    """one pass on a circuit touching many distinct qubits; returns True when the cost is out of budget (the run stops
    widening then). rep: the repetition number within the width (recorded: only the first is compared gate by gate)"""
    W, N, specs, steps = case["width"], case["N"], case["specs"], case["steps"]
    ctx.seen(case, True)
    ctx.bump(f"wide_{W}")
    case = {**case, "rep": rep}
    big = gen.build_circuit(N, 1, specs)
    got, gerr, dt, sizes = timed_run(big, steps, N)
    if gerr in ("timeout", "memory") or dt > TIME_BUDGET:
        ctx.oracle_fail("cost", case, f"time {dt:.1f}s on a circuit touching {W} qubits of {N} ({gerr})", None)
        return True
    if sizes and max(sizes) > 2:
        ctx.oracle_fail("cost", case, f"a matrix on {max(sizes)} qubits was built; every gate has at most 2 operands", None)
        return True
    # a single decompose / replace step acts gate by gate: the result is the concatenation of the results on
    # one-statement circuits
    if len(steps) == 1 and steps[0][0] in ("decompose", "replace") and gerr is None and rep == 0 and W <= 40:
        want = []
        werr = None
        for sp in specs:
            one = gen.build_circuit(N, 1, [sp])
            try:
                want += run_steps(one, steps, N)
            except Exception as e:  # noqa: BLE001
                werr = implrun.errkind(e)
                break
        strip = lambda xs: [[x[0]] + list(x[2:]) if isinstance(x, list) and x and x[0] in ("gate", "measure", "reset") else x for x in xs]  # noqa: E731
        if werr is None and ser.struct_diff(strip(got), strip(want), 1e-12) is not None:
            ctx.oracle_fail("cost", case, "a wide circuit is not rewritten gate by gate", None)
    elif gerr is not None and not (len(steps) == 1 and steps[0][0] in ("decompose", "replace")):
        ctx.oracle_fail("cost", case, f"pass raised {gerr} on a wide circuit", None)
    return False


def big_register_item(specs, idx, p):
    """implementation side of the model correspondence on a 100 000 qubit register"""
    N = 100000
    big = gen.build_circuit(N, 1, relabel_specs(specs, {i: idx[i] for i in range(len(idx))}))
    pre = ser.ser_stmts(big.ir.statements)
    err, post = implrun.run_impl(big, p)
    return (p, N, pre, err, post, specs, idx)


def check_big_register(ctx, item, mr):
    p, N, pre, err, post, specs, idx = item
    mg, r = mr
    merr, mpost = implrun.model_outcome(p, r)
    ctx.seen({"model_big": specs, "pass": p})
    if (err is None) != (merr is None) or (mpost is not None and ser.struct_diff(post, mpost, 3e-7)):
        ctx.disagree("model_big_register", {"specs": specs, "pass": p, "idx": idx},
                     "implementation and model differ on a 100 000 qubit register", mg)


def run(ctx):
    rng = ctx.rng
    ctx.rule("every pipeline of C05 (8 decomposers, replace rules, merge, map, CNOT->merge->McKay) plus gate equality, writer, "
             "parser and both exporters on registers of 40, 64, 1 000 and 100 000 qubits with operands drawn from the lowest, "
             "highest and random indices, against the same circuit compressed onto a small register; matrix sizes recorded; "
             "time and memory budgets; non-trivial = circuit with a multi-qubit gate")
    sizes = [40, 64, 1000, 100000] if not ctx.quick else [64, 100000]
    n = 0
    for _ in range(ctx.pick(10, 60)):
        k = rng.randint(2, 4)
        specs = gen.rand_circuit_spec(rng, k, 1, rng.randint(3, 10), max_ctrl=2, allow_mat=True, wide_angles=False)
        specs = [s for s in specs if s[0] != "measure_z"]
        for N in (rng.sample(sizes, 1) if ctx.quick else sizes):
            mode = rng.choice(["lowest", "highest", "random"])
            if mode == "lowest":
                idx = list(range(k))
            elif mode == "highest":
                idx = list(range(N - k, N))
            else:
                idx = sorted(rng.sample(range(N), k))
            for steps in (pipelines(k) if not ctx.quick else rng.sample(pipelines(k), 4) + [[["eq"]]]):
                n += 1
                check_register(ctx, {"k": k, "N": N, "mode": mode, "specs": specs, "steps": steps}, idx,
                               rng.random() < ctx.pick(0.15, 0.3))
    ctx.suite("registers", cases=n, sizes=sizes)
    # wide circuits: many DISTINCT qubits touched by one pass (each gate still has at most two operands). Widths are
    # tried in increasing order and the escalation stops at the first width whose cost is out of budget, so that a
    # pass whose cost grows with the number of qubits touched is reported at a width where it is still harmless.
    widths = [6, 12, 40] if ctx.quick else [6, 10, 16, 40, 200]
    n_w, stop = 0, False
    for W in widths:
        if stop:
            break
        for rep in range(ctx.pick(1, 3)):
            N = rng.choice([W, max(W, 64), 100000])
            idx = sorted(rng.sample(range(N), W))
            specs = []
            order = list(range(W))
            rng.shuffle(order)
            for a, b in zip(order, order[1:]):
                two = gen.rand_gate_spec(rng, 2, max_ctrl=1)
                specs += relabel_specs([["named", "H", [0]], two], {0: idx[a], 1: idx[b]})
            specs = [sp for sp in specs if gen.is_gate_spec(sp)]
            for steps in [[["decompose", d]] for d in (implrun.DEC_NAMES if not ctx.quick else rng.sample(implrun.DEC_NAMES, 3) + ["mckay", "cnot"])] + \
                    [[["merge"]], [["replace", "CNOT", "cnot_to_hczh"]], [["replace", "CZ", "cz_to_hcnoth"]],
                     [["decompose", "cnot"], ["merge"], ["decompose", "mckay"]], [["map", "reverse"]]]:
                n_w += 1
                stop = check_wide(ctx, {"kind": "wide", "width": W, "N": N, "specs": specs, "steps": steps}, rep) or stop
    ctx.suite("wide_circuits", cases=n_w, widths=widths)
    # correspondence: model on the big register (indices as binary integers) = impl, for one pass each
    items = []
    for _ in range(ctx.pick(12, 80)):
        k = rng.randint(2, 3)
        specs = gen.rand_circuit_spec(rng, k, 1, rng.randint(2, 6), max_ctrl=1, allow_mat=True, wide_angles=False)
        idx = sorted(rng.sample(range(100000), k))
        p = rng.choice([["decompose", rng.choice(implrun.DEC_NAMES)], ["replace", "CNOT", "cnot_to_hczh"]])
        items.append(big_register_item(specs, idx, p))
    mres = model.call_many([implrun.model_request(p, N, pre) for p, N, pre, _, _, _, _ in items])
    for item, mr in zip(items, mres):
        check_big_register(ctx, item, mr)
    ctx.suite("model_big_register", cases=len(items))
    ctx.sample({"example": {"k": 3, "N": 100000, "mode": "random", "steps": [["decompose", "cnot"], ["merge"], ["decompose", "mckay"]]}})


def replay_register(ctx, case):
    if "idx" not in case and case["mode"] == "random":
        return {"fails": False, "not_rerun": True, "note": "record without the operand indices that were drawn on the big register"}
    idx = case.get("idx") or (list(range(case["k"])) if case["mode"] == "lowest" else list(range(case["N"] - case["k"], case["N"])))
    pub = {k: case[k] for k in ("k", "N", "mode", "specs", "steps")}
    check_register(ctx, pub, idx, True)      # memory is sampled in a run, always measured in a replay
    return None


def replay(ctx, payload):
    from harness import framework

    suite, case = framework.replay_target(payload)
    if case is None:
        return framework.replay_nothing(payload)
    if case.get("kind") == "wide":
        check_wide(ctx, {k: v for k, v in case.items() if k != "rep"}, case.get("rep", 0))
    elif "pass" in case:
        if "idx" not in case:
            return framework.replay_nothing(payload, "record without the operand indices that were drawn on the big register")
        item = big_register_item(case["specs"], case["idx"], case["pass"])
        check_big_register(ctx, item, model.call_many([implrun.model_request(item[0], item[1], item[2])])[0])
    else:
        out = replay_register(ctx, case)
        if out is not None:
            return out
    return framework.replay_result(ctx)
