"""C10 — decomposers deliver their advertised target gate set."""
from __future__ import annotations

from harness import gen, implrun, model, oracles, ser
from harness.props import decomp_common as dc

ID = "C10"
TRUSTED = ["extraction + OCaml float dictionary", "libqasm used to re-parse the written result"]
ASSUMPTIONS = ["target-set theorems are structural (any Num instance, McKay under pi/2 not below ATOL, proved at R)"]
CLASSIFIERS: dict = {}


def name_of(s):
    return s.generator.__name__ if getattr(s, "generator", None) is not None else None


def is_id(s):
    return type(s).__name__ == "BlochSphereRotation" and abs(float(s.angle)) < 1e-7 and abs(float(s.phase)) < 1e-7


def oracle_c10(ctx, suite, case, ev, eq, always_reparse=False):
    if ev["err"] is not None:
        return          # "never fails" is C01's concern
    dec = case["pass"][1]
    before, after = ev["before"], ev["after"]
    ids_after = {id(s) for s in after}
    ids_before = {id(s) for s in before}
    d = implrun.decomposer(dec)
    for g in before:
        if not oracles.is_gate(g):
            continue
        if not scope(dec, g):
            # passed through unchanged: the very same object is still in the circuit, and the decomposer returns [g]
            out = d.decompose(g)
            if id(g) not in ids_after or len(out) != 1 or out[0] is not g:
                ctx.oracle_fail(suite, case, f"gate outside the decomposer's scope was not passed through unchanged: {g!r}", eq)
                return
            continue
        try:
            run = d.decompose(g)
        except Exception:  # noqa: BLE001
            continue
        msg = check_run(dec, g, run, 1, [g])
        if msg:
            ctx.oracle_fail(suite, case, msg, eq)
            return
    # every emitted gate is a named, non-identity gate
    for s in after:
        if oracles.is_gate(s) and id(s) not in ids_before:
            if getattr(s, "arguments", None) is None or s.generator is None:
                ctx.oracle_fail(suite, case, f"emitted gate is anonymous: {s!r}", eq)
                return
            if is_id(s):
                ctx.oracle_fail(suite, case, f"identity gate emitted: {s!r}", eq)
                return
    # ... that can be written and re-parsed
    if (always_reparse or ctx.rng.random() < 0.15) and case["nq"] <= 64:      # sampled in a run, always in a replay
        from opensquirrel.circuit import Circuit

        c = ev["circuit"]
        if all(getattr(s, "arguments", 1) is not None for s in after if oracles.is_gate(s)) and \
                not any(getattr(s, "generator", None) is not None and s.generator.__name__ == "measure_z" for s in after):
            try:
                c2 = Circuit.from_string(str(c))
                if len(c2.ir.statements) != len(after) - sum(1 for s in after if type(s).__name__ == "Comment"):
                    ctx.oracle_fail(suite, case, "written result re-parses to a different number of statements", eq)
            except Exception as e:  # noqa: BLE001
                ctx.oracle_fail(suite, case, f"written result does not re-parse: {type(e).__name__}: {str(e)[:160]}", eq)


def scope(dec, g):
    cls = type(g).__name__
    if dec == "cnot":
        return cls == "ControlledGate" and type(g.target_gate).__name__ == "BlochSphereRotation"
    if dec == "mckay":
        return cls == "BlochSphereRotation" and name_of(g) not in ("Rz", "X90")
    return cls == "BlochSphereRotation"


def check_run(dec, g, run, n_adjacent, block):
    names = [name_of(s) for s in run]
    qs_block = set()
    for h in block:
        qs_block.update(oracles.stmt_qubits(h))
    for s in run:
        if not set(oracles.stmt_qubits(s)) <= qs_block:
            return f"{dec}: emitted gate on foreign qubits {oracles.stmt_qubits(s)}"
    if dec in dc.ABA_AXES:
        a, b = dc.ABA_AXES[dec]
        if len(run) > 3 * n_adjacent:
            return f"{dec}: more than three gates for one rotation: {names}"
        if any(n not in (a, b) for n in names):
            return f"{dec}: gate outside {{{a}, {b}}}: {names}"
        if n_adjacent == 1:
            # order A, B, A: the pattern must be a subsequence of [a, b, a]
            pat = [a, b, a]
            i = 0
            for n in names:
                while i < 3 and pat[i] != n:
                    i += 1
                if i == 3:
                    return f"{dec}: order is not A, B, A: {names}"
                i += 1
    elif dec == "mckay":
        if any(n not in ("Rz", "X90") for n in names):
            return f"mckay: gate outside {{Rz, X90}}: {names}"
        if len(run) > 5 * n_adjacent:
            return f"mckay: more than five gates: {names}"
        if names.count("X90") > 2 * n_adjacent:
            return f"mckay: more than two X90: {names}"
    elif dec == "cnot":
        if any(n not in ("CNOT", "Ry", "Rz") for n in names):
            return f"cnot: gate outside {{CNOT, Ry, Rz}}: {names}"
        if names.count("CNOT") > 2 * n_adjacent:
            return f"cnot: more than two CNOTs: {names}"
    return None


def pipeline_cases(ctx):
    rng = ctx.rng
    out = []
    for _ in range(ctx.pick(120, 2000)):
        nq = rng.randint(2, 3)
        specs = []
        for _ in range(rng.randint(1, 6)):
            r = rng.random()
            if r < 0.5:
                c, t = gen.rand_qubits(rng, nq, 2)
                specs.append(["ctrl", c, ["bsr", t, gen.rand_axis(rng), gen.rand_angle(rng), gen.rand_angle(rng)]])
            elif r < 0.7:
                nm = rng.choice(["CNOT", "CZ", "CR"])
                a, b = gen.rand_qubits(rng, nq, 2)
                specs.append(["named", nm, [a, b, gen.rand_angle(rng)] if nm == "CR" else [a, b]])
            else:
                specs.append(gen.rand_gate_spec(rng, nq, allow_multi=False))
        out.append({"nq": nq, "nb": 0, "specs": specs})
    return out


def run_pipeline(ctx):
    cases = pipeline_cases(ctx)
    ctx.suite("pipeline_cnot_merge_mckay", cases=len(cases))
    for case in cases:
        check_pipeline(ctx, case)


def check_pipeline(ctx, case):
    from opensquirrel.circuit import Circuit

    ctx.seen(case)
    rec = {**case, "pass": ["pipeline"]}
    c = gen.build_circuit(case["nq"], 0, case["specs"])
    try:
        c.decompose(implrun.decomposer("cnot"))
        c.merge_single_qubit_gates()
        c.decompose(implrun.decomposer("mckay"))
    except Exception as e:  # noqa: BLE001
        ctx.bump("pipeline_raised")
        return        # failures of decomposition are C01's concern (known finding F3)
    bad = None
    for s in c.ir.statements:
        cls = type(s).__name__
        if cls == "BlochSphereRotation" and name_of(s) not in ("Rz", "X90"):
            bad = f"single-qubit gate outside {{Rz, X90}} after the pipeline: {s!r}"
        elif cls == "ControlledGate" and type(s.target_gate).__name__ == "BlochSphereRotation" and name_of(s) != "CNOT":
            bad = f"controlled gate other than CNOT after the pipeline: {s!r}"
        elif oracles.is_gate(s) and is_id(s):
            bad = "identity gate emitted"
    if bad:
        ctx.oracle_fail("pipeline", rec, bad, None)
        return
    try:
        txt = str(c)
        c2 = Circuit.from_string(txt)
        if len(c2.ir.statements) != len(c.ir.statements):
            ctx.oracle_fail("pipeline", rec, "written result re-parses to a different number of statements", None)
    except Exception as e:  # noqa: BLE001
        ctx.oracle_fail("pipeline", rec, f"written result does not re-parse: {type(e).__name__}: {str(e)[:200]}", None)


def run(ctx):
    ctx.rule("same gate and circuit space as C01 (kernel grid + random circuits) x 8 decomposers; plus the pipeline "
             "CNOT-decompose -> merge -> McKay on random circuits of controlled rotations; non-trivial = contains a gate")
    dc.run_suites(ctx, oracle_c10)
    run_pipeline(ctx)


def replay(ctx, payload):
    from harness import framework

    suite, case = framework.replay_target(payload)
    if case is None:
        return framework.replay_nothing(payload)
    if case.get("pass", ["pipeline"])[0] == "pipeline":
        check_pipeline(ctx, {k: v for k, v in case.items() if k != "pass"})
        return framework.replay_result(ctx)

    def oracle(*a):
        oracle_c10(*a, always_reparse=True)
    ev, eq, history = dc.replay_case(ctx, suite or "replay", case, oracle)
    return framework.replay_result(ctx, impl_error=ev["err"], post=ev["post"], impl_eq_model=eq, history=history)
