"""Serialise OpenSquirrel objects into the exchange format (nested lists for
sexp.dumps) and parse model results back into comparable Python values."""
from __future__ import annotations

import math
from typing import Any

from harness.sexp import Sym


def S(x: str) -> Sym:
    return Sym(x)


class OidMap:
    """Python object identity -> small positive ints in order of first appearance."""

    def __init__(self) -> None:
        self.ids: dict[int, int] = {}
        self.keep: list[Any] = []

    def get(self, obj: Any) -> int:
        k = id(obj)
        if k not in self.ids:
            self.ids[k] = len(self.ids) + 1
            self.keep.append(obj)
        return self.ids[k]


def ser_axis(axis) -> list:
    v = axis.value if hasattr(axis, "value") else axis
    return [float(v[0]), float(v[1]), float(v[2])]


def ser_gate(g) -> list:
    from opensquirrel.ir import BlochSphereRotation, ControlledGate, MatrixGate

    if isinstance(g, BlochSphereRotation):
        return [S("bsr"), int(g.qubit.index), ser_axis(g.axis), float(g.angle), float(g.phase)]
    if isinstance(g, ControlledGate):
        return [S("ctrl"), int(g.control_qubit.index), ser_gate(g.target_gate)]
    if isinstance(g, MatrixGate):
        m = [[[float(complex(x).real), float(complex(x).imag)] for x in row] for row in g.matrix]
        return [S("mat"), m, [int(q.index) for q in g.operands]]
    raise TypeError(f"unknown gate {type(g)}")


def ser_arg(a) -> list:
    from opensquirrel.ir import Bit, Float, Int, Qubit

    if isinstance(a, Qubit):
        return [S("q"), int(a.index)]
    if isinstance(a, Bit):
        return [S("b"), int(a.index)]
    if isinstance(a, Float):
        return [S("f"), float(a.value)]
    if isinstance(a, Int):
        return [S("i"), int(a.value)]
    if isinstance(a, bool):
        return [S("i"), int(a)]
    if isinstance(a, int):
        return [S("i"), int(a)]
    if isinstance(a, float):
        return [S("f"), float(a)]
    raise TypeError(f"unknown argument {type(a)}")


def canon_args(args):
    return None if args is None else [tuple(canon(sexp_roundtrip(ser_arg(a)))) for a in args]


def sexp_roundtrip(v):
    from harness import sexp

    return sexp.loads(sexp.dumps(v))


def ser_ginfo(s) -> list:
    gen = getattr(s, "generator", None)
    args = getattr(s, "arguments", None)
    name = None if gen is None else [S("some"), str(gen.__name__)]
    sargs = None if args is None else [S("some"), [ser_arg(a) for a in args]]
    return [S("gi"), name, sargs]


def ser_stmt(s, oids: OidMap) -> list:
    from opensquirrel.ir import Comment, Gate, Measure, Reset

    if isinstance(s, Gate):
        return [S("gate"), oids.get(s), ser_gate(s), ser_ginfo(s)]
    if isinstance(s, Measure):
        return [S("measure"), oids.get(s), int(s.qubit.index), int(s.bit.index), ser_axis(s.axis), ser_ginfo(s)]
    if isinstance(s, Reset):
        return [S("reset"), oids.get(s), int(s.qubit.index), ser_ginfo(s)]
    if isinstance(s, Comment):
        return [S("comment"), str(s.str)]
    raise TypeError(f"unknown statement {type(s)}")


def ser_stmts(stmts, oids: OidMap | None = None) -> list:
    oids = oids or OidMap()
    return [ser_stmt(s, oids) for s in stmts]


def ser_circuit(c, oids: OidMap | None = None) -> list:
    return [S("circuit"), int(c.qubit_register_size), int(c.bit_register_size), ser_stmts(c.ir.statements, oids)]


# ---------------------------------------------------------------- comparison

def is_float_atom(a) -> bool:
    if not isinstance(a, Sym):
        return False
    s = str(a)
    return s in ("nan", "inf", "-inf") or s.startswith(("0x", "-0x"))


def canon(v):
    """Parsed sexp -> comparable structure: floats become python floats, ints ints."""
    if isinstance(v, list):
        return [canon(x) for x in v]
    if isinstance(v, Sym):
        s = str(v)
        if is_float_atom(v):
            return float.fromhex(s) if "x" in s else float(s)
        try:
            return int(s)
        except ValueError:
            return s
    return ("str", v) if isinstance(v, str) else v


def close(a: float, b: float, tol: float) -> bool:
    if math.isnan(a) or math.isnan(b):
        return math.isnan(a) and math.isnan(b)
    if math.isinf(a) or math.isinf(b):
        return a == b
    return abs(a - b) <= tol * max(1.0, abs(a), abs(b))


def struct_diff(a, b, tol: float = 1e-9, path: str = "") -> str | None:
    """First difference between two canon() structures; floats compared with tolerance."""
    if isinstance(a, float) and isinstance(b, (float, int)) and not isinstance(b, bool):
        return None if close(a, float(b), tol) else f"{path}: {a!r} != {b!r}"
    if isinstance(b, float) and isinstance(a, (float, int)) and not isinstance(a, bool):
        return None if close(float(a), b, tol) else f"{path}: {a!r} != {b!r}"
    if isinstance(a, list) and isinstance(b, list):
        if len(a) != len(b):
            return f"{path}: length {len(a)} != {len(b)}"
        for i, (x, y) in enumerate(zip(a, b)):
            d = struct_diff(x, y, tol, f"{path}/{i}")
            if d:
                return d
        return None
    if type(a) is not type(b) or a != b:
        return f"{path}: {a!r} != {b!r}"
    return None
