"""Replayable circuit specifications and seeded generators.

A statement spec is a JSON-serialisable list:
  ["named", name, [args...]]            default/user gate through its generator function
  ["bsr", q, [x,y,z], angle, phase]     anonymous BlochSphereRotation
  ["ctrl", c, spec]                     anonymous ControlledGate around a gate spec
  ["mat", [ops...], [[[re,im],...],...]]  anonymous MatrixGate
  ["measure", q, b] / ["measure_z", q, b] / ["reset", q] / ["comment", text]
Everything is built through the public constructors so that they are exercised for real."""
from __future__ import annotations

import math
from typing import Any

import numpy as np

PI = math.pi


def default_functions() -> dict[str, Any]:
    from opensquirrel import default_gates, default_measures, default_resets

    d = {f.__name__: f for f in default_gates.default_gate_set}
    d.update(default_gates.default_gate_aliases)
    d.update({f.__name__: f for f in default_measures.default_measure_set})
    d.update({f.__name__: f for f in default_resets.default_reset_set})
    return d


GATE_SIG = {  # name -> parameter kinds: q qubit, f Float, i int
    "I": "q", "H": "q", "X": "q", "X90": "q", "mX90": "q", "Y": "q", "Y90": "q", "mY90": "q", "Z": "q",
    "S": "q", "Sdag": "q", "T": "q", "Tdag": "q", "Rx": "qf", "Ry": "qf", "Rz": "qf",
    "CNOT": "qq", "CZ": "qq", "CR": "qqf", "CRk": "qqi", "Hadamard": "q", "Identity": "q",
}
ONEQ_NOPARAM = ["I", "H", "X", "X90", "mX90", "Y", "Y90", "mY90", "Z", "S", "Sdag", "T", "Tdag"]
ONEQ_PARAM = ["Rx", "Ry", "Rz"]
TWOQ = ["CNOT", "CZ", "CR", "CRk"]


def _call(f, args: list, spec: list):
    """Call a named instruction positionally or — for a quarter of the specs, chosen by a hash of the spec so that the
    choice replays — with keyword arguments written in another order than the signature's (reversed, or rotated):
    the statement built must be the same. A function whose signature cannot be read is called positionally."""
    import inspect
    import zlib

    h = zlib.crc32(repr(spec).encode())
    if len(args) < 2 or h % 4 != 0:
        return f(*args)
    try:
        names = list(inspect.signature(f).parameters)
    except (TypeError, ValueError):
        return f(*args)
    if len(names) != len(args):
        return f(*args)
    pairs = list(zip(names, args))
    pairs = pairs[::-1] if (h // 4) % 2 == 0 else pairs[1:] + pairs[:1]
    return f(**dict(pairs))


def _qubit(spec: list, i: int, q):
    """a qubit operand written as an int, a Qubit or a numpy integer: the library takes all three (QubitLike). The
    spelling of position i is a function of the spec, so a case replays; over a run all spellings occur everywhere."""
    import zlib

    from opensquirrel.ir import Qubit

    if not isinstance(q, int) or isinstance(q, bool):
        return q
    k = (zlib.crc32(repr(spec).encode()) >> (5 + 2 * i)) % 4
    return Qubit(q) if k == 1 else (np.int64(q) if k == 2 else q)


def build_stmt(spec: list, funcs: dict[str, Any] | None = None):
    from opensquirrel.ir import Bit, BlochSphereRotation, Comment, ControlledGate, Float, Int, MatrixGate

    funcs = funcs or default_functions()
    k = spec[0]
    if k == "named":
        name, args = spec[1], spec[2]
        sig = GATE_SIG.get(name)
        conv = []
        for i, a in enumerate(args):
            kind = sig[i] if sig and i < len(sig) else ("f" if isinstance(a, float) else "q")
            if kind == "f":
                conv.append(Float(a))
            elif kind == "q":
                conv.append(_qubit(spec, i, a))
            elif kind == "i" and isinstance(a, int) and not isinstance(a, bool) and len(repr(spec)) % 2 == 0:
                conv.append(Int(a))
            else:
                conv.append(a)
        return _call(funcs[name], conv, spec)
    if k == "bsr":
        return BlochSphereRotation(qubit=_qubit(spec, 0, spec[1]), axis=tuple(spec[2]), angle=spec[3], phase=spec[4])
    if k == "ctrl":
        return ControlledGate(_qubit(spec, 0, spec[1]), build_stmt(spec[2], funcs))
    if k == "mat":
        m = np.array([[complex(re, im) for re, im in row] for row in spec[2]], dtype=np.complex128)
        return MatrixGate(m, [_qubit(spec, i, q) for i, q in enumerate(spec[1])])
    if k in ("measure", "measure_z"):
        return _call(funcs[k], [_qubit(spec, 0, spec[1]), Bit(spec[2])], spec)
    if k == "reset":
        return _call(funcs["reset"], [_qubit(spec, 0, spec[1])], spec)
    if k == "comment":
        return Comment(spec[1])
    raise ValueError(f"unknown spec {spec!r}")


def _build_with_builder(nq: int, nb: int, specs: list, funcs):
    """A third of the circuits that consist of default named instructions only (chosen by a hash of the specification,
    so that a case replays) are built through CircuitBuilder — H and I under their alias names now and then — instead
    of adding statements to an IR: the circuit must be the same. Anything the builder refuses (indices outside the
    registers, ...) falls back to the direct construction, which is what those cases are about."""
    import zlib

    if funcs is not None or not specs or nq < 1:
        return None
    h = zlib.crc32(repr((nq, nb, specs)).encode())
    if h % 3 != 0 or any(sp[0] not in ("named", "measure", "measure_z", "reset", "comment") for sp in specs):
        return None
    try:
        from opensquirrel import CircuitBuilder
        from opensquirrel.ir import Bit, Float, Int

        b = CircuitBuilder(nq, nb)
        for i, sp in enumerate(specs):
            k = sp[0]
            if k == "named":
                name, args = sp[1], sp[2]
                sig = GATE_SIG.get(name)
                if sig is None or len(sig) != len(args):
                    return None
                conv = [Float(a) if kd == "f" else (Int(a) if kd == "i" and (h >> i) % 2 else a) for a, kd in zip(args, sig)]
                alias = {"H": "Hadamard", "I": "Identity"}.get(name)
                getattr(b, alias if alias and (h >> (i + 3)) % 2 else name)(*conv)
            elif k in ("measure", "measure_z"):
                getattr(b, k)(sp[1], Bit(sp[2]))
            elif k == "reset":
                b.reset(sp[1])
            else:
                b.comment(sp[1])
        return b.to_circuit()
    except Exception:  # noqa: BLE001
        return None


def build_circuit(nq: int, nb: int, specs: list, funcs: dict[str, Any] | None = None):
    from opensquirrel.circuit import Circuit
    from opensquirrel.ir import IR, Comment, Gate, Measure, Reset
    from opensquirrel.register_manager import BitRegister, QubitRegister, RegisterManager

    built = _build_with_builder(nq, nb, specs, funcs)
    if built is not None:
        return built
    ir = IR()
    for sp in specs:
        s = build_stmt(sp, funcs)
        if isinstance(s, Gate):
            ir.add_gate(s)
        elif isinstance(s, Measure):
            ir.add_measure(s)
        elif isinstance(s, Reset):
            ir.add_reset(s)
        elif isinstance(s, Comment):
            ir.add_comment(s)
    return Circuit(RegisterManager(QubitRegister(nq), BitRegister(nb)), ir)


def spec_qubits(spec: list) -> list[int]:
    """Operand list of a statement spec, computed from the spec alone (independent of the library)."""
    k = spec[0]
    if k == "named":
        sig = GATE_SIG.get(spec[1], "q" * len(spec[2]))
        return [int(a) for a, t in zip(spec[2], sig) if t == "q"]
    if k == "bsr":
        return [int(spec[1])]
    if k == "ctrl":
        return [int(spec[1]), *spec_qubits(spec[2])]
    if k == "mat":
        return [int(q) for q in spec[1]]
    if k in ("measure", "measure_z", "reset"):
        return [int(spec[1])]
    return []


def is_gate_spec(spec: list) -> bool:
    return spec[0] in ("named", "bsr", "ctrl", "mat")


# ------------------------------------------------------------------ random pieces

SPECIAL_ANGLES = [0.0, PI / 4, -PI / 4, PI / 2, -PI / 2, PI, -PI, 3 * PI / 4, -3 * PI / 4]
OFFSETS = [1e-9, 1e-8, 1e-7, 1e-6, 1e-5, 1e-4, 1e-3]


def rand_angle(rng, wide: bool = True) -> float:
    r = rng.random()
    if r < 0.3:
        return rng.choice(SPECIAL_ANGLES)
    if r < 0.45:
        return rng.choice(SPECIAL_ANGLES) + rng.choice([-1, 1]) * rng.choice(OFFSETS)
    if r < 0.55:
        return float(f"{rng.choice(SPECIAL_ANGLES):.8}")
    if r < 0.65 and wide:
        return rng.uniform(-4 * PI, 4 * PI)
    return rng.uniform(-PI, PI)


def rand_axis(rng) -> list[float]:
    r = rng.random()
    if r < 0.35:
        while True:
            v = [rng.choice([-1.0, 0.0, 1.0]) for _ in range(3)]
            if any(v):
                return v
    if r < 0.5:
        v = [rng.choice([-1.0, 0.0, 1.0]) for _ in range(3)]
        i = rng.randrange(3)
        v[i] = rng.choice([-1, 1]) * rng.choice(OFFSETS)
        if not any(abs(x) > 0.5 for x in v):
            v[(i + 1) % 3] = 1.0
        return v
    while True:
        v = [rng.gauss(0, 1) for _ in range(3)]
        if math.sqrt(sum(x * x for x in v)) > 1e-3:
            return v


def rand_unitary(rng, dim: int) -> list:
    g = np.random.default_rng(rng.randrange(1 << 30))
    a = g.normal(size=(dim, dim)) + 1j * g.normal(size=(dim, dim))
    q, r = np.linalg.qr(a)
    q = q * (np.diag(r) / np.abs(np.diag(r)))
    return [[[float(x.real), float(x.imag)] for x in row] for row in q]


def perm_matrix(perm: list[int]) -> list:
    n = len(perm)
    return [[[1.0 if perm[c] == r else 0.0, 0.0] for c in range(n)] for r in range(n)]


def rand_qubits(rng, nq: int, k: int) -> list[int]:
    return rng.sample(range(nq), k)


def rand_gate_spec(rng, nq: int, *, allow_multi: bool = True, allow_mat: bool = True, max_ctrl: int = 2,
                   wide_angles: bool = True) -> list:
    r = rng.random()
    if nq < 2 or not allow_multi or r < 0.45:
        q = rng.randrange(nq)
        rr = rng.random()
        if rr < 0.4:
            return ["named", rng.choice(ONEQ_NOPARAM), [q]]
        if rr < 0.65:
            return ["named", rng.choice(ONEQ_PARAM), [q, rand_angle(rng, wide_angles)]]
        return ["bsr", q, rand_axis(rng), rand_angle(rng, wide_angles), rand_angle(rng, wide_angles)]
    if r < 0.75:
        name = rng.choice(TWOQ)
        a, b = rand_qubits(rng, nq, 2)
        if name == "CR":
            return ["named", name, [a, b, rand_angle(rng, wide_angles)]]
        if name == "CRk":
            return ["named", name, [a, b, rng.randrange(-2, 8)]]
        return ["named", name, [a, b]]
    if r < 0.9 or not allow_mat:
        depth = rng.randint(1, min(max_ctrl, nq - 1))
        qs = rand_qubits(rng, nq, depth + 1)
        g: list = ["bsr", qs[-1], rand_axis(rng), rand_angle(rng, wide_angles), rand_angle(rng, wide_angles)]
        if rng.random() < 0.3:
            g = ["named", rng.choice(ONEQ_NOPARAM), [qs[-1]]]
        for c in reversed(qs[:-1]):
            g = ["ctrl", c, g]
        return g
    k = rng.randint(2, min(3, nq))
    ops = rand_qubits(rng, nq, k)
    if rng.random() < 0.5:
        p = list(range(1 << k))
        rng.shuffle(p)
        return ["mat", ops, perm_matrix(p)]
    return ["mat", ops, rand_unitary(rng, 1 << k)]


def rand_circuit_spec(rng, nq: int, nb: int, length: int, *, p_nongate: float = 0.25, **kw) -> list:
    specs = []
    for _ in range(length):
        r = rng.random()
        if r < p_nongate:
            rr = rng.random()
            if rr < 0.4 and nb > 0:
                specs.append([rng.choice(["measure", "measure"]), rng.randrange(nq), rng.randrange(nb)])
            elif rr < 0.7:
                specs.append(["reset", rng.randrange(nq)])
            else:
                specs.append(["comment", rng.choice(["c", "a comment", "x * y", "/ slash", ""])])
        else:
            specs.append(rand_gate_spec(rng, nq, **kw))
    return specs
