"""Independent oracles: textbook semantics written for this purpose in numpy.
Nothing here calls OpenSquirrel's matrix, equality or checking code; the
statement objects are read through their plain fields only."""
from __future__ import annotations

import itertools
import math

import numpy as np

PX = np.array([[0, 1], [1, 0]], dtype=complex)
PY = np.array([[0, -1j], [1j, 0]], dtype=complex)
PZ = np.array([[1, 0], [0, -1]], dtype=complex)
I2 = np.eye(2, dtype=complex)


def rot(axis, angle: float, phase: float = 0.0) -> np.ndarray:
    """e^{i phase} (cos(angle/2) I - i sin(angle/2) n.sigma) for the given (already unit) axis."""
    x, y, z = (float(axis[0]), float(axis[1]), float(axis[2]))
    return np.exp(1j * phase) * (math.cos(angle / 2) * I2 - 1j * math.sin(angle / 2) * (x * PX + y * PY + z * PZ))


def unit(axis) -> np.ndarray:
    a = np.asarray(axis, dtype=float)
    return a / math.sqrt(float(a @ a))


def embed(n: int, small: np.ndarray, ops: list[int]) -> np.ndarray:
    """Embed a 2^k x 2^k matrix acting on qubits `ops` (first operand most significant in the small
    matrix) into n qubits, qubit 0 least significant, identity elsewhere. Tensor reshape / einsum."""
    k = len(ops)
    t = small.reshape([2] * (2 * k))
    full = np.eye(1 << n, dtype=complex).reshape([2] * (2 * n))
    # axes of the n-qubit tensor: axis j (0-based from the left) is qubit n-1-j
    in_axes = [n - 1 - q for q in ops]
    # contract: out[..., o_ops, ...] = sum_i t[o_ops, i_ops] * full[..., i_ops, ..., cols]
    letters = "abcdefghijklmnopqrstuvwxyzABCDEFGHIJKLMNOPQRSTUVWXYZ"
    row = list(letters[:n])
    col = list(letters[n:2 * n])
    new = list(letters[2 * n:2 * n + k])
    t_sub = "".join(new) + "".join(row[a] for a in in_axes)
    out_row = row.copy()
    for j, a in enumerate(in_axes):
        out_row[a] = new[j]
    expr = f"{t_sub},{''.join(row)}{''.join(col)}->{''.join(out_row)}{''.join(col)}"
    return np.einsum(expr, t, full).reshape(1 << n, 1 << n)


def gate_small(g) -> tuple[np.ndarray, list[int]]:
    """(matrix on the gate's own operands, operand list) read from plain fields."""
    cls = type(g).__name__
    if cls == "BlochSphereRotation":
        return rot(g.axis.value, float(g.angle), float(g.phase)), [int(g.qubit.index)]
    if cls == "ControlledGate":
        m, ops = gate_small(g.target_gate)
        d = m.shape[0]
        out = np.eye(2 * d, dtype=complex)
        out[d:, d:] = m
        return out, [int(g.control_qubit.index), *ops]
    if cls == "MatrixGate":
        return np.asarray(g.matrix, dtype=complex), [int(q.index) for q in g.operands]
    raise TypeError(cls)


def spec_small(spec) -> tuple[np.ndarray, list[int]]:
    """Same, from a statement spec (for oracles that must not even construct library objects)."""
    k = spec[0]
    if k == "bsr":
        return rot(unit(spec[2]), norm_angle(spec[3]), spec[4]), [int(spec[1])]
    if k == "ctrl":
        m, ops = spec_small(spec[2])
        d = m.shape[0]
        out = np.eye(2 * d, dtype=complex)
        out[d:, d:] = m
        return out, [int(spec[1]), *ops]
    if k == "mat":
        return np.array([[complex(re, im) for re, im in row] for row in spec[2]]), [int(q) for q in spec[1]]
    if k == "named":
        return std_gate(spec[1], spec[2])
    raise TypeError(k)


def norm_angle(a: float) -> float:
    return a  # the operator only depends on the angle modulo 4 pi; sign handled by "up to phase"


S2 = 1 / math.sqrt(2)
STD1 = {
    "I": I2, "Identity": I2,
    "H": S2 * np.array([[1, 1], [1, -1]], dtype=complex), "Hadamard": S2 * np.array([[1, 1], [1, -1]], dtype=complex),
    "X": PX, "Y": PY, "Z": PZ,
    "X90": S2 * np.array([[1, -1j], [-1j, 1]]), "mX90": S2 * np.array([[1, 1j], [1j, 1]]),
    "Y90": S2 * np.array([[1, -1], [1, 1]], dtype=complex), "mY90": S2 * np.array([[1, 1], [-1, 1]], dtype=complex),
    "S": np.diag([1, 1j]), "Sdag": np.diag([1, -1j]),
    "T": np.diag([1, np.exp(1j * math.pi / 4)]), "Tdag": np.diag([1, np.exp(-1j * math.pi / 4)]),
}


def std_gate(name: str, args: list) -> tuple[np.ndarray, list[int]]:
    """cQASM 3 standard gate set: matrix on the gate's operands (first operand most significant)."""
    if name in STD1:
        return STD1[name], [int(args[0])]
    if name in ("Rx", "Ry", "Rz"):
        ax = {"Rx": (1, 0, 0), "Ry": (0, 1, 0), "Rz": (0, 0, 1)}[name]
        return rot(ax, float(args[1])), [int(args[0])]
    if name in ("CNOT", "CZ", "CR", "CRk"):
        if name == "CNOT":
            u = PX
        elif name == "CZ":
            u = PZ
        elif name == "CR":
            u = np.diag([1, np.exp(1j * float(args[2]))])
        else:
            u = np.diag([1, np.exp(2j * math.pi / (2.0 ** int(args[2])))])
        out = np.eye(4, dtype=complex)
        out[2:, 2:] = u
        return out, [int(args[0]), int(args[1])]
    raise KeyError(name)


def phase_dist(a: np.ndarray, b: np.ndarray) -> float:
    """min over global phases of max|a - e^{i phi} b| (phase fixed by the largest entry of b)."""
    i = int(np.argmax(np.abs(b)))
    if abs(b.flat[i]) < 1e-12:
        return float(np.abs(a).max())
    if abs(a.flat[i]) < 1e-12:
        return float(np.abs(a - b).max())
    ph = a.flat[i] / b.flat[i]
    ph /= abs(ph)
    return float(np.abs(a - ph * b).max())


def compress(stmts_list: list[list], extra: list[int] = ()) -> dict[int, int]:
    """Order-preserving map from the qubit indices used to 0..k-1."""
    used = set(extra)
    for stmts in stmts_list:
        for s in stmts:
            used.update(stmt_qubits(s))
    return {q: i for i, q in enumerate(sorted(used))}


def stmt_qubits(s) -> list[int]:
    cls = type(s).__name__
    if cls in ("BlochSphereRotation", "ControlledGate", "MatrixGate"):
        return gate_small(s)[1]
    if cls in ("Measure", "Reset"):
        return [int(s.qubit.index)]
    return []


def is_gate(s) -> bool:
    return type(s).__name__ in ("BlochSphereRotation", "ControlledGate", "MatrixGate")


def kraus_ops(stmts, qmap: dict[int, int], outcomes: list[int], perm=None) -> np.ndarray:
    """Operator of the statement list for one assignment of measurement/reset outcomes
    (one bit per measure/reset statement in program order)."""
    n = max(1, len(qmap))
    op = np.eye(1 << n, dtype=complex)
    k = 0
    for s in stmts:
        cls = type(s).__name__
        if is_gate(s):
            m, ops = gate_small(s)
            op = embed(n, m, [qmap[q] for q in ops]) @ op
        elif cls == "Measure":
            o = outcomes[k]; k += 1
            p = np.zeros((2, 2), dtype=complex); p[o, o] = 1
            op = embed(n, p, [qmap[int(s.qubit.index)]]) @ op
        elif cls == "Reset":
            o = outcomes[k]; k += 1
            p = np.zeros((2, 2), dtype=complex); p[0, o] = 1
            op = embed(n, p, [qmap[int(s.qubit.index)]]) @ op
    return op


def n_branch_points(stmts) -> int:
    return sum(1 for s in stmts if type(s).__name__ in ("Measure", "Reset"))


def kraus_equivalent(before, after, tol: float, qubit_perm: dict[int, int] | None = None,
                     max_qubits: int = 6, max_branch: int = 6) -> tuple[bool, str]:
    """Same operation for every combination of measurement/reset outcomes, each up to a global
    phase. `qubit_perm` maps a qubit of `before` to the qubit of `after` that plays its role."""
    nb = n_branch_points(before)
    if nb != n_branch_points(after):
        return False, f"number of measure/reset statements changed: {nb} -> {n_branch_points(after)}"
    used_b = sorted({q for s in before for q in stmt_qubits(s)})
    used_a = sorted({q for s in after for q in stmt_qubits(s)})
    perm = qubit_perm or {}
    image = sorted({perm.get(q, q) for q in used_b} | set(used_a))
    if len(image) > max_qubits:
        return True, "skipped: too many qubits"
    qmap_a = {q: i for i, q in enumerate(image)}
    inv = {v: k for k, v in perm.items()}
    # before is simulated on the same compressed register, its qubit q placed where perm(q) lives
    qmap_b = {}
    for q in sorted({inv.get(a, a) for a in image}):
        qmap_b[q] = qmap_a[perm.get(q, q)]
    for q in used_b:
        if q not in qmap_b:
            qmap_b[q] = qmap_a[perm.get(q, q)]
    branches = list(itertools.product([0, 1], repeat=nb)) if nb <= max_branch else \
        [tuple((i >> j) & 1 for j in range(nb)) for i in range(0, 1 << nb, max(1, (1 << nb) // 64))]
    for o in branches:
        a = kraus_ops(before, qmap_b, list(o))
        b = kraus_ops(after, qmap_a, list(o))
        d = phase_dist(a, b)
        if d > tol:
            return False, f"outcomes {o}: distance up to phase {d:.3g} > {tol:.3g}"
    return True, ""


def circuit_unitary(stmts, n: int) -> np.ndarray:
    op = np.eye(1 << n, dtype=complex)
    for s in stmts:
        if is_gate(s):
            m, ops = gate_small(s)
            op = embed(n, m, ops) @ op
    return op
