"""Check context: counters, samples, disagreements, oracle failures, known
findings, replay files and the evidence file."""
from __future__ import annotations

import hashlib
import json
import os
import random
import time
from typing import Any, Callable

from harness import env

UNSTABLE_MARGIN = 5e-8   # relative to max(1,|x|,|y|): a threshold test decided within half an ATOL


def jhash(obj: Any) -> str:
    return hashlib.sha1(json.dumps(obj, sort_keys=True, default=str).encode()).hexdigest()[:16]


class Ctx:
    def __init__(self, pid: str, tier: str, seed: int) -> None:
        self.pid = pid
        self.tier = tier
        self.seed = seed
        self.rng = random.Random(f"{pid}-{seed}")
        self.t0 = time.time()
        self.evaluations = 0
        self._distinct: set[str] = set()
        self._distinct_nontrivial: set[str] = set()
        self.samples: list[Any] = []
        self.dist: dict[str, int] = {}
        self.disagreements: list[dict] = []
        self.unstable: list[dict] = []
        self.oracle_failures: list[dict] = []
        self.known_hits: dict[str, dict] = {}
        self.notes: list[str] = []
        self.suites: dict[str, dict] = {}
        self.exhaustive = False
        self.rules: list[str] = []
        self.last_case: Any = None

    @property
    def quick(self) -> bool:
        return self.tier == "quick"

    def pick(self, quick: int, thorough: int) -> int:
        return quick if self.quick else thorough

    # ---- coverage accounting
    def seen(self, key: Any, nontrivial: bool = True, n: int = 1) -> None:
        self.evaluations += n
        self.last_case = key
        h = jhash(key)
        self._distinct.add(h)
        if nontrivial:
            self._distinct_nontrivial.add(h)

    def sample(self, obj: Any, limit: int = 6) -> None:
        if len(self.samples) < limit:
            self.samples.append(obj)

    def bump(self, key: str, n: int = 1) -> None:
        self.dist[key] = self.dist.get(key, 0) + n

    def suite(self, name: str, **kw: Any) -> None:
        d = self.suites.setdefault(name, {})
        for k, v in kw.items():
            if isinstance(v, (int, float)) and isinstance(d.get(k), (int, float)):
                d[k] += v
            else:
                d[k] = v

    def rule(self, text: str) -> None:
        if text not in self.rules:
            self.rules.append(text)

    # ---- outcomes
    def disagree(self, suite: str, case: Any, detail: str, margin: float = float("inf")) -> None:
        rec = {"suite": suite, "case": case, "detail": detail, "margin": margin}
        if margin < UNSTABLE_MARGIN:
            self.unstable.append(rec)
        else:
            self.disagreements.append(rec)

    def oracle_fail(self, suite: str, case: Any, detail: str, impl_eq_model: bool | None = None,
                    tags: dict | None = None) -> None:
        self.oracle_failures.append({"suite": suite, "case": case, "detail": detail,
                                     "impl_eq_model": impl_eq_model, "tags": tags or {}})

    def elapsed(self) -> float:
        return time.time() - self.t0


# ------------------------------------------------------------------ findings

def load_known() -> list[dict]:
    p = os.path.join(env.VERIF, "known_findings.json")
    if not os.path.exists(p):
        return []
    with open(p) as f:
        data = json.load(f)
    return data.get("findings", [])


def classify(ctx: Ctx, classifiers: dict[str, Callable[[dict], bool]]) -> list[dict]:
    """Split oracle failures into known findings (recorded, reproduced by the
    model, accepted by a listed classifier of this property) and violations."""
    known = [k for k in load_known() if k.get("property") == ctx.pid and k.get("status", "open") == "open"]
    violations = []
    for f in ctx.oracle_failures:
        hit = None
        if f.get("impl_eq_model") is not False:
            for k in known:
                fn = classifiers.get(k["classifier"])
                try:
                    if fn is not None and fn(f):
                        hit = k
                        break
                except Exception:
                    pass
        if hit is None:
            violations.append(f)
        else:
            e = ctx.known_hits.setdefault(hit["id"], {"finding": hit, "count": 0, "example": f})
            e["count"] += 1
    return violations


# ------------------------------------------------------------------ replay / evidence

def write_replay(pid: str, payload: dict) -> str:
    d = os.path.join(env.REPLAYS, pid)
    os.makedirs(d, exist_ok=True)
    path = os.path.join(d, jhash(payload) + ".json")
    with open(path, "w") as f:
        json.dump(payload, f, indent=1, default=str)
    return path


def write_evidence(ctx: Ctx, proof: dict, violations: int, assumptions: list[str], extra: dict | None = None) -> None:
    os.makedirs(env.EVIDENCE, exist_ok=True)
    cov = {
        "obligations": proof.get("obligations", 0),
        "discharged": proof.get("discharged", 0),
        "checker_cmd": proof.get("checker_cmd", ""),
        "trusted_base": proof.get("trusted_base", []),
        "theorems": proof.get("theorems", []),
        "coqchk": proof.get("coqchk"),
        "evaluations": ctx.evaluations,
        "distinct_nontrivial": len(ctx._distinct_nontrivial),
        "distinct": len(ctx._distinct),
        "rule": " | ".join(ctx.rules) if ctx.rules else "see suites",
        "samples": ctx.samples if ctx.samples else ["(no case generated)"],
        "exhaustive": ctx.exhaustive,
        "suites": ctx.suites,
        "input_distribution": ctx.dist,
        "correspondence_disagreements": len(ctx.disagreements),
        "float_unstable_cases": len(ctx.unstable),
        "oracle_failures": len(ctx.oracle_failures),
        "known_findings_hit": {k: v["count"] for k, v in ctx.known_hits.items()},
        "notes": ctx.notes,
        "repo": env.REPO,
    }
    if extra:
        cov.update(extra)
    ev = {
        "property_id": ctx.pid,
        "tier": ctx.tier,
        "seed": ctx.seed,
        "level": "proof",
        "coverage": cov,
        "assumptions": assumptions,
        "wall_s": round(ctx.elapsed(), 2),
        "violations": violations,
    }
    with open(os.path.join(env.EVIDENCE, f"{ctx.pid}.json"), "w") as f:
        json.dump(ev, f, indent=1, default=str)


def _replay_fails(mod, pid: str, tier: str, seed: int, payload: dict) -> bool:
    try:
        c2 = Ctx(pid, tier, seed)
        rep = mod.replay(c2, payload)
        if not rep.get("fails"):
            return False
        # a failure that is a listed finding does not count: shrinking must not drift into a known finding
        if c2.oracle_failures and not classify(c2, getattr(mod, "CLASSIFIERS", {})):
            return False
        return True
    except Exception:  # noqa: BLE001
        return False


def shrink(mod, pid: str, tier: str, seed: int, violations: list[dict], budget_s: float = 40.0, max_tries: int = 120) -> tuple[dict, dict]:
    """Pick the smallest failing case that replays on its own and remove statements from it while the single-case
    replay keeps failing (greedy one-at-a-time deletion, then halves). Returns (violation, info). A case that does
    not fail when replayed alone depends on the history of the run and is left as it is."""
    t0 = time.time()
    info: dict = {"tried": 0, "removed": 0}
    cands = [v for v in violations[:60] if isinstance(v.get("case"), dict) and isinstance(v["case"].get("specs"), list)]
    cands.sort(key=lambda v: len(v["case"]["specs"]))
    chosen = None
    for v in cands[:8]:
        info["tried"] += 1
        if _replay_fails(mod, pid, tier, seed, {"property": pid, "kind": "oracle", "case": v["case"]}):
            chosen = v
            break
        if time.time() - t0 > budget_s / 2:
            break
    if chosen is None:
        info["status"] = "no spec-based case fails when replayed alone (history-dependent or not spec-based): not shrunk"
        return violations[0], info
    case = json.loads(json.dumps(chosen["case"], default=str))
    specs = case["specs"]
    n0 = len(specs)
    changed = True
    while changed and len(specs) > 1 and info["tried"] < max_tries and time.time() - t0 < budget_s:
        changed = False
        for chunk in (max(1, len(specs) // 2), 1):
            i = 0
            while i < len(specs) and len(specs) > 1 and info["tried"] < max_tries and time.time() - t0 < budget_s:
                trial = specs[:i] + specs[i + chunk:]
                if not trial:
                    i += chunk
                    continue
                info["tried"] += 1
                c2 = dict(case, specs=trial)
                if _replay_fails(mod, pid, tier, seed, {"property": pid, "kind": "oracle", "case": c2}):
                    specs = trial
                    case = c2
                    changed = True
                else:
                    i += chunk
    info["removed"] = n0 - len(specs)
    info["status"] = f"statements {n0} -> {len(specs)}"
    out = dict(chosen, case=case)
    if n0 != len(specs):
        out["case_original"] = chosen["case"]
    return out, info
