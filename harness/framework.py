"""Check context: counters, samples, disagreements, oracle failures, known
findings, replay files and the evidence file."""
from __future__ import annotations

import hashlib
import json
import os
import random
import time
from typing import Any, Callable

from harness import env

UNSTABLE_MARGIN = 5e-8   # relative to max(1,|x|,|y|): a threshold test decided within half an ATOL


def jhash(obj: Any) -> str:
    return hashlib.sha1(json.dumps(obj, sort_keys=True, default=str).encode()).hexdigest()[:16]


class Ctx:
    def __init__(self, pid: str, tier: str, seed: int) -> None:
        self.pid = pid
        self.tier = tier
        self.seed = seed
        self.rng = random.Random(f"{pid}-{seed}")
        self.t0 = time.time()
        self.evaluations = 0
        self._distinct: set[str] = set()
        self._distinct_nontrivial: set[str] = set()
        self.samples: list[Any] = []
        self.dist: dict[str, int] = {}
        self.disagreements: list[dict] = []
        self.unstable: list[dict] = []
        self.oracle_failures: list[dict] = []
        self.known_hits: dict[str, dict] = {}
        self.notes: list[str] = []
        self.suites: dict[str, dict] = {}
        self.exhaustive = False
        self.rules: list[str] = []
        self.last_case: Any = None

    @property
    def quick(self) -> bool:
        return self.tier == "quick"

    def pick(self, quick: int, thorough: int) -> int:
        return quick if self.quick else thorough

    # ---- coverage accounting
    def seen(self, key: Any, nontrivial: bool = True, n: int = 1) -> None:
        self.evaluations += n
        self.last_case = key
        h = jhash(key)
        self._distinct.add(h)
        if nontrivial:
            self._distinct_nontrivial.add(h)

    def sample(self, obj: Any, limit: int = 6) -> None:
        if len(self.samples) < limit:
            self.samples.append(obj)

    def bump(self, key: str, n: int = 1) -> None:
        self.dist[key] = self.dist.get(key, 0) + n

    def suite(self, name: str, **kw: Any) -> None:
        d = self.suites.setdefault(name, {})
        for k, v in kw.items():
            if isinstance(v, (int, float)) and isinstance(d.get(k), (int, float)):
                d[k] += v
            else:
                d[k] = v

    def rule(self, text: str) -> None:
        if text not in self.rules:
            self.rules.append(text)

    # ---- outcomes
    def disagree(self, suite: str, case: Any, detail: str, margin: float = float("inf")) -> None:
        rec = {"suite": suite, "case": case, "detail": detail, "margin": margin}
        if margin < UNSTABLE_MARGIN:
            self.unstable.append(rec)
        else:
            self.disagreements.append(rec)

    def oracle_fail(self, suite: str, case: Any, detail: str, impl_eq_model: bool | None = None,
                    tags: dict | None = None) -> None:
        self.oracle_failures.append({"suite": suite, "case": case, "detail": detail,
                                     "impl_eq_model": impl_eq_model, "tags": tags or {}})

    def elapsed(self) -> float:
        return time.time() - self.t0


# ------------------------------------------------------------------ findings

def load_known() -> list[dict]:
    p = os.path.join(env.VERIF, "known_findings.json")
    if not os.path.exists(p):
        return []
    with open(p) as f:
        data = json.load(f)
    return data.get("findings", [])


def classify(ctx: Ctx, classifiers: dict[str, Callable[[dict], bool]]) -> list[dict]:
    """Split oracle failures into known findings (recorded, reproduced by the
    model, accepted by a listed classifier of this property) and violations."""
    known = [k for k in load_known() if k.get("property") == ctx.pid and k.get("status", "open") == "open"]
    violations = []
    for f in ctx.oracle_failures:
        hit = None
        if f.get("impl_eq_model") is not False:
            for k in known:
                fn = classifiers.get(k["classifier"])
                try:
                    if fn is not None and fn(f):
                        hit = k
                        break
                except Exception:
                    pass
        if hit is None:
            violations.append(f)
        else:
            e = ctx.known_hits.setdefault(hit["id"], {"finding": hit, "count": 0, "example": f})
            e["count"] += 1
    return violations


# ------------------------------------------------------------------ replay / evidence

def write_replay(pid: str, payload: dict) -> str:
    d = os.path.join(env.REPLAYS, pid)
    os.makedirs(d, exist_ok=True)
    path = os.path.join(d, jhash(payload) + ".json")
    with open(path, "w") as f:
        json.dump(payload, f, indent=1, default=str)
    return path


def write_evidence(ctx: Ctx, proof: dict, violations: int, assumptions: list[str], extra: dict | None = None) -> None:
    os.makedirs(env.EVIDENCE, exist_ok=True)
    cov = {
        "obligations": proof.get("obligations", 0),
        "discharged": proof.get("discharged", 0),
        "checker_cmd": proof.get("checker_cmd", ""),
        "trusted_base": proof.get("trusted_base", []),
        "theorems": proof.get("theorems", []),
        "coqchk": proof.get("coqchk"),
        "evaluations": ctx.evaluations,
        "distinct_nontrivial": len(ctx._distinct_nontrivial),
        "distinct": len(ctx._distinct),
        "rule": " | ".join(ctx.rules) if ctx.rules else "see suites",
        "samples": ctx.samples if ctx.samples else ["(no case generated)"],
        "exhaustive": ctx.exhaustive,
        "suites": ctx.suites,
        "input_distribution": ctx.dist,
        "correspondence_disagreements": len(ctx.disagreements),
        "float_unstable_cases": len(ctx.unstable),
        "oracle_failures": len(ctx.oracle_failures),
        "known_findings_hit": {k: v["count"] for k, v in ctx.known_hits.items()},
        "notes": ctx.notes,
        "repo": env.REPO,
    }
    if extra:
        cov.update(extra)
    ev = {
        "property_id": ctx.pid,
        "tier": ctx.tier,
        "seed": ctx.seed,
        "level": "proof",
        "coverage": cov,
        "assumptions": assumptions,
        "wall_s": round(ctx.elapsed(), 2),
        "violations": violations,
    }
    with open(os.path.join(env.EVIDENCE, f"{ctx.pid}.json"), "w") as f:
        json.dump(ev, f, indent=1, default=str)


def replay_target(payload: dict) -> tuple[str | None, Any]:
    """(suite, case) a replay payload is about: the violation, or the first disagreement of a `not-shown` payload.
    The case is None when the payload records no input (a build / proof problem): nothing can be re-run then."""
    first = payload.get("first_disagreement") or {}
    case = payload.get("case") or first.get("case")
    return payload.get("suite") or first.get("suite"), case


NOT_REPRODUCED = ("the recorded case does not fail on this tree when run on its own; if the tree is the one of the run, the "
                  "failure depends on what ran before the case in that process: reproduce_cmd of the replay file repeats it")


def replay_result(ctx: Ctx, **extra: Any) -> dict:
    """What every `replay` returns: the outcome of re-running the case on the current tree, nothing remembered."""
    fails = bool(ctx.oracle_failures or ctx.disagreements)
    return {**extra, "disagreements": ctx.disagreements, "unstable": ctx.unstable, "oracle_failures": ctx.oracle_failures,
            "fails": fails, **({} if fails else {"note": NOT_REPRODUCED})}


def replay_nothing(payload: dict, why: str = "the payload records no input case (build / proof problem)") -> dict:
    return {"fails": False, "not_rerun": True, "note": f"{why}: reproduce with {payload.get('reproduce_cmd', 'the check itself')}"}


def rerun_history(ctx: Ctx, payload: dict, case: Any, prefix: Callable[[Ctx], Any]) -> dict:
    """For suites whose cases share state through the library (caches filled by earlier cases, long-lived objects), so
    that a recorded case may pass on its own although it failed in the run: `prefix(c)` runs the check up to and
    including the suite of the case on a scratch context with the recorded seed and tier, which re-creates the history of
    the run exactly; what is recorded there for this very case (the original one, if it was shrunk) is copied to ctx.
    To be called BEFORE the case is run on its own (that run would itself leave state behind). Returns what to add to
    the replay result."""
    if payload.get("shrinking"):
        return {}           # the shrinker replays inside the process of the run: the history is there already
    if "seed" not in payload or "tier" not in payload:
        return {"history_dependent": True,
                "history": "not re-created: the payload does not say which run (seed, tier) the case is from"}
    scratch = Ctx(ctx.pid, payload["tier"], int(payload["seed"]))
    prefix(scratch)
    key = jhash(payload.get("case_original") or case)
    ctx.oracle_failures += [f for f in scratch.oracle_failures if jhash(f["case"]) == key]
    ctx.disagreements += [d for d in scratch.disagreements if jhash(d["case"]) == key]
    ctx.unstable += [d for d in scratch.unstable if jhash(d["case"]) == key]
    return {"history": f"the suites up to the one of the case were run again (seed {payload['seed']}, tier {payload['tier']}): "
                       f"{len(scratch.oracle_failures)} failures in all, {len(ctx.oracle_failures)} for this case"
                       + ("" if ctx.oracle_failures or ctx.disagreements else "; then the case on its own")}


def tree_fingerprint() -> str | None:
    """identifies the working tree under examination (commit + uncommitted changes), None if it cannot be told"""
    import subprocess

    try:
        out = [subprocess.run(["git", "-C", env.REPO, *args], stdout=subprocess.PIPE, stderr=subprocess.DEVNULL, timeout=60,
                              check=True).stdout for args in (["rev-parse", "HEAD"], ["status", "--porcelain"], ["diff", "HEAD"])]
    except Exception:  # noqa: BLE001
        return None
    return out[0].decode().strip()[:12] + "+" + hashlib.sha1(out[1] + out[2]).hexdigest()[:12]


def judge_replay(ctx: Ctx, classifiers: dict, payload: dict, rep: dict) -> dict:
    """What `check.py --replay` makes of the outcome of mod.replay, by the rules of a run: failures that are listed
    findings are not violations; float-unstable disagreements are tolerated one by one (the run reports their rate);
    a case that passes on the very tree of the run depends on the history of that run."""
    if ctx.oracle_failures:
        violations = classify(ctx, classifiers)
        if ctx.known_hits:
            rep["known_findings"] = {k: v["count"] for k, v in ctx.known_hits.items()}
        if rep.get("fails") and not violations and not ctx.disagreements:
            rep.update(fails=False, note="only listed findings (known_findings.json) occur, as in a run that exits 0")
    first = payload.get("first_disagreement") or {}
    if not rep.get("fails") and payload.get("kind") == "not-shown" and ctx.unstable and \
            float(first.get("margin", "inf")) < UNSTABLE_MARGIN:
        # a run tolerates such cases while they are rare: what it reported is their rate, which one case cannot show
        rep.update(rate_dependent=True, note="the recorded float-unstable disagreement occurs again; one such case is tolerated, the "
                   f"run reported that they exceeded 0.2% of its evaluations; reproduce with: {payload.get('reproduce_cmd')}")
    elif not rep.get("fails") and not rep.get("known_findings") and not rep.get("not_rerun") and \
            payload.get("tree") and payload["tree"] == tree_fingerprint():
        rep.update(history_dependent=True,
                   note="the tree is the one of the run and the case does not fail when replayed: the failure depends on what "
                        f"ran before it in that process; reproduce with: {payload.get('reproduce_cmd')}")
    return rep


def _replay_fails(mod, pid: str, tier: str, seed: int, payload: dict) -> bool:
    try:
        c2 = Ctx(pid, tier, seed)
        rep = mod.replay(c2, payload)
        if not rep.get("fails"):
            return False
        # a failure that is a listed finding does not count: shrinking must not drift into a known finding
        if c2.oracle_failures and not classify(c2, getattr(mod, "CLASSIFIERS", {})):
            return False
        return True
    except Exception:  # noqa: BLE001
        return False


def shrink(mod, pid: str, tier: str, seed: int, violations: list[dict], budget_s: float = 40.0, max_tries: int = 120) -> tuple[dict, dict]:
    """Pick the smallest failing case that replays on its own and remove statements from it while the single-case
    replay keeps failing (greedy one-at-a-time deletion, then halves). Returns (violation, info). A case that does
    not fail when replayed alone depends on the history of the run and is left as it is."""
    t0 = time.time()
    info: dict = {"tried": 0, "removed": 0}
    cands = [v for v in violations[:60] if isinstance(v.get("case"), dict) and isinstance(v["case"].get("specs"), list)]
    cands.sort(key=lambda v: len(v["case"]["specs"]))
    chosen = None
    for v in cands[:8]:
        info["tried"] += 1
        if _replay_fails(mod, pid, tier, seed, {"property": pid, "kind": "oracle", "suite": v["suite"], "case": v["case"],
                                                "seed": seed, "tier": tier, "shrinking": True}):
            chosen = v
            break
        if time.time() - t0 > budget_s / 2:
            break
    if chosen is None:
        info["status"] = "no spec-based case fails when replayed alone (history-dependent or not spec-based): not shrunk"
        return violations[0], info
    case = json.loads(json.dumps(chosen["case"], default=str))
    specs = case["specs"]
    n0 = len(specs)
    changed = True
    while changed and len(specs) > 1 and info["tried"] < max_tries and time.time() - t0 < budget_s:
        changed = False
        for chunk in (max(1, len(specs) // 2), 1):
            i = 0
            while i < len(specs) and len(specs) > 1 and info["tried"] < max_tries and time.time() - t0 < budget_s:
                trial = specs[:i] + specs[i + chunk:]
                if not trial:
                    i += chunk
                    continue
                info["tried"] += 1
                c2 = dict(case, specs=trial)
                if _replay_fails(mod, pid, tier, seed, {"property": pid, "kind": "oracle", "suite": chosen["suite"], "case": c2,
                                                        "seed": seed, "tier": tier, "shrinking": True}):
                    specs = trial
                    case = c2
                    changed = True
                else:
                    i += chunk
    info["removed"] = n0 - len(specs)
    info["status"] = f"statements {n0} -> {len(specs)}"
    out = dict(chosen, case=case)
    if n0 != len(specs):
        out["case_original"] = chosen["case"]
        # the replays above ran inside the process of the run, with whatever state the earlier cases left behind; the
        # shrunk case is kept only if it also fails in a process of its own, where the replay file will be used
        info["fresh_process"] = _fails_in_fresh_process(pid, tier, seed, out)
        if not info["fresh_process"]:
            info["removed"] = 0
            info["status"] += ", but the shrunk case does not fail in a process of its own: the original case is kept"
            return chosen, info
    return out, info


def _fails_in_fresh_process(pid: str, tier: str, seed: int, v: dict) -> bool:
    """`check.py <pid> --replay` of the violation in a new process, on the same tree"""
    import subprocess
    import sys
    import tempfile

    payload = {"property": pid, "kind": "oracle", "suite": v["suite"], "case": v["case"], "seed": seed, "tier": tier,
               "case_original": v.get("case_original")}
    with tempfile.NamedTemporaryFile("w", suffix=".json", delete=False) as f:
        json.dump(payload, f, default=str)
    try:
        p = subprocess.run([sys.executable, os.path.join(env.VERIF, "check.py"), pid, "--tier", tier, "--replay", f.name, "--no-build"],
                           env=dict(os.environ, VERIF_REPO=env.REPO, VERIF_SEED=str(seed)), stdout=subprocess.PIPE,
                           stderr=subprocess.DEVNULL, timeout=600)
        return p.returncode == 1 and b'"fails": true' in p.stdout
    except Exception:  # noqa: BLE001
        return False
    finally:
        os.unlink(f.name)
