#!/bin/sh
# Re-extract the model (coqc on Extract.v) and build the OCaml driver.
set -e
cd "$(dirname "$0")"
mkdir -p extracted _build
( cd extracted && timeout 600 coqc -R ../../coq OSQ ../../coq/Extract/Extract.v >/dev/null 2>extract.err ) || { cat extracted/extract.err; exit 1; }
cp extracted/model.ml extracted/model.mli sexp.ml numfloat.ml driver.ml _build/
cd _build
timeout 600 ocamlfind ocamlopt -O2 -w -a -package str model.mli model.ml sexp.ml numfloat.ml driver.ml -o driver 2>build.err || \
timeout 600 ocamlfind ocamlopt -w -a -package str model.mli model.ml sexp.ml numfloat.ml driver.ml -o driver 2>build.err || { cat build.err; exit 1; }
