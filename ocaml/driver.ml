(* driver.ml — reads one request per line "(id op payload...)", runs the
   extracted model with the float dictionary, prints "(id margin result)". *)
open Model
open Numfloat
module S = Sexp

exception Bad of string
let bad s = raise (Bad s)

(* ---------- decoding ---------- *)
let int_of_sexp = function S.Atom a -> (try int_of_string a with _ -> bad ("int " ^ a)) | _ -> bad "int"
let z_of_sexp s = z_of_int (int_of_sexp s)
let n_of_sexp s = let i = int_of_sexp s in if i < 0 then bad "negative N" else n_of_int i
let pos_of_sexp s = let i = int_of_sexp s in if i < 1 then bad "positive" else pos_of_int i
let float_of_sexp = function
  | S.Atom a -> (try float_of_string a with _ -> bad ("float " ^ a))
  | _ -> bad "float"
let list_of_sexp f = function S.List l -> List.map f l | _ -> bad "list"
let chars_of_string s = List.init (String.length s) (String.get s)
let string_of_chars l = String.init (List.length l) (List.nth l)
let string_of_chars l =
  let b = Buffer.create 64 in List.iter (Buffer.add_char b) l; ignore string_of_chars; Buffer.contents b
let str_of_sexp = function S.Str s -> chars_of_string s | S.Atom a -> chars_of_string a | _ -> bad "string"
let bool_of_sexp = function S.Atom "true" -> true | S.Atom "false" -> false | _ -> bad "bool"
let opt_of_sexp f = function S.Atom "none" -> None | S.List [S.Atom "some"; x] -> Some (f x) | _ -> bad "option"

let axis_of_sexp = function
  | S.List [x; y; z] -> ((float_of_sexp x, float_of_sexp y), float_of_sexp z)
  | _ -> bad "axis"
let cplx_of_sexp = function
  | S.List [re; im] -> (float_of_sexp re, float_of_sexp im)
  | _ -> bad "complex"
let rec gate_of_sexp = function
  | S.List [S.Atom "bsr"; q; ax; a; p] -> BSR (z_of_sexp q, axis_of_sexp ax, float_of_sexp a, float_of_sexp p)
  | S.List [S.Atom "ctrl"; c; g] -> Ctrl (z_of_sexp c, gate_of_sexp g)
  | S.List [S.Atom "mat"; m; ops] ->
      Mat (list_of_sexp (list_of_sexp cplx_of_sexp) m, list_of_sexp z_of_sexp ops)
  | _ -> bad "gate"
let arg_of_sexp = function
  | S.List [S.Atom "q"; i] -> AQ (z_of_sexp i)
  | S.List [S.Atom "b"; i] -> AB (z_of_sexp i)
  | S.List [S.Atom "f"; x] -> AF (float_of_sexp x)
  | S.List [S.Atom "i"; k] -> AI (z_of_sexp k)
  | _ -> bad "arg"
let ginfo_of_sexp = function
  | S.List [S.Atom "gi"; name; args] ->
      { gname = opt_of_sexp str_of_sexp name; gargs = opt_of_sexp (list_of_sexp arg_of_sexp) args }
  | _ -> bad "ginfo"
let stmt_of_sexp = function
  | S.List [S.Atom "gate"; oid; g; gi] -> SGate (pos_of_sexp oid, gate_of_sexp g, ginfo_of_sexp gi)
  | S.List [S.Atom "measure"; oid; q; b; ax; gi] ->
      SMeasure (pos_of_sexp oid, z_of_sexp q, z_of_sexp b, axis_of_sexp ax, ginfo_of_sexp gi)
  | S.List [S.Atom "reset"; oid; q; gi] -> SReset (pos_of_sexp oid, z_of_sexp q, ginfo_of_sexp gi)
  | S.List [S.Atom "comment"; t] -> SComment (str_of_sexp t)
  | _ -> bad "stmt"
let stmts_of_sexp = list_of_sexp stmt_of_sexp
let circuit_of_sexp = function
  | S.List [S.Atom "circuit"; nq; nb; ss] -> { nq = z_of_sexp nq; nb = z_of_sexp nb; stmts = stmts_of_sexp ss }
  | _ -> bad "circuit"

(* ---------- encoding ---------- *)
let atom s = S.Atom s
let sx_int i = atom (string_of_int i)
let sx_z z = sx_int (int_of_z z)
let sx_n n = sx_int (int_of_n n)
let sx_pos p = sx_int (int_of_pos p)
let sx_float x =
  if Float.is_nan x then atom "nan"
  else if x = infinity then atom "inf"
  else if x = neg_infinity then atom "-inf"
  else atom (Printf.sprintf "%h" x)
let sx_list f l = S.List (List.map f l)
let sx_str cs = S.Str (string_of_chars cs)
let sx_bool b = atom (if b then "true" else "false")
let sx_opt f = function None -> atom "none" | Some x -> S.List [atom "some"; f x]
let sx_pair f g (a, b) = S.List [f a; g b]
let sx_axis ((x, y), z) = S.List [sx_float x; sx_float y; sx_float z]
let sx_cplx (re, im) = S.List [sx_float re; sx_float im]
let rec sx_gate = function
  | BSR (q, ax, a, p) -> S.List [atom "bsr"; sx_z q; sx_axis ax; sx_float a; sx_float p]
  | Ctrl (c, g) -> S.List [atom "ctrl"; sx_z c; sx_gate g]
  | Mat (m, ops) -> S.List [atom "mat"; sx_list (sx_list sx_cplx) m; sx_list sx_z ops]
let sx_mat m = sx_list (sx_list sx_cplx) m
let sx_arg = function
  | AQ i -> S.List [atom "q"; sx_z i]
  | AB i -> S.List [atom "b"; sx_z i]
  | AF x -> S.List [atom "f"; sx_float x]
  | AI k -> S.List [atom "i"; sx_z k]
let sx_ginfo gi = S.List [atom "gi"; sx_opt sx_str gi.gname; sx_opt (sx_list sx_arg) gi.gargs]
let sx_stmt = function
  | SGate (o, g, gi) -> S.List [atom "gate"; sx_pos o; sx_gate g; sx_ginfo gi]
  | SMeasure (o, q, b, ax, gi) -> S.List [atom "measure"; sx_pos o; sx_z q; sx_z b; sx_axis ax; sx_ginfo gi]
  | SReset (o, q, gi) -> S.List [atom "reset"; sx_pos o; sx_z q; sx_ginfo gi]
  | SComment t -> S.List [atom "comment"; sx_str t]
let sx_stmts = sx_list sx_stmt
let sx_err e = atom (match e with
  | EValue -> "value" | EIndex -> "index" | EKey -> "key" | EType -> "type"
  | EExport -> "export" | EParse -> "parse" | EOther -> "other")
let sx_result f = function
  | Ok a -> S.List [atom "ok"; f a]
  | Err e -> S.List [atom "err"; sx_err e]

let sx_gg (g, gi) = S.List [sx_gate g; sx_ginfo gi]
let sx_ditem = function
  | DSame -> atom "same"
  | DNew (k, g, gi) -> S.List [atom "new"; sx_int (int_of_nat k); sx_gate g; sx_ginfo gi]
let axis_id_of_sexp = function
  | S.Atom "x" -> AxX | S.Atom "y" -> AxY | S.Atom "z" -> AxZ | _ -> bad "axis id"
let decomposer_of_sexp = function
  | S.Atom "mckay" -> DecMcKay
  | S.Atom "cnot" -> DecCNOT
  | S.Atom s when String.length s = 3 ->
      let ax c = (match c with 'x' -> AxX | 'y' -> AxY | 'z' -> AxZ | _ -> bad "decomposer") in
      DecABA (ax s.[0], ax s.[1])
  | _ -> bad "decomposer"
let rule_of_sexp = function
  | S.Atom "cnot_to_hczh" -> RuleCnotToHCzH
  | S.Atom "cz_to_hcnoth" -> RuleCzToHCnotH
  | S.Atom "shared" -> RuleShared
  | S.Atom "wrong" -> RuleWrong
  | S.Atom "identity_empty" -> RuleIdentityEmpty
  | _ -> bad "rule"

(* 8-significant-digit correctly rounded decimalisation of a double (C printf) *)
let dec8 (x : float) : dec =
  if Float.is_nan x then DNan
  else if x = infinity then DInf false
  else if x = neg_infinity then DInf true
  else begin
    let s = Printf.sprintf "%.7e" (Float.abs x) in       (* d.ddddddde[+-]XX *)
    let neg = Float.sign_bit x in
    let epos = String.index s 'e' in
    let mant = String.sub s 0 epos in
    let ex = int_of_string (String.sub s (epos + 1) (String.length s - epos - 1)) in
    let digits = List.filter_map (fun c -> if c >= '0' && c <= '9' then Some (nat_of_int (Char.code c - 48)) else None)
        (List.init (String.length mant) (String.get mant)) in
    DFin (neg, digits, z_of_int ex)
  end
let anon_text (_ : float gate) = chars_of_string "Anonymous gate: <repr>"

let sx_rarg = function
  | RQ q -> S.List [atom "q"; sx_z q]
  | RB b -> S.List [atom "b"; sx_z b]
  | RNumLit l -> S.List [atom "lit"; sx_str l]
  | RInt k -> S.List [atom "int"; sx_z k]
let sx_rline = function
  | RGate (n, ps, qs) -> S.List [atom "gate"; sx_str n; sx_list sx_rarg ps; sx_list sx_z qs]
  | RAssign (b, n, q) -> S.List [atom "assign"; sx_z b; sx_str n; sx_z q]
  | RComment t -> S.List [atom "comment"; sx_str t]
  | RRaw t -> S.List [atom "raw"; sx_str t]
let sx_qsop = function
  | QRxy (th, ph, q) -> S.List [atom "rxy"; sx_float th; sx_float ph; sx_z q]
  | QRz (th, q) -> S.List [atom "rz"; sx_float th; sx_z q]
  | QCNOT (c, t) -> S.List [atom "cnot"; sx_z c; sx_z t]
  | QCZ (c, t) -> S.List [atom "cz"; sx_z c; sx_z t]
  | QMeasure (q, ch, idx) -> S.List [atom "measure"; sx_z q; sx_z ch; sx_z idx]
  | QReset q -> S.List [atom "reset"; sx_z q]
let vkind_of_sexp = function S.Atom "q" -> VQubit | S.Atom "b" -> VBit | _ -> VOther
let avar_of_sexp = function
  | S.List [n; k; sz] -> { v_name = str_of_sexp n; v_kind = vkind_of_sexp k; v_size = z_of_sexp sz }
  | _ -> bad "avar"
let operand_of_sexp = function
  | S.List [S.Atom "var"; n] -> OVar (str_of_sexp n)
  | S.List [S.Atom "index"; n; idx] -> OIndex (str_of_sexp n, list_of_sexp z_of_sexp idx)
  | S.List [S.Atom "int"; k] -> OInt (z_of_sexp k)
  | S.List [S.Atom "float"; x] -> OFloat (float_of_sexp x)
  | _ -> bad "operand"
let astmt_of_sexp = function
  | S.List [n; ops] -> { a_name = str_of_sexp n; a_ops = list_of_sexp operand_of_sexp ops }
  | _ -> bad "astmt"
let pyval_of_sexp = function
  | S.List [S.Atom "int"; z] -> VInt (z_of_sexp z)
  | S.List [S.Atom "bool"; b] -> VBool (bool_of_sexp b)
  | S.List [S.Atom "str"; s] -> VStr (str_of_sexp s)
  | S.Atom "none" -> VNone
  | S.List [S.Atom "qubit"; z] -> VQubitObj (z_of_sexp z)
  | S.List [S.Atom "bit"; z] -> VBitObj (z_of_sexp z)
  | S.List [S.Atom "floatobj"; x] -> VFloatObj (float_of_sexp x)
  | S.List [S.Atom "intobj"; z] -> VIntObj (z_of_sexp z)
  | _ -> bad "pyval"
let bcall_of_sexp = function
  | S.List [S.Atom "instr"; n; args] -> BInstr (str_of_sexp n, list_of_sexp pyval_of_sexp args)
  | S.List [S.Atom "comment"; t] -> BComment (str_of_sexp t)
  | _ -> bad "bcall"

(* ---------- operations ---------- *)
let d = dict

let run (op : string) (args : S.t list) : S.t =
  match op, args with
  | "graph", [ss] ->
      sx_result (fun es -> S.List [sx_list sx_z (graph_nodes es); sx_list (sx_pair sx_z sx_z) es])
        (graph_edges (stmts_of_sexp ss))
  | "reduced_ket", [ket; qs] -> sx_n (reduced_ket (n_of_sexp ket) (list_of_sexp n_of_sexp qs))
  | "expand_ket", [base; red; qs] ->
      sx_n (expand_ket (n_of_sexp base) (n_of_sexp red) (list_of_sexp n_of_sexp qs))
  | "normalize_angle", [x] -> sx_float (normalize_angle d (float_of_sexp x))
  | "mk_bsr", [q; ax; a; p] -> sx_gate (mk_bsr d (z_of_sexp q) (axis_of_sexp ax) (float_of_sexp a) (float_of_sexp p))
  | "mk_bsr_checked", [q; ax; a; p] ->
      sx_result sx_gate (mk_bsr_checked d (z_of_sexp q) (axis_of_sexp ax) (float_of_sexp a) (float_of_sexp p))
  | "mk_ctrl", [c; g] -> sx_result sx_gate (mk_ctrl (z_of_sexp c) (gate_of_sexp g))
  | "mk_mat", [m; ops] ->
      sx_result sx_gate (mk_mat (list_of_sexp (list_of_sexp cplx_of_sexp) m) (list_of_sexp z_of_sexp ops))
  | "is_identity", [g] -> sx_bool (is_identity d (gate_of_sexp g))
  | "get_matrix", [n; g] -> sx_result sx_mat (get_matrix d (z_of_sexp n) (gate_of_sexp g))
  | "circuit_matrix", [n; ss] -> sx_result sx_mat (circuit_matrix d (z_of_sexp n) (stmts_of_sexp ss))
  | "kraus", [n; outs; ss] ->
      sx_result sx_mat (kraus_gen d (z_of_sexp n) (list_of_sexp bool_of_sexp outs) (stmts_of_sexp ss))
  | "check_replacement", [g; repl] ->
      sx_result (fun () -> atom "accepted") (check_replacement d (gate_of_sexp g) (list_of_sexp gate_of_sexp repl))
  | "compare_gates", [g1; g2] -> sx_result sx_bool (compare_gates d (gate_of_sexp g1) (gate_of_sexp g2))
  | "compare_gates_ord", [o; g1; g2] ->
      sx_result sx_bool (compare_gates_ord d (list_of_sexp z_of_sexp o) (gate_of_sexp g1) (gate_of_sexp g2))
  | "gate_eq", [g1; g2] -> sx_result sx_bool (gate_eq d (gate_of_sexp g1) (gate_of_sexp g2))
  | "default_gate", [name; args] ->
      sx_result sx_gg (default_gate d (str_of_sexp name) (list_of_sexp arg_of_sexp args))
  | "aba_angles", [ia; ib; alpha; ax] ->
      sx_result (fun ((t1, t2), t3) -> S.List [sx_float t1; sx_float t2; sx_float t3])
        (aba_angles d (axis_id_of_sexp ia) (axis_id_of_sexp ib) (float_of_sexp alpha) (axis_of_sexp ax))
  | "decompose_gate", [dec; g; gi] ->
      sx_result (sx_list sx_ditem) (run_decomposer d (decomposer_of_sexp dec) (gate_of_sexp g) (ginfo_of_sexp gi))
  | "compose", [a; ga; b; gb] ->
      sx_result sx_gg (compose_gates d (gate_of_sexp a, ginfo_of_sexp ga) (gate_of_sexp b, ginfo_of_sexp gb))
  | "try_name", [a; ga] -> sx_gg (try_name d (gate_of_sexp a, ginfo_of_sexp ga))
  | "decompose", [dec; ss] ->
      let (e, out) = decompose d (decomposer_of_sexp dec) (stmts_of_sexp ss) in
      S.List [sx_opt sx_err e; sx_stmts out]
  | "replace", [target; rule; ss] ->
      let (e, out) = replace d (str_of_sexp target) (rule_of_sexp rule) (stmts_of_sexp ss) in
      S.List [sx_opt sx_err e; sx_stmts out]
  | "merge", [n; ss] -> sx_result sx_stmts (merge d (z_of_sexp n) (stmts_of_sexp ss))
  | "mapping_ok", [l] -> sx_bool (mapping_ok (list_of_sexp z_of_sexp l))
  | "mapper_ok", [n; l] -> sx_bool (mapper_ok (z_of_sexp n) (list_of_sexp z_of_sexp l))
  | "remap", [nq; l; ss] -> sx_result sx_stmts (remap (z_of_sexp nq) (list_of_sexp z_of_sexp l) (stmts_of_sexp ss))
  | "render_py8", [x] -> sx_str (render_py8 (dec8 (float_of_sexp x)))
  | "v3_float", [x] -> sx_str (fix_literal (render_py8 (dec8 (float_of_sexp x))))
  | "write3", [nq; nb; ss] -> sx_result sx_str (write3 dec8 anon_text (z_of_sexp nq) (z_of_sexp nb) (stmts_of_sexp ss))
  | "export_v1", [nq; ss] -> sx_result sx_str (export_v1 dec8 (z_of_sexp nq) (stmts_of_sexp ss))
  | "read3", [t] ->
      sx_opt (fun p -> S.List [sx_str p.r_version; sx_z p.r_nq; sx_z p.r_nb; sx_list sx_rline p.r_lines]) (read3 (str_of_sexp t))
  | "read1", [t] ->
      sx_opt (fun (nq, ls) -> S.List [sx_z nq; sx_list sx_rline ls]) (read1 (str_of_sexp t))
  | "export_qs", [nq; nb; ss] ->
      sx_result (fun (ops, bm) -> S.List [sx_list sx_qsop ops; sx_list (sx_opt (sx_pair sx_z sx_z)) bm])
        (export_qs d (z_of_sexp nq) (z_of_sexp nb) (stmts_of_sexp ss))
  | "parse_program", [vars; sts] ->
      sx_result (fun ((nq, nb), ir) -> S.List [sx_z nq; sx_z nb; sx_stmts ir])
        (parse_program d (list_of_sexp avar_of_sexp vars) (list_of_sexp astmt_of_sexp sts))
  | "builder_run", [nq; nb; calls] ->
      let ((ir, _), log) = builder_run d (z_of_sexp nq) (z_of_sexp nb) ([], XH) (list_of_sexp bcall_of_sexp calls) in
      S.List [sx_stmts ir; sx_list (sx_opt sx_err) log]
  | _ -> bad ("unknown op " ^ op)

let () =
  ignore d;
  try
    while true do
      let line = input_line stdin in
      if String.length line > 0 then begin
        let out =
          try
            match S.parse line with
            | S.List (id :: S.Atom op :: args) ->
                reset_margin ();
                let r = (try run op args with
                         | Bad m -> S.List [atom "bad"; S.Str m]
                         | Stack_overflow -> S.List [atom "bad"; S.Str "stack overflow"]
                         | Not_found -> S.List [atom "bad"; S.Str "not found"]
                         | Invalid_argument m -> S.List [atom "bad"; S.Str ("invalid " ^ m)]
                         | Failure m -> S.List [atom "bad"; S.Str ("failure " ^ m)]) in
                S.List [id; sx_float !margin; r]
            | _ -> S.List [atom "?"; sx_float 0.0; S.List [atom "bad"; S.Str "request shape"]]
          with S.Parse_error m -> S.List [atom "?"; sx_float 0.0; S.List [atom "bad"; S.Str ("parse " ^ m)]] in
        print_string (S.to_string out); print_newline ()
      end
    done
  with End_of_file -> ()
