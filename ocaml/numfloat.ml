(* numfloat.ml — the IEEE-double / glibc-libm instance of the model's [Num]
   record.  Hand-written OCaml, trusted; no Extract Constant is involved: the
   extracted model is polymorphic in the record and this is an ordinary value.
   Comparisons additionally record the smallest relative distance between two
   compared numbers (the "decision margin") so that the harness can classify
   a structural disagreement as float-unstable. *)
open Model

let rec int_of_pos = function
  | XH -> 1
  | XO p -> 2 * int_of_pos p
  | XI p -> 2 * int_of_pos p + 1
let int_of_z = function Z0 -> 0 | Zpos p -> int_of_pos p | Zneg p -> - (int_of_pos p)
let int_of_n = function N0 -> 0 | Npos p -> int_of_pos p
let rec int_of_nat = function O -> 0 | S n -> 1 + int_of_nat n
let rec nat_of_int n = if n <= 0 then O else S (nat_of_int (n - 1))
let rec pos_of_int n =
  if n <= 1 then XH else if n land 1 = 0 then XO (pos_of_int (n lsr 1)) else XI (pos_of_int (n lsr 1))
let z_of_int n = if n = 0 then Z0 else if n > 0 then Zpos (pos_of_int n) else Zneg (pos_of_int (- n))
let n_of_int n = if n = 0 then N0 else Npos (pos_of_int n)

(* float of a Z: exact below 2^53 and for powers of two, which is all the model needs *)
let rec float_of_pos = function
  | XH -> 1.0
  | XO p -> 2.0 *. float_of_pos p
  | XI p -> 2.0 *. float_of_pos p +. 1.0
let float_of_z = function Z0 -> 0.0 | Zpos p -> float_of_pos p | Zneg p -> -. float_of_pos p

let margin = ref infinity
let reset_margin () = margin := infinity
let note x y =
  if Float.is_finite x && Float.is_finite y then begin
    let m = Float.abs (x -. y) /. Float.max 1.0 (Float.max (Float.abs x) (Float.abs y)) in
    if m < !margin then margin := m
  end

(* CPython float_divmod *)
let py_divmod vx wx =
  let md = Float.rem vx wx in
  let div = (vx -. md) /. wx in
  let md, div =
    if md <> 0.0 then
      (if (wx < 0.0) <> (md < 0.0) then (md +. wx, div -. 1.0) else (md, div))
    else (Float.copy_sign 0.0 wx, div) in
  let floordiv =
    if div <> 0.0 then
      let f = Float.floor div in
      if div -. f > 0.5 then f +. 1.0 else f
    else Float.copy_sign 0.0 (vx /. wx) in
  (floordiv, md)

let pow10 d = 10.0 ** float_of_int d

(* rint: round half to even *)
let rint x =
  let r = Float.round x in            (* half away from zero *)
  if Float.abs (x -. Float.trunc x) = 0.5 then
    (* tie: choose even *)
    let f = Float.floor x in
    if Float.rem f 2.0 = 0.0 then f else f +. 1.0
  else r

(* numpy.round(x, d) for d >= 0: rint(x * 10^d) / 10^d *)
let np_round d x =
  let d = int_of_z d in
  if not (Float.is_finite x) then x
  else
    let p = pow10 d in
    let y = x *. p in
    if not (Float.is_finite y) then x else rint y /. p

(* Python round(x, d): correctly rounded decimal, half-even on the exact value *)
let py_round d x =
  let d = int_of_z d in
  if not (Float.is_finite x) then x
  else float_of_string (Printf.sprintf "%.*f" d x)

let pi = 4.0 *. atan 1.0

let dict : float num = {
  nofZ = float_of_z;
  nadd = ( +. );
  nsub = ( -. );
  nmul = ( *. );
  ndiv = ( /. );
  nneg = (fun x -> -. x);
  nabs = Float.abs;
  nsqrt = Float.sqrt;
  nsin = sin;
  ncos = cos;
  ntan = tan;
  nacos = acos;
  natan2 = Float.atan2;
  npi = pi;
  nfloordiv = (fun x y -> fst (py_divmod x y));
  nmod = (fun x y -> snd (py_divmod x y));
  nltb = (fun x y -> note x y; x < y);
  nleb = (fun x y -> note x y; x <= y);
  neqb = (fun x y -> note x y; x = y);
  ncopysign = Float.copy_sign;
  nround = np_round;
  nroundpy = py_round;
  nisfinite = Float.is_finite;
  ndegrees = (fun x -> x *. (180.0 /. pi));
}
