(* C01 — placeholder statements; extended as the proof files land. *)
From Coq Require Import ZArith List.
From OSQ Require Import Num IR.
Theorem C01_placeholder : True. Proof. exact I. Qed.
