(* C18 — The interaction graph contains exactly the circuit's two-qubit
   interactions.  Statements only; proofs are in Proofs/GraphP.v. *)
From Coq Require Import ZArith List.
Import ListNotations.
From OSQ Require Import Num IR Graph GraphP.

(* An edge {a,b} exists exactly when some gate (of any kind) has operand list
   [a;b] or [b;a]; nothing else contributes. Any element type, any circuit. *)
Theorem C18_edge_iff : forall (T : Type) (ir : list (stmt T)) (es : list (Z * Z)),
  graph_edges ir = Ok es ->
  forall a b, (In (a, b) es \/ In (b, a) es) <-> exists s, In s ir /\ two_qubit_gate_on s a b.
Proof. exact @graph_edge_iff. Qed.
Print Assumptions C18_edge_iff.

Theorem C18_ignores_others : forall (T : Type) (ir : list (stmt T)),
  graph_edges (filter contributes ir) = graph_edges ir.
Proof. exact @graph_ignores_others. Qed.
Print Assumptions C18_ignores_others.

Theorem C18_accepts_iff : forall (T : Type) (ir : list (stmt T)),
  (exists es, graph_edges ir = Ok es) <-> Forall gate_arity_ok ir.
Proof. exact @graph_edges_ok_iff. Qed.
Print Assumptions C18_accepts_iff.

Theorem C18_refuses_wide : forall (T : Type) (ir : list (stmt T)),
  Forall (fun s => match s with SGate _ g _ => gate_qubits g <> [] | _ => True end) ir ->
  (exists o g gi, In (SGate o g gi) ir /\ (length (gate_qubits g) > 2)%nat) ->
  graph_edges ir = Err EValue.
Proof. exact @graph_refuses_wide. Qed.
Print Assumptions C18_refuses_wide.

Theorem C18_nodes : forall (es : list (Z * Z)) (n : Z),
  In n (graph_nodes es) <-> exists e, In e es /\ (n = fst e \/ n = snd e).
Proof. exact graph_nodes_spec. Qed.
Print Assumptions C18_nodes.

(* non-vacuity: a concrete circuit with a CNOT-like gate, a doubly controlled gate is refused *)
Example C18_example :
  graph_edges (T:=nat) [SGate 1 (Ctrl 2 (BSR 0 (1,0,0) 0 0)) anon; SComment String.EmptyString; SGate 2 (BSR 1 (1,0,0) 0 0) anon]
    = Ok [(2, 0)%Z]
  /\ graph_edges (T:=nat) [SGate 1 (Ctrl 2 (Ctrl 1 (BSR 0 (1,0,0) 0 0))) anon] = Err EValue.
Proof. split; reflexivity. Qed.
