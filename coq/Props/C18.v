(* C18 — The interaction graph contains exactly the circuit's two-qubit
   interactions.  Statements only; proofs are in Proofs/GraphP.v. *)
From Coq Require Import ZArith List Permutation.
Import ListNotations.
From OSQ Require Import Num IR Graph Remap Merge GraphP GraphMoreP.

(* An edge {a,b} exists exactly when some gate (of any kind) has operand list
   [a;b] or [b;a]; nothing else contributes. Any element type, any circuit. *)
Theorem C18_edge_iff : forall (T : Type) (ir : list (stmt T)) (es : list (Z * Z)),
  graph_edges ir = Ok es ->
  forall a b, (In (a, b) es \/ In (b, a) es) <-> exists s, In s ir /\ two_qubit_gate_on s a b.
Proof. exact @graph_edge_iff. Qed.
Print Assumptions C18_edge_iff.

Theorem C18_ignores_others : forall (T : Type) (ir : list (stmt T)),
  graph_edges (filter contributes ir) = graph_edges ir.
Proof. exact @graph_ignores_others. Qed.
Print Assumptions C18_ignores_others.

Theorem C18_accepts_iff : forall (T : Type) (ir : list (stmt T)),
  (exists es, graph_edges ir = Ok es) <-> Forall gate_arity_ok ir.
Proof. exact @graph_edges_ok_iff. Qed.
Print Assumptions C18_accepts_iff.

Theorem C18_refuses_wide : forall (T : Type) (ir : list (stmt T)),
  Forall (fun s => match s with SGate _ g _ => gate_qubits g <> [] | _ => True end) ir ->
  (exists o g gi, In (SGate o g gi) ir /\ (length (gate_qubits g) > 2)%nat) ->
  graph_edges ir = Err EValue.
Proof. exact @graph_refuses_wide. Qed.
Print Assumptions C18_refuses_wide.

Theorem C18_nodes : forall (es : list (Z * Z)) (n : Z),
  In n (graph_nodes es) <-> exists e, In e es /\ (n = fst e \/ n = snd e).
Proof. exact graph_nodes_spec. Qed.
Print Assumptions C18_nodes.

(* non-vacuity: a concrete circuit with a CNOT-like gate, a doubly controlled gate is refused *)
Example C18_example :
  graph_edges (T:=nat) [SGate 1 (Ctrl 2 (BSR 0 (1,0,0) 0 0)) anon; SComment String.EmptyString; SGate 2 (BSR 1 (1,0,0) 0 0) anon]
    = Ok [(2, 0)%Z]
  /\ graph_edges (T:=nat) [SGate 1 (Ctrl 2 (Ctrl 1 (BSR 0 (1,0,0) 0 0))) anon] = Err EValue.
Proof. split; reflexivity. Qed.

(* ---- the graph as a function of the circuit (Proofs/GraphMoreP.v) ---- *)

(* EXACT: the edge list is the list of operand pairs of the two-operand gates, in circuit order, with multiplicity *)
Theorem C18_edges_exact : forall (T : Type) (ir : list (stmt T)) (es : list (Z * Z)),
  graph_edges ir = Ok es -> es = flat_map stmt_edge ir.
Proof. exact @graph_edges_exact. Qed.
Print Assumptions C18_edges_exact.

Theorem C18_edges_app : forall (T : Type) (l1 l2 : list (stmt T)) (es1 es2 : list (Z * Z)),
  graph_edges l1 = Ok es1 -> graph_edges l2 = Ok es2 -> graph_edges (l1 ++ l2) = Ok (es1 ++ es2).
Proof. exact @graph_edges_app. Qed.
Print Assumptions C18_edges_app.

(* relabelling the circuit's qubits (as Circuit.map does) relabels the graph, edge by edge *)
Theorem C18_edges_remap : forall (T : Type) (f : Z -> Z) (ir : list (stmt T)) (es : list (Z * Z)),
  graph_edges ir = Ok es ->
  graph_edges (map (remap_stmt f) ir) = Ok (map (fun e => (f (fst e), f (snd e))) es).
Proof. exact @graph_edges_remap. Qed.
Print Assumptions C18_edges_remap.

(* the edge multiset does not depend on the order of the statements *)
Theorem C18_edges_perm : forall (T : Type) (ir ir' : list (stmt T)) (es es' : list (Z * Z)),
  Permutation ir ir' -> graph_edges ir = Ok es -> graph_edges ir' = Ok es' -> Permutation es es'.
Proof. exact @graph_edges_perm. Qed.
Print Assumptions C18_edges_perm.

(* merging single-qubit gates leaves the interaction graph untouched (any numeric instance) *)
Theorem C18_edges_merge_invariant : forall (T : Type) (N : Num T) (n : Z) (ir ir' : list (stmt T)) (es es' : list (Z * Z)),
  merge N n ir = Ok ir' -> graph_edges ir = Ok es -> graph_edges ir' = Ok es' -> es' = es.
Proof. exact @graph_edges_merge_invariant. Qed.
Print Assumptions C18_edges_merge_invariant.

Theorem C18_edges_example :
  graph_edges ex_ir = Ok [(2, 0); (0, 1)]%Z
  /\ graph_edges (map (remap_stmt (fun q => q + 10)%Z) ex_ir) = Ok [(12, 10); (10, 11)]%Z
  /\ flat_map stmt_edge ex_ir = [(2, 0); (0, 1)]%Z.
Proof. exact graph_edges_example. Qed.
Print Assumptions C18_edges_example.
