(* Bits.v — model of get_reduced_ket / expand_ket (utils/matrix_expander.py),
   same bit operations in the same loop order. Kets and qubit indices are
   non-negative here; the Python refuses a negative index with the ValueError
   of a negative shift, which callers of this model map to [Err]. *)
From Coq Require Import NArith List Bool.
Import ListNotations.
Open Scope N_scope.

Definition bit_at (ket q : N) : N := N.shiftr (N.land ket (N.shiftl 1 q)) q.

Fixpoint reduce_aux (ket : N) (qs : list N) (i acc : N) : N :=
  match qs with
  | [] => acc
  | q :: qs' => reduce_aux ket qs' (i + 1) (N.lor acc (N.shiftl (bit_at ket q) i))
  end.
Definition reduced_ket (ket : N) (qs : list N) : N := reduce_aux ket qs 0 0.

Fixpoint expand_aux (acc reduced : N) (qs : list N) (i : N) : N :=
  match qs with
  | [] => acc
  | q :: qs' =>
      let acc1 := N.ldiff acc (N.shiftl 1 q) in
      let acc2 := N.lor acc1 (N.shiftl (bit_at reduced i) q) in
      expand_aux acc2 reduced qs' (i + 1)
  end.
Definition expand_ket (base reduced : N) (qs : list N) : N := expand_aux base reduced qs 0.
