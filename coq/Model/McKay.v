(* McKay.v — decomposer/mckay_decomposer.py. *)
From Coq Require Import ZArith List Bool String.
Import ListNotations.
From OSQ Require Import Num IR Construct DefaultTable ABA.
Open Scope string_scope.

Section McKay.
  Context {T : Type} (N : Num T).
  Notation "x + y" := (nadd N x y).
  Notation "x - y" := (nsub N x y).
  Notation "x * y" := (nmul N x y).
  Notation "x / y" := (ndiv N x y).
  Notation "- x" := (nneg N x).
  Notation "x <? y" := (nltb N x y).
  Notation two := (nofZ N 2).

  Definition name_is (gi : ginfo T) (s : string) : bool :=
    match gname gi with Some n => String.eqb n s | None => false end.

  Definition x90 (q : Z) : gate T * ginfo T :=
    match default_gate N "X90" [AQ q] with Ok r => r | Err _ => (bsr_identity N q, anon) end.
  Definition rz (q : Z) (t : T) : gate T * ginfo T := rot_gate N AxZ q t.

  Definition mckay_gates (q : Z) (ax : axis3 T) (angle : T) : result (list (gate T * ginfo T)) :=
    if nabs N angle <? atol N then Ok []
    else if neqb N (ax_x ax) (nofZ N 0) && neqb N (ax_y ax) (nofZ N 0) then Ok [rz q (angle * ax_z ax)]
    else
      match aba_gates N AxZ AxX (BSR q ax angle (nofZ N 0)) with
      | Err e => Err e
      | Ok zxz =>
          let zxz_angle :=
            match zxz with
            | _ :: (BSR _ _ a1 _, gi1) :: _ => if name_is gi1 "Rx" then a1 else nofZ N 0
            | _ => nofZ N 0
            end in
          if nabs N (zxz_angle - pi N / two) <? atol N then
            match zxz with
            | g0 :: _ :: rest => Ok (g0 :: x90 q :: rest)
            | _ => Ok zxz
            end
          else
            let sh := nsin N (angle / two) in
            let ch := ncos N (angle / two) in
            let za_mod := nsqrt N (ch * ch + (ax_z ax * sh) * (ax_z ax * sh)) in
            let zb_mod := nabs N sh * nsqrt N (ax_x ax * ax_x ax + ax_y ax * ax_y ax) in
            let theta := pi N - two * natan2 N zb_mod za_mod in
            let alpha := natan2 N ((- sh) * ax_z ax) ch in
            let beta := natan2 N ((- sh) * ax_x ax) ((- sh) * ax_y ax) in
            let lam := normalize_angle N (beta - alpha) in
            let phi := normalize_angle N ((- beta) - alpha - pi N) in
            let theta := normalize_angle N theta in
            if (nabs N theta <? atol N) && neqb N lam phi then Ok [x90 q; x90 q]
            else
              Ok ((if atol N <? nabs N lam then [rz q lam] else []) ++ [x90 q] ++
                  (if atol N <? nabs N theta then [rz q theta] else []) ++ [x90 q] ++
                  (if atol N <? nabs N phi then [rz q phi] else []))%list
      end.

  Definition mckay_decompose (g : gate T) (gi : ginfo T) : result (list (ditem T)) :=
    match g with
    | BSR q ax angle _ =>
        if name_is gi "Rz" || name_is gi "X90" then Ok [DSame]
        else match mckay_gates q ax angle with Err e => Err e | Ok l => Ok (news l) end
    | _ => Ok [DSame]
    end.
End McKay.
