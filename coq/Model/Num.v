(* Num.v — the numeric interface the whole executable model is polymorphic in.

   The same Gallina text is used twice:
   - instantiated at Coq's real numbers [R] (Theory/RNum.v) for the theorems;
   - extracted to OCaml and linked with a hand-written dictionary of IEEE
     doubles and glibc libm (ocaml/numfloat.ml) for the correspondence check.
   No proofs in this file. *)
From Coq Require Import ZArith List Bool.
Import ListNotations.

Record Num (T : Type) := mkNum {
  nofZ      : Z -> T;
  nadd      : T -> T -> T;
  nsub      : T -> T -> T;
  nmul      : T -> T -> T;
  ndiv      : T -> T -> T;
  nneg      : T -> T;
  nabs      : T -> T;
  nsqrt     : T -> T;
  nsin      : T -> T;
  ncos      : T -> T;
  ntan      : T -> T;
  nacos     : T -> T;
  natan2    : T -> T -> T;           (* atan2 y x *)
  npi       : T;
  nfloordiv : T -> T -> T;           (* Python's x // y on floats *)
  nmod      : T -> T -> T;           (* Python's x % y on floats *)
  nltb      : T -> T -> bool;
  nleb      : T -> T -> bool;
  neqb      : T -> T -> bool;
  ncopysign : T -> T -> T;           (* magnitude of 1st, sign of 2nd *)
  nround    : Z -> T -> T;           (* numpy round to d decimals: rint(x*10^d)/10^d *)
  nroundpy  : Z -> T -> T;           (* Python round(x, d): correctly rounded decimal *)
  nisfinite : T -> bool;
  ndegrees  : T -> T                 (* math.degrees *)
}.

Arguments nofZ {T} _ _.
Arguments nadd {T} _ _ _.
Arguments nsub {T} _ _ _.
Arguments nmul {T} _ _ _.
Arguments ndiv {T} _ _ _.
Arguments nneg {T} _ _.
Arguments nabs {T} _ _.
Arguments nsqrt {T} _ _.
Arguments nsin {T} _ _.
Arguments ncos {T} _ _.
Arguments ntan {T} _ _.
Arguments nacos {T} _ _.
Arguments natan2 {T} _ _ _.
Arguments npi {T} _.
Arguments nfloordiv {T} _ _ _.
Arguments nmod {T} _ _ _.
Arguments nltb {T} _ _ _.
Arguments nleb {T} _ _ _.
Arguments neqb {T} _ _ _.
Arguments ncopysign {T} _ _ _.
Arguments nround {T} _ _ _.
Arguments nroundpy {T} _ _ _.
Arguments nisfinite {T} _ _.
Arguments ndegrees {T} _ _.

Section Derived.
  Context {T : Type} (N : Num T).

  Definition n0 : T := nofZ N 0.
  Definition n1 : T := nofZ N 1.
  Definition n2 : T := nofZ N 2.
  Definition nhalf (x : T) : T := ndiv N x n2.
  Definition ngtb (x y : T) : bool := nltb N y x.
  Definition ngeb (x y : T) : bool := nleb N y x.
  Definition nmax (x y : T) : T := if nltb N x y then y else x.   (* Python max(x,y): y if y > x else x *)
  Definition nmin (x y : T) : T := if nltb N y x then y else x.   (* Python min(x,y): y if y < x else x *)
  Definition nsq (x : T) : T := nmul N x x.

  (* Complex numbers as pairs. *)
  Definition C : Type := (T * T)%type.
  Definition c0 : C := (n0, n0).
  Definition c1 : C := (n1, n0).
  Definition cadd (a b : C) : C := (nadd N (fst a) (fst b), nadd N (snd a) (snd b)).
  Definition csub (a b : C) : C := (nsub N (fst a) (fst b), nsub N (snd a) (snd b)).
  Definition cmul (a b : C) : C :=
    (nsub N (nmul N (fst a) (fst b)) (nmul N (snd a) (snd b)),
     nadd N (nmul N (fst a) (snd b)) (nmul N (snd a) (fst b))).
  Definition cscale (k : T) (a : C) : C := (nmul N k (fst a), nmul N k (snd a)).
  Definition cabs (a : C) : T := nsqrt N (nadd N (nsq (fst a)) (nsq (snd a))).
  Definition cdiv (a b : C) : C :=
    let d := nadd N (nsq (fst b)) (nsq (snd b)) in
    (ndiv N (nadd N (nmul N (fst a) (fst b)) (nmul N (snd a) (snd b))) d,
     ndiv N (nsub N (nmul N (snd a) (fst b)) (nmul N (fst a) (snd b))) d).
  Definition cis (phi : T) : C := (ncos N phi, nsin N phi).
End Derived.
