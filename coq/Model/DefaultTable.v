(* DefaultTable.v — the default instruction set (default_gates.py,
   default_measures.py, default_resets.py) as data, and its evaluation.
   [hand_table] is the table every theorem is proved about; Gen/DefaultGates.v
   is regenerated from the Python source on every run and Gen/TableCheck.v
   proves [gen_table = hand_table] by reflexivity. *)
From Coq Require Import ZArith List Bool String.
Import ListNotations.
From OSQ Require Import Num IR Construct.
Open Scope string_scope.

Inductive pkind := KQ | KF | KI | KB.      (* QubitLike, Float, SupportsInt, Bit *)

(* angle / phase expressions occurring in default_gates.py *)
Inductive aexpr :=
| EInt (z : Z)            (* integer literal *)
| EPi                     (* math.pi *)
| ETheta                  (* <Float parameter>.value *)
| EPow2K                  (* 2 ** Int(k).value *)
| ELocal                  (* the local variable assigned before the return *)
| ENeg (e : aexpr)
| EMul (a b : aexpr)
| EDiv (a b : aexpr)
| ENorm (e : aexpr).      (* normalize_angle(e) *)

Record bsrdef := mkBsrDef { d_axis : Z * Z * Z; d_angle : aexpr; d_phase : aexpr }.

Inductive gdef :=
| DIdentity                                       (* BlochSphereRotation.identity(q) *)
| DBsr (d : bsrdef)                               (* BlochSphereRotation(qubit=q, axis=.., angle=.., phase=..) *)
| DCtrlCall (callee : string)                     (* ControlledGate(control, callee(target)) *)
| DCtrlBsr (local : option aexpr) (d : bsrdef).   (* [local = e]; ControlledGate(control, BlochSphereRotation(qubit=target, ..)) *)

Record gentry := mkGentry { e_name : string; e_params : list (string * pkind); e_def : gdef }.

Definition bsr0 (ax : Z * Z * Z) (angle phase : aexpr) : gdef := DBsr (mkBsrDef ax angle phase).
Definition q1 : list (string * pkind) := [("q", KQ)].
Definition q1f : list (string * pkind) := [("q", KQ); ("theta", KF)].
Definition pi_over (n : Z) : aexpr := EDiv EPi (EInt n).
Definition mpi_over (n : Z) : aexpr := EDiv (ENeg EPi) (EInt n).

Definition hand_table : list gentry := [
  mkGentry "I" q1 DIdentity;
  mkGentry "H" q1 (bsr0 (1, 0, 1)%Z EPi (pi_over 2));
  mkGentry "X" q1 (bsr0 (1, 0, 0)%Z EPi (pi_over 2));
  mkGentry "X90" q1 (bsr0 (1, 0, 0)%Z (pi_over 2) (EInt 0));
  mkGentry "mX90" q1 (bsr0 (1, 0, 0)%Z (mpi_over 2) (EInt 0));
  mkGentry "Y" q1 (bsr0 (0, 1, 0)%Z EPi (pi_over 2));
  mkGentry "Y90" q1 (bsr0 (0, 1, 0)%Z (pi_over 2) (EInt 0));
  mkGentry "mY90" q1 (bsr0 (0, 1, 0)%Z (mpi_over 2) (EInt 0));
  mkGentry "Z" q1 (bsr0 (0, 0, 1)%Z EPi (pi_over 2));
  mkGentry "S" q1 (bsr0 (0, 0, 1)%Z (pi_over 2) (EInt 0));
  mkGentry "Sdag" q1 (bsr0 (0, 0, 1)%Z (mpi_over 2) (EInt 0));
  mkGentry "T" q1 (bsr0 (0, 0, 1)%Z (pi_over 4) (EInt 0));
  mkGentry "Tdag" q1 (bsr0 (0, 0, 1)%Z (mpi_over 4) (EInt 0));
  mkGentry "Rx" q1f (bsr0 (1, 0, 0)%Z ETheta (EInt 0));
  mkGentry "Ry" q1f (bsr0 (0, 1, 0)%Z ETheta (EInt 0));
  mkGentry "Rz" q1f (bsr0 (0, 0, 1)%Z ETheta (EInt 0));
  mkGentry "CNOT" [("control", KQ); ("target", KQ)] (DCtrlCall "X");
  mkGentry "CZ" [("control", KQ); ("target", KQ)] (DCtrlCall "Z");
  mkGentry "CR" [("control", KQ); ("target", KQ); ("theta", KF)]
    (DCtrlBsr (Some (ENorm ETheta)) (mkBsrDef (0, 0, 1)%Z ELocal (EDiv ELocal (EInt 2))));
  mkGentry "CRk" [("control", KQ); ("target", KQ); ("k", KI)]
    (DCtrlBsr (Some (ENorm (EDiv (EMul (EInt 2) EPi) EPow2K))) (mkBsrDef (0, 0, 1)%Z ELocal (EDiv ELocal (EInt 2))))
].

Definition hand_noparam : list string :=
  ["I"; "H"; "X"; "X90"; "mX90"; "Y"; "Y90"; "mY90"; "Z"; "S"; "Sdag"; "T"; "Tdag"].
Definition hand_gate_set : list string :=
  hand_noparam ++ ["Rx"; "Ry"; "Rz"; "CNOT"; "CZ"; "CR"; "CRk"].
Definition hand_aliases : list (string * string) := [("Hadamard", "H"); ("Identity", "I")].

(* measures / resets: name, parameters, axis *)
Definition hand_measures : list (string * list (string * pkind) * (Z * Z * Z)) :=
  [("measure", [("q", KQ); ("b", KB)], (0, 0, 1)%Z); ("measure_z", [("q", KQ); ("b", KB)], (0, 0, 1)%Z)].
Definition hand_measure_set : list string := ["measure_z"; "measure"].
Definition hand_resets : list (string * list (string * pkind)) := [("reset", [("q", KQ)])].
Definition hand_reset_set : list string := ["reset"].

Fixpoint find_entry (name : string) (tbl : list gentry) : option gentry :=
  match tbl with
  | [] => None
  | e :: tbl' => if String.eqb (e_name e) name then Some e else find_entry name tbl'
  end.

Fixpoint assoc_str {A} (name : string) (l : list (string * A)) : option A :=
  match l with
  | [] => None
  | (k, v) :: l' => if String.eqb k name then Some v else assoc_str name l'
  end.

Section Eval.
  Context {T : Type} (N : Num T).

  (* 2 ** k as Python computes it: an int for k >= 0, a float 1/2^|k| otherwise *)
  Definition pow2k (k : Z) : T :=
    if Z.leb 0 k then nofZ N (Z.pow 2 k) else ndiv N (nofZ N 1) (nofZ N (Z.pow 2 (- k))).

  Fixpoint eval_aexpr (theta : T) (k : Z) (loc : T) (e : aexpr) : T :=
    match e with
    | EInt z => nofZ N z
    | EPi => npi N
    | ETheta => theta
    | EPow2K => pow2k k
    | ELocal => loc
    | ENeg a => nneg N (eval_aexpr theta k loc a)
    | EMul a b => nmul N (eval_aexpr theta k loc a) (eval_aexpr theta k loc b)
    | EDiv a b => ndiv N (eval_aexpr theta k loc a) (eval_aexpr theta k loc b)
    | ENorm a => normalize_angle N (eval_aexpr theta k loc a)
    end.

  Definition zaxis (a : Z * Z * Z) : axis3 T := (nofZ N (fst (fst a)), nofZ N (snd (fst a)), nofZ N (snd a)).

  Definition eval_bsrdef (q : Z) (theta : T) (k : Z) (loc : T) (d : bsrdef) : gate T :=
    mk_bsr N q (zaxis (d_axis d)) (eval_aexpr theta k loc (d_angle d)) (eval_aexpr theta k loc (d_phase d)).

  (* arguments must match the parameter kinds *)
  Fixpoint args_match (ps : list (string * pkind)) (args : list (arg T)) : bool :=
    match ps, args with
    | [], [] => true
    | (_, KQ) :: ps', AQ _ :: args' => args_match ps' args'
    | (_, KF) :: ps', AF _ :: args' => args_match ps' args'
    | (_, KI) :: ps', AI _ :: args' => args_match ps' args'
    | (_, KB) :: ps', AB _ :: args' => args_match ps' args'
    | _, _ => false
    end.

  Definition first_float (args : list (arg T)) : T :=
    match find (fun a => match a with AF _ => true | _ => false end) args with Some (AF x) => x | _ => nofZ N 0 end.
  Definition first_int (args : list (arg T)) : Z :=
    match find (fun a => match a with AI _ => true | _ => false end) args with Some (AI k) => k | _ => 0%Z end.
  Definition arg_qubits (args : list (arg T)) : list Z :=
    flat_map (fun a => match a with AQ q => [q] | _ => [] end) args.

  (* evaluation of one table entry on matching arguments; fuel 2 suffices for
     the one level of calls (CNOT -> X) in the table *)
  Fixpoint eval_entry (fuel : nat) (tbl : list gentry) (e : gentry) (args : list (arg T)) : result (gate T) :=
    if negb (args_match (e_params e) args) then Err EType else
    let theta := first_float args in
    let k := first_int args in
    match e_def e, arg_qubits args with
    | DIdentity, q :: _ => Ok (bsr_identity N q)
    | DBsr d, q :: _ => Ok (eval_bsrdef q theta k (nofZ N 0) d)
    | DCtrlCall callee, c :: t :: _ =>
        match fuel with
        | O => Err EOther
        | S fuel' =>
            match find_entry callee tbl with
            | None => Err EOther
            | Some e' => match eval_entry fuel' tbl e' [AQ t] with
                         | Err er => Err er
                         | Ok g => mk_ctrl c g
                         end
            end
        end
    | DCtrlBsr local d, c :: t :: _ =>
        let loc := match local with Some l => eval_aexpr theta k (nofZ N 0) l | None => nofZ N 0 end in
        mk_ctrl c (eval_bsrdef t theta k loc d)
    | _, _ => Err EType
    end.

  Definition resolve_alias (name : string) : string :=
    match assoc_str name hand_aliases with Some n => n | None => name end.

  (* a default gate function called on arguments: the gate and its (generator, arguments) description *)
  Definition default_gate (name : string) (args : list (arg T)) : result (gate T * ginfo T) :=
    match find_entry name hand_table with
    | None => Err EValue
    | Some e => match eval_entry 2 hand_table e args with
                | Err er => Err er
                | Ok g => Ok (g, mkGinfo (Some (e_name e)) (Some args))
                end
    end.

  Definition default_gate1 (name : string) (q : Z) : gate T :=
    match default_gate name [AQ q] with Ok (g, _) => g | Err _ => bsr_identity N q end.
End Eval.
