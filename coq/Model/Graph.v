(* Graph.v — model of opensquirrel/mapper/utils.py make_interaction_graph.
   networkx enters only as "a set of undirected edges and the nodes they
   mention"; the model returns the edges in insertion order. *)
From Coq Require Import ZArith List Bool.
Import ListNotations.
Require Import Num IR.

Section Graph.
  Context {T : Type}.

  Fixpoint graph_edges (ir : list (stmt T)) : result (list (Z * Z)) :=
    match ir with
    | [] => Ok []
    | SGate _ g _ :: rest =>
        match gate_qubits g with
        | [] => Err EType                      (* add_edge() without nodes; no constructible gate *)
        | [_] => graph_edges rest
        | [a; b] => match graph_edges rest with
                    | Ok es => Ok ((a, b) :: es)
                    | Err e => Err e
                    end
        | _ => Err EValue
        end
    | _ :: rest => graph_edges rest
    end.

  Definition graph_nodes (es : list (Z * Z)) : list Z :=
    zdedup (flat_map (fun e => [fst e; snd e]) es).
End Graph.
