(* Decompose.v — decomposer/general_decomposer.py: the in-place decomposition
   loop (with its partially rewritten state when a step raises), the generic
   replacer, and the named decomposers as one function. *)
From Coq Require Import ZArith List Bool String.
Import ListNotations.
From OSQ Require Import Num IR Construct DefaultTable Matrix Check ABA Merge McKay CNOTDec.
Open Scope string_scope.

Inductive decomposer_id := DecABA (a b : axis_id) | DecMcKay | DecCNOT.

(* replacement rules used with Circuit.replace in the checks *)
Inductive rule_id := RuleCnotToHCzH | RuleCzToHCnotH | RuleShared | RuleWrong | RuleIdentityEmpty.

Section Decompose.
  Context {T : Type} (N : Num T).

  Definition run_decomposer (d : decomposer_id) (g : gate T) (gi : ginfo T) : result (list (ditem T)) :=
    match d with
    | DecABA a b => aba_decompose N a b g gi
    | DecMcKay => mckay_decompose N g gi
    | DecCNOT => cnot_decompose N g gi
    end.

  Definition dg (name : string) (args : list (arg T)) : result (gate T * ginfo T) := default_gate N name args.

  (* the callbacks: functions of the gate's captured arguments *)
  Definition run_rule (r : rule_id) (args : list (arg T)) : result (list (ditem T)) :=
    match r, args with
    | RuleCnotToHCzH, [AQ c; AQ t] =>
        match dg "H" [AQ t], dg "CZ" [AQ c; AQ t] with
        | Ok h, Ok cz => Ok [DNew 0 (fst h) (snd h); DNew 1 (fst cz) (snd cz); DNew 2 (fst h) (snd h)]
        | Err e, _ | _, Err e => Err e
        end
    | RuleCzToHCnotH, [AQ c; AQ t] =>
        match dg "H" [AQ t], dg "CNOT" [AQ c; AQ t] with
        | Ok h, Ok cn => Ok [DNew 0 (fst h) (snd h); DNew 1 (fst cn) (snd cn); DNew 2 (fst h) (snd h)]
        | Err e, _ | _, Err e => Err e
        end
    | RuleShared, [AQ c; AQ t] =>      (* the same H object before and after *)
        match dg "H" [AQ t], dg "CZ" [AQ c; AQ t] with
        | Ok h, Ok cz => Ok [DNew 0 (fst h) (snd h); DNew 1 (fst cz) (snd cz); DNew 0 (fst h) (snd h)]
        | Err e, _ | _, Err e => Err e
        end
    | RuleWrong, [AQ c; AQ t] =>
        match dg "H" [AQ t], dg "CZ" [AQ c; AQ t] with
        | Ok h, Ok cz => Ok [DNew 0 (fst h) (snd h); DNew 1 (fst cz) (snd cz)]
        | Err e, _ | _, Err e => Err e
        end
    | RuleIdentityEmpty, _ => Ok []
    | _, _ => Err EType
    end.

  (* _GenericReplacer.decompose *)
  Definition run_replacer (target : string) (r : rule_id) (g : gate T) (gi : ginfo T) : result (list (ditem T)) :=
    match gargs gi, gname gi with
    | Some args, Some nm => if String.eqb nm target then run_rule r args else Ok [DSame]
    | _, _ => Ok [DSame]
    end.

  Fixpoint max_key (l : list (ditem T)) : nat :=
    match l with [] => O | DSame :: r => max_key r | DNew k _ _ :: r => Nat.max (S k) (max_key r) end.

  Definition item_gate (g : gate T) (it : ditem T) : gate T :=
    match it with DSame => g | DNew _ g' _ => g' end.

  (* materialise a replacement list as statements: DSame keeps the object *)
  Definition materialise (o : positive) (g : gate T) (gi : ginfo T) (next : positive) (l : list (ditem T)) : list (stmt T) :=
    map (fun it => match it with
                   | DSame => SGate o g gi
                   | DNew k g' gi' => SGate (Pos.of_nat (Pos.to_nat next + k)) g' gi'
                   end) l.

  (* the loop; returns the outcome and the statement list as it stands *)
  Fixpoint decompose_loop (dec : gate T -> ginfo T -> result (list (ditem T)))
           (next : positive) (done : list (stmt T)) (todo : list (stmt T)) : option err * list (stmt T) :=
    match todo with
    | [] => (None, List.rev done)
    | SGate o g gi :: rest =>
        match dec g gi with
        | Err e => (Some e, (List.rev done ++ todo)%list)
        | Ok items =>
            match check_replacement N g (map (item_gate g) items) with
            | Err e => (Some e, (List.rev done ++ todo)%list)
            | Ok _ =>
                let new := materialise o g gi next items in
                decompose_loop dec (Pos.of_nat (Pos.to_nat next + max_key items)) (List.rev new ++ done)%list rest
            end
        end
    | s :: rest => decompose_loop dec next (s :: done) rest
    end.

  Definition decompose (d : decomposer_id) (ir : list (stmt T)) : option err * list (stmt T) :=
    decompose_loop (run_decomposer d) (Pos.succ (max_oid ir)) [] ir.

  Definition replace (target : string) (r : rule_id) (ir : list (stmt T)) : option err * list (stmt T) :=
    decompose_loop (run_replacer target r) (Pos.succ (max_oid ir)) [] ir.
End Decompose.
