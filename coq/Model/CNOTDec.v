(* CNOTDec.v — decomposer/cnot_decomposer.py. *)
From Coq Require Import ZArith List Bool String.
Import ListNotations.
From OSQ Require Import Num IR Construct DefaultTable ABA Merge.
Open Scope string_scope.

Section CNOTDec.
  Context {T : Type} (N : Num T).
  Notation "x + y" := (nadd N x y).
  Notation "x - y" := (nsub N x y).
  Notation "x * y" := (nmul N x y).
  Notation "x / y" := (ndiv N x y).
  Notation "- x" := (nneg N x).
  Notation "x <? y" := (nltb N x y).
  Notation two := (nofZ N 2).

  Definition cnot (c t : Z) : result (gate T * ginfo T) := default_gate N "CNOT" [AQ c; AQ t].
  Definition ry (q : Z) (t : T) : gate T * ginfo T := rot_gate N AxY q t.
  Definition rz' (q : Z) (t : T) : gate T * ginfo T := rot_gate N AxZ q t.

  Definition cnot_gates (c tq : Z) (ax : axis3 T) (angle phase : T) : result (list (gate T * ginfo T)) :=
    match default_gate N "X" [AQ tq], cnot c tq with
    | Ok xg, Ok cn =>
        match compose_gates N xg (BSR tq ax angle phase, anon) with
        | Err e => Err e
        | Ok (BSR _ axx angx _, _) =>
            match aba_angles N AxZ AxY angx axx with
            | Err e => Err e
            | Ok (t0x, t1x, t2x) =>
                if nabs N (nmod N (t0x - t2x) (two * pi N)) <? atol N then
                  let sh := nsin N (angle / two) in
                  let sign :=
                    ((- sh) * ax_x ax) * (ncos N (t1x / two) * ncos N t2x)
                    + ncos N (angle / two) * nofZ N 0
                    + ((- sh) * ax_z ax) * nsin N (t1x / two)
                    + (sh * ax_y ax) * (ncos N (t1x / two) * nsin N t2x) in
                  let cphase := if sign <? nofZ N 0 then phase - pi N / two else phase + pi N / two in
                  Ok (filter_identities N
                        [rz' tq t2x; ry tq (t1x / two); cn; ry tq ((- t1x) / two); rz' tq (- t2x);
                         rz' c cphase])
                else
                  match aba_angles N AxZ AxY angle ax with
                  | Err e => Err e
                  | Ok (t0, t1, t2) =>
                      Ok (filter_identities N
                            [rz' tq ((t0 - t2) / two); cn;
                             rz' tq ((- (t0 + t2)) / two); ry tq ((- t1) / two); cn;
                             ry tq (t1 / two); rz' tq t2;
                             rz' c phase])
                  end
            end
        | Ok _ => Err EOther
        end
    | Err e, _ => Err e
    | _, Err e => Err e
    end.

  Definition cnot_decompose (g : gate T) (gi : ginfo T) : result (list (ditem T)) :=
    match g with
    | Ctrl c (BSR tq ax angle phase) =>
        match cnot_gates c tq ax angle phase with Err e => Err e | Ok l => Ok (news l) end
    | _ => Ok [DSame]
    end.
End CNOTDec.
