(* ParserExpand.v — parser/libqasm/parser.py and register_manager.py: from
   libqasm's analysed AST (an oracle: variables in declaration order and
   statements with operands) to the flat list of instruction calls. *)
From Coq Require Import ZArith List Bool String.
Import ListNotations.
From OSQ Require Import Num IR DefaultTable.
Open Scope string_scope.

Inductive vkind := VQubit | VBit | VOther.
Record avar := mkVar { v_name : string; v_kind : vkind; v_size : Z }.

Section Parser.
  Context {T : Type}.

  Inductive operand :=
  | OVar (name : string)                       (* VariableRef *)
  | OIndex (name : string) (idx : list Z)      (* IndexRef *)
  | OInt (k : Z)                               (* ConstInt *)
  | OFloat (x : T).                            (* ConstFloat *)

  Record astmt := mkAstmt { a_name : string; a_ops : list operand }.

  Definition vkind_eqb (a b : vkind) : bool :=
    match a, b with VQubit, VQubit | VBit, VBit | VOther, VOther => true | _, _ => false end.

  (* Register.from_ast: ranges by prefix sums over the variables of one kind, in declaration order;
     a later variable with the same name overwrites the dictionary entry *)
  Fixpoint layout (k : vkind) (vars : list avar) (cur : Z) (acc : list (string * (Z * Z))) : list (string * (Z * Z)) * Z :=
    match vars with
    | [] => (acc, cur)
    | v :: vs =>
        if vkind_eqb (v_kind v) k
        then layout k vs (cur + v_size v)%Z ((v_name v, (cur, v_size v)) :: acc)
        else layout k vs cur acc
    end.

  Definition ranges (k : vkind) (vars : list avar) : list (string * (Z * Z)) := fst (layout k vars 0%Z []).
  Definition reg_size (k : vkind) (vars : list avar) : Z := snd (layout k vars 0%Z []).

  Definition var_kind (vars : list avar) (name : string) : vkind :=
    match find (fun v => String.eqb (v_name v) name) vars with Some v => v_kind v | None => VOther end.
  Definition var_size (vars : list avar) (name : string) : Z :=
    match find (fun v => String.eqb (v_name v) name) vars with Some v => v_size v | None => 0%Z end.

  Definition operand_kind (vars : list avar) (o : operand) : vkind :=
    match o with OVar n | OIndex n _ => var_kind vars n | _ => VOther end.
  Definition operand_size (vars : list avar) (o : operand) : Z :=
    match o with
    | OIndex _ idx => Z.of_nat (List.length idx)
    | OVar n => var_size vars n
    | _ => 1%Z
    end.

  Definition zrange (first size : Z) : list Z := map (fun i => (first + Z.of_nat i)%Z) (seq 0 (Z.to_nat size)).

  (* _get_qubits / _get_bits *)
  Definition get_indices (k : vkind) (vars : list avar) (o : operand) : result (list Z) :=
    match o with
    | OVar n => match assoc_str n (ranges k vars) with
                | Some (first, size) => Ok (zrange first size)
                | None => Err EKey
                end
    | OIndex n idx => match assoc_str n (ranges k vars) with
                      | Some (first, _) => Ok (map (fun i => (first + i)%Z) idx)
                      | None => Err EKey
                      end
    | _ => Ok []
    end.

  Fixpoint heads {A} (cols : list (list A)) : option (list A) :=
    match cols with
    | [] => Some []
    | [] :: _ => None
    | (x :: _) :: cs => option_map (cons x) (heads cs)
    end.

  (* zip of the columns: rows until the shortest column runs out; zip() of nothing is empty *)
  Fixpoint zip_rows {A} (fuel : nat) (cols : list (list A)) : list (list A) :=
    match fuel with
    | O => []
    | S f => match heads cols with
             | None => []
             | Some r => r :: zip_rows f (map (@tl A) cols)
             end
    end.
  Definition zip_cols {A} (cols : list (list A)) : list (list A) :=
    match cols with [] => [] | c :: _ => zip_rows (List.length c) cols end.

  Fixpoint contains (needle hay : string) : bool :=
    match hay with
    | EmptyString => match needle with EmptyString => true | _ => false end
    | String _ hay' => String.prefix needle hay || contains needle hay'
    end.

  Fixpoint collect {A} (l : list (result (list A))) : result (list (list A)) :=
    match l with
    | [] => Ok []
    | Err e :: _ => Err e
    | Ok x :: l' => match collect l' with Err e => Err e | Ok r => Ok (x :: r) end
    end.

  Definition is_q (vars : list avar) (o : operand) : bool := vkind_eqb (operand_kind vars o) VQubit.
  Definition is_b (vars : list avar) (o : operand) : bool := vkind_eqb (operand_kind vars o) VBit.

  (* _get_expanded_gate_args *)
  Definition expand_gate_args (vars : list avar) (ops : list operand) : result (list (list (arg T))) :=
    let nops := fold_left (fun acc o => if is_q vars o then (acc + operand_size vars o)%Z else acc) ops 0%Z in
    match collect (map (fun o =>
             if is_q vars o then
               match get_indices VQubit vars o with Ok qs => Ok (map (@AQ T) qs) | Err e => Err e end
             else match o with
                  | OInt k => Ok (repeat (@AI T k) (Z.to_nat nops))
                  | OFloat x => Ok (repeat (AF x) (Z.to_nat nops))
                  | _ => Err EType
                  end) ops) with
    | Err e => Err e
    | Ok cols => Ok (zip_cols cols)
    end.

  (* _get_expanded_measure_args: operands walked in reverse (AST order is bit, qubit) *)
  Definition expand_measure_args (vars : list avar) (ops : list operand) : result (list (list (arg T))) :=
    match collect (map (fun o =>
             if is_q vars o then
               match get_indices VQubit vars o with Ok qs => Ok (map (@AQ T) qs) | Err e => Err e end
             else if is_b vars o then
               match get_indices VBit vars o with Ok bs => Ok (map (@AB T) bs) | Err e => Err e end
             else Err EType) (List.rev ops)) with
    | Err e => Err e
    | Ok cols => Ok (zip_cols cols)
    end.

  (* _get_expanded_reset_args: a bare reset resets the whole register *)
  Definition expand_reset_args (vars : list avar) (ops : list operand) : result (list (list (arg T))) :=
    match ops with
    | [] => Ok (map (fun q => [@AQ T q]) (zrange 0 (reg_size VQubit vars)))
    | _ =>
        match collect (map (fun o =>
                 if is_q vars o then get_indices VQubit vars o else Err EType) ops) with
        | Err e => Err e
        | Ok qss => Ok (map (fun q => [@AQ T q]) (List.concat qss))
        end
    end.

  Inductive ikind := KGate | KMeasure | KReset.
  Record call := mkCall { c_kind : ikind; c_name : string; c_args : list (arg T) }.

  Definition mem_str (s : string) (l : list string) : bool := existsb (String.eqb s) l.

  (* one AST statement -> instruction calls; the generator actually called has the
     library function's own name (an alias resolves to its target) *)
  Definition expand_stmt (vars : list avar) (st : astmt) : result (list call) :=
    let name := a_name st in
    if contains "measure" name then
      if mem_str name hand_measure_set then
        match expand_measure_args vars (a_ops st) with
        | Err e => Err e
        | Ok rows => Ok (map (mkCall KMeasure name) rows)
        end
      else Err EValue
    else if contains "reset" name then
      if mem_str name hand_reset_set then
        match expand_reset_args vars (a_ops st) with
        | Err e => Err e
        | Ok rows => Ok (map (mkCall KReset name) rows)
        end
      else Err EValue
    else
      let target := if mem_str name hand_gate_set then Some name else assoc_str name hand_aliases in
      match target with
      | None => Err EValue
      | Some fname =>
          match expand_gate_args vars (a_ops st) with
          | Err e => Err e
          | Ok rows => Ok (map (mkCall KGate fname) rows)
          end
      end.

  Fixpoint expand_program (vars : list avar) (sts : list astmt) : result (list call) :=
    match sts with
    | [] => Ok []
    | st :: rest =>
        match expand_stmt vars st with
        | Err e => Err e
        | Ok cs => match expand_program vars rest with
                   | Err e => Err e
                   | Ok r => Ok (cs ++ r)%list
                   end
        end
    end.
End Parser.
Arguments operand : clear implicits.
Arguments astmt : clear implicits.
Arguments call : clear implicits.

Section ParserEval.
  Context {T : Type} (N : Num T).

  (* calling the instruction functions: statements with fresh oids 1, 2, ... *)
  Definition eval_call (oid : positive) (c : call T) : result (stmt T) :=
    match c_kind c, c_args c with
    | KGate, args =>
        match default_gate N (c_name c) args with
        | Err e => Err e
        | Ok (g, gi) => Ok (SGate oid g gi)
        end
    | KMeasure, [AQ q; AB b] =>
        Ok (SMeasure oid q b (Construct.mk_axis N (nofZ N 0, nofZ N 0, nofZ N 1))
                     (mkGinfo (Some (c_name c)) (Some [AQ q; AB b])))
    | KReset, [AQ q] => Ok (SReset oid q (mkGinfo (Some (c_name c)) (Some [AQ q])))
    | _, _ => Err EType
    end.

  Fixpoint eval_calls (oid : positive) (cs : list (call T)) : result (list (stmt T)) :=
    match cs with
    | [] => Ok []
    | c :: rest =>
        match eval_call oid c with
        | Err e => Err e
        | Ok s => match eval_calls (Pos.succ oid) rest with
                  | Err e => Err e
                  | Ok r => Ok (s :: r)
                  end
        end
    end.

  Definition parse_program (vars : list avar) (sts : list (astmt T)) : result (Z * Z * list (stmt T)) :=
    match expand_program vars sts with
    | Err e => Err e
    | Ok cs => match eval_calls 1%positive cs with
               | Err e => Err e
               | Ok ir => Ok (reg_size VQubit vars, reg_size VBit vars, ir)
               end
    end.
End ParserEval.
