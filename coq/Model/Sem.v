(* Sem.v — the Kraus-operator semantics of Theory/Kraus.v, written for any numeric instance so that it can be
   extracted and run against the independent numpy simulation of the checks. Proofs/SemGenP.v proves that at
   the real numbers it IS the semantics of Theory/Kraus.v, the one the theorems are stated in. *)
From Coq Require Import ZArith List Bool.
Import ListNotations.
From OSQ Require Import Num IR Bits Construct Matrix.

Section Sem.
  Context {T : Type} (N : Num T).
  Notation C := (T * T)%type.
  Notation mat := (list (list C)).
  Notation "x + y" := (nadd N x y).
  Notation "x - y" := (nsub N x y).
  Notation "x * y" := (nmul N x y).
  Notation "x / y" := (ndiv N x y).
  Notation "- x" := (nneg N x).
  Notation one := (nofZ N 1).
  Notation two := (nofZ N 2).
  Notation zero := (nofZ N 0).

  Definition proj_axis_gen (ax : axis3 T) (b : bool) : mat :=
    let s := if b then - one else one in
    let nx := ax_x ax in let ny := ax_y ax in let nz := ax_z ax in
    [[((one + s * nz) / two, zero);        (s * nx / two, (- (s * ny)) / two)];
     [(s * nx / two, s * ny / two);        ((one - s * nz) / two, zero)]].

  Definition reset_op_gen (b : bool) : mat :=
    if b then [[(zero, zero); (one, zero)]; [(zero, zero); (zero, zero)]]
    else [[(one, zero); (zero, zero)]; [(zero, zero); (zero, zero)]].

  Definition embed1_gen (n q : Z) (U : mat) : result mat :=
    if Z.geb q n then Err EIndex
    else if Z.ltb q 0 then Err EValue
    else Ok (kron N (kron N (eye N (zpow2 (n - q - 1))) U) (eye N (zpow2 q))).

  Definition stmt_op_gen (n : Z) (o : nat -> bool) (k : nat) (s : stmt T) : result (option mat) * nat :=
    match s with
    | SGate _ g _ => (match get_matrix N n g with Err e => Err e | Ok G => Ok (Some G) end, k)
    | SMeasure _ q _ ax _ => (match embed1_gen n q (proj_axis_gen ax (o k)) with Err e => Err e | Ok P => Ok (Some P) end, S k)
    | SReset _ q _ => (match embed1_gen n q (reset_op_gen (o k)) with Err e => Err e | Ok P => Ok (Some P) end, S k)
    | SComment _ => (Ok None, k)
    end.

  Fixpoint kraus_from_gen (n : Z) (o : nat -> bool) (k : nat) (acc : mat) (ir : list (stmt T)) : result mat :=
    match ir with
    | [] => Ok acc
    | s :: rest =>
        match stmt_op_gen n o k s with
        | (Err e, _) => Err e
        | (Ok None, k') => kraus_from_gen n o k' acc rest
        | (Ok (Some M), k') => kraus_from_gen n o k' (mmul N M acc) rest
        end
    end.

  Definition kraus_gen (n : Z) (outcomes : list bool) (ir : list (stmt T)) : result mat :=
    kraus_from_gen n (fun k => nth k outcomes false) 0 (eye N (zpow2 n)) ir.
End Sem.
