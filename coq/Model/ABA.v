(* ABA.v — decomposer/aba_decomposer.py: get_decomposition_angles and
   decompose for the six A-B-A decomposers, line by line. *)
From Coq Require Import ZArith List Bool String.
Import ListNotations.
From OSQ Require Import Num IR Construct DefaultTable.
Open Scope string_scope.

Inductive axis_id := AxX | AxY | AxZ.
Definition axis_index (a : axis_id) : Z := match a with AxX => 0 | AxY => 1 | AxZ => 2 end.
Definition axis_gate (a : axis_id) : string := match a with AxX => "Rx" | AxY => "Ry" | AxZ => "Rz" end.
Definition unused_axis (a b : axis_id) : axis_id :=
  match a, b with
  | AxX, AxY | AxY, AxX => AxZ
  | AxX, AxZ | AxZ, AxX => AxY
  | AxY, AxZ | AxZ, AxY => AxX
  | AxX, AxX => AxY | AxY, AxY => AxX | AxZ, AxZ => AxX     (* not constructible *)
  end.

(* what a decomposer returns for one gate: the very same object, or a new one;
   equal keys of new items denote one Python object occurring several times *)
Inductive ditem (T : Type) := DSame | DNew (key : nat) (g : gate T) (gi : ginfo T).
Arguments DSame {T}.
Arguments DNew {T} _ _ _.

Section ABA.
  Context {T : Type} (N : Num T).
  Notation "x + y" := (nadd N x y).
  Notation "x - y" := (nsub N x y).
  Notation "x * y" := (nmul N x y).
  Notation "x / y" := (ndiv N x y).
  Notation "- x" := (nneg N x).
  Notation "x <? y" := (nltb N x y).
  Notation "x <=? y" := (nleb N x y).
  Notation two := (nofZ N 2).
  Notation one := (nofZ N 1).

  Definition axis_comp (ax : axis3 T) (a : axis_id) : T :=
    match a with AxX => ax_x ax | AxY => ax_y ax | AxZ => ax_z ax end.

  Definition clamp1 (x : T) : T := nmax N (nmin N x one) (- one).

  Definition is_sin_m_negative (ia ib : axis_id) : bool :=
    let d := (axis_index ia - axis_index ib)%Z in Z.eqb d (-1) || Z.eqb d 2.

  Definition aba_angles (ia ib : axis_id) (alpha : T) (ax : axis3 T) : result (T * T * T) :=
    let a := axis_comp ax ia in
    let b := axis_comp ax ib in
    let c := axis_comp ax (unused_axis ia ib) in
    if negb (((- pi N) + atol N <=? alpha) && (alpha <=? pi N + atol N)) then Err EValue else
    let '(p, theta2, m) :=
      if nabs N (alpha - pi N) <? atol N then
        if nabs N a <? atol N then
          (nofZ N 0, pi N, two * natan2 N c b)
        else
          let theta2 := two * nacos N a in
          if (nabs N b <? atol N) && (nabs N c <? atol N) then (pi N, theta2, pi N)
          else (pi N, theta2, two * natan2 N c b)
      else
        let p := two * natan2 N (a * nsin N (alpha / two)) (ncos N (alpha / two)) in
        let t := a * ntan N (alpha / two) in
        let arg := clamp1 (ncos N (alpha / two) * nsqrt N (one + t * t)) in
        let theta2 := ncopysign N (two * nacos N arg) alpha in
        if nabs N (nsin N (theta2 / two)) <? atol N then (p, theta2, p)
        else (p, theta2, two * natan2 N c b) in
    let m := if is_sin_m_negative ia ib then m * (- one) else m in
    let theta1 := (p + m) / two in
    let theta3 := p - theta1 in
    Ok (theta1, theta2, theta3).

  Definition rot_gate (a : axis_id) (q : Z) (theta : T) : gate T * ginfo T :=
    match default_gate N (axis_gate a) [AQ q; AF theta] with
    | Ok r => r
    | Err _ => (bsr_identity N q, anon)
    end.

  Definition filter_identities (l : list (gate T * ginfo T)) : list (gate T * ginfo T) :=
    filter (fun x => negb (is_identity N (fst x))) l.

  Definition aba_gates (ia ib : axis_id) (g : gate T) : result (list (gate T * ginfo T)) :=
    match g with
    | BSR q ax angle _ =>
        match aba_angles ia ib angle ax with
        | Err e => Err e
        | Ok (t1, t2, t3) => Ok (filter_identities [rot_gate ia q t1; rot_gate ib q t2; rot_gate ia q t3])
        end
    | _ => Err EOther
    end.

  Definition news (l : list (gate T * ginfo T)) : list (ditem T) :=
    map (fun kx => DNew (fst kx) (fst (snd kx)) (snd (snd kx))) (combine (seq 0 (List.length l)) l).

  Definition aba_decompose (ia ib : axis_id) (g : gate T) (gi : ginfo T) : result (list (ditem T)) :=
    match g with
    | BSR _ _ _ _ => match aba_gates ia ib g with Err e => Err e | Ok l => Ok (news l) end
    | _ => Ok [DSame]
    end.
End ABA.
