(* Dec.v — decimal renderings of floats.  [dec] is the result of the correctly
   rounded 8-significant-digit decimalisation of a double (an oracle: CPython's
   format / C printf); [render_py8] models what CPython's format(x, ".8") does
   with those digits; [fix_literal] is the writer's repair of one-digit
   mantissas.  Strings are Coq strings. *)
From Coq Require Import ZArith List Bool String Ascii.
From Coq Require Import Decimal DecimalString.
Import ListNotations.
Open Scope string_scope.

Inductive dec :=
| DInf (neg : bool)
| DNan
| DFin (neg : bool) (digits : list nat) (exp10 : Z).   (* d0.d1d2..d7 * 10^exp10, 8 digits *)

Definition string_of_Z (z : Z) : string := NilZero.string_of_int (Z.to_int z).
Definition digit_char (d : nat) : string := String (ascii_of_nat (48 + d)) "".
Fixpoint digits_string (l : list nat) : string :=
  match l with [] => "" | d :: l' => digit_char d ++ digits_string l' end.

Fixpoint strip_trailing_zeros (l : list nat) : list nat :=
  match l with
  | [] => []
  | d :: l' => match strip_trailing_zeros l' with
               | [] => if Nat.eqb d 0 then [] else [d]
               | r => d :: r
               end
  end.

Definition two_digits (z : Z) : string :=
  let a := Z.abs z in if Z.ltb a 10 then "0" ++ string_of_Z a else string_of_Z a.

Fixpoint zeros (n : nat) : string := match n with O => "" | S k => "0" ++ zeros k end.

(* format(x, ".8"): fixed notation iff -4 <= exp10 < 7, at least one digit after the point *)
Definition render_py8 (d : dec) : string :=
  match d with
  | DInf neg => if neg then "-inf" else "inf"
  | DNan => "nan"
  | DFin neg digits e =>
      let sign := if neg then "-" else "" in
      let ds := match strip_trailing_zeros digits with [] => [0%nat] | r => r end in
      let is_zero := forallb (Nat.eqb 0) digits in
      if is_zero then sign ++ "0.0"
      else if Z.leb (-4) e && Z.ltb e 7 then
        if Z.ltb e 0 then
          sign ++ "0." ++ zeros (Z.to_nat (- e - 1)) ++ digits_string ds
        else
          let k := S (Z.to_nat e) in                      (* digits before the point *)
          let intpart := firstn k ds in
          let frac := skipn k ds in
          sign ++ digits_string intpart ++ zeros (k - List.length intpart) ++ "." ++
          (match frac with [] => "0" | _ => digits_string frac end)
      else
        sign ++ (match ds with
                 | [d0] => digit_char d0
                 | d0 :: rest => digit_char d0 ++ "." ++ digits_string rest
                 | [] => "0"
                 end) ++ "e" ++ (if Z.ltb e 0 then "-" else "+") ++ two_digits e
  end.

(* partition("e") *)
Fixpoint split_e (s : string) : string * option string :=
  match s with
  | EmptyString => ("", None)
  | String c s' =>
      if Ascii.eqb c "e"%char then ("", Some s')
      else let '(m, r) := split_e s' in (String c m, r)
  end.

Fixpoint has_dot (s : string) : bool :=
  match s with EmptyString => false | String c s' => Ascii.eqb c "."%char || has_dot s' end.

(* writer.visit_float after the repair: 1e-05 -> 1.0e-05 *)
Definition fix_literal (s : string) : string :=
  match split_e s with
  | (m, None) => m
  | (m, Some ex) => (if has_dot m then m else m ++ ".0") ++ "e" ++ ex
  end.
