(* QSExport.v — exporter/quantify_scheduler_exporter.py (as repaired): one
   schedule operation per statement, acquisition indices, bit map.
   quantify-scheduler enters as the list of operations put into the schedule. *)
From Coq Require Import ZArith List Bool String.
Import ListNotations.
From OSQ Require Import Num IR Construct DefaultTable Check.
Open Scope string_scope.

Section QS.
  Context {T : Type} (N : Num T).
  Notation "x <? y" := (nltb N x y).

  Inductive qsop :=
  | QRxy (theta phi : T) (q : Z)
  | QRz (theta : T) (q : Z)
  | QCNOT (c t : Z)
  | QCZ (c t : Z)
  | QMeasure (q : Z) (acq_channel acq_index : Z)
  | QReset (q : Z).

  Definition deg5 (x : T) : T := nroundpy N 5 (ndegrees N x).

  Definition export_bsr (q : Z) (ax : axis3 T) (angle : T) : result qsop :=
    if nabs N (ax_z ax) <? atol N then
      Ok (QRxy (deg5 angle) (deg5 (natan2 N (ax_y ax) (ax_x ax))) q)
    else if (nabs N (ax_x ax) <? atol N) && (nabs N (ax_y ax) <? atol N) then
      Ok (QRz (deg5 (if nofZ N 0 <? ax_z ax then angle else nneg N angle)) q)
    else Err EExport.

  Definition bsr_equals_default (name : string) (q : Z) (ax : axis3 T) (a p : T) : bool :=
    match default_gate N name [AQ q] with
    | Ok (BSR q2 ax2 a2 p2, _) => bsr_eq N q ax a p q2 ax2 a2 p2
    | _ => false
    end.

  Definition export_gate (g : gate T) : result qsop :=
    match g with
    | BSR q ax angle _ => export_bsr q ax angle
    | Mat _ _ => Err EExport
    | Ctrl c (BSR tq ax a p) =>
        if bsr_equals_default "X" tq ax a p then Ok (QCNOT c tq)
        else if bsr_equals_default "Z" tq ax a p then Ok (QCZ c tq)
        else Err EExport
    | Ctrl _ _ => Err EExport
    end.

  Fixpoint zlist_get (l : list Z) (i : nat) : option Z := nth_error l i.
  Fixpoint list_upd {A} (l : list A) (i : nat) (x : A) : list A :=
    match l, i with
    | [], _ => []
    | _ :: l', O => x :: l'
    | y :: l', S i' => y :: list_upd l' i' x
    end.

  (* Python list indexing: negative indices count from the end, out of range raises IndexError *)
  Definition py_index (len : nat) (i : Z) : option nat :=
    if Z.leb 0 i then (if Z.ltb i (Z.of_nat len) then Some (Z.to_nat i) else None)
    else (if Z.leb (- Z.of_nat len) i then Some (Z.to_nat (Z.of_nat len + i)) else None).

  Fixpoint export_loop (ir : list (stmt T)) (acq : list Z) (bitmap : list (option (Z * Z))) (out : list qsop)
    : result (list qsop * list (option (Z * Z))) :=
    match ir with
    | [] => Ok (List.rev out, bitmap)
    | SComment _ :: rest => export_loop rest acq bitmap out
    | SGate _ g _ :: rest =>
        match export_gate g with
        | Err e => Err e
        | Ok op => export_loop rest acq bitmap (op :: out)
        end
    | SMeasure _ q b _ _ :: rest =>
        match py_index (List.length acq) q with
        | None => Err EIndex
        | Some qi =>
            let idx := nth qi acq 0%Z in
            match py_index (List.length bitmap) b with
            | None => Err EIndex
            | Some bi =>
                export_loop rest (list_upd acq qi (idx + 1)%Z) (list_upd bitmap bi (Some (idx, q)))
                            (QMeasure q q idx :: out)
            end
        end
    | SReset _ q _ :: rest => export_loop rest acq bitmap (QReset q :: out)
    end.

  Definition export_qs (nq nb : Z) (ir : list (stmt T)) : result (list qsop * list (option (Z * Z))) :=
    export_loop ir (repeat 0%Z (Z.to_nat nq)) (repeat None (Z.to_nat nb)) [].
End QS.
Arguments qsop : clear implicits.
