(* Construct.v — constructors of ir.py: angle normalisation (common.py),
   axis normalisation, BlochSphereRotation / ControlledGate / MatrixGate
   validation, is_identity.  [normalize_angle] here is the hand-written model;
   Gen/Constants.v carries the version regenerated from common.py on every run
   and Gen/TableCheck.v proves the two equal. *)
From Coq Require Import ZArith List Bool.
Import ListNotations.
From OSQ Require Import Num IR.

Section Construct.
  Context {T : Type} (N : Num T).
  Notation "x + y" := (nadd N x y).
  Notation "x - y" := (nsub N x y).
  Notation "x * y" := (nmul N x y).
  Notation "x / y" := (ndiv N x y).
  Notation "- x" := (nneg N x).
  Notation "x <? y" := (nltb N x y).
  Notation "x >? y" := (nltb N y x).

  Definition atol : T := nofZ N 1 / nofZ N 10000000.          (* ATOL = 0.0000001 *)
  Definition pi : T := npi N.
  Definition two_pi : T := nofZ N 2 * pi.

  Definition normalize_angle (x : T) : T :=
    let t := x - two_pi * (nfloordiv N x two_pi + nofZ N 1) in
    if t <? (- pi) + atol then t + two_pi
    else if t >? pi then t - two_pi
    else t.

  Definition norm3 (v : axis3 T) : T :=
    nsqrt N (ax_x v * ax_x v + ax_y v * ax_y v + ax_z v * ax_z v).

  (* Axis._normalize_axis: axis / np.linalg.norm(axis); no guard on a zero norm *)
  Definition mk_axis (v : axis3 T) : axis3 T :=
    let n := norm3 v in (ax_x v / n, ax_y v / n, ax_z v / n).

  (* Axis(...) as a user-facing constructor (as repaired): zero and non-finite vectors are refused,
     vectors whose norm under- or overflows are scaled by their largest component first *)
  Definition all_finite (v : axis3 T) : bool :=
    nisfinite N (ax_x v) && nisfinite N (ax_y v) && nisfinite N (ax_z v).
  Definition max3abs (v : axis3 T) : T :=
    nmax N (nmax N (nabs N (ax_x v)) (nabs N (ax_y v))) (nabs N (ax_z v)).
  Definition mk_axis_checked (v : axis3 T) : result (axis3 T) :=
    let n := norm3 v in
    if neqb N n (nofZ N 0) || negb (nisfinite N n) then
      let s := max3abs v in
      if neqb N s (nofZ N 0) || negb (all_finite v) then Err EValue
      else Ok (mk_axis (ax_x v / s, ax_y v / s, ax_z v / s))
    else Ok (mk_axis v).

  Definition neg_axis (v : axis3 T) : axis3 T := (- ax_x v, - ax_y v, - ax_z v).

  (* BlochSphereRotation(qubit, axis (raw triple), angle, phase) *)
  Definition mk_bsr (q : Z) (v : axis3 T) (angle phase : T) : gate T :=
    BSR q (mk_axis v) (normalize_angle angle) (normalize_angle phase).

  Definition mk_bsr_checked (q : Z) (v : axis3 T) (angle phase : T) : result (gate T) :=
    match mk_axis_checked v with
    | Err e => Err e
    | Ok ax => Ok (BSR q ax (normalize_angle angle) (normalize_angle phase))
    end.

  (* the same constructor called with an Axis object: the axis is taken as is *)
  Definition mk_bsr_ax (q : Z) (ax : axis3 T) (angle phase : T) : gate T :=
    BSR q ax (normalize_angle angle) (normalize_angle phase).

  Definition mk_ctrl (c : Z) (g : gate T) : result (gate T) :=
    if znodup (c :: gate_qubits g) then Ok (Ctrl c g) else Err EValue.

  Definition pow2 (k : nat) : nat := Nat.pow 2 k.

  Definition mk_mat (m : list (list (T * T))) (ops : list Z) : result (gate T) :=
    if Nat.ltb (length ops) 2 then Err EValue
    else if negb (znodup ops) then Err EValue
    else if negb (Nat.eqb (length m) (pow2 (length ops)) &&
                  forallb (fun r => Nat.eqb (length r) (pow2 (length ops))) m) then Err EValue
    else Ok (Mat m ops).

  Definition bsr_identity (q : Z) : gate T :=
    mk_bsr q (nofZ N 1, nofZ N 0, nofZ N 0) (nofZ N 0) (nofZ N 0).

  (* np.allclose(a, b): |a-b| <= atol8 + rtol*|b| *)
  Definition atol8 : T := nofZ N 1 / nofZ N 100000000.
  Definition rtol : T := nofZ N 1 / nofZ N 100000.
  Definition close_r (a b : T) : bool := nleb N (nabs N (a - b)) (atol8 + rtol * nabs N b).
  Definition close_c (a b : C) : bool :=
    nleb N (cabs N (csub N a b)) (atol8 + rtol * cabs N b).
  Definition close_axis (a b : axis3 T) : bool :=
    close_r (ax_x a) (ax_x b) && close_r (ax_y a) (ax_y b) && close_r (ax_z a) (ax_z b).

  Fixpoint eye_row (n k : nat) : list (T * T) :=
    match n with O => [] | S n' => (if Nat.eqb k 0 then c1 N else c0 N) :: eye_row n' (Nat.pred k) end.
  (* row k of the identity, but k counts down: use explicit index *)
  Definition unit_row (n i : nat) : list (T * T) :=
    map (fun j => if Nat.eqb i j then c1 N else c0 N) (seq 0 n).
  Definition eye (n : nat) : list (list (T * T)) := map (unit_row n) (seq 0 n).

  Definition mat_allclose (A B : list (list (T * T))) : bool :=
    Nat.eqb (length A) (length B) &&
    forallb (fun ab => Nat.eqb (length (fst ab)) (length (snd ab)) &&
                       forallb (fun xy => close_c (fst xy) (snd xy)) (combine (fst ab) (snd ab)))
            (combine A B).

  Fixpoint is_identity (g : gate T) : bool :=
    match g with
    | BSR _ _ angle phase => (nabs N angle <? atol) && (nabs N phase <? atol)
    | Ctrl _ g' => is_identity g'
    | Mat m ops => mat_allclose m (eye (pow2 (length ops)))
    end.
End Construct.
