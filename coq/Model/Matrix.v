(* Matrix.v — utils/matrix_expander.py and circuit_matrix_calculator.py:
   can1, the three expansions, get_matrix, get_circuit_matrix, on dense
   matrices (lists of rows), qubit 0 least significant. *)
From Coq Require Import ZArith NArith List Bool.
Import ListNotations.
From OSQ Require Import Num IR Bits Construct.

Section Matrix.
  Context {T : Type} (N : Num T).
  Notation C := (T * T)%type.
  Notation mat := (list (list C)).
  Notation "x + y" := (nadd N x y).
  Notation "x - y" := (nsub N x y).
  Notation "x * y" := (nmul N x y).
  Notation "x / y" := (ndiv N x y).
  Notation "- x" := (nneg N x).

  Definition czero : C := c0 N.
  Definition cone : C := c1 N.

  Definition vdot (r c : list C) : C :=
    fold_left (fun acc xy => cadd N acc (cmul N (fst xy) (snd xy))) (combine r c) czero.

  Fixpoint transpose_aux (ncols : nat) (m : mat) : mat :=
    match ncols with
    | O => []
    | S k => map (fun r => hd czero r) m :: transpose_aux k (map (@tl C) m)
    end.
  Definition transpose (m : mat) : mat := transpose_aux (length (hd [] m)) m.

  Definition mmul (A B : mat) : mat :=
    let Bt := transpose B in map (fun ra => map (fun cb => vdot ra cb) Bt) A.

  Definition kron (A B : mat) : mat :=
    flat_map (fun ra => map (fun rb => flat_map (fun a => map (fun b => cmul N a b) rb) ra) B) A.

  (* can1(axis, angle, phase) = cis(phase) * (cos(a/2) I - i sin(a/2) (nx X + ny Y + nz Z)) *)
  Definition can1 (ax : axis3 T) (angle phase : T) : mat :=
    let c := ncos N (nhalf N angle) in
    let s := nsin N (nhalf N angle) in
    let nx := ax_x ax in let ny := ax_y ax in let nz := ax_z ax in
    let ph := cis N phase in
    [[cmul N ph (c, - (s * nz)); cmul N ph (- (s * ny), - (s * nx))];
     [cmul N ph (s * ny, - (s * nx)); cmul N ph (c, s * nz)]].

  Definition zpow2 (k : Z) : nat := Nat.pow 2 (Z.to_nat k).

  Definition Nops (ops : list Z) : option (list BinNums.N) :=
    if forallb (fun q => Z.leb 0 q) ops then Some (map Z.to_N ops) else None.

  Fixpoint list_set {A} (l : list A) (i : nat) (x : A) : list A :=
    match l, i with
    | [], _ => []
    | _ :: l', O => x :: l'
    | y :: l', S i' => y :: list_set l' i' x
    end.

  (* one column of the expanded matrix gate: the assignment loop over small rows *)
  Definition mat_column (m : mat) (rev_ops : list BinNums.N) (dim : nat) (col : nat) : list C :=
    let sc := N.to_nat (reduced_ket (N.of_nat col) rev_ops) in
    fst (fold_left
      (fun (acc : list C * nat) (row : list C) =>
         let '(v, sr) := acc in
         (list_set v (N.to_nat (expand_ket (N.of_nat col) (N.of_nat sr) rev_ops)) (nth sc row czero), S sr))
      m (repeat czero dim, O)).

  Fixpoint get_matrix (n : Z) (g : gate T) : result mat :=
    match g with
    | BSR q ax angle phase =>
        if Z.geb q n then Err EIndex
        else if Z.ltb q 0 then Err EValue          (* 1 << negative *)
        else Ok (kron (kron (eye N (zpow2 (n - q - 1))) (can1 ax angle phase)) (eye N (zpow2 q)))
    | Ctrl c g' =>
        if Z.geb c n then Err EIndex
        else match get_matrix n g' with
             | Err e => Err e
             | Ok M =>
                 if Z.ltb c 0 then Err EValue
                 else
                   let dim := length M in
                   Ok (map (fun ri : nat =>
                              map (fun ci : nat =>
                                     if N.eqb (N.land (N.of_nat ci) (N.shiftl 1 (Z.to_N c))) 0
                                     then (if Nat.eqb ri ci then cone else czero)
                                     else nth ci (nth ri M []) czero)
                                  (seq 0 dim))
                           (seq 0 dim))
             end
    | Mat m ops =>
        let rev := List.rev ops in
        if existsb (fun q => Z.geb q n) rev then Err EIndex
        else if negb (Nat.eqb (length m) (pow2 (length ops)) &&
                      forallb (fun r => Nat.eqb (length r) (pow2 (length ops))) m) then Err EValue
        else match Nops rev with
             | None => Err EValue
             | Some rops =>
                 let dim := zpow2 n in
                 Ok (transpose_aux dim (map (fun col => mat_column m rops dim col) (seq 0 dim)))
             end
    end.

  (* get_circuit_matrix: only gates contribute; later gates multiply from the left *)
  Fixpoint circuit_matrix_from (n : Z) (acc : mat) (ir : list (stmt T)) : result mat :=
    match ir with
    | [] => Ok acc
    | SGate _ g _ :: rest =>
        match get_matrix n g with
        | Err e => Err e
        | Ok G => circuit_matrix_from n (mmul G acc) rest
        end
    | _ :: rest => circuit_matrix_from n acc rest
    end.
  Definition circuit_matrix (n : Z) (ir : list (stmt T)) : result mat :=
    circuit_matrix_from n (eye N (zpow2 n)) ir.

  Definition gates_matrix (n : Z) (gs : list (gate T)) : result mat :=
    circuit_matrix n (map (fun g => SGate 1%positive g anon) gs).
End Matrix.
