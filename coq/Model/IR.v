(* IR.v — the intermediate representation of opensquirrel/ir.py, keeping both
   descriptions of an instruction that the Python keeps: the semantic fields
   (qubits, axis, angle, phase, matrix) and the generator name with the
   captured arguments.  [oid] is Python object identity at the granularity at
   which passes mutate in place.  No proofs in this file. *)
From Coq Require Import ZArith List String Bool.
Import ListNotations.
Require Import Num.

Inductive err := EValue | EIndex | EKey | EType | EExport | EParse | EOther.

Inductive result (A : Type) := Ok (a : A) | Err (e : err).
Arguments Ok {A} _.
Arguments Err {A} _.

Definition bind {A B} (r : result A) (f : A -> result B) : result B :=
  match r with Ok a => f a | Err e => Err e end.
Notation "'do' x <- r ;; k" := (bind r (fun x => k)) (at level 200, x name, r at level 100, k at level 200).

Definition err_eqb (a b : err) : bool :=
  match a, b with
  | EValue, EValue | EIndex, EIndex | EKey, EKey | EType, EType
  | EExport, EExport | EParse, EParse | EOther, EOther => true
  | _, _ => false
  end.

Section IR.
  Context {T : Type}.

  (* captured arguments of a named instruction *)
  Inductive arg := AQ (q : Z) | AB (b : Z) | AF (x : T) | AI (k : Z).

  Definition axis3 : Type := (T * T * T)%type.
  Definition ax_x (a : axis3) : T := fst (fst a).
  Definition ax_y (a : axis3) : T := snd (fst a).
  Definition ax_z (a : axis3) : T := snd a.

  Inductive gate :=
  | BSR  (q : Z) (ax : axis3) (angle phase : T)
  | Ctrl (c : Z) (g : gate)
  | Mat  (m : list (list (T * T))) (ops : list Z).

  (* generator name and captured arguments; [None] args = anonymous/abstract *)
  Record ginfo := mkGinfo { gname : option string; gargs : option (list arg) }.
  Definition anon : ginfo := mkGinfo None None.

  Inductive stmt :=
  | SGate    (oid : positive) (g : gate) (gi : ginfo)
  | SMeasure (oid : positive) (q : Z) (b : Z) (ax : axis3) (gi : ginfo)
  | SReset   (oid : positive) (q : Z) (gi : ginfo)
  | SComment (text : string).

  Record circuit := mkCircuit { nq : Z; nb : Z; stmts : list stmt }.

  Fixpoint gate_qubits (g : gate) : list Z :=
    match g with
    | BSR q _ _ _ => [q]
    | Ctrl c g' => c :: gate_qubits g'
    | Mat _ ops => ops
    end.

  Definition stmt_qubits (s : stmt) : list Z :=
    match s with
    | SGate _ g _ => gate_qubits g
    | SMeasure _ q _ _ _ => [q]
    | SReset _ q _ => [q]
    | SComment _ => []
    end.

  Definition is_gate (s : stmt) : bool := match s with SGate _ _ _ => true | _ => false end.
  Definition is_bsr_stmt (s : stmt) : bool := match s with SGate _ (BSR _ _ _ _) _ => true | _ => false end.
  Definition is_anonymous (gi : ginfo) : bool := match gargs gi with None => true | Some _ => false end.

  Fixpoint map_gate_qubits (f : Z -> Z) (g : gate) : gate :=
    match g with
    | BSR q ax a p => BSR (f q) ax a p
    | Ctrl c g' => Ctrl (f c) (map_gate_qubits f g')
    | Mat m ops => Mat m (map f ops)
    end.

  Definition map_stmt_qubits (f : Z -> Z) (s : stmt) : stmt :=
    match s with
    | SGate o g gi => SGate o (map_gate_qubits f g) gi
    | SMeasure o q b ax gi => SMeasure o (f q) b ax gi
    | SReset o q gi => SReset o (f q) gi
    | SComment t => SComment t
    end.
End IR.

Arguments arg : clear implicits.
Arguments axis3 : clear implicits.
Arguments gate : clear implicits.
Arguments ginfo : clear implicits.
Arguments stmt : clear implicits.
Arguments circuit : clear implicits.

(* generic list helpers shared by the models *)
Fixpoint zmem (x : Z) (l : list Z) : bool :=
  match l with [] => false | y :: l' => Z.eqb x y || zmem x l' end.

Fixpoint zdedup (l : list Z) : list Z :=
  match l with [] => [] | x :: l' => if zmem x l' then zdedup l' else x :: zdedup l' end.

Fixpoint znodup (l : list Z) : bool :=
  match l with [] => true | x :: l' => negb (zmem x l') && znodup l' end.

Definition zsubset (a b : list Z) : bool := forallb (fun x => zmem x b) a.
Definition zset_eq (a b : list Z) : bool := zsubset a b && zsubset b a.

(* position of x in l (Python list.index); None = ValueError *)
Fixpoint zindex (x : Z) (l : list Z) : option Z :=
  match l with
  | [] => None
  | y :: l' => if Z.eqb x y then Some 0%Z else option_map Z.succ (zindex x l')
  end.
