(* Check.v — reindexer/qubit_reindexer.py, common.are_matrices_equivalent_up_to_global_phase
   (AS REPAIRED: the phase is read off at the entry of largest magnitude),
   general_decomposer.check_gate_replacement, ir.compare_gates and the field-wise
   BlochSphereRotation.__eq__, with Python's dispatch of == made explicit. *)
From Coq Require Import ZArith List Bool.
Import ListNotations.
From OSQ Require Import Num IR Construct Matrix.

Section Check.
  Context {T : Type} (N : Num T).
  Notation C := (T * T)%type.
  Notation mat := (list (list C)).

  (* _QubitReindexer on a gate: positions in [indices]; constructors re-run *)
  Fixpoint reindex_gate (indices : list Z) (g : gate T) : result (gate T) :=
    match g with
    | BSR q ax angle phase =>
        match zindex q indices with
        | None => Err EValue
        | Some i => Ok (mk_bsr_ax N i ax angle phase)
        end
    | Ctrl c g' =>
        match zindex c indices with
        | None => Err EValue
        | Some i => match reindex_gate indices g' with
                    | Err e => Err e
                    | Ok g'' => mk_ctrl i g''
                    end
        end
    | Mat m ops =>
        (fix go (l : list Z) (acc : list Z) : result (gate T) :=
           match l with
           | [] => mk_mat m (List.rev acc)
           | q :: l' => match zindex q indices with
                        | None => Err EValue
                        | Some i => go l' (i :: acc)
                        end
           end) ops []
    end.

  Fixpoint reindex_gates (indices : list Z) (gs : list (gate T)) : result (list (gate T)) :=
    match gs with
    | [] => Ok []
    | g :: gs' => match reindex_gate indices g with
                  | Err e => Err e
                  | Ok g' => match reindex_gates indices gs' with
                             | Err e => Err e
                             | Ok r => Ok (g' :: r)
                             end
                  end
    end.

  Definition reindexed_matrix (indices : list Z) (gs : list (gate T)) : result mat :=
    match reindex_gates indices gs with
    | Err e => Err e
    | Ok gs' => gates_matrix N (Z.of_nat (length indices)) gs'
    end.

  (* np.unravel_index(np.argmax(np.abs(A)), A.shape): the FIRST position, row-major,
     of the entry of largest magnitude.  Left-to-right scan carrying
     (best position, best magnitude); the best is replaced only by a STRICTLY
     larger magnitude. *)
  Fixpoint argmax_row (r : list C) (i j : nat) (best : (nat * nat) * T) : (nat * nat) * T :=
    match r with
    | [] => best
    | x :: r' =>
        let m := cabs N x in
        argmax_row r' i (S j) (if nltb N (snd best) m then ((i, j), m) else best)
    end.
  Fixpoint argmax_rows (A : mat) (i : nat) (best : (nat * nat) * T) : (nat * nat) * T :=
    match A with
    | [] => best
    | r :: A' => argmax_rows A' (S i) (argmax_row r i 0 best)
    end.
  (* the scan starts from entry (0,0); without one (empty matrix) np.argmax raises ValueError *)
  Definition argmax_entry (A : mat) : option (nat * nat) :=
    match A with
    | (x :: _) :: _ => Some (fst (argmax_rows A 0 ((0, 0), cabs N x)))
    | _ => None
    end.

  Definition mat_get (A : mat) (ij : nat * nat) : C := nth (snd ij) (nth (fst ij) A []) (c0 N).
  Definition mat_scale (k : C) (A : mat) : mat := map (map (cmul N k)) A.

  (* np.allclose(a, b, atol=tol): |a-b| <= tol + rtol*|b| (rtol stays numpy's default) *)
  Definition close_c_tol (tol : T) (a b : C) : bool :=
    nleb N (cabs N (csub N a b)) (nadd N tol (nmul N (rtol N) (cabs N b))).
  Definition mat_allclose_tol (tol : T) (A B : mat) : bool :=
    Nat.eqb (length A) (length B) &&
    forallb (fun ab => Nat.eqb (length (fst ab)) (length (snd ab)) &&
                       forallb (fun xy => close_c_tol tol (fst xy) (snd xy)) (combine (fst ab) (snd ab)))
            (combine A B).

  (* the final comparison is np.allclose(A, phase * B, atol=ATOL) *)
  Definition equiv_up_to_phase (A B : mat) : result bool :=
    match argmax_entry A with
    | None => Err EValue                                   (* argmax of an empty sequence *)
    | Some ij =>
        if nltb N (cabs N (mat_get A ij)) (atol N) || nltb N (cabs N (mat_get B ij)) (atol N) then Ok false
        else Ok (mat_allclose_tol (atol N) A (mat_scale (cdiv N (mat_get A ij) (mat_get B ij)) B))
    end.

  Definition gates_qubits (gs : list (gate T)) : list Z := flat_map (@gate_qubits T) gs.

  (* check_gate_replacement: Ok tt accepted, Err EValue rejected *)
  Definition check_replacement (g : gate T) (repl : list (gate T)) : result unit :=
    let idx := gate_qubits g in
    if negb (zsubset (gates_qubits repl) idx) then Err EValue
    else match reindexed_matrix idx [g] with
         | Err e => Err e
         | Ok A => match reindexed_matrix idx repl with
                   | Err e => Err e
                   | Ok B => match equiv_up_to_phase A B with
                             | Err e => Err e
                             | Ok true => Ok tt
                             | Ok false => Err EValue
                             end
                   end
         end.

  (* compare_gates with the iteration order of the union made explicit *)
  Definition compare_gates_ord (order : list Z) (g1 g2 : gate T) : result bool :=
    match reindexed_matrix order [g1] with
    | Err e => Err e
    | Ok A => match reindexed_matrix order [g2] with
              | Err e => Err e
              | Ok B => equiv_up_to_phase A B
              end
    end.
  Definition union_order (g1 g2 : gate T) : list Z := zdedup (gate_qubits g1 ++ gate_qubits g2).
  Definition compare_gates (g1 g2 : gate T) : result bool := compare_gates_ord (union_order g1 g2) g1 g2.

  (* BlochSphereRotation.__eq__ *)
  Definition bsr_eq (q1 : Z) (ax1 : axis3 T) (a1 p1 : T) (q2 : Z) (ax2 : axis3 T) (a2 p2 : T) : bool :=
    let same_phase := nleb N (nabs N (nsub N p1 p2)) (atol N) in
    if nltb N (nabs N a1) (atol N) && nltb N (nabs N a2) (atol N) then same_phase
    else if negb (Z.eqb q1 q2) then false
    else
      if close_axis N ax1 ax2 then same_phase && nltb N (nabs N (nsub N a1 a2)) (atol N)
      else if close_axis N ax1 (neg_axis N ax2) then
        if same_phase && nltb N (nabs N (nadd N a1 a2)) (atol N) then true
        else
          nleb N (nabs N (nsub N (nabs N (nsub N p1 p2)) (pi N))) (atol N) &&
          (nltb N (nabs N (nsub N (nabs N a1) (pi N))) (atol N) &&
           nltb N (nabs N (nsub N (nabs N a2) (pi N))) (atol N))
      else false.

  (* g1 == g2 as Python dispatches it on the class of g1 *)
  Definition gate_eq (g1 g2 : gate T) : result bool :=
    match g1, g2 with
    | BSR q1 ax1 a1 p1, BSR q2 ax2 a2 p2 => Ok (bsr_eq q1 ax1 a1 p1 q2 ax2 a2 p2)
    | _, _ => compare_gates g1 g2
    end.
End Check.
