(* Builder.v — circuit_builder.py (as repaired: negative indices refused):
   one builder call either appends one statement or raises and leaves the
   builder's IR unchanged. Calls carry dynamically typed Python values. *)
From Coq Require Import ZArith List Bool String.
Import ListNotations.
From OSQ Require Import Num IR Construct DefaultTable ParserExpand.
Open Scope string_scope.

Section Builder.
  Context {T : Type} (N : Num T).

  Inductive pyval :=
  | VInt (z : Z) | VBool (b : bool) | VStr (s : string) | VNone
  | VQubitObj (z : Z) | VBitObj (z : Z) | VFloatObj (x : T) | VIntObj (z : Z).

  Inductive bcall := BInstr (name : string) (args : list pyval) | BComment (text : string).

  (* isinstance(arg, expected_type) for the annotation kinds, and the converted argument *)
  Definition convert (k : pkind) (v : pyval) : option (arg T) :=
    match k, v with
    | KQ, VInt z => Some (AQ z)
    | KQ, VBool b => Some (AQ (if b then 1 else 0)%Z)
    | KQ, VQubitObj z => Some (AQ z)
    | KQ, VIntObj z => Some (AQ z)
    | KF, VFloatObj x => Some (AF x)
    | KI, VInt z => Some (AI z)
    | KI, VBool b => Some (AI (if b then 1 else 0)%Z)
    | KI, VIntObj z => Some (AI z)
    | KB, VBitObj z => Some (AB z)
    | _, _ => None
    end.

  (* _check_generator_f_args: per parameter, in order: missing -> IndexError, wrong type -> TypeError,
     qubit / bit out of bounds -> IndexError *)
  Fixpoint check_args (nq nb : Z) (ps : list (string * pkind)) (vs : list pyval) : result (list (arg T)) :=
    match ps with
    | [] => Ok []
    | (_, k) :: ps' =>
        match vs with
        | [] => Err EIndex
        | v :: vs' =>
            match convert k v with
            | None => Err EType
            | Some a =>
                let in_bounds :=
                  match a with
                  | AQ q => Z.leb 0 q && Z.ltb q nq
                  | AB b => Z.leb 0 b && Z.ltb b nb
                  | _ => true
                  end in
                if negb in_bounds then Err EIndex
                else match check_args nq nb ps' vs' with
                     | Err e => Err e
                     | Ok r => Ok (a :: r)
                     end
            end
        end
    end.

  Definition lookup_params (name : string) : result (ikind * string * list (string * pkind)) :=
    if mem_str name hand_measure_set then
      match find (fun e => String.eqb (fst (fst e)) name) hand_measures with
      | Some e => Ok (KMeasure, name, snd (fst e))
      | None => Err EValue
      end
    else if mem_str name hand_reset_set then
      match find (fun e => String.eqb (fst e) name) hand_resets with
      | Some e => Ok (KReset, name, snd e)
      | None => Err EValue
      end
    else
      let target := if mem_str name hand_gate_set then Some name else assoc_str name hand_aliases in
      match target with
      | None => Err EValue
      | Some fname => match find_entry fname hand_table with
                      | Some e => Ok (KGate, fname, e_params e)
                      | None => Err EValue
                      end
      end.

  Fixpoint contains_close (s : string) : bool := contains "*/" s.

  Definition builder_step (nq nb : Z) (st : list (stmt T) * positive) (c : bcall) : result (list (stmt T) * positive) :=
    let '(ir, next) := st in
    match c with
    | BComment t => if contains "*/" t then Err EValue else Ok ((ir ++ [SComment t])%list, next)
    | BInstr name vs =>
        match lookup_params name with
        | Err e => Err e
        | Ok (k, fname, ps) =>
            match check_args nq nb ps vs with
            | Err e => Err e
            | Ok args =>
                if Nat.ltb (List.length ps) (List.length vs) then Err EType     (* too many positional arguments *)
                else match eval_call N next (mkCall k fname args) with
                     | Err e => Err e
                     | Ok s => Ok ((ir ++ [s])%list, Pos.succ next)
                     end
            end
        end
    end.

  (* a failing call leaves the builder as it was and the sequence goes on *)
  Fixpoint builder_run (nq nb : Z) (st : list (stmt T) * positive) (cs : list bcall)
    : list (stmt T) * positive * list (option err) :=
    match cs with
    | [] => (st, [])
    | c :: rest =>
        match builder_step nq nb st c with
        | Err e => let '(st', log) := builder_run nq nb st rest in (st', Some e :: log)
        | Ok st1 => let '(st', log) := builder_run nq nb st1 rest in (st', None :: log)
        end
    end.
End Builder.
Arguments pyval : clear implicits.
Arguments bcall : clear implicits.
