(* Merge.v — merger/general_merger.py: compose_bloch_sphere_rotations,
   try_name_anonymous_bloch, merge_single_qubit_gates. *)
From Coq Require Import ZArith List Bool String.
Import ListNotations.
From OSQ Require Import Num IR Construct DefaultTable ABA.
Open Scope string_scope.

Section Merge.
  Context {T : Type} (N : Num T).
  Notation "x + y" := (nadd N x y).
  Notation "x - y" := (nsub N x y).
  Notation "x * y" := (nmul N x y).
  Notation "x / y" := (ndiv N x y).
  Notation "- x" := (nneg N x).
  Notation "x <? y" := (nltb N x y).
  Notation two := (nofZ N 2).
  Notation one := (nofZ N 1).

  Definition dot3 (a b : axis3 T) : T := ax_x a * ax_x b + ax_y a * ax_y b + ax_z a * ax_z b.
  Definition cross3 (a b : axis3 T) : axis3 T :=
    (ax_y a * ax_z b - ax_z a * ax_y b, ax_z a * ax_x b - ax_x a * ax_z b, ax_x a * ax_y b - ax_y a * ax_x b).

  (* compose_bloch_sphere_rotations(a, b) on one qubit: rotation fields and
     the inherited (generator, arguments) *)
  Definition compose (q : Z) (axa : axis3 T) (anga pha : T) (gia : ginfo T)
                     (axb : axis3 T) (angb phb : T) (gib : ginfo T) : gate T * ginfo T :=
    let ca := ncos N (anga / two) in let sa := nsin N (anga / two) in
    let cb := ncos N (angb / two) in let sb := nsin N (angb / two) in
    let arg := clamp1 N (ca * cb - sa * sb * dot3 axa axb) in
    let combined := two * nacos N arg in
    let s := nsin N (combined / two) in
    if nabs N s <? atol N then (bsr_identity N q, anon)
    else
      let k := one / s in
      let cr := cross3 axa axb in
      let comp (x y z : T) : T := nround N 7 (k * (sa * cb * x + ca * sb * y + sa * sb * z)) in
      let axis := (comp (ax_x axa) (ax_x axb) (ax_x cr), comp (ax_y axa) (ax_y axb) (ax_y cr),
                   comp (ax_z axa) (ax_z axb) (ax_z cr)) in
      let phase := nround N 7 (pha + phb) in
      let ida := is_identity N (BSR q axa anga pha) in
      let idb := is_identity N (BSR q axb angb phb) in
      let gi := if ida then gib else if idb then gia else anon in
      (mk_bsr N q axis combined phase, gi).

  Definition compose_gates (a b : gate T * ginfo T) : result (gate T * ginfo T) :=
    match fst a, fst b with
    | BSR qa axa anga pha, BSR qb axb angb phb =>
        if Z.eqb qa qb then Ok (compose qa axa anga pha (snd a) axb angb phb (snd b)) else Err EValue
    | _, _ => Err EType
    end.

  (* try_name_anonymous_bloch *)
  Fixpoint try_name_in (names : list string) (q : Z) (ax : axis3 T) (angle phase : T) : option (gate T * ginfo T) :=
    match names with
    | [] => None
    | nm :: names' =>
        match default_gate N nm [AQ q] with
        | Ok (BSR q' gax gang gph, gi) =>
            if close_axis N gax ax && close_r N gang angle && close_r N gph phase
            then Some (BSR q' gax gang gph, gi)
            else try_name_in names' q ax angle phase
        | _ => try_name_in names' q ax angle phase
        end
    end.

  Definition try_name (x : gate T * ginfo T) : gate T * ginfo T :=
    match fst x with
    | BSR q ax angle phase =>
        match try_name_in hand_noparam q ax angle phase with Some y => y | None => x end
    | _ => x
    end.

  Definition accs := list (gate T * ginfo T).
  Definition ident (q : Z) : gate T * ginfo T :=
    match default_gate N "I" [AQ q] with Ok r => r | Err _ => (bsr_identity N q, anon) end.

  Definition acc_get (a : accs) (q : Z) : option (gate T * ginfo T) :=
    if Z.ltb q 0 then None else nth_error a (Z.to_nat q).

  Fixpoint acc_set (a : accs) (i : nat) (x : gate T * ginfo T) : accs :=
    match a, i with
    | [], _ => []
    | _ :: a', O => x :: a'
    | y :: a', S i' => y :: acc_set a' i' x
    end.

  (* flush the accumulators of the operand qubits, in operand order *)
  Fixpoint flush (a : accs) (next : positive) (qs : list Z) (out : list (stmt T))
    : result (accs * positive * list (stmt T)) :=
    match qs with
    | [] => Ok (a, next, out)
    | q :: qs' =>
        match acc_get a q with
        | None => Err EKey
        | Some x =>
            if is_identity N (fst x) then flush a next qs' out
            else flush (acc_set a (Z.to_nat q) (ident q)) (Pos.succ next) qs' (SGate next (fst x) (snd x) :: out)
        end
    end.

  (* main loop; [out] is the emitted prefix in reverse order *)
  Fixpoint merge_loop (a : accs) (next : positive) (ir : list (stmt T)) (out : list (stmt T))
    : result (accs * positive * list (stmt T)) :=
    match ir with
    | [] => Ok (a, next, out)
    | SComment t :: rest => merge_loop a next rest (SComment t :: out)
    | SGate o (BSR q ax ang ph) gi :: rest =>
        match acc_get a q with
        | None => Err EKey
        | Some x =>
            match compose_gates (BSR q ax ang ph, gi) x with
            | Err e => Err e
            | Ok y => merge_loop (acc_set a (Z.to_nat q) y) next rest out
            end
        end
    | s :: rest =>
        match flush a next (stmt_qubits s) out with
        | Err e => Err e
        | Ok (a', next', out') => merge_loop a' next' rest (s :: out')
        end
    end.

  Fixpoint final_flush (a : accs) (next : positive) (out : list (stmt T)) : list (stmt T) :=
    match a with
    | [] => out
    | x :: a' =>
        if is_identity N (fst x) then final_flush a' next out
        else
          let y := if is_anonymous (snd x) then try_name x else x in
          final_flush a' (Pos.succ next) (SGate next (fst y) (snd y) :: out)
    end.

  Fixpoint max_oid (ir : list (stmt T)) : positive :=
    match ir with
    | [] => 1%positive
    | SGate o _ _ :: r | SMeasure o _ _ _ _ :: r | SReset o _ _ :: r => Pos.max o (max_oid r)
    | SComment _ :: r => max_oid r
    end.

  Definition merge (n : Z) (ir : list (stmt T)) : result (list (stmt T)) :=
    let a0 := map (fun i => ident (Z.of_nat i)) (seq 0 (Z.to_nat n)) in
    match merge_loop a0 (Pos.succ (max_oid ir)) ir [] with
    | Err e => Err e
    | Ok (a, next, out) => Ok (List.rev (final_flush a next out))
    end.
End Merge.
