(* Reader.v — an executable reader for the texts produced by Model/Writer.v:
   [read3] for the cQASM 3 text of [write3] and [read1] for the cQASM 1 text of
   [export_v1].  Plain Gallina over [string], total, [option]-valued; the
   reader knows nothing about the circuit that was written.

   The reader is line based.  The text is cut at every newline character
   ([split_on]); the header lines are checked literally ("version 3.0", an
   empty line, "qubit[n] q", then either an empty line or "bit[m] b"); in the
   body ([read_body]) empty lines are skipped and every other line is
   classified by [read_line]:

     name(p1, p2) q[i], q[j]      RGate name [p1; p2] [i; j]
     name q[i]                    RGate name [] [i]          (also reset)
     b[k] = name q[i]             RAssign k name i           (measure)
     /* text */                   RComment text              (text without "*/")
     anything else                RRaw line

   A block comment may span several lines: a line "/* x" whose rest x has no
   terminator "*/" opens a comment; the following lines, EMPTY ONES INCLUDED,
   are accumulated (joined by the newline character) up to the first line
   containing "*/"; if that line is "u */" with no earlier "*/", the result is
   the single RComment (x NL ... NL u); otherwise (something follows the
   terminator, or no blank precedes it) the whole block is kept as one RRaw; a
   comment still open at the end of the text is one RRaw.  (The first "*/"
   after the opening ends the comment, as in the grammar; a "*/" cannot
   straddle a newline, so looking line by line finds the first one.)

   A parameter is an integer ('-'? DIGIT+, [RInt]), a float literal of
   Theory/Lexer.v with an optional unary minus ([RNumLit], the literal text is
   kept) or a bit reference b[k] ([RB]).  Identifiers are
   [A-Za-z_][A-Za-z0-9_]*, indices are DIGIT+.  No proofs in this file. *)
From Coq Require Import ZArith List Bool String Ascii.
Import ListNotations.
From OSQ Require Import Dec Lexer.
Open Scope string_scope.

Inductive rarg :=
| RQ (q : Z)                 (* q[i] (only in the cQASM 1 argument list) *)
| RB (b : Z)                 (* b[k] *)
| RNumLit (lit : string)     (* a real parameter, kept as its literal text *)
| RInt (k : Z).              (* an integer parameter *)

Inductive rline :=
| RGate (name : string) (params : list rarg) (qubits : list Z)
| RAssign (bit : Z) (name : string) (qubit : Z)
| RComment (text : string)
| RRaw (text : string).

Record rprogram := { r_version : string; r_nq : Z; r_nb : Z; r_lines : list rline }.

(* ------------------------------------------------------------------ *)
(* characters and generic string functions                              *)

Definition nl_char : ascii := ascii_of_nat 10.

Definition is_letter (c : ascii) : bool :=
  let n := nat_of_ascii c in
  (Nat.leb 65 n && Nat.leb n 90) || (Nat.leb 97 n && Nat.leb n 122).

Definition is_ident_start (c : ascii) : bool := is_letter c || Ascii.eqb c "_".
Definition is_ident_char (c : ascii) : bool := is_letter c || is_digit c || Ascii.eqb c "_".

Fixpoint forall_chars (p : ascii -> bool) (s : string) : bool :=
  match s with EmptyString => true | String c s' => p c && forall_chars p s' end.

(* [A-Za-z_][A-Za-z0-9_]* *)
Definition ident_ok (s : string) : bool :=
  match s with
  | EmptyString => false
  | String c r => is_ident_start c && forall_chars is_ident_char r
  end.

(* the longest prefix of characters satisfying p, and the rest *)
Fixpoint span (p : ascii -> bool) (s : string) : string * string :=
  match s with
  | EmptyString => ("", "")
  | String c s' =>
      if p c then let '(a, b) := span p s' in (String c a, b)
      else ("", s)
  end.

(* str.split(d): the pieces between the occurrences of d (never the empty list) *)
Fixpoint split_on (d : ascii) (s : string) : list string :=
  match s with
  | EmptyString => [""]
  | String c s' =>
      if Ascii.eqb c d then "" :: split_on d s'
      else match split_on d s' with
           | [] => [String c ""]
           | l :: ls => String c l :: ls
           end
  end.

Fixpoint strip_prefix (p s : string) : option string :=
  match p with
  | EmptyString => Some s
  | String a p' =>
      match s with
      | String b s' => if Ascii.eqb a b then strip_prefix p' s' else None
      | EmptyString => None
      end
  end.

Fixpoint all_opt {A : Type} (l : list (option A)) : option (list A) :=
  match l with
  | [] => Some []
  | None :: _ => None
  | Some x :: l' => match all_opt l' with Some r => Some (x :: r) | None => None end
  end.

Definition nonempty (s : string) : bool := negb (is_empty s).

(* ------------------------------------------------------------------ *)
(* tokens                                                               *)

(* c '[' DIGIT+ ']' : the index and what follows *)
Definition read_index (pfx : ascii) (s : string) : option (Z * string) :=
  match s with
  | String c (String o r) =>
      if Ascii.eqb c pfx && Ascii.eqb o "[" then
        let '(ds, r') := span_digits r in
        match r' with
        | String cl r'' =>
            if Ascii.eqb cl "]" && nonempty ds then Some (digits_val 0 ds, r'') else None
        | EmptyString => None
        end
      else None
  | _ => None
  end.

(* the whole string is c[DIGIT+] *)
Definition read_index_only (pfx : ascii) (s : string) : option Z :=
  match read_index pfx s with
  | Some (k, EmptyString) => Some k
  | _ => None
  end.

(* '-'? DIGIT+ *)
Definition read_int (s : string) : option Z :=
  match s with
  | String c s' =>
      if Ascii.eqb c "-" then (if digits1 s' then Some (- digits_val 0 s')%Z else None)
      else if digits1 s then Some (digits_val 0 s) else None
  | EmptyString => None
  end.

(* the items of a list separated by ", " : the first piece as it is, the
   others without their leading space *)
Definition items (s : string) : list (option string) :=
  match split_on "," s with
  | [] => []
  | x :: rest => Some x :: map (strip_prefix " ") rest
  end.

(* a parameter of a cQASM 3 gate *)
Definition read_param3 (tok : string) : option rarg :=
  if is_signed_float_literal tok then Some (RNumLit tok)
  else match read_int tok with
       | Some k => Some (RInt k)
       | None => option_map RB (read_index_only "b" tok)
       end.

Definition bind_list {A B : Type} (l : list (option A)) (f : A -> option B) : option (list B) :=
  match all_opt l with
  | Some xs => all_opt (map f xs)
  | None => None
  end.

Definition read_params3 (s : string) : option (list rarg) := bind_list (items s) read_param3.
Definition read_qubits (s : string) : option (list Z) := bind_list (items s) (read_index_only "q").

(* ------------------------------------------------------------------ *)
(* cQASM 3 lines                                                        *)

(* name q[i], q[j]   or   name(p1, p2) q[i], q[j] *)
Definition read_gate3 (l : string) : option rline :=
  let '(nm, r) := span is_ident_char l in
  if ident_ok nm then
    match r with
    | String c r1 =>
        if Ascii.eqb c " " then
          option_map (RGate nm []) (read_qubits r1)
        else if Ascii.eqb c "(" then
          let '(inside, r2) := span (fun x => negb (Ascii.eqb x ")")) r1 in
          match r2 with
          | String _ (String sp r3) =>
              if Ascii.eqb sp " " then
                match read_params3 inside, read_qubits r3 with
                | Some ps, Some qs => Some (RGate nm ps qs)
                | _, _ => None
                end
              else None
          | _ => None
          end
        else None
    | EmptyString => None
    end
  else None.

(* b[k] = name q[i] *)
Definition read_assign3 (l : string) : option rline :=
  match read_index "b" l with
  | Some (k, r) =>
      match strip_prefix " = " r with
      | Some r1 =>
          let '(nm, r2) := span is_ident_char r1 in
          if ident_ok nm then
            match strip_prefix " " r2 with
            | Some r3 => option_map (RAssign k nm) (read_index_only "q" r3)
            | None => None
            end
          else None
      | None => None
      end
  | None => None
  end.

(* s = t ++ " */" : t *)
Fixpoint until_close (s : string) : option string :=
  if String.eqb s " */" then Some ""
  else match s with
       | EmptyString => None
       | String c s' => option_map (String c) (until_close s')
       end.

(* "*/" occurs in s *)
Fixpoint has_close (s : string) : bool :=
  match s with
  | EmptyString => false
  | String c s' =>
      (Ascii.eqb c "*" && match s' with String d _ => Ascii.eqb d "/" | EmptyString => false end)
      || has_close s'
  end.

(* "/* " t " */" where t has no comment terminator *)
Definition read_comment (l : string) : option rline :=
  match strip_prefix "/* " l with
  | Some r =>
      match until_close r with
      | Some t => if has_close t then None else Some (RComment t)
      | None => None
      end
  | None => None
  end.

(* s = t ++ " */" where t has no comment terminator : t *)
Definition close_comment (s : string) : option string :=
  match until_close s with
  | Some t => if has_close t then None else Some t
  | None => None
  end.

(* the line is "/* " r and r has no comment terminator: a block comment is
   opened and not closed on this line : r *)
Definition opens_comment (l : string) : option string :=
  match strip_prefix "/* " l with
  | Some r => if has_close r then None else Some r
  | None => None
  end.

Definition first_some {A : Type} (a b : option A) : option A :=
  match a with Some _ => a | None => b end.

Definition read_line3 (l : string) : rline :=
  match first_some (read_gate3 l) (first_some (read_assign3 l) (read_comment l)) with
  | Some r => r
  | None => RRaw l
  end.

(* ------------------------------------------------------------------ *)
(* header                                                               *)

(* pre DIGIT+ post *)
Definition read_decl (pre post l : string) : option Z :=
  match strip_prefix pre l with
  | Some r =>
      let '(ds, r') := span_digits r in
      if nonempty ds && String.eqb r' post then Some (digits_val 0 ds) else None
  | None => None
  end.

Definition is_version_char (c : ascii) : bool := is_digit c || Ascii.eqb c ".".

(* "version " v *)
Definition read_version (l : string) : option string :=
  match strip_prefix "version " l with
  | Some v => if nonempty v && forall_chars is_version_char v then Some v else None
  | None => None
  end.

Definition body_lines (ls : list string) : list string := filter nonempty ls.

(* the lines of the body, read with [rl]; [acc] is the text of the block
   comment that is open (None: no comment is open).  Outside a comment empty
   lines are skipped; inside, every line belongs to the comment. *)
Fixpoint read_body (rl : string -> rline) (acc : option string) (ls : list string) : list rline :=
  match ls with
  | [] => match acc with Some a => [RRaw ("/* " ++ a)] | None => [] end
  | l :: ls' =>
      match acc with
      | None =>
          if is_empty l then read_body rl None ls'
          else match opens_comment l with
               | Some r => read_body rl (Some r) ls'
               | None => rl l :: read_body rl None ls'
               end
      | Some a =>
          if has_close l then
            match close_comment l with
            | Some u => RComment (a ++ String nl_char u)
            | None => RRaw ("/* " ++ a ++ String nl_char l)
            end :: read_body rl None ls'
          else read_body rl (Some (a ++ String nl_char l)) ls'
      end
  end.

Definition read3 (text : string) : option rprogram :=
  match split_on nl_char text with
  | v :: e :: q :: rest =>
      match read_version v, read_decl "qubit[" "] q" q with
      | Some ver, Some n =>
          if is_empty e then
            match rest with
            | [] => Some {| r_version := ver; r_nq := n; r_nb := 0; r_lines := [] |}
            | b :: rest' =>
                if is_empty b then
                  Some {| r_version := ver; r_nq := n; r_nb := 0;
                          r_lines := read_body read_line3 None rest' |}
                else
                  match read_decl "bit[" "] b" b with
                  | Some m => Some {| r_version := ver; r_nq := n; r_nb := m;
                                      r_lines := read_body read_line3 None rest' |}
                  | None => None
                  end
            end
          else None
      | _, _ => None
      end
  | _ => None
  end.

(* ------------------------------------------------------------------ *)
(* cQASM 1                                                              *)

(* an argument of a cQASM 1 instruction: q[i], an integer, or a real in
   Python's rendering (accepted when the repaired text is a float literal) *)
Definition read_arg1 (tok : string) : option rarg :=
  match read_index_only "q" tok with
  | Some k => Some (RQ k)
  | None =>
      if is_signed_float_literal (fix_literal tok) then Some (RNumLit tok)
      else option_map RInt (read_int tok)
  end.

Definition is_rq (a : rarg) : bool := match a with RQ _ => true | _ => false end.

Fixpoint rq_ids (l : list rarg) : list Z :=
  match l with
  | [] => []
  | RQ q :: l' => q :: rq_ids l'
  | _ :: l' => rq_ids l'
  end.

(* name q[i], q[j], p1, p2 *)
Definition read_gate1 (l : string) : option rline :=
  let '(nm, r) := span is_ident_char l in
  if ident_ok nm then
    match strip_prefix " " r with
    | Some r1 =>
        match bind_list (items r1) read_arg1 with
        | Some args => Some (RGate nm (filter (fun a => negb (is_rq a)) args) (rq_ids args))
        | None => None
        end
    | None => None
    end
  else None.

Definition read_line1 (l : string) : rline :=
  match first_some (read_gate1 l) (read_comment l) with
  | Some r => r
  | None => RRaw l
  end.

(* the register size and the lines; no "qubits" line means size 0 *)
Definition read1 (text : string) : option (Z * list rline) :=
  match split_on nl_char text with
  | v :: rest =>
      match read_version v with
      | Some ver =>
          if String.eqb ver "1.0" then
            match rest with
            | [] => Some (0%Z, [])
            | [e] => if is_empty e then Some (0%Z, []) else None
            | e :: q :: rest' =>
                if is_empty e then
                  if is_empty q then Some (0%Z, read_body read_line1 None rest')
                  else match read_decl "qubits " "" q with
                       | Some n => Some (n, read_body read_line1 None rest')
                       | None => None
                       end
                else None
            end
          else None
      | None => None
      end
  | [] => None
  end.
