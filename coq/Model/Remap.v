(* Remap.v — mapper/mapping.py, general_mapper.py, qubit_remapper.py (as
   repaired: arguments are relabelled too, each Qubit object once, and the
   coverage check precedes any mutation). *)
From Coq Require Import ZArith List Bool.
Import ListNotations.
From OSQ Require Import Num IR.

(* Mapping(physical_qubit_register): keys 0..k-1 must equal set(values) *)
Definition mapping_ok (l : list Z) : bool :=
  zset_eq (map Z.of_nat (seq 0 (length l))) l.

(* Mapper(qubit_register_size, mapping) *)
Definition mapper_ok (size : Z) (l : list Z) : bool :=
  mapping_ok l && Z.eqb size (Z.of_nat (length l)).

Definition apply_mapping (l : list Z) (q : Z) : Z :=
  if Z.ltb q 0 then q else nth (Z.to_nat q) l q.

Definition covered (l : list Z) (q : Z) : bool := Z.leb 0 q && Z.ltb q (Z.of_nat (length l)).

Section Remap.
  Context {T : Type}.

  Definition map_arg (f : Z -> Z) (a : arg T) : arg T :=
    match a with AQ q => AQ (f q) | _ => a end.

  Definition map_ginfo (f : Z -> Z) (gi : ginfo T) : ginfo T :=
    mkGinfo (gname gi) (option_map (map (map_arg f)) (gargs gi)).

  Definition ginfo_qubits (gi : ginfo T) : list Z :=
    match gargs gi with
    | None => []
    | Some args => flat_map (fun a => match a with AQ q => [q] | _ => [] end) args
    end.

  Definition stmt_all_qubits (s : stmt T) : list Z :=
    match s with
    | SGate _ g gi => gate_qubits g ++ ginfo_qubits gi
    | SMeasure _ q _ _ gi => q :: ginfo_qubits gi
    | SReset _ q gi => q :: ginfo_qubits gi
    | SComment _ => []
    end.

  Definition remap_stmt (f : Z -> Z) (s : stmt T) : stmt T :=
    match s with
    | SGate o g gi => SGate o (map_gate_qubits f g) (map_ginfo f gi)
    | SMeasure o q b ax gi => SMeasure o (f q) b ax (map_ginfo f gi)
    | SReset o q gi => SReset o (f q) (map_ginfo f gi)
    | SComment t => SComment t
    end.

  (* remap_ir(circuit, mapping) *)
  Definition remap (nq : Z) (l : list Z) (ir : list (stmt T)) : result (list (stmt T)) :=
    if Z.ltb nq (Z.of_nat (length l)) then Err EValue
    else if negb (forallb (fun s => forallb (covered l) (stmt_all_qubits s)) ir) then Err EKey
    else Ok (map (remap_stmt (apply_mapping l)) ir).
End Remap.
