(* Writer.v — writer/writer.py (cQASM 3 text) and exporter/cqasmv1_exporter.py
   (cQASM 1 text), as repaired. The 8-digit decimalisation of a float is the
   oracle [dec8]; the text of an anonymous gate (numpy's repr) is the oracle
   [anon_text]. *)
From Coq Require Import ZArith List Bool String Ascii.
Import ListNotations.
From OSQ Require Import Num IR Dec.
Open Scope string_scope.

Section Writer.
  Context {T : Type}.
  Variable dec8 : T -> dec.
  Variable anon_text : gate T -> string.

  Definition qstr (q : Z) : string := "q[" ++ string_of_Z q ++ "]".
  Definition bstr (b : Z) : string := "b[" ++ string_of_Z b ++ "]".

  Fixpoint join (sep : string) (l : list string) : string :=
    match l with
    | [] => ""
    | [x] => x
    | x :: l' => x ++ sep ++ join sep l'
    end.

  Definition v3_float (x : T) : string := fix_literal (render_py8 (dec8 x)).
  Definition v1_float (x : T) : string := render_py8 (dec8 x).

  Definition v3_arg (a : arg T) : string :=
    match a with AQ q => qstr q | AB b => bstr b | AF x => v3_float x | AI k => string_of_Z k end.

  Definition is_qarg (a : arg T) : bool := match a with AQ _ => true | _ => false end.

  Definition NL : string := String (ascii_of_nat 10) "".

  Definition name_of (gi : ginfo T) (dflt : string) : string :=
    match gname gi with Some n => n | None => dflt end.

  (* one statement of the cQASM 3 writer; None = the writer raises *)
  Definition v3_stmt (s : stmt T) : option string :=
    match s with
    | SComment t => Some (NL ++ "/* " ++ t ++ " */" ++ NL ++ NL)
    | SMeasure _ _ _ _ gi =>
        match gargs gi with
        | None => Some (name_of gi "<abstract_measure>" ++ NL)
        | Some (a0 :: a1 :: _) => Some (v3_arg a1 ++ " = " ++ name_of gi "" ++ " " ++ v3_arg a0 ++ NL)
        | Some _ => None
        end
    | SReset _ _ gi =>
        match gargs gi with
        | None => Some (name_of gi "<abstract_reset>" ++ NL)
        | Some (a0 :: _) => Some (name_of gi "" ++ " " ++ v3_arg a0 ++ NL)
        | Some _ => None
        end
    | SGate _ g gi =>
        match gargs gi with
        | None => Some (anon_text g ++ NL)
        | Some args =>
            let params := map v3_arg (filter (fun a => negb (is_qarg a)) args) in
            let qs := map v3_arg (filter is_qarg args) in
            let nm := name_of gi "" ++ (match params with [] => "" | _ => "(" ++ join ", " params ++ ")" end) in
            Some (nm ++ " " ++ join ", " qs ++ NL)
        end
    end.

  Definition is_ws (c : ascii) : bool :=
    let n := nat_of_ascii c in
    Nat.eqb n 32 || (Nat.leb 9 n && Nat.leb n 13) || (Nat.leb 28 n && Nat.leb n 31).

  Fixpoint rstrip (s : string) : string :=
    match s with
    | EmptyString => EmptyString
    | String c s' => match rstrip s' with
                     | EmptyString => if is_ws c then EmptyString else String c EmptyString
                     | r => String c r
                     end
    end.

  Fixpoint concat_opt (l : list (option string)) : option string :=
    match l with
    | [] => Some ""
    | None :: _ => None
    | Some x :: l' => match concat_opt l' with None => None | Some r => Some (x ++ r) end
    end.

  Definition write3 (nq nb : Z) (ir : list (stmt T)) : result string :=
    match concat_opt (map v3_stmt ir) with
    | None => Err EType
    | Some body =>
        Ok (rstrip ("version 3.0" ++ NL ++ NL ++ "qubit[" ++ string_of_Z nq ++ "] q" ++ NL ++
                    (if Z.ltb 0 nb then "bit[" ++ string_of_Z nb ++ "] b" ++ NL else "") ++ NL ++ body) ++ NL)
    end.

  (* ---- cQASM 1.0 exporter ---- *)
  Definition lower_ascii (c : ascii) : ascii :=
    let n := nat_of_ascii c in if Nat.leb 65 n && Nat.leb n 90 then ascii_of_nat (n + 32) else c.
  Fixpoint lower (s : string) : string :=
    match s with EmptyString => EmptyString | String c s' => String (lower_ascii c) (lower s') end.

  Definition v1_arg (a : arg T) : option string :=
    match a with AQ q => Some (qstr q) | AF x => Some (v1_float x) | AI k => Some (string_of_Z k) | AB _ => None end.

  Fixpoint all_some (l : list (option string)) : option (list string) :=
    match l with
    | [] => Some []
    | None :: _ => None
    | Some x :: l' => option_map (cons x) (all_some l')
    end.

  (* Ok line, Err EExport (UnsupportedGateError), Err EType (malformed) *)
  Definition v1_stmt (s : stmt T) : result string :=
    match s with
    | SComment t => Ok (NL ++ "/* " ++ t ++ " */" ++ NL ++ NL)
    | SMeasure _ _ _ _ gi =>
        match gargs gi with
        | Some (AQ q :: _) => Ok ("measure_z " ++ qstr q ++ NL)
        | _ => Err EType
        end
    | SReset _ _ gi =>
        match gargs gi with
        | Some (AQ q :: _) => Ok ("prep_z " ++ qstr q ++ NL)
        | _ => Err EType
        end
    | SGate _ g gi =>
        match gargs gi with
        | None => Err EExport
        | Some args =>
            match all_some (map v1_arg (filter (fun a => negb (is_qarg a)) args)),
                  all_some (map v1_arg (filter is_qarg args)) with
            | Some params, Some qs =>
                Ok (lower (name_of gi "") ++ " " ++ join ", " qs ++
                    (match params with [] => "" | _ => ", " ++ join ", " params end) ++ NL)
            | _, _ => Err EType
            end
        end
    end.

  Fixpoint concat_res (l : list (result string)) : result string :=
    match l with
    | [] => Ok ""
    | Err e :: _ => Err e
    | Ok x :: l' => match concat_res l' with Err e => Err e | Ok r => Ok (x ++ r) end
    end.

  Definition export_v1 (nq : Z) (ir : list (stmt T)) : result string :=
    match concat_res (map v1_stmt ir) with
    | Err e => Err e
    | Ok body =>
        Ok (rstrip ("version 1.0" ++ NL ++ NL ++ (if Z.ltb 0 nq then "qubits " ++ string_of_Z nq else "") ++
                    NL ++ NL ++ body) ++ NL)
    end.
End Writer.
