(* KernelCheck.v — all kernel ties in one statement *)
From Coq Require Import ZArith List Bool String.
Import ListNotations.
From OSQ Require Import Num IR Construct DefaultTable Matrix Check ABA Merge McKay CNOTDec Constants Kernels KernelTactics KC_aba_angles_ok KC_aba_gates_ok KC_compose_ok KC_can1_ok KC_is_identity_ok KC_bsr_eq_ok KC_mckay_decompose_ok KC_cnot_decompose_ok.

Definition source_kernels_checked : Prop :=
  (forall (T : Type) (N : Num T) ia ib alpha ax, gen_aba_angles N ia ib alpha ax = aba_angles N ia ib alpha ax) /\
  (forall (T : Type) (N : Num T) ia ib q ax angle phase,
     gen_aba_gates N ia ib q ax angle phase = aba_gates N ia ib (BSR q ax angle phase)) /\
  (forall (T : Type) (N : Num T) qa axa anga pha gia qb axb angb phb gib,
     gen_compose N qa axa anga pha gia qb axb angb phb gib =
     compose_gates N (BSR qa axa anga pha, gia) (BSR qb axb angb phb, gib)) /\
  (forall (T : Type) (N : Num T) ax angle phase, gen_can1 N ax angle phase = can1 N ax angle phase) /\
  (forall (T : Type) (N : Num T) q ax angle phase,
     gen_is_identity N q ax angle phase = is_identity N (BSR q ax angle phase)) /\
  (forall (T : Type) (N : Num T) q1 ax1 a1 p1 q2 ax2 a2 p2,
     gen_bsr_eq N q1 ax1 a1 p1 q2 ax2 a2 p2 = bsr_eq N q1 ax1 a1 p1 q2 ax2 a2 p2) /\
  (forall (T : Type) (N : Num T) q ax angle phase gi,
     gen_mckay_decompose N q ax angle phase gi = mckay_decompose N (BSR q ax angle phase) gi) /\
  (forall (T : Type) (N : Num T) c tq ax angle phase gi, Z.eqb c tq = false ->
     gen_cnot_decompose N c tq ax angle phase = cnot_decompose N (Ctrl c (BSR tq ax angle phase)) gi).
Lemma source_kernels_ok : source_kernels_checked.
Proof.
  exact (conj aba_angles_ok (conj aba_gates_ok (conj compose_ok (conj can1_ok (conj is_identity_ok
        (conj bsr_eq_ok (conj mckay_decompose_ok cnot_decompose_ok))))))).
Qed.
