(* generated: tie of one numeric kernel to the hand model *)
From Coq Require Import ZArith List Bool String.
Import ListNotations.
From OSQ Require Import Num IR Construct DefaultTable Matrix Check ABA Merge McKay CNOTDec Constants Kernels KernelTactics.

Lemma aba_angles_ok : forall (T : Type) (N : Num T) (ia ib : axis_id) (alpha : T) (ax : axis3 T),
  gen_aba_angles N ia ib alpha ax = aba_angles N ia ib alpha ax.
Proof. unfold aba_angles. tie. Qed.
