(* KernelCheck.v — the numeric kernels regenerated from the Python source (Gen/Kernels.v) equal the hand-written
   model, for every numeric type.  By computation: [reflexivity] where the two are convertible, otherwise the
   generic case analysis [tie] on every test both sides make.  The proof text does not depend on the source. *)
From Coq Require Import ZArith List Bool String.
Import ListNotations.
From OSQ Require Import Num IR Construct DefaultTable Matrix Check ABA Merge McKay CNOTDec Constants Kernels.

(* unfold everything except the functions both sides call with the same arguments *)
Ltac tie_norm :=
  cbv beta iota zeta delta -[default_gate rot_gate x90 aba_angles filter_identities normalize_angle
                              Z.eqb Z.sub Z.add Z.ltb Z.leb String.eqb].
(* the same, but the default gates X(q), CNOT(c, t) are computed from the table *)
Ltac tie_norm_gates :=
  cbv beta iota zeta delta -[rot_gate aba_angles filter_identities normalize_angle Z.eqb Z.sub Z.add Z.ltb Z.leb].
(* closed integer tests are evaluated *)
Ltac eval_closed :=
  repeat match goal with
  | |- context [Z.eqb ?a ?b] =>
      let v := eval compute in (Z.eqb a b) in
      match v with true => idtac | false => idtac end;
      change (Z.eqb a b) with v
  end.
(* one case analysis on a scrutinee that contains no other test *)
Ltac case_one :=
  once (match goal with
        | |- context [match ?c with _ => _ end] =>
            lazymatch c with
            | context [match _ with _ => _ end] => fail
            | _ => destruct c
            end
        end).
Ltac tie_cases :=
  tryif reflexivity then idtac
  else tryif case_one then (tie_norm; eval_closed; tie_cases)
  else fail "the kernel regenerated from the Python source differs from the hand-written model".
Ltac split_args :=
  repeat match goal with
         | x : axis_id |- _ => destruct x
         | x : ginfo _ |- _ => destruct x
         end.
Ltac tie := intros; tryif reflexivity then idtac else (split_args; tie_norm; eval_closed; tie_cases).
