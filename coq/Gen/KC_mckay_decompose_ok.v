(* generated: tie of one numeric kernel to the hand model *)
From Coq Require Import ZArith List Bool String.
Import ListNotations.
From OSQ Require Import Num IR Construct DefaultTable Matrix Check ABA Merge McKay CNOTDec Constants Kernels KernelTactics.

Lemma mckay_decompose_ok : forall (T : Type) (N : Num T) (q : Z) (ax : axis3 T) (angle phase : T) (gi : ginfo T),
  gen_mckay_decompose N q ax angle phase gi = mckay_decompose N (BSR q ax angle phase) gi.
Proof. tie. Qed.
