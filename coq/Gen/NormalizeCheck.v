(* NormalizeCheck.v — normalize_angle regenerated from common.py equals the model's, for every numeric instance. *)
From Coq Require Import ZArith List String.
From OSQ Require Import Num IR Construct DefaultTable DefaultGates Constants.

Lemma normalize_ok : forall (T : Type) (N : Num T) (x : T), gen_normalize_angle N x = normalize_angle N x.
Proof. reflexivity. Qed.
