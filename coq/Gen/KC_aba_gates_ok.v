(* generated: tie of one numeric kernel to the hand model *)
From Coq Require Import ZArith List Bool String.
Import ListNotations.
From OSQ Require Import Num IR Construct DefaultTable Matrix Check ABA Merge McKay CNOTDec Constants Kernels KernelTactics.

Lemma aba_gates_ok : forall (T : Type) (N : Num T) (ia ib : axis_id) (q : Z) (ax : axis3 T) (angle phase : T),
  gen_aba_gates N ia ib q ax angle phase = aba_gates N ia ib (BSR q ax angle phase).
Proof. tie. Qed.
