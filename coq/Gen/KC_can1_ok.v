(* generated: tie of one numeric kernel to the hand model *)
From Coq Require Import ZArith List Bool String.
Import ListNotations.
From OSQ Require Import Num IR Construct DefaultTable Matrix Check ABA Merge McKay CNOTDec Constants Kernels KernelTactics.

Lemma can1_ok : forall (T : Type) (N : Num T) (ax : axis3 T) (angle phase : T),
  gen_can1 N ax angle phase = can1 N ax angle phase.
Proof. tie. Qed.
