(* ConstCheck.v — the three constant ties in one statement *)
From Coq Require Import ZArith List String.
From OSQ Require Import Num IR Construct DefaultTable DefaultGates Constants.
From OSQ Require Export AtolCheck NormalizeCheck PrecisionCheck.

Definition source_constants_checked : Prop :=
  (gen_atol_num = 1 /\ gen_atol_den = 10000000)%Z /\
  (forall (T : Type) (N : Num T) (x : T), gen_normalize_angle N x = normalize_angle N x) /\
  (gen_writer_precision = 8 /\ gen_v1_precision = 8 /\ gen_qs_deg_precision = 5)%Z.
Lemma source_constants_ok : source_constants_checked.
Proof. exact (conj atol_ok (conj normalize_ok precisions_ok)). Qed.
