(* ConstCheck.v — tolerance, angle normalisation and printing precisions regenerated from the Python source
   equal the ones of the model. By computation. *)
From Coq Require Import ZArith List String.
From OSQ Require Import Num IR Construct DefaultTable DefaultGates Constants.

Lemma atol_ok : (gen_atol_num = 1 /\ gen_atol_den = 10000000)%Z. Proof. split; reflexivity. Qed.
Lemma normalize_ok : forall (T : Type) (N : Num T) (x : T), gen_normalize_angle N x = normalize_angle N x.
Proof. reflexivity. Qed.
Lemma precisions_ok : (gen_writer_precision = 8 /\ gen_v1_precision = 8 /\ gen_qs_deg_precision = 5)%Z.
Proof. repeat split; reflexivity. Qed.

Definition source_constants_checked : Prop :=
  (gen_atol_num = 1 /\ gen_atol_den = 10000000)%Z /\
  (forall (T : Type) (N : Num T) (x : T), gen_normalize_angle N x = normalize_angle N x) /\
  (gen_writer_precision = 8 /\ gen_v1_precision = 8 /\ gen_qs_deg_precision = 5)%Z.
Lemma source_constants_ok : source_constants_checked.
Proof. repeat split; reflexivity. Qed.
