(* generated: tie of one numeric kernel to the hand model *)
From Coq Require Import ZArith List Bool String.
Import ListNotations.
From OSQ Require Import Num IR Construct DefaultTable Matrix Check ABA Merge McKay CNOTDec Constants Kernels KernelTactics.

Lemma is_identity_ok : forall (T : Type) (N : Num T) (q : Z) (ax : axis3 T) (angle phase : T),
  gen_is_identity N q ax angle phase = is_identity N (BSR q ax angle phase).
Proof. tie. Qed.
