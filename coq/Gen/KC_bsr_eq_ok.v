(* generated: tie of one numeric kernel to the hand model *)
From Coq Require Import ZArith List Bool String.
Import ListNotations.
From OSQ Require Import Num IR Construct DefaultTable Matrix Check ABA Merge McKay CNOTDec Constants Kernels KernelTactics.

Lemma bsr_eq_ok : forall (T : Type) (N : Num T) (q1 : Z) (ax1 : axis3 T) (a1 p1 : T) (q2 : Z) (ax2 : axis3 T) (a2 p2 : T),
  gen_bsr_eq N q1 ax1 a1 p1 q2 ax2 a2 p2 = bsr_eq N q1 ax1 a1 p1 q2 ax2 a2 p2.
Proof. tie. Qed.
