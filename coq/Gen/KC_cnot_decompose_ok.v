(* generated: tie of one numeric kernel to the hand model *)
From Coq Require Import ZArith List Bool String.
Import ListNotations.
From OSQ Require Import Num IR Construct DefaultTable Matrix Check ABA Merge McKay CNOTDec Constants Kernels KernelTactics.

(* The control of a ControlledGate is not one of its target's qubits (ir.py, ControlledGate.__init__; Construct.mk_ctrl).
   Without this invariant the source builds CNOT(c, t) last and the model first: both then fail with a ValueError,
   possibly not the same one; the two are still equal (checked once with aba_angles unfolded, 12 minutes). *)
Lemma cnot_decompose_ok : forall (T : Type) (N : Num T) (c tq : Z) (ax : axis3 T) (angle phase : T) (gi : ginfo T),
  Z.eqb c tq = false ->
  gen_cnot_decompose N c tq ax angle phase = cnot_decompose N (Ctrl c (BSR tq ax angle phase)) gi.
Proof. intros T N c tq ax angle phase gi H. tie_norm_gates. destruct (Z.eqb c tq); [discriminate H|]. cbv beta iota zeta. eval_closed. tie_cases. Qed.
