(* TableCheck.v — the tables and constants regenerated from the Python source equal the
   hand-written ones all theorems are proved about. Decided by computation. *)
From Coq Require Import ZArith List String.
From OSQ Require Import Num IR Construct DefaultTable DefaultGates Constants.

Lemma table_ok : gen_table = hand_table. Proof. reflexivity. Qed.
Lemma noparam_ok : gen_noparam = hand_noparam. Proof. reflexivity. Qed.
Lemma gate_set_ok : gen_gate_set = hand_gate_set. Proof. reflexivity. Qed.
Lemma aliases_ok : gen_aliases = hand_aliases. Proof. reflexivity. Qed.
Lemma measures_ok : gen_measures = hand_measures. Proof. reflexivity. Qed.
Lemma measure_set_ok : gen_measure_set = hand_measure_set. Proof. reflexivity. Qed.
Lemma resets_ok : gen_resets = hand_resets. Proof. reflexivity. Qed.
Lemma reset_set_ok : gen_reset_set = hand_reset_set. Proof. reflexivity. Qed.
Lemma atol_ok : (gen_atol_num = 1 /\ gen_atol_den = 10000000)%Z. Proof. split; reflexivity. Qed.
Lemma normalize_ok : forall (T : Type) (N : Num T) (x : T), gen_normalize_angle N x = normalize_angle N x.
Proof. reflexivity. Qed.
Lemma precisions_ok : (gen_writer_precision = 8 /\ gen_v1_precision = 8 /\ gen_qs_deg_precision = 5)%Z.
Proof. repeat split; reflexivity. Qed.

(* everything the property files need in one statement *)
Definition source_tables_checked : Prop :=
  gen_table = hand_table /\ gen_noparam = hand_noparam /\ gen_gate_set = hand_gate_set /\
  gen_aliases = hand_aliases /\ gen_measures = hand_measures /\ gen_measure_set = hand_measure_set /\
  gen_resets = hand_resets /\ gen_reset_set = hand_reset_set /\
  (forall (T : Type) (N : Num T) (x : T), gen_normalize_angle N x = normalize_angle N x).
Lemma source_tables_ok : source_tables_checked.
Proof. repeat split; reflexivity. Qed.
