(* TableCheck.v — the DEFINITIONS of the default gates regenerated from the Python source equal the hand-written
   table all theorems are proved about; with SigCheck and ConstCheck, everything the property files need. *)
From Coq Require Import ZArith List String.
From OSQ Require Import Num IR Construct DefaultTable DefaultGates Constants SigCheck NormalizeCheck.

Lemma table_ok : gen_table = hand_table. Proof. reflexivity. Qed.

Definition source_tables_checked : Prop :=
  gen_table = hand_table /\ gen_noparam = hand_noparam /\ gen_gate_set = hand_gate_set /\
  gen_aliases = hand_aliases /\ gen_measures = hand_measures /\ gen_measure_set = hand_measure_set /\
  gen_resets = hand_resets /\ gen_reset_set = hand_reset_set /\
  (forall (T : Type) (N : Num T) (x : T), gen_normalize_angle N x = normalize_angle N x).
Lemma source_tables_ok : source_tables_checked.
Proof. repeat split; reflexivity. Qed.
