(* PrecisionCheck.v — the printing precisions read from writer.py, cqasmv1_exporter.py and
   quantify_scheduler_exporter.py on this run are the model's. By computation. *)
From Coq Require Import ZArith List String.
From OSQ Require Import Num IR Construct DefaultTable DefaultGates Constants.

Lemma precisions_ok : (gen_writer_precision = 8 /\ gen_v1_precision = 8 /\ gen_qs_deg_precision = 5)%Z.
Proof. repeat split; reflexivity. Qed.
