(* generated: tie of one numeric kernel to the hand model *)
From Coq Require Import ZArith List Bool String.
Import ListNotations.
From OSQ Require Import Num IR Construct DefaultTable Matrix Check ABA Merge McKay CNOTDec Constants Kernels KernelTactics.

Lemma compose_ok : forall (T : Type) (N : Num T) (qa : Z) (axa : axis3 T) (anga pha : T) (gia : ginfo T)
    (qb : Z) (axb : axis3 T) (angb phb : T) (gib : ginfo T),
  gen_compose N qa axa anga pha gia qb axb angb phb gib =
  compose_gates N (BSR qa axa anga pha, gia) (BSR qb axb angb phb, gib).
Proof. tie. Qed.
