(* SigCheck.v — names, parameter lists and membership lists regenerated from the Python source equal the
   hand-written ones (the part of the tables that parsing, building and writing depend on). By computation. *)
From Coq Require Import ZArith List String.
From OSQ Require Import Num IR Construct DefaultTable DefaultGates Constants.

Definition entry_sig (e : gentry) : string * list (string * pkind) := (e_name e, e_params e).
Lemma signatures_ok : map entry_sig gen_table = map entry_sig hand_table. Proof. reflexivity. Qed.
Lemma noparam_ok : gen_noparam = hand_noparam. Proof. reflexivity. Qed.
Lemma gate_set_ok : gen_gate_set = hand_gate_set. Proof. reflexivity. Qed.
Lemma aliases_ok : gen_aliases = hand_aliases. Proof. reflexivity. Qed.
Lemma measures_ok : gen_measures = hand_measures. Proof. reflexivity. Qed.
Lemma measure_set_ok : gen_measure_set = hand_measure_set. Proof. reflexivity. Qed.
Lemma resets_ok : gen_resets = hand_resets. Proof. reflexivity. Qed.
Lemma reset_set_ok : gen_reset_set = hand_reset_set. Proof. reflexivity. Qed.

Definition source_signatures_checked : Prop :=
  map entry_sig gen_table = map entry_sig hand_table /\ gen_noparam = hand_noparam /\ gen_gate_set = hand_gate_set /\
  gen_aliases = hand_aliases /\ gen_measures = hand_measures /\ gen_measure_set = hand_measure_set /\
  gen_resets = hand_resets /\ gen_reset_set = hand_reset_set.
Lemma source_signatures_ok : source_signatures_checked.
Proof. repeat split; reflexivity. Qed.
