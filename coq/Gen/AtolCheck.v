(* AtolCheck.v — the tolerance read from common.py on this run is the model's. By computation. *)
From Coq Require Import ZArith List String.
From OSQ Require Import Num IR Construct DefaultTable DefaultGates Constants.

Lemma atol_ok : (gen_atol_num = 1 /\ gen_atol_den = 10000000)%Z. Proof. split; reflexivity. Qed.
