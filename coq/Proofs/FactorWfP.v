(* FactorWfP.v — the factor accepted by the replacement checker is close to 1 in
   modulus, for well-formed gates; the unitarity hypotheses of FactorP.v are
   discharged from [gate_unitary_ok]. *)
From Coq Require Import Reals ZArith NArith List Bool Lia Lra Arith.
Import ListNotations.
From OSQ Require Import Num IR Bits Construct Matrix Check RTrig RNum SU2 Kraus.
From OSQ Require Import BitsP ConstructP MatrixP CheckP CostP EmbedP SemBaseP CNOTP SemP EqualityP FactorP.
Close Scope N_scope.
Close Scope R_scope.
Open Scope nat_scope.

(* (A) a list of well-formed gates written on [order] has a unitary matrix *)
Theorem reindexed_matrix_list_unitary order (gs : list (gate R)) B :
  Forall gate_unitary_ok gs -> reindexed_matrix RNum order gs = Ok B ->
  unitary (2 ^ length order) B.
Proof.
  intros Hok HB. unfold reindexed_matrix in HB.
  destruct (reindex_gates RNum order gs) as [gs'|e] eqn:Egs; [|discriminate].
  destruct (reindex_gates_spec order gs gs' Egs) as [-> Hall].
  rewrite <- (zpow2_of_nat (length order)).
  unfold gates_matrix in HB.
  apply (circuit_matrix_unitary_ok _ _ B) in HB; [exact HB|].
  intros o g gi Hin. apply in_map_iff in Hin. destruct Hin as [g1 [E Hg1]].
  injection E as _ <- _.
  rewrite map_map in Hg1. apply in_map_iff in Hg1. destruct Hg1 as [g0 [<- Hg0]].
  destruct (Hall g0 Hg0) as [Hi _].
  apply gate_unitary_ok_relabel.
  - eapply inj_on_incl; [exact Hi|apply zpos_inj].
  - rewrite Forall_forall in Hok. now apply Hok.
Qed.

(* (B) the checker alone: acceptance of a well-formed replacement for a well-formed
   gate means agreement up to ONE factor p whose modulus is within sqrt(d)*ATOL of 1 *)
Theorem check_factor_near_unit_wf (g : gate R) (repl : list (gate R)) :
  gate_unitary_ok g -> Forall gate_unitary_ok repl ->
  check_replacement RNum g repl = Ok tt ->
  exists A B p i j,
    let d := (2 ^ length (gate_qubits g))%nat in
    reindexed_matrix RNum (gate_qubits g) [g] = Ok A /\
    reindexed_matrix RNum (gate_qubits g) repl = Ok B /\
    unitary d A /\ unitary d B /\
    (i < d)%nat /\ (j < d)%nat /\ argmax_entry RNum A = Some (i, j) /\
    p = cdiv RNum (mget RNum A i j) (mget RNum B i j) /\
    (forall r c, (r < d)%nat -> (c < d)%nat ->
       Cabs (csub RNum (mget RNum A r c) (cmul RNum p (mget RNum B r c)))
       <= ATOL + 1 / 100000 * Cabs (cmul RNum p (mget RNum B r c)))%R /\
    ((1 - sqrt (INR d) * ATOL) / (1 + 1 / 100000) <= Cabs p)%R /\
    (Cabs p <= (1 + sqrt (INR d) * ATOL) / (1 - 1 / 100000))%R.
Proof.
  intros Hg Hrepl Hchk.
  destruct (check_sound g repl Hchk) as [_ [A [B [p0 [i0 [j0 H]]]]]]. cbv zeta in H.
  destruct H as [HA [HB _]].
  pose proof (reindexed_matrix_unitary _ g A Hg HA) as HuA.
  pose proof (reindexed_matrix_list_unitary _ repl B Hrepl HB) as HuB.
  destruct (check_factor_near_unit g repl A B Hchk HA HB HuA HuB) as [p [i [j H]]].
  cbv zeta in H. destruct H as [Hi [Hj [Harg [Hp [Hent _]]]]].
  destruct (check_factor_near_unit_sqrt g repl A B Hchk HA HB HuA HuB) as [p' [i' [j' H']]].
  cbv zeta in H'. destruct H' as [_ [_ [Harg' [Hp' [Hlo Hhi]]]]].
  rewrite Harg in Harg'. injection Harg' as <- <-. rewrite <- Hp in Hp'. subst p'.
  exists A, B, p, i, j. cbv zeta.
  repeat (split; [assumption|]). assumption.
Qed.

(* (C) non-vacuity: a zero rotation about the z axis replaced by nothing *)
Example check_factor_near_unit_wf_nonvacuous :
  let g := BSR 0%Z (0%R, 0%R, 1%R) 0%R 0%R in
  gate_unitary_ok g /\ Forall gate_unitary_ok (@nil (gate R)) /\
  check_replacement RNum g [] = Ok tt.
Proof.
  cbv zeta. split; [|split].
  - cbn [gate_unitary_ok]. unfold unit_axis. cbn. ring.
  - constructor.
  - apply check_accepts_empty_for_zero_rotation.
Qed.

Print Assumptions reindexed_matrix_list_unitary.
Print Assumptions check_factor_near_unit_wf.
Print Assumptions check_factor_near_unit_wf_nonvacuous.
