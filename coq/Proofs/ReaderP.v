(* ReaderP.v — the round trip  read3 (write3 c) = c  and  read1 (export_v1 c) = c
   at the level of texts, for Model/Writer.v and Model/Reader.v, for any scalar
   type T and any decimalisation oracle dec8 returning well-formed finite
   decimals.  A comment may be any text without the terminator "*/" (newlines,
   empty lines, "/*", blanks at either end included): it is written as a block
   comment on as many lines as its text has, and [read_body] reads the block
   back as one [RComment] with the original text. *)
From Coq Require Import ZArith QArith List Bool String Ascii Lia.
From Coq Require Import Decimal DecimalString.
Import ListNotations.
From OSQ Require Import Num IR Dec Writer DefaultTable DefaultGates ParserExpand Builder Lexer DecP WriterP Reader.
Open Scope string_scope.

(* ------------------------------------------------------------------ *)
(* generic facts: forall_chars, span, split_on, strip_prefix            *)

Lemma forall_chars_app (p : ascii -> bool) (a b : string) :
  forall_chars p (a ++ b) = forall_chars p a && forall_chars p b.
Proof. induction a as [|c a IH]; cbn [append forall_chars]; [reflexivity | now rewrite IH, andb_assoc]. Qed.

Lemma forall_chars_mono (p q : ascii -> bool) (s : string) :
  (forall c, p c = true -> q c = true) -> forall_chars p s = true -> forall_chars q s = true.
Proof.
  intros Hpq. induction s as [|c s IH]; [reflexivity|]. cbn [forall_chars]. intros H.
  apply andb_true_iff in H. destruct H as [Hc Hs]. now rewrite (Hpq c Hc), (IH Hs).
Qed.

Lemma all_digits_forall (s : string) : all_digits s = forall_chars is_digit s.
Proof. induction s as [|c s IH]; [reflexivity|]. cbn [all_digits forall_chars]. now rewrite IH. Qed.

Definition starts_not (p : ascii -> bool) (s : string) : bool :=
  match s with String c _ => negb (p c) | EmptyString => true end.

Lemma span_app (p : ascii -> bool) (a b : string) :
  forall_chars p a = true -> starts_not p b = true -> span p (a ++ b) = (a, b).
Proof.
  intros Ha Hb. induction a as [|c a IH]; cbn [append span].
  - destruct b as [|c b]; [reflexivity|]. cbn [starts_not] in Hb. cbn [span].
    apply negb_true_iff in Hb. now rewrite Hb.
  - cbn [forall_chars] in Ha. apply andb_true_iff in Ha. destruct Ha as [Hc Ha].
    now rewrite Hc, (IH Ha).
Qed.

Definition neq_char (d c : ascii) : bool := negb (Ascii.eqb c d).

Lemma split_on_cons_ne (d c : ascii) (s : string) :
  Ascii.eqb c d = false ->
  split_on d (String c s) = match split_on d s with [] => [String c ""] | l :: ls => String c l :: ls end.
Proof. intros H. cbn [split_on]. now rewrite H. Qed.

Lemma split_on_none (d : ascii) (a : string) :
  forall_chars (neq_char d) a = true -> split_on d a = [a].
Proof.
  induction a as [|c a IH]; [reflexivity|]. cbn [forall_chars]. intros H.
  apply andb_true_iff in H. destruct H as [Hc Ha]. apply negb_true_iff in Hc.
  now rewrite split_on_cons_ne, (IH Ha).
Qed.

Lemma split_on_app (d : ascii) (a b : string) :
  forall_chars (neq_char d) a = true -> split_on d (a ++ String d b) = a :: split_on d b.
Proof.
  induction a as [|c a IH]; cbn [append forall_chars]; intros H.
  - cbn [split_on]. now rewrite Ascii.eqb_refl.
  - apply andb_true_iff in H. destruct H as [Hc Ha]. apply negb_true_iff in Hc.
    now rewrite split_on_cons_ne, (IH Ha).
Qed.

Lemma strip_prefix_app (p s : string) : strip_prefix p (p ++ s) = Some s.
Proof. induction p as [|c p IH]; [reflexivity|]. cbn [append strip_prefix]. now rewrite Ascii.eqb_refl. Qed.

Lemma all_opt_map_some {A : Type} (l : list A) : all_opt (map Some l) = Some l.
Proof. induction l as [|x l IH]; [reflexivity|]. cbn [map all_opt]. now rewrite IH. Qed.

Lemma all_opt_map_ext {A B : Type} (f : A -> option B) (g : A -> B) (l : list A) :
  Forall (fun x => f x = Some (g x)) l -> all_opt (map f l) = Some (map g l).
Proof.
  induction 1 as [|x l Hx _ IH]; [reflexivity|]. cbn [map all_opt]. now rewrite Hx, IH.
Qed.

Lemma forall_chars_join (p : ascii -> bool) (sep : string) (l : list string) :
  forall_chars p sep = true -> Forall (fun x => forall_chars p x = true) l ->
  forall_chars p (join sep l) = true.
Proof.
  intros Hsep. induction 1 as [|x l Hx Hl IH]; [reflexivity|].
  destruct l as [|y l']; [exact Hx|].
  change (join sep (x :: y :: l')) with (x ++ sep ++ join sep (y :: l')).
  now rewrite !forall_chars_app, Hx, Hsep, IH.
Qed.

(* the pieces of  x, y, z  are  x  " y"  " z" *)
Lemma split_on_join (x : string) (l : list string) :
  Forall (fun s => forall_chars (neq_char ",") s = true) (x :: l) ->
  split_on "," (join ", " (x :: l)) = x :: map (String " ") l.
Proof.
  revert x. induction l as [|y l IH]; intros x H.
  - inversion H; subst. cbn [join map]. now apply split_on_none.
  - inversion H as [|? ? Hx Hl]; subst.
    change (join ", " (x :: y :: l)) with (x ++ String "," (String " " (join ", " (y :: l)))).
    rewrite (split_on_app _ _ _ Hx), split_on_cons_ne by reflexivity.
    now rewrite (IH y Hl).
Qed.

Lemma items_join (x : string) (l : list string) :
  Forall (fun s => forall_chars (neq_char ",") s = true) (x :: l) ->
  items (join ", " (x :: l)) = map Some (x :: l).
Proof.
  intros H. unfold items. rewrite (split_on_join x l H). cbn [map]. f_equal.
  rewrite map_map. apply map_ext. intros s. cbn [strip_prefix]. reflexivity.
Qed.

(* reading a comma separated list of texts written element by element *)
Lemma bind_list_join {A B : Type} (w : A -> string) (rd : string -> option B) (v : A -> B) (l : list A) :
  l <> [] ->
  Forall (fun a => forall_chars (neq_char ",") (w a) = true /\ rd (w a) = Some (v a)) l ->
  bind_list (items (join ", " (map w l))) rd = Some (map v l).
Proof.
  intros Hne H. destruct l as [|a l]; [congruence|]. cbn [map].
  rewrite items_join.
  - unfold bind_list. rewrite all_opt_map_some.
    change (w a :: map w l) with (map w (a :: l)). rewrite map_map.
    change (v a :: map v l) with (map v (a :: l)).
    apply (all_opt_map_ext (fun x => rd (w x)) v). eapply Forall_impl; [|exact H]. cbn beta. tauto.
  - change (w a :: map w l) with (map w (a :: l)). apply Forall_map.
    eapply Forall_impl; [|exact H]. cbn beta. tauto.
Qed.

(* ------------------------------------------------------------------ *)
(* character classes of the writer's tokens                             *)

(* characters of an operand or a parameter *)
Definition is_tok_char (c : ascii) : bool :=
  is_ident_char c || Ascii.eqb c "[" || Ascii.eqb c "]" || Ascii.eqb c "+" ||
  Ascii.eqb c "-" || Ascii.eqb c ".".

(* characters of a whole instruction line *)
Definition is_line_char (c : ascii) : bool :=
  is_tok_char c || Ascii.eqb c "," || Ascii.eqb c " " || Ascii.eqb c "(" ||
  Ascii.eqb c ")" || Ascii.eqb c "=".

Lemma class_excludes (p : ascii -> bool) (d : ascii) :
  p d = false -> forall c, p c = true -> neq_char d c = true.
Proof.
  intros Hd c Hc. unfold neq_char. destruct (Ascii.eqb_spec c d) as [->|]; [congruence | reflexivity].
Qed.

Lemma digit_is_ident (c : ascii) : is_digit c = true -> is_ident_char c = true.
Proof. intros H. unfold is_ident_char. rewrite H. now rewrite orb_true_r. Qed.

Lemma ident_is_tok (c : ascii) : is_ident_char c = true -> is_tok_char c = true.
Proof. intros H. unfold is_tok_char. now rewrite H. Qed.

Lemma tok_is_line (c : ascii) : is_tok_char c = true -> is_line_char c = true.
Proof. intros H. unfold is_line_char. now rewrite H. Qed.

Lemma digits_tok (s : string) : all_digits s = true -> forall_chars is_tok_char s = true.
Proof.
  rewrite all_digits_forall. apply forall_chars_mono. intros c H. now apply ident_is_tok, digit_is_ident.
Qed.

Lemma no_nl_forall (s : string) : no_nl s = forall_chars (neq_char nl_char) s.
Proof. induction s as [|c s IH]; [reflexivity|]. cbn [no_nl forall_chars]. now rewrite IH. Qed.

Lemma line_chars_no_nl (s : string) : forall_chars is_line_char s = true -> no_nl s = true.
Proof. rewrite no_nl_forall. apply forall_chars_mono, class_excludes. reflexivity. Qed.

Lemma tok_chars_no_comma (s : string) :
  forall_chars is_tok_char s = true -> forall_chars (neq_char ",") s = true.
Proof. apply forall_chars_mono, class_excludes. reflexivity. Qed.

Lemma ident_ok_chars (n : string) : ident_ok n = true -> forall_chars is_ident_char n = true /\ n <> "".
Proof.
  destruct n as [|c r]; [discriminate|]. cbn [ident_ok forall_chars]. intros H.
  apply andb_true_iff in H. destruct H as [Hc Hr]. split; [|discriminate].
  rewrite Hr, andb_true_r. unfold is_ident_start in Hc. unfold is_ident_char.
  apply orb_true_iff in Hc. destruct Hc as [-> | ->]; [reflexivity | apply orb_true_r].
Qed.

(* ---- integers ---- *)

Lemma string_of_Z_neg (p : positive) : string_of_Z (Zneg p) = String "-" (string_of_Z (Zpos p)).
Proof. reflexivity. Qed.

Lemma digit_not_minus (c : ascii) : is_digit c = true -> Ascii.eqb c "-" = false.
Proof. intros H. destruct (Ascii.eqb_spec c "-") as [->|]; [discriminate | reflexivity]. Qed.

Lemma string_of_Z_tok (k : Z) : forall_chars is_tok_char (string_of_Z k) = true.
Proof.
  destruct k as [|p|p].
  - reflexivity.
  - apply digits_tok. now apply (string_of_Z_nonneg (Zpos p)).
  - rewrite string_of_Z_neg. cbn [forall_chars]. rewrite digits_tok; [reflexivity|].
    now apply (string_of_Z_nonneg (Zpos p)).
Qed.

Lemma digits_only_not_float (s : string) : all_digits s = true -> is_float_literal s = false.
Proof.
  intros H. rewrite <- (sapp_nil_r s). apply no_point_never_literal; [exact H | reflexivity | discriminate].
Qed.

Lemma nonneg_string (k : Z) : (0 <= k)%Z ->
  exists c r, string_of_Z k = String c r /\ is_digit c = true /\ all_digits (String c r) = true /\
              digits_val 0 (String c r) = k.
Proof.
  intros Hk. destruct (string_of_Z_nonneg k Hk) as (Ha & Hn & Hv).
  destruct (string_of_Z k) as [|c r]; [congruence|]. exists c, r. repeat split; auto.
  cbn [all_digits] in Ha. apply andb_true_iff in Ha. tauto.
Qed.

Lemma read_int_string_of_Z (k : Z) : read_int (string_of_Z k) = Some k.
Proof.
  destruct k as [|p|p].
  - reflexivity.
  - destruct (nonneg_string (Zpos p)) as (c & r & E & Hc & Ha & Hv); [lia|]. rewrite E.
    unfold read_int. rewrite (digit_not_minus c Hc). unfold digits1. cbn [is_empty negb andb].
    now rewrite Ha, Hv.
  - rewrite string_of_Z_neg. destruct (nonneg_string (Zpos p)) as (c & r & E & Hc & Ha & Hv); [lia|].
    rewrite E. unfold read_int. rewrite Ascii.eqb_refl. unfold digits1. cbn [is_empty negb andb].
    now rewrite Ha, Hv.
Qed.

Lemma string_of_Z_not_float (k : Z) : is_signed_float_literal (string_of_Z k) = false.
Proof.
  destruct k as [|p|p].
  - reflexivity.
  - destruct (nonneg_string (Zpos p)) as (c & r & E & Hc & Ha & Hv); [lia|]. rewrite E.
    unfold is_signed_float_literal. rewrite (digit_not_minus c Hc). now apply digits_only_not_float.
  - rewrite string_of_Z_neg. destruct (nonneg_string (Zpos p)) as (c & r & E & Hc & Ha & Hv); [lia|].
    rewrite E. unfold is_signed_float_literal. rewrite Ascii.eqb_refl. now apply digits_only_not_float.
Qed.

(* ---- indices ---- *)

Lemma read_index_app (pfx : ascii) (k : Z) (rest : string) : (0 <= k)%Z ->
  read_index pfx (String pfx (String "[" (string_of_Z k ++ String "]" rest))) = Some (k, rest).
Proof.
  intros Hk. destruct (string_of_Z_nonneg k Hk) as (Ha & Hn & Hv).
  unfold read_index. rewrite !Ascii.eqb_refl. cbn [andb].
  rewrite (span_digits_app (string_of_Z k) (String "]" rest) Ha eq_refl).
  rewrite Ascii.eqb_refl. cbn [andb]. unfold nonempty.
  destruct (string_of_Z k) as [|c r]; [congruence|]. cbn [is_empty negb]. now rewrite Hv.
Qed.

Lemma qstr_unfold (k : Z) (rest : string) :
  qstr k ++ rest = String "q" (String "[" (string_of_Z k ++ String "]" rest)).
Proof. unfold qstr. rewrite !sapp_assoc. reflexivity. Qed.

Lemma bstr_unfold (k : Z) (rest : string) :
  bstr k ++ rest = String "b" (String "[" (string_of_Z k ++ String "]" rest)).
Proof. unfold bstr. rewrite !sapp_assoc. reflexivity. Qed.

Lemma read_index_qstr (k : Z) (rest : string) : (0 <= k)%Z ->
  read_index "q" (qstr k ++ rest) = Some (k, rest).
Proof. intros Hk. rewrite qstr_unfold. now apply read_index_app. Qed.

Lemma read_index_bstr (k : Z) (rest : string) : (0 <= k)%Z ->
  read_index "b" (bstr k ++ rest) = Some (k, rest).
Proof. intros Hk. rewrite bstr_unfold. now apply read_index_app. Qed.

Lemma read_index_only_qstr (k : Z) : (0 <= k)%Z -> read_index_only "q" (qstr k) = Some k.
Proof.
  intros Hk. unfold read_index_only. rewrite <- (sapp_nil_r (qstr k)). now rewrite read_index_qstr.
Qed.

Lemma read_index_only_bstr (k : Z) : (0 <= k)%Z -> read_index_only "b" (bstr k) = Some k.
Proof.
  intros Hk. unfold read_index_only. rewrite <- (sapp_nil_r (bstr k)). now rewrite read_index_bstr.
Qed.

Lemma qstr_tok (k : Z) : forall_chars is_tok_char (qstr k) = true.
Proof. unfold qstr. rewrite !forall_chars_app, string_of_Z_tok. reflexivity. Qed.

Lemma bstr_tok (k : Z) : forall_chars is_tok_char (bstr k) = true.
Proof. unfold bstr. rewrite !forall_chars_app, string_of_Z_tok. reflexivity. Qed.

(* a text whose first character is not the prefix is not an index *)
Lemma read_index_other (p : ascii -> bool) (pfx : ascii) (s : string) :
  p pfx = false -> forall_chars p s = true -> read_index pfx s = None.
Proof.
  intros Hp Hs. destruct s as [|c [|o r]]; try reflexivity. cbn [forall_chars] in Hs.
  apply andb_true_iff in Hs. destruct Hs as [Hc _]. unfold read_index.
  destruct (Ascii.eqb_spec c pfx) as [->|]; [congruence | reflexivity].
Qed.

(* ---- reals ---- *)

Definition is_num_char (c : ascii) : bool :=
  is_digit c || Ascii.eqb c "+" || Ascii.eqb c "-" || Ascii.eqb c "." || Ascii.eqb c "e" || Ascii.eqb c "E".

Lemma num_is_tok (c : ascii) : is_num_char c = true -> is_tok_char c = true.
Proof.
  unfold is_num_char. rewrite !orb_true_iff, !Ascii.eqb_eq.
  intros [[[[[H | ->] | ->] | ->] | ->] | ->]; try reflexivity.
  now apply ident_is_tok, digit_is_ident.
Qed.

Lemma digits_num (s : string) : all_digits s = true -> forall_chars is_num_char s = true.
Proof.
  rewrite all_digits_forall. apply forall_chars_mono. intros c H. unfold is_num_char. now rewrite H.
Qed.

Lemma opt_exp_num (ex : string) : is_opt_exp ex = true -> forall_chars is_num_char ex = true.
Proof.
  intros H. apply is_opt_exp_spec in H. destruct H as [-> | H]; [reflexivity|].
  destruct H as [c sg ds Hc Hs Hd]. unfold digits1 in Hd. apply andb_true_iff in Hd.
  destruct Hd as [_ Hd]. cbn [forall_chars]. rewrite forall_chars_app, (digits_num _ Hd).
  destruct Hc as [-> | ->]; destruct Hs as [-> | [-> | ->]]; reflexivity.
Qed.

Lemma render_fix_num (d : dec) : wf_dec d -> dec_finite d ->
  forall_chars is_num_char (fix_literal (render_py8 d)) = true.
Proof.
  intros Hwf Hfin. destruct d as [| |neg digits e]; try contradiction.
  destruct (render_fix_shape neg digits e Hwf) as (IP & FP & ex & -> & H1 & H2 & _ & _ & Hex & _).
  unfold lit. rewrite !forall_chars_app.
  rewrite (digits_num _ (digits_string_all_digits _ H1)).
  rewrite (digits_num _ (digits_string_all_digits _ H2)).
  rewrite (opt_exp_num _ Hex). destruct neg; reflexivity.
Qed.

(* the repair only adds characters *)
Lemma fix_literal_chars (p : ascii -> bool) (s : string) :
  forall_chars p (fix_literal s) = true -> forall_chars p s = true.
Proof.
  unfold fix_literal. pose proof (split_e_spec s) as Hs.
  destruct (split_e s) as [m [ex|]]; destruct Hs as (-> & _); [|auto].
  rewrite !forall_chars_app. destruct (has_dot m); [auto|].
  rewrite forall_chars_app. intros H. apply andb_true_iff in H. destruct H as [H1 H2].
  apply andb_true_iff in H1. destruct H1 as [H1 _]. now rewrite H1, H2.
Qed.

(* ------------------------------------------------------------------ *)
(* texts as lists of lines, and the final rstrip                        *)

Fixpoint unlines (ls : list string) : string :=
  match ls with [] => "" | l :: ls' => l ++ NL ++ unlines ls' end.

Lemma unlines_app (a b : list string) : unlines (a ++ b)%list = unlines a ++ unlines b.
Proof.
  induction a as [|l a IH]; [reflexivity|]. cbn [List.app unlines]. now rewrite IH, !sapp_assoc.
Qed.

Lemma unlines_snoc (a : list string) (l : string) : unlines (a ++ [l])%list = (unlines a ++ l) ++ NL.
Proof. rewrite unlines_app. cbn [unlines]. now rewrite sapp_nil_r, sapp_assoc. Qed.

Lemma split_unlines (ls : list string) :
  Forall (fun l => no_nl l = true) ls -> split_on nl_char (unlines ls) = (ls ++ [""])%list.
Proof.
  induction 1 as [|l ls Hl _ IH]; [reflexivity|]. cbn [unlines List.app].
  change (l ++ NL ++ unlines ls) with (l ++ String nl_char (unlines ls)).
  rewrite split_on_app by (now rewrite <- no_nl_forall). now rewrite IH.
Qed.

(* a line of the writer: no newline inside, no blank at the end *)
Definition line_good (l : string) : Prop := no_nl l = true /\ last_nonws l = true.

Lemma all_ws_app (a b : string) : all_ws (a ++ b) = all_ws a && all_ws b.
Proof. induction a as [|c a IH]; cbn [append all_ws]; [reflexivity | now rewrite IH, andb_assoc]. Qed.

Lemma rstrip_app_ws (s w : string) : all_ws w = true -> rstrip (s ++ w) = rstrip s.
Proof.
  intros Hw. destruct (rstrip_decomp s) as (t & Hs & Ht).
  apply (rstrip_unique _ (rstrip s) (t ++ w)).
  - rewrite Hs at 1. now rewrite sapp_assoc.
  - apply rstrip_last_nonws.
  - now rewrite all_ws_app, Ht, Hw.
Qed.

Lemma rstrip_unlines_last (P : list string) (l : string) :
  l <> "" -> last_nonws l = true -> rstrip (unlines (P ++ [l])) ++ NL = unlines (P ++ [l]).
Proof.
  intros Hne Hl. rewrite unlines_snoc. f_equal.
  apply (rstrip_unique _ (unlines P ++ l) NL); [reflexivity | | reflexivity].
  now rewrite last_nonws_app.
Qed.

(* every line that is followed by empty lines only does not end with a blank
   (the empty line itself included) *)
Fixpoint trail_good (R : list string) : bool :=
  match R with
  | [] => true
  | x :: R' => (if forallb is_empty R' then last_nonws x else true) && trail_good R'
  end.

Lemma trail_good_snoc (R : list string) (x : string) :
  trail_good (R ++ [x]) = true -> last_nonws x = true /\ (x = "" -> trail_good R = true).
Proof.
  induction R as [|y R IH]; cbn [List.app trail_good forallb].
  - intros H. apply andb_true_iff in H. destruct H as [H _]. split; [exact H | reflexivity].
  - intros H. apply andb_true_iff in H. destruct H as [Hy H]. destruct (IH H) as [Hx HR].
    split; [exact Hx|]. intros ->. rewrite (HR eq_refl), andb_true_r.
    rewrite forallb_app in Hy. cbn [forallb is_empty] in Hy. now rewrite !andb_true_r in Hy.
Qed.

Lemma trail_good_app (A B : list string) :
  trail_good A = true -> trail_good B = true -> trail_good (A ++ B) = true.
Proof.
  intros HA HB. induction A as [|x A IH]; [exact HB|]. cbn [List.app trail_good] in *.
  apply andb_true_iff in HA. destruct HA as [Hx HA]. rewrite (IH HA), andb_true_r, forallb_app.
  destruct (forallb is_empty A); [|reflexivity]. cbn [andb]. now destruct (forallb is_empty B).
Qed.

(* what precedes a block with a non-empty line does not matter *)
Lemma trail_good_before (A B : list string) :
  forallb is_empty B = false -> trail_good B = true -> trail_good (A ++ B) = true.
Proof.
  intros HE HB. induction A as [|x A IH]; [exact HB|]. cbn [List.app trail_good].
  now rewrite IH, forallb_app, HE, andb_false_r.
Qed.

Lemma trail_good_all (R : list string) :
  Forall (fun x => last_nonws x = true) R -> trail_good R = true.
Proof.
  induction 1 as [|x R Hx _ IH]; [reflexivity|]. cbn [trail_good]. rewrite Hx, IH. now destruct (forallb is_empty R).
Qed.

(* the final rstrip only removes trailing empty lines *)
Lemma rstrip_unlines (P R : list string) (l : string) :
  l <> "" -> last_nonws l = true -> trail_good R = true ->
  exists R' k, R = (R' ++ repeat "" k)%list /\
               rstrip (unlines (P ++ l :: R)) ++ NL = unlines (P ++ l :: R').
Proof.
  intros Hne Hl. induction R as [|x R0 IH] using rev_ind; intros HR.
  - exists [], 0%nat. split; [reflexivity|]. now apply rstrip_unlines_last.
  - destruct (trail_good_snoc R0 x HR) as [Hx' HR0].
    destruct x as [|c x'].
    + destruct (IH (HR0 eq_refl)) as (R' & k & -> & E). exists R', (S k). split.
      * rewrite <- app_assoc. f_equal. change [""] with (repeat "" 1). rewrite <- repeat_app.
        f_equal. lia.
      * rewrite <- E. f_equal.
        replace (P ++ l :: (R' ++ repeat "" k) ++ [""])%list with ((P ++ l :: R' ++ repeat "" k) ++ [""])%list
          by (repeat (rewrite <- app_assoc || rewrite <- app_comm_cons); reflexivity).
        rewrite unlines_snoc, sapp_nil_r. now apply rstrip_app_ws.
    + exists (R0 ++ [String c x'])%list, 0%nat. split; [cbn [repeat]; now rewrite app_nil_r|].
      replace (P ++ l :: R0 ++ [String c x'])%list with ((P ++ l :: R0) ++ [String c x'])%list
        by (repeat (rewrite <- app_assoc || rewrite <- app_comm_cons); reflexivity).
      apply rstrip_unlines_last; [discriminate | exact Hx'].
Qed.

(* ------------------------------------------------------------------ *)
(* comments                                                             *)

Lemma until_close_app (t : string) : until_close (t ++ " */") = Some t.
Proof.
  induction t as [|c t IH]; [reflexivity|].
  change (String c t ++ " */") with (String c (t ++ " */")).
  cbn [until_close]. rewrite IH.
  destruct (String.eqb_spec (String c (t ++ " */")) " */") as [E|_]; [|reflexivity].
  apply (f_equal String.length) in E. cbn [String.length] in E. rewrite slength_app in E.
  cbn [String.length] in E. lia.
Qed.

Lemma has_close_contains (s : string) : has_close s = contains "*/" s.
Proof.
  induction s as [|c s IH]; [reflexivity|]. cbn [has_close contains]. rewrite IH. f_equal.
  cbn [String.prefix]. destruct (ascii_dec "*" c) as [<-|Hn].
  - rewrite Ascii.eqb_refl. cbn [andb]. destruct s as [|d s']; [reflexivity|].
    cbn [String.prefix]. destruct (ascii_dec "/" d) as [<-|Hn].
    + rewrite Ascii.eqb_refl. now destruct s'.
    + destruct (Ascii.eqb_spec d "/"); [congruence | reflexivity].
  - destruct (Ascii.eqb_spec c "*"); [congruence | reflexivity].
Qed.

Lemma read_comment_text (t : string) :
  contains "*/" t = false -> read_comment ("/* " ++ t ++ " */") = Some (RComment t).
Proof.
  intros H. unfold read_comment. rewrite strip_prefix_app, until_close_app, has_close_contains, H.
  reflexivity.
Qed.

Lemma comment_not_gate3 (x : string) : read_gate3 ("/* " ++ x) = None.
Proof. reflexivity. Qed.
Lemma comment_not_assign3 (x : string) : read_assign3 ("/* " ++ x) = None.
Proof. reflexivity. Qed.
Lemma comment_not_gate1 (x : string) : read_gate1 ("/* " ++ x) = None.
Proof. reflexivity. Qed.

(* ---- the pieces of a split ---- *)

Lemma split_on_nonempty (d : ascii) (s : string) : split_on d s <> [].
Proof.
  destruct s as [|c s]; cbn [split_on]; [discriminate|].
  destruct (Ascii.eqb c d); [discriminate|]. destruct (split_on d s); discriminate.
Qed.

Lemma split_on_pieces (d : ascii) (s : string) :
  Forall (fun x => forall_chars (neq_char d) x = true) (split_on d s).
Proof.
  induction s as [|c s IH]; [repeat constructor|]. cbn [split_on].
  destruct (Ascii.eqb c d) eqn:E; [constructor; [reflexivity | exact IH]|].
  destruct (split_on d s) as [|l ls].
  - repeat constructor. cbn [forall_chars]. unfold neq_char. now rewrite E.
  - inversion IH as [|? ? Hl Hls]; subst. constructor; [|exact Hls].
    cbn [forall_chars]. unfold neq_char at 1. now rewrite E, Hl.
Qed.

(* joining the pieces with the separator gives the text back *)
Lemma join_split_on (d : ascii) (s : string) : join (String d "") (split_on d s) = s.
Proof.
  induction s as [|c s IH]; [reflexivity|]. cbn [split_on].
  pose proof (split_on_nonempty d s) as Hne.
  destruct (Ascii.eqb_spec c d) as [->|Hn].
  - destruct (split_on d s) as [|l ls]; [congruence|].
    change (join (String d "") ("" :: l :: ls)) with (String d (join (String d "") (l :: ls))).
    now rewrite IH.
  - destruct (split_on d s) as [|l [|l' ls]]; [congruence| |].
    + cbn [join] in *. now rewrite IH.
    + change (join (String d "") (String c l :: l' :: ls))
        with (String c (l ++ String d "" ++ join (String d "") (l' :: ls))).
      change (join (String d "") (l :: l' :: ls)) with (l ++ String d "" ++ join (String d "") (l' :: ls)) in IH.
      now rewrite IH.
Qed.

Lemma split_nl_no_nl (s : string) : Forall (fun l => no_nl l = true) (split_on nl_char s).
Proof.
  eapply Forall_impl; [|apply split_on_pieces]. cbn beta. intros l Hl. now rewrite no_nl_forall.
Qed.

(* ---- the terminator in a concatenation ---- *)

Lemma has_close_app_false (a b : string) :
  has_close (a ++ b) = false -> has_close a = false /\ has_close b = false.
Proof.
  induction a as [|c a IH]; [intros H; split; [reflexivity | exact H]|].
  cbn [append has_close]. intros H. apply orb_false_iff in H. destruct H as [H1 H2].
  destruct (IH H2) as [Ha Hb]. split; [|exact Hb]. rewrite Ha, orb_false_r.
  destruct a as [|d a']; [apply andb_false_r | exact H1].
Qed.

Lemma has_close_app_r (a b : string) : has_close b = true -> has_close (a ++ b) = true.
Proof.
  intros Hb. destruct (has_close (a ++ b)) eqn:E; [reflexivity|].
  apply has_close_app_false in E. destruct E as [_ E]. congruence.
Qed.

Lemma has_close_join (L : list string) :
  has_close (join NL L) = false -> Forall (fun x => has_close x = false) L.
Proof.
  induction L as [|x [|y L'] IH]; intros H.
  - constructor.
  - constructor; [exact H | constructor].
  - change (join NL (x :: y :: L')) with (x ++ NL ++ join NL (y :: L')) in H.
    apply has_close_app_false in H. destruct H as [Hx H].
    apply has_close_app_false in H. destruct H as [_ H]. constructor; [exact Hx | exact (IH H)].
Qed.

(* no piece of a text without terminator has one *)
Lemma has_close_pieces (t : string) :
  has_close t = false -> Forall (fun x => has_close x = false) (split_on nl_char t).
Proof.
  intros H. apply has_close_join. change NL with (String nl_char ""). now rewrite join_split_on.
Qed.

Lemma close_comment_app (u : string) : has_close u = false -> close_comment (u ++ " */") = Some u.
Proof. intros H. unfold close_comment. now rewrite until_close_app, H. Qed.

Lemma opens_comment_open (r : string) :
  opens_comment ("/* " ++ r) = if has_close r then None else Some r.
Proof. unfold opens_comment. now rewrite strip_prefix_app. Qed.

(* ---- the lines a block comment is written on ---- *)

(* the last piece gets the terminator *)
Fixpoint close_last (xs : list string) : list string :=
  match xs with
  | [] => []
  | [u] => [u ++ " */"]
  | y :: ys => y :: close_last ys
  end.

(* the lines of  "/* " x1 NL x2 NL ... NL xk " */"  *)
Definition comment_lines (xs : list string) : list string :=
  match xs with
  | [] => []
  | [x] => ["/* " ++ x ++ " */"]
  | x :: ys => ("/* " ++ x) :: close_last ys
  end.

Lemma close_last_cons2 (y y' : string) (ys : list string) :
  close_last (y :: y' :: ys) = y :: close_last (y' :: ys).
Proof. reflexivity. Qed.

Lemma comment_lines_cons2 (x y : string) (ys : list string) :
  comment_lines (x :: y :: ys) = ("/* " ++ x) :: close_last (y :: ys).
Proof. reflexivity. Qed.

Lemma join_cons2 (sep x y : string) (l : list string) :
  join sep (x :: y :: l) = x ++ sep ++ join sep (y :: l).
Proof. reflexivity. Qed.

Lemma unlines_close_last (y : string) (ys : list string) :
  unlines (close_last (y :: ys)) = join NL (y :: ys) ++ " */" ++ NL.
Proof.
  revert y. induction ys as [|y' ys IH]; intros y.
  - cbn [close_last unlines join]. now rewrite sapp_nil_r, sapp_assoc.
  - rewrite close_last_cons2, join_cons2. cbn [unlines]. rewrite IH. now rewrite !sapp_assoc.
Qed.

Lemma unlines_comment_lines (xs : list string) : xs <> [] ->
  unlines (comment_lines xs) = "/* " ++ join NL xs ++ " */" ++ NL.
Proof.
  destruct xs as [|x [|y ys]]; [congruence| |]; intros _.
  - cbn [comment_lines unlines join]. now rewrite sapp_nil_r, !sapp_assoc.
  - rewrite comment_lines_cons2, join_cons2. cbn [unlines]. rewrite unlines_close_last.
    now rewrite !sapp_assoc.
Qed.

Lemma close_last_no_nl (ys : list string) :
  Forall (fun l => no_nl l = true) ys -> Forall (fun l => no_nl l = true) (close_last ys).
Proof.
  induction 1 as [|y ys Hy Hys IH]; [constructor|]. destruct ys as [|y' ys'].
  - cbn [close_last]. constructor; [now rewrite no_nl_app, Hy | constructor].
  - rewrite close_last_cons2. constructor; assumption.
Qed.

Lemma comment_lines_no_nl (xs : list string) :
  Forall (fun l => no_nl l = true) xs -> Forall (fun l => no_nl l = true) (comment_lines xs).
Proof.
  destruct xs as [|x [|y ys]]; intros H; [constructor| |]; inversion H as [|? ? Hx Hr]; subst.
  - cbn [comment_lines]. constructor; [|constructor]. now rewrite !no_nl_app, Hx.
  - rewrite comment_lines_cons2. constructor; [now rewrite no_nl_app, Hx | now apply close_last_no_nl].
Qed.

Lemma close_last_ends (y : string) (ys : list string) :
  exists init u, close_last (y :: ys) = List.app init [u ++ " */"].
Proof.
  revert y. induction ys as [|y' ys IH]; intros y.
  - exists [], y. reflexivity.
  - destruct (IH y') as (init & u & E). exists (y :: init), u. rewrite close_last_cons2, E. reflexivity.
Qed.

Lemma comment_lines_ends (xs : list string) : xs <> [] ->
  exists init u, comment_lines xs = List.app init [u ++ " */"].
Proof.
  destruct xs as [|x [|y ys]]; [congruence| |]; intros _.
  - exists [], ("/* " ++ x). cbn [comment_lines List.app]. now rewrite sapp_assoc.
  - destruct (close_last_ends y ys) as (init & u & E). exists (("/* " ++ x) :: init), u.
    rewrite comment_lines_cons2, E. reflexivity.
Qed.

(* a comment between its two empty lines: the final rstrip stops at the terminator *)
Lemma comment_block_trail_good (xs : list string) : xs <> [] ->
  trail_good ("" :: comment_lines xs ++ [""]) = true.
Proof.
  intros H. destruct (comment_lines_ends xs H) as (init & u & ->).
  rewrite <- app_assoc.
  change ("" :: List.app init (List.app [u ++ " */"] [""])) with (List.app ("" :: init) [u ++ " */"; ""]).
  apply trail_good_before.
  - destruct u; reflexivity.
  - cbn [trail_good forallb is_empty andb last_nonws]. rewrite last_nonws_app by discriminate. reflexivity.
Qed.

(* ---- reading the body: the state after a list of lines ---- *)

(* the open comment (if any) after the lines, as [read_body] sees them *)
Fixpoint body_state (acc : option string) (ls : list string) : option string :=
  match ls with
  | [] => acc
  | l :: ls' =>
      match acc with
      | None =>
          if is_empty l then body_state None ls'
          else match opens_comment l with
               | Some r => body_state (Some r) ls'
               | None => body_state None ls'
               end
      | Some a =>
          if has_close l then body_state None ls'
          else body_state (Some (a ++ String nl_char l)) ls'
      end
  end.

Lemma body_state_app (acc : option string) (A B : list string) :
  body_state acc (A ++ B) = body_state (body_state acc A) B.
Proof.
  revert acc. induction A as [|l A IH]; intros acc; [reflexivity|].
  cbn [List.app body_state]. destruct acc as [a|].
  - destruct (has_close l); apply IH.
  - destruct (is_empty l); [apply IH|]. destruct (opens_comment l); apply IH.
Qed.

(* lines after which no comment is open are read independently of what follows *)
Lemma read_body_app (rl : string -> rline) (acc : option string) (A B : list string) :
  body_state acc A = None ->
  read_body rl acc (A ++ B) = (read_body rl acc A ++ read_body rl None B)%list.
Proof.
  revert acc. induction A as [|l A IH]; intros acc H.
  - cbn [body_state] in H. subst acc. reflexivity.
  - cbn [List.app read_body body_state] in *. destruct acc as [a|].
    + destruct (has_close l); [|now apply IH]. cbn [List.app]. f_equal. now apply IH.
    + destruct (is_empty l); [now apply IH|]. destruct (opens_comment l); [now apply IH|].
      cbn [List.app]. f_equal. now apply IH.
Qed.

Lemma read_body_empties (rl : string -> rline) (k : nat) : read_body rl None (repeat "" k) = [].
Proof. induction k as [|k IH]; [reflexivity | exact IH]. Qed.

Lemma body_state_empties_open (a : string) (k : nat) : body_state (Some a) (repeat "" k) <> None.
Proof. revert a. induction k as [|k IH]; intros a; [discriminate|]. cbn [repeat body_state has_close]. apply IH. Qed.

(* after lines that leave no comment open, the number of trailing empty lines does not matter *)
Lemma read_body_empty_tail (rl : string -> rline) (L : list string) (k j : nat) :
  body_state None (L ++ repeat "" k) = None ->
  read_body rl None (L ++ repeat "" j) = read_body rl None (L ++ repeat "" k).
Proof.
  intros H. rewrite body_state_app in H. destruct (body_state None L) as [a|] eqn:E.
  - exfalso. exact (body_state_empties_open a k H).
  - rewrite !read_body_app by exact E. now rewrite !read_body_empties.
Qed.

(* a line that opens no comment is read on its own *)
Lemma single_line_read (rl : string -> rline) (l : string) :
  l <> "" -> opens_comment l = None ->
  read_body rl None [l] = [rl l] /\ body_state None [l] = None.
Proof.
  intros Hne Ho. destruct l as [|c l]; [congruence|]. cbn [read_body body_state is_empty].
  rewrite Ho. split; reflexivity.
Qed.

(* inside a comment: the lines up to the terminator are one comment *)
Lemma read_close_last (rl : string -> rline) (a y : string) (ys rest : list string) :
  Forall (fun x => has_close x = false) (y :: ys) ->
  read_body rl (Some a) (close_last (y :: ys) ++ rest) =
    RComment (join NL (a :: y :: ys)) :: read_body rl None rest /\
  body_state (Some a) (close_last (y :: ys)) = None.
Proof.
  revert a y. induction ys as [|y' ys IH]; intros a y H; inversion H as [|? ? Hy Hys]; subst.
  - cbn [close_last List.app read_body body_state].
    rewrite (has_close_app_r y " */" eq_refl), (close_comment_app y Hy). split; reflexivity.
  - rewrite close_last_cons2. cbn [List.app read_body body_state]. rewrite Hy.
    destruct (IH (a ++ String nl_char y) y' Hys) as [E1 E2]. rewrite E1, E2. split; [|reflexivity].
    do 2 f_equal. rewrite !join_cons2, sapp_assoc. reflexivity.
Qed.

(* a whole block comment, between its two empty lines, is read as one comment
   by any line reader that reads one-line comments *)
Lemma comment_block_read (rl : string -> rline) (t : string) :
  has_close t = false -> rl ("/* " ++ t ++ " */") = RComment t ->
  read_body rl None ("" :: comment_lines (split_on nl_char t) ++ [""]) = [RComment t] /\
  body_state None ("" :: comment_lines (split_on nl_char t) ++ [""]) = None.
Proof.
  intros Hc Hrl. pose proof (has_close_pieces t Hc) as HP.
  pose proof (join_split_on nl_char t) as HJ. change (String nl_char "") with NL in HJ.
  destruct (split_on nl_char t) as [|x [|y ys]] eqn:E.
  - exfalso. exact (split_on_nonempty _ _ E).
  - cbn [join] in HJ. subst x. cbn [comment_lines List.app].
    assert (Ho : opens_comment ("/* " ++ t ++ " */") = None).
    { rewrite opens_comment_open. now rewrite (has_close_app_r t " */" eq_refl). }
    change (read_body rl None [""; "/* " ++ t ++ " */"; ""]) with
      (match opens_comment ("/* " ++ t ++ " */") with
       | Some r => read_body rl (Some r) [""]
       | None => rl ("/* " ++ t ++ " */") :: read_body rl None [""]
       end).
    change (body_state None [""; "/* " ++ t ++ " */"; ""]) with
      (match opens_comment ("/* " ++ t ++ " */") with
       | Some r => body_state (Some r) [""]
       | None => body_state None [""]
       end).
    rewrite Ho, Hrl. split; reflexivity.
  - pose proof (Forall_inv HP) as Hx. pose proof (Forall_inv_tail HP) as HP'. cbn beta in Hx.
    rewrite comment_lines_cons2.
    assert (Ho : opens_comment ("/* " ++ x) = Some x) by (now rewrite opens_comment_open, Hx).
    destruct (read_close_last rl x y ys [""] HP') as [E1 E2].
    change (read_body rl None ("" :: (("/* " ++ x) :: close_last (y :: ys)) ++ [""])) with
      (match opens_comment ("/* " ++ x) with
       | Some r => read_body rl (Some r) (close_last (y :: ys) ++ [""])
       | None => rl ("/* " ++ x) :: read_body rl None (close_last (y :: ys) ++ [""])
       end).
    change (body_state None ("" :: (("/* " ++ x) :: close_last (y :: ys)) ++ [""])) with
      (match opens_comment ("/* " ++ x) with
       | Some r => body_state (Some r) (close_last (y :: ys) ++ [""])
       | None => body_state None (close_last (y :: ys) ++ [""])
       end).
    rewrite Ho, E1, body_state_app, E2, HJ. split; reflexivity.
Qed.

(* statement by statement *)
Lemma flat_read {A : Type} (rl : string -> rline) (lines : A -> list string) (out : A -> rline) (l : list A) :
  Forall (fun s => read_body rl None (lines s) = [out s] /\ body_state None (lines s) = None) l ->
  read_body rl None (flat_map lines l) = map out l /\ body_state None (flat_map lines l) = None.
Proof.
  induction 1 as [|s l [H1 H2] _ [IH1 IH2]]; [split; reflexivity|]. cbn [flat_map map].
  rewrite read_body_app by exact H2. rewrite body_state_app, H1, H2, IH1, IH2. split; reflexivity.
Qed.

Lemma flat_trail_good {A : Type} (lines : A -> list string) (l : list A) :
  Forall (fun s => trail_good (lines s) = true) l -> trail_good (flat_map lines l) = true.
Proof.
  induction 1 as [|s l Hs _ IH]; [reflexivity|]. cbn [flat_map]. now apply trail_good_app.
Qed.

Lemma flat_no_nl {A : Type} (lines : A -> list string) (l : list A) :
  Forall (fun s => Forall (fun x => no_nl x = true) (lines s)) l ->
  Forall (fun x => no_nl x = true) (flat_map lines l).
Proof.
  induction 1 as [|s l Hs _ IH]; [constructor|]. cbn [flat_map]. apply Forall_app. now split.
Qed.

(* a line that starts with an identifier opens no comment *)
Lemma opens_comment_ident (n x : string) : ident_ok n = true -> opens_comment (n ++ x) = None.
Proof.
  destruct n as [|c r]; [discriminate|]. cbn [ident_ok]. intros H. apply andb_true_iff in H.
  destruct H as [Hc _]. unfold opens_comment. cbn [append strip_prefix].
  destruct (Ascii.eqb_spec "/" c) as [<-|]; [discriminate Hc | reflexivity].
Qed.

Lemma comment_line_good (t : string) : no_nl t = true -> line_good ("/* " ++ t ++ " */").
Proof.
  intros H. split.
  - rewrite !no_nl_app, H. reflexivity.
  - rewrite <- sapp_assoc. now rewrite last_nonws_app by discriminate.
Qed.

(* ------------------------------------------------------------------ *)
(* lines ending with a closing bracket                                  *)

Definition ends_bracket (s : string) : Prop := exists x, s = x ++ "]".

Lemma ends_bracket_app (a b : string) : ends_bracket b -> ends_bracket (a ++ b).
Proof. intros [x ->]. exists (a ++ x). now rewrite sapp_assoc. Qed.

Lemma ends_bracket_good (s : string) : ends_bracket s -> last_nonws s = true /\ s <> "".
Proof.
  intros [x ->]. split; [now rewrite last_nonws_app by discriminate|].
  destruct x; discriminate.
Qed.

Lemma qstr_ends (q : Z) : ends_bracket (qstr q).
Proof. exists ("q[" ++ string_of_Z q). unfold qstr. now rewrite !sapp_assoc. Qed.

Lemma join_qstr_ends (qs : list Z) : qs <> [] -> ends_bracket (join ", " (map qstr qs)).
Proof.
  induction qs as [|q [|q' l] IH]; [congruence | intros _; apply qstr_ends | intros _].
  change (join ", " (map qstr (q :: q' :: l))) with (qstr q ++ ", " ++ join ", " (map qstr (q' :: l))).
  apply ends_bracket_app, ends_bracket_app, IH. discriminate.
Qed.

(* ------------------------------------------------------------------ *)
(* reading the operand and parameter lists                              *)

Lemma read_qubits_join (qs : list Z) : qs <> [] -> Forall (fun q => (0 <= q)%Z) qs ->
  read_qubits (join ", " (map qstr qs)) = Some qs.
Proof.
  intros Hne H. unfold read_qubits.
  rewrite (bind_list_join qstr (read_index_only "q") (fun q => q) qs Hne); [now rewrite map_id|].
  eapply Forall_impl; [|exact H]. cbn beta. intros q Hq. split.
  - apply tok_chars_no_comma, qstr_tok.
  - now apply read_index_only_qstr.
Qed.

Lemma span_ident (n r : string) :
  ident_ok n = true -> starts_not is_ident_char r = true -> span is_ident_char (n ++ r) = (n, r).
Proof. intros Hn Hr. apply span_app; [now apply ident_ok_chars | exact Hr]. Qed.

Lemma read_gate3_noparams (n J : string) :
  ident_ok n = true -> read_gate3 (n ++ String " " J) = option_map (RGate n []) (read_qubits J).
Proof.
  intros Hn. unfold read_gate3. rewrite (span_ident n (String " " J) Hn eq_refl), Hn. reflexivity.
Qed.

Lemma read_gate3_params (n JP JQ : string) :
  ident_ok n = true -> forall_chars (neq_char ")") JP = true ->
  read_gate3 (n ++ String "(" (JP ++ String ")" (String " " JQ))) =
  match read_params3 JP, read_qubits JQ with
  | Some ps, Some qs => Some (RGate n ps qs)
  | _, _ => None
  end.
Proof.
  intros Hn HJ. unfold read_gate3.
  rewrite (span_ident n (String "(" (JP ++ String ")" (String " " JQ))) Hn eq_refl), Hn.
  change (Ascii.eqb "(" " ") with false. change (Ascii.eqb "(" "(") with true. cbv iota.
  change (fun x : ascii => negb (Ascii.eqb x ")")) with (neq_char ")").
  rewrite (span_app (neq_char ")") JP (String ")" (String " " JQ)) HJ eq_refl). reflexivity.
Qed.

(* ------------------------------------------------------------------ *)
Section ReaderP.
  Context {T : Type}.
  Variable dec8 : T -> dec.
  Variable anon_text : gate T -> string.

  Notation stmt := (stmt T).
  Notation arg := (arg T).
  Notation v3_stmt := (v3_stmt dec8 anon_text).
  Notation v3_arg := (v3_arg dec8).
  Notation v1_stmt := (v1_stmt dec8).

  (* what an argument reads back as *)
  Definition rarg_of (a : arg) : rarg :=
    match a with
    | AQ q => RQ q
    | AB b => RB b
    | AF x => RNumLit (v3_float dec8 x)
    | AI k => RInt k
    end.

  Definition qubit_ids (args : list arg) : list Z :=
    flat_map (fun a => match a with AQ q => [q] | _ => [] end) args.

  (* indices are natural numbers, reals are well-formed finite decimals *)
  Definition arg_ok (a : arg) : Prop :=
    match a with
    | AQ q => (0 <= q)%Z
    | AB b => (0 <= b)%Z
    | AF x => wf_dec (dec8 x) /\ dec_finite (dec8 x)
    | AI _ => True
    end.

  Lemma qubits_of_ids (args : list arg) : map v3_arg (qubits_of args) = map qstr (qubit_ids args).
  Proof.
    unfold qubits_of, qubit_ids. induction args as [|a l IH]; [reflexivity|].
    cbn [filter flat_map]. destruct a; cbn [is_qarg map List.app Writer.v3_arg]; now rewrite IH.
  Qed.

  Lemma qubit_ids_ok (args : list arg) : Forall arg_ok args -> Forall (fun q => (0 <= q)%Z) (qubit_ids args).
  Proof.
    unfold qubit_ids. induction 1 as [|a l Ha _ IH]; [constructor|].
    cbn [flat_map]. destruct a; cbn [List.app]; auto.
  Qed.

  Lemma params_of_ok (args : list arg) :
    Forall arg_ok args -> Forall (fun a => arg_ok a /\ is_qarg a = false) (params_of args).
  Proof.
    unfold params_of. induction 1 as [|a l Ha _ IH]; [constructor|].
    cbn [filter]. destruct a; cbn [is_qarg negb]; auto.
  Qed.

  Lemma v3_float_tok (x : T) : wf_dec (dec8 x) -> dec_finite (dec8 x) ->
    forall_chars is_tok_char (v3_float dec8 x) = true.
  Proof.
    intros Hw Hf. unfold v3_float. eapply forall_chars_mono; [exact num_is_tok|].
    now apply render_fix_num.
  Qed.

  Lemma v3_arg_tok (a : arg) : arg_ok a -> forall_chars is_tok_char (v3_arg a) = true.
  Proof.
    destruct a; cbn [arg_ok Writer.v3_arg]; intros H;
      [apply qstr_tok | apply bstr_tok | now apply v3_float_tok | apply string_of_Z_tok].
  Qed.

  Lemma bstr_not_float (b : Z) : is_signed_float_literal (bstr b) = false.
  Proof. rewrite <- (sapp_nil_r (bstr b)), bstr_unfold. reflexivity. Qed.

  Lemma bstr_not_int (b : Z) : read_int (bstr b) = None.
  Proof. rewrite <- (sapp_nil_r (bstr b)), bstr_unfold. reflexivity. Qed.

  (* a parameter is read back as what was written *)
  Lemma read_param3_arg (a : arg) : arg_ok a -> is_qarg a = false ->
    read_param3 (v3_arg a) = Some (rarg_of a).
  Proof.
    destruct a as [q|b|x|k]; cbn [arg_ok is_qarg Writer.v3_arg rarg_of]; intros H Hq; [discriminate| | |].
    - unfold read_param3. now rewrite bstr_not_float, bstr_not_int, read_index_only_bstr.
    - unfold read_param3. destruct H as [Hw Hf].
      unfold v3_float. now rewrite (render_fix_is_literal _ Hw Hf).
    - unfold read_param3. now rewrite string_of_Z_not_float, read_int_string_of_Z.
  Qed.

  Lemma read_params3_join (ps : list arg) : ps <> [] ->
    Forall (fun a => arg_ok a /\ is_qarg a = false) ps ->
    read_params3 (join ", " (map v3_arg ps)) = Some (map rarg_of ps).
  Proof.
    intros Hne H. unfold read_params3. apply (bind_list_join v3_arg read_param3 rarg_of ps Hne).
    eapply Forall_impl; [|exact H]. cbn beta. intros a [Ha Hq]. split.
    - now apply tok_chars_no_comma, v3_arg_tok.
    - now apply read_param3_arg.
  Qed.

  Lemma join_args_chars (p : ascii -> bool) (l : list arg) :
    (forall c, is_tok_char c = true -> p c = true) -> p ","%char = true -> p " "%char = true ->
    Forall arg_ok l -> forall_chars p (join ", " (map v3_arg l)) = true.
  Proof.
    intros Hp Hc Hs H. apply forall_chars_join; [cbn; now rewrite Hc, Hs|].
    apply Forall_map. eapply Forall_impl; [|exact H]. cbn beta. intros a Ha.
    eapply forall_chars_mono; [exact Hp | now apply v3_arg_tok].
  Qed.

  (* the text of a named gate:  name(p1, p2) q[i], q[j] *)
  Definition gate_text (n : string) (args : list arg) : string :=
    (n ++ match map v3_arg (params_of args) with
          | [] => ""
          | _ => "(" ++ join ", " (map v3_arg (params_of args)) ++ ")"
          end) ++ " " ++ join ", " (map v3_arg (qubits_of args)).

  Lemma read_gate3_text (n : string) (args : list arg) :
    ident_ok n = true -> Forall arg_ok args -> qubit_ids args <> [] ->
    read_gate3 (gate_text n args) = Some (RGate n (map rarg_of (params_of args)) (qubit_ids args)).
  Proof.
    intros Hn Hargs Hq. unfold gate_text. rewrite qubits_of_ids.
    pose proof (read_qubits_join _ Hq (qubit_ids_ok _ Hargs)) as HQ.
    pose proof (params_of_ok _ Hargs) as HP.
    destruct (params_of args) as [|p ps] eqn:E.
    - cbn [map]. rewrite sapp_nil_r. cbn [append]. rewrite (read_gate3_noparams _ _ Hn), HQ. reflexivity.
    - set (JP := join ", " (map v3_arg (p :: ps))). cbn [map]. rewrite !sapp_assoc. cbn [append].
      rewrite (read_gate3_params _ _ _ Hn).
      + unfold JP. rewrite (read_params3_join (p :: ps)) by (auto; discriminate). now rewrite HQ.
      + unfold JP. apply join_args_chars; try reflexivity.
        * apply class_excludes. reflexivity.
        * eapply Forall_impl; [|exact HP]. cbn beta. tauto.
  Qed.

  Lemma gate_text_good (n : string) (args : list arg) :
    ident_ok n = true -> Forall arg_ok args -> qubit_ids args <> [] ->
    line_good (gate_text n args) /\ gate_text n args <> "".
  Proof.
    intros Hn Hargs Hq.
    assert (He : ends_bracket (gate_text n args)).
    { unfold gate_text. rewrite qubits_of_ids. apply ends_bracket_app, ends_bracket_app.
      now apply join_qstr_ends. }
    destruct (ends_bracket_good _ He) as [Hl Hne]. split; [split; [|exact Hl] | exact Hne].
    apply line_chars_no_nl. unfold gate_text.
    assert (HJ : forall l, Forall arg_ok l -> forall_chars is_line_char (join ", " (map v3_arg l)) = true).
    { intros l Hl'. apply join_args_chars; auto using tok_is_line. }
    rewrite !forall_chars_app.
    rewrite (forall_chars_mono is_ident_char is_line_char n) by
      (try apply ident_ok_chars; auto; intros c Hc; now apply tok_is_line, ident_is_tok).
    assert (HPo : Forall arg_ok (params_of args)).
    { eapply Forall_impl; [|exact (params_of_ok _ Hargs)]. cbn beta. tauto. }
    assert (HQo : Forall arg_ok (qubits_of args)).
    { unfold qubits_of. apply Forall_forall. intros a Ha. apply filter_In in Ha.
      rewrite Forall_forall in Hargs. now apply Hargs. }
    rewrite (HJ _ HQo). cbn [andb forall_chars]. rewrite andb_true_r.
    destruct (map v3_arg (params_of args)) eqn:E; [reflexivity|].
    rewrite <- E, !forall_chars_app, (HJ _ HPo). reflexivity.
  Qed.

  (* ---------------- the lines of a statement ---------------- *)

  (* the text a statement is written as, without the empty lines around a
     comment: one non-empty line, except for a comment whose text has newlines *)
  Definition main_line (s : stmt) : string :=
    match s with
    | SComment t => "/* " ++ t ++ " */"
    | SGate _ g gi =>
        match gargs gi with
        | None => anon_text g
        | Some args => gate_text (name_of gi "") args
        end
    | SMeasure _ _ _ _ gi =>
        match gargs gi with
        | Some (a0 :: a1 :: _) => v3_arg a1 ++ " = " ++ name_of gi "" ++ " " ++ v3_arg a0
        | _ => name_of gi "<abstract_measure>"
        end
    | SReset _ _ gi =>
        match gargs gi with
        | Some (a0 :: _) => name_of gi "" ++ " " ++ v3_arg a0
        | _ => name_of gi "<abstract_reset>"
        end
    end.

  (* the lines of a statement; a comment is surrounded by two empty lines and
     occupies as many lines as its text *)
  Definition stmt_lines (s : stmt) : list string :=
    match s with
    | SComment t => "" :: comment_lines (split_on nl_char t) ++ [""]
    | _ => [main_line s]
    end.

  Lemma comment_unlines (t : string) :
    NL ++ "/* " ++ t ++ " */" ++ NL ++ NL = unlines ("" :: comment_lines (split_on nl_char t) ++ [""]).
  Proof.
    change ("" :: comment_lines (split_on nl_char t) ++ [""])%list
      with ([""] ++ comment_lines (split_on nl_char t) ++ [""])%list.
    rewrite !unlines_app, (unlines_comment_lines _ (split_on_nonempty nl_char t)).
    change NL with (String nl_char "") at 4. rewrite join_split_on.
    cbn [unlines]. now rewrite ?sapp_assoc, ?sapp_nil_r.
  Qed.

  Lemma v3_stmt_unlines (s : stmt) (x : string) :
    v3_stmt s = Some x -> x = unlines (stmt_lines s).
  Proof.
    destruct s as [o g gi|o q b ax gi|o q gi|t]; cbn [Writer.v3_stmt stmt_lines main_line unlines].
    - destruct (gargs gi) as [args|]; intros H; injection H as <-.
      + unfold gate_text. fold (params_of args). fold (qubits_of args).
        rewrite ?sapp_assoc, ?sapp_nil_r. reflexivity.
      + now rewrite sapp_nil_r.
    - destruct (gargs gi) as [[|a0 [|a1 l]]|]; intros H; try discriminate; injection H as <-;
        rewrite ?sapp_assoc, ?sapp_nil_r; reflexivity.
    - destruct (gargs gi) as [[|a0 l]|]; intros H; try discriminate; injection H as <-;
        rewrite ?sapp_assoc, ?sapp_nil_r; reflexivity.
    - intros H; injection H as <-. apply comment_unlines.
  Qed.

  (* what a statement should read back as *)
  Definition line_of (s : stmt) : rline :=
    match s with
    | SComment t => RComment t
    | SGate _ g gi =>
        match gargs gi with
        | None => RRaw (anon_text g)
        | Some args => RGate (name_of gi "") (map rarg_of (params_of args)) (qubit_ids args)
        end
    | SMeasure _ _ _ _ gi =>
        match gargs gi with
        | Some (AQ q :: AB b :: _) => RAssign b (name_of gi "") q
        | _ => RRaw (main_line s)
        end
    | SReset _ _ gi =>
        match gargs gi with
        | Some (AQ q :: _) => RGate (name_of gi "") [] [q]
        | _ => RRaw (main_line s)
        end
    end.

  (* the side conditions of the round trip, statement by statement:
     names are identifiers, indices are natural numbers, reals are well-formed
     finite decimals, a gate has at least one qubit operand, a measure is
     (qubit, bit), a reset is (qubit), a comment has no terminator (it may have
     newlines, empty lines, "/*", blanks anywhere: every text the builder accepts);
     no anonymous gate, no abstract measure or reset *)
  Definition stmt_ok (s : stmt) : Prop :=
    match s with
    | SComment t => contains "*/" t = false
    | SGate _ _ gi =>
        exists n args, gname gi = Some n /\ gargs gi = Some args /\ ident_ok n = true /\
                       Forall arg_ok args /\ qubit_ids args <> []
    | SMeasure _ _ _ _ gi =>
        exists n q b rest, gname gi = Some n /\ gargs gi = Some (AQ q :: AB b :: rest) /\
                           ident_ok n = true /\ (0 <= q)%Z /\ (0 <= b)%Z
    | SReset _ _ gi =>
        exists n q rest, gname gi = Some n /\ gargs gi = Some (AQ q :: rest) /\
                         ident_ok n = true /\ (0 <= q)%Z
    end.

  Definition writable (ir : list stmt) : Prop := Forall stmt_ok ir.

  (* the weaker condition under which every statement is still read as one
     item: an anonymous gate is allowed when its text is not empty, has no
     newline, does not end with a blank and does not open a block comment (it
     is not "/* x" with x free of "*/"; see [read3_anonymous_open_comment_refuted]) *)
  Definition stmt_ok_anon (s : stmt) : Prop :=
    match s with
    | SGate _ g gi =>
        stmt_ok s \/ (gargs gi = None /\ line_good (anon_text g) /\ anon_text g <> "" /\
                      opens_comment (anon_text g) = None)
    | _ => stmt_ok s
    end.

  Lemma measure_line_eq (n : string) (q b : Z) :
    bstr b ++ " = " ++ n ++ " " ++ qstr q =
    String "b" (String "[" (string_of_Z b ++ String "]" (" = " ++ n ++ " " ++ qstr q))).
  Proof. apply bstr_unfold. Qed.

  Lemma read_measure_line (n : string) (q b : Z) :
    ident_ok n = true -> (0 <= q)%Z -> (0 <= b)%Z ->
    read_line3 (bstr b ++ " = " ++ n ++ " " ++ qstr q) = RAssign b n q.
  Proof.
    intros Hn Hq Hb. unfold read_line3.
    assert (G : read_gate3 (bstr b ++ " = " ++ n ++ " " ++ qstr q) = None).
    { rewrite measure_line_eq. reflexivity. }
    rewrite G. cbn [first_some].
    assert (A : read_assign3 (bstr b ++ " = " ++ n ++ " " ++ qstr q) = Some (RAssign b n q)).
    { unfold read_assign3. rewrite (read_index_bstr b _ Hb).
      rewrite (strip_prefix_app " = " (n ++ " " ++ qstr q)).
      rewrite (span_ident n (" " ++ qstr q) Hn eq_refl), Hn.
      rewrite (strip_prefix_app " " (qstr q)), (read_index_only_qstr q Hq). reflexivity. }
    rewrite A. reflexivity.
  Qed.

  Lemma read_reset_line (n : string) (q : Z) :
    ident_ok n = true -> (0 <= q)%Z -> read_line3 (n ++ " " ++ qstr q) = RGate n [] [q].
  Proof.
    intros Hn Hq. unfold read_line3. cbn [append]. rewrite (read_gate3_noparams _ _ Hn).
    change (qstr q) with (join ", " (map qstr [q])).
    rewrite read_qubits_join; [reflexivity | discriminate | now constructor].
  Qed.

  (* per statement: the text read back is the statement (for a comment of
     several lines the line reader is applied to the whole block, newlines
     included; [read_stmt3_lines] below is the statement about the lines) *)
  Theorem read_line3_stmt (s : stmt) : stmt_ok s -> read_line3 (main_line s) = line_of s.
  Proof.
    destruct s as [o g gi|o q b ax gi|o q gi|t]; cbn [stmt_ok main_line line_of].
    - intros (n & args & Hgn & Hga & Hn & Hargs & Hq). rewrite Hga. unfold name_of. rewrite Hgn.
      unfold read_line3. now rewrite (read_gate3_text n args Hn Hargs Hq).
    - intros (n & q' & b' & rest & Hgn & Hga & Hn & Hq & Hb). rewrite Hga. unfold name_of. rewrite Hgn.
      cbn [Writer.v3_arg]. now apply read_measure_line.
    - intros (n & q' & rest & Hgn & Hga & Hn & Hq). rewrite Hga. unfold name_of. rewrite Hgn.
      cbn [Writer.v3_arg]. now apply read_reset_line.
    - intros Hc. unfold read_line3.
      rewrite comment_not_gate3, comment_not_assign3, (read_comment_text t Hc). reflexivity.
  Qed.

  Definition is_comment_stmt (s : stmt) : bool := match s with SComment _ => true | _ => false end.

  (* every statement but a comment is one good line that opens no comment *)
  Lemma main_line_good (s : stmt) : stmt_ok_anon s -> is_comment_stmt s = false ->
    line_good (main_line s) /\ main_line s <> "" /\ opens_comment (main_line s) = None.
  Proof.
    intros Hok Hnc. cut ((line_good (main_line s) /\ main_line s <> "") /\ opens_comment (main_line s) = None); [tauto|].
    revert Hok.
    assert (Hq : forall n a, ident_ok n = true ->
              forall_chars is_line_char (n ++ " " ++ a) = forall_chars is_line_char a).
    { intros n a Hn. rewrite !forall_chars_app.
      rewrite (forall_chars_mono is_ident_char is_line_char n); [reflexivity| |now apply ident_ok_chars].
      intros c Hc. now apply tok_is_line, ident_is_tok. }
    assert (Hqs : forall q, forall_chars is_line_char (qstr q) = true).
    { intros q. eapply forall_chars_mono; [exact tok_is_line | apply qstr_tok]. }
    destruct s as [o g gi|o q b ax gi|o q gi|t]; cbn [stmt_ok_anon stmt_ok main_line]; [| | |discriminate Hnc].
    - intros [(n & args & Hgn & Hga & Hn & Hargs & Hqn) | (Hga & Hg & Hne & Ho)].
      + rewrite Hga. unfold name_of. rewrite Hgn. split; [now apply gate_text_good|].
        unfold gate_text. rewrite !sapp_assoc. now apply opens_comment_ident.
      + rewrite Hga. auto.
    - intros (n & q' & b' & rest & Hgn & Hga & Hn & Hq' & Hb). rewrite Hga. unfold name_of. rewrite Hgn.
      cbn [Writer.v3_arg]. split; [|rewrite measure_line_eq; reflexivity].
      assert (He : ends_bracket (bstr b' ++ " = " ++ n ++ " " ++ qstr q')).
      { do 4 apply ends_bracket_app. apply qstr_ends. }
      destruct (ends_bracket_good _ He) as [Hl Hne]. split; [split; [|exact Hl] | exact Hne].
      apply line_chars_no_nl. rewrite forall_chars_app, forall_chars_app, (Hq n _ Hn), Hqs.
      rewrite (forall_chars_mono is_tok_char is_line_char (bstr b') tok_is_line (bstr_tok b')). reflexivity.
    - intros (n & q' & rest & Hgn & Hga & Hn & Hq'). rewrite Hga. unfold name_of. rewrite Hgn.
      cbn [Writer.v3_arg]. split; [|now apply opens_comment_ident].
      assert (He : ends_bracket (n ++ " " ++ qstr q')).
      { do 2 apply ends_bracket_app. apply qstr_ends. }
      destruct (ends_bracket_good _ He) as [Hl Hne]. split; [split; [|exact Hl] | exact Hne].
      apply line_chars_no_nl. now rewrite (Hq n _ Hn), Hqs.
  Qed.

  (* THE LINES OF ONE STATEMENT: they have no newline, the final rstrip stops at
     them, and the body reader reads them as exactly one item, the one the line
     reader gives for the whole text of the statement, leaving no comment open *)
  Theorem read_stmt3_lines (s : stmt) : stmt_ok_anon s ->
    Forall (fun l => no_nl l = true) (stmt_lines s) /\
    trail_good (stmt_lines s) = true /\
    read_body read_line3 None (stmt_lines s) = [read_line3 (main_line s)] /\
    body_state None (stmt_lines s) = None.
  Proof.
    intros Hok. destruct (is_comment_stmt s) eqn:Ec.
    - destruct s as [| | |t]; try discriminate Ec. cbn [stmt_ok_anon stmt_ok] in Hok.
      assert (Hr : read_line3 ("/* " ++ t ++ " */") = RComment t).
      { unfold read_line3. now rewrite comment_not_gate3, comment_not_assign3, (read_comment_text t Hok). }
      rewrite <- has_close_contains in Hok. cbn [stmt_lines main_line]. rewrite Hr.
      split; [|split; [|exact (comment_block_read read_line3 t Hok Hr)]].
      + constructor; [reflexivity|]. apply Forall_app. split; [|repeat constructor].
        apply comment_lines_no_nl, split_nl_no_nl.
      + apply comment_block_trail_good, split_on_nonempty.
    - destruct (main_line_good s Hok Ec) as ([Hnl Hl] & Hne & Ho).
      assert (E : stmt_lines s = [main_line s]) by (destruct s; try reflexivity; discriminate Ec).
      rewrite E. split; [repeat constructor; exact Hnl|]. split.
      + cbn [trail_good forallb]. now rewrite Hl.
      + now apply single_line_read.
  Qed.

  Lemma stmt_ok_anon_of_ok (s : stmt) : stmt_ok s -> stmt_ok_anon s.
  Proof. destruct s; cbn [stmt_ok_anon]; auto. Qed.

  (* ---------------- the whole text ---------------- *)

  (* [read3] on the list of lines *)
  Definition read3_lines (ls : list string) : option rprogram :=
    match ls with
    | v :: e :: q :: rest =>
        match read_version v, read_decl "qubit[" "] q" q with
        | Some ver, Some n =>
            if is_empty e then
              match rest with
              | [] => Some {| r_version := ver; r_nq := n; r_nb := 0; r_lines := [] |}
              | b :: rest' =>
                  if is_empty b then
                    Some {| r_version := ver; r_nq := n; r_nb := 0;
                            r_lines := read_body read_line3 None rest' |}
                  else
                    match read_decl "bit[" "] b" b with
                    | Some m => Some {| r_version := ver; r_nq := n; r_nb := m;
                                        r_lines := read_body read_line3 None rest' |}
                    | None => None
                    end
              end
            else None
        | _, _ => None
        end
    | _ => None
    end.

  Lemma read3_eq (text : string) : read3 text = read3_lines (split_on nl_char text).
  Proof. reflexivity. Qed.

  (* the body (what follows the fourth line) leaves no comment open *)
  Definition body_closed (rest : list string) : Prop :=
    match rest with [] => True | _ :: rest' => body_state None rest' = None end.

  (* the number of trailing empty lines does not matter (when no comment is open) *)
  Lemma read3_lines_empty_tail (v e q : string) (rest : list string) (k j : nat) :
    body_closed (rest ++ repeat "" k) ->
    read3_lines (v :: e :: q :: rest ++ repeat "" j) = read3_lines (v :: e :: q :: rest ++ repeat "" k).
  Proof.
    intros H. unfold read3_lines. destruct rest as [|b rest'].
    - cbn [List.app]. destruct j as [|j], k as [|k]; cbn [repeat is_empty];
        rewrite ?read_body_empties; reflexivity.
    - cbn [List.app body_closed] in *. now rewrite (read_body_empty_tail read_line3 rest' k j H).
  Qed.

  Lemma read_decl_app (pre post : string) (k : Z) :
    (0 <= k)%Z -> starts_with_digit post = false ->
    read_decl pre post (pre ++ string_of_Z k ++ post) = Some k.
  Proof.
    intros Hk Hp. destruct (string_of_Z_nonneg k Hk) as (Ha & Hn & Hv).
    unfold read_decl. rewrite strip_prefix_app, (span_digits_app _ _ Ha Hp), String.eqb_refl.
    unfold nonempty. destruct (string_of_Z k); [congruence|]. cbn [is_empty negb andb]. now rewrite Hv.
  Qed.

  Definition qubit_line (nq : Z) : string := "qubit[" ++ string_of_Z nq ++ "] q".
  Definition bit_line (nb : Z) : string := "bit[" ++ string_of_Z nb ++ "] b".

  Definition tail_lines (nb : Z) (ir : list stmt) : list string :=
    ((if Z.ltb 0 nb then [bit_line nb] else []) ++ "" :: flat_map stmt_lines ir)%list.

  Lemma body3_unlines (ir : list stmt) (body : string) :
    body3 dec8 anon_text ir = Some body -> body = unlines (flat_map stmt_lines ir).
  Proof.
    unfold body3. revert body. induction ir as [|s ir IH]; intros body H; cbn [map concat_opt] in H.
    - now injection H as <-.
    - destruct (v3_stmt s) as [x|] eqn:Ex; [|discriminate].
      destruct (concat_opt (map v3_stmt ir)) as [r|]; [|discriminate]. injection H as <-.
      cbn [flat_map]. now rewrite unlines_app, (v3_stmt_unlines s x Ex), (IH r eq_refl).
  Qed.

  Lemma header3_unlines (nq nb : Z) (ir : list stmt) (body : string) :
    body = unlines (flat_map stmt_lines ir) ->
    header3 nq nb ++ body = unlines (["version 3.0"; ""] ++ qubit_line nq :: tail_lines nb ir).
  Proof.
    intros ->. unfold header3, tail_lines, qubit_line, bit_line.
    destruct (Z.ltb 0 nb); cbn [List.app unlines]; rewrite ?sapp_assoc; reflexivity.
  Qed.

  Lemma digits_no_nl (k : Z) (a b : string) : no_nl a = true -> no_nl b = true ->
    no_nl (a ++ string_of_Z k ++ b) = true.
  Proof. intros Ha Hb. now rewrite !no_nl_app, Ha, Hb, string_of_Z_no_nl. Qed.

  Lemma trail_good_pair (l : string) : last_nonws l = true -> trail_good [l; ""] = true.
  Proof. intros H. cbn [trail_good forallb is_empty andb last_nonws]. now rewrite H. Qed.

  (* the statements of a circuit: what [read_stmt3_lines] says, for all of them *)
  Lemma stmts_lines_good (ir : list stmt) :
    Forall stmt_ok_anon ir ->
    Forall (fun l => no_nl l = true) (flat_map stmt_lines ir) /\
    trail_good (flat_map stmt_lines ir) = true /\
    read_body read_line3 None (flat_map stmt_lines ir) = map (fun s => read_line3 (main_line s)) ir /\
    body_state None (flat_map stmt_lines ir) = None.
  Proof.
    intros H. pose proof (Forall_impl _ read_stmt3_lines H) as HS. cbn beta in HS.
    split; [|split].
    - apply flat_no_nl. eapply Forall_impl; [|exact HS]. cbn beta. tauto.
    - apply flat_trail_good. eapply Forall_impl; [|exact HS]. cbn beta. tauto.
    - apply (flat_read read_line3 stmt_lines (fun s => read_line3 (main_line s))).
      eapply Forall_impl; [|exact HS]. cbn beta. tauto.
  Qed.

  Lemma tail_lines_good (nb : Z) (ir : list stmt) :
    Forall stmt_ok_anon ir ->
    Forall (fun l => no_nl l = true) (tail_lines nb ir) /\
    trail_good (tail_lines nb ir) = true /\
    body_closed (tail_lines nb ir).
  Proof.
    intros H. destruct (stmts_lines_good ir H) as (H1 & H2 & _ & H3).
    unfold tail_lines. destruct (Z.ltb 0 nb); cbn [List.app body_closed].
    - split; [|split; [|exact H3]].
      + constructor; [unfold bit_line; now apply digits_no_nl|]. constructor; [reflexivity | exact H1].
      + change (bit_line nb :: "" :: flat_map stmt_lines ir)
          with ([bit_line nb; ""] ++ flat_map stmt_lines ir)%list.
        apply trail_good_app; [|exact H2]. apply trail_good_pair. unfold bit_line.
        rewrite <- sapp_assoc. now rewrite last_nonws_app by discriminate.
    - split; [|split; [|exact H3]].
      + constructor; [reflexivity | exact H1].
      + change ("" :: flat_map stmt_lines ir) with ([""] ++ flat_map stmt_lines ir)%list.
        now apply trail_good_app.
  Qed.

  Lemma read3_lines_header (nq nb : Z) (ir : list stmt) :
    (0 <= nq)%Z -> (0 <= nb)%Z ->
    read3_lines ("version 3.0" :: "" :: qubit_line nq :: tail_lines nb ir) =
    Some {| r_version := "3.0"; r_nq := nq; r_nb := nb;
            r_lines := read_body read_line3 None (flat_map stmt_lines ir) |}.
  Proof.
    intros Hq Hb. unfold read3_lines.
    change (read_version "version 3.0") with (Some "3.0").
    unfold qubit_line. rewrite (read_decl_app "qubit[" "] q" nq Hq eq_refl). cbn [is_empty].
    unfold tail_lines. destruct (Z.ltb_spec 0 nb) as [Hlt|Hge]; cbn [List.app].
    - assert (Hbe : is_empty (bit_line nb) = false) by reflexivity.
      rewrite Hbe. unfold bit_line.
      rewrite (read_decl_app "bit[" "] b" nb Hb eq_refl). reflexivity.
    - cbn [is_empty]. replace nb with 0%Z by lia. reflexivity.
  Qed.

  (* the round trip, anonymous gates included: every statement is read back from
     its own line(s), in order, none omitted *)
  Theorem read3_write3_lines (nq nb : Z) (ir : list stmt) (text : string) :
    write3 dec8 anon_text nq nb ir = Ok text ->
    (0 <= nq)%Z -> (0 <= nb)%Z -> Forall stmt_ok_anon ir ->
    read3 text = Some {| r_version := "3.0"; r_nq := nq; r_nb := nb;
                         r_lines := map (fun s => read_line3 (main_line s)) ir |}.
  Proof.
    intros Hw Hq Hb Hok.
    destruct (write3_header dec8 anon_text nq nb ir text Hw) as (body & Hbody & _).
    rewrite (write3_decomp dec8 anon_text nq nb ir body Hbody) in Hw.
    assert (Ht : text = rstrip (header3 nq nb ++ body) ++ NL) by congruence. clear Hw. subst text.
    rewrite (header3_unlines nq nb ir body (body3_unlines ir body Hbody)).
    destruct (tail_lines_good nb ir Hok) as (Hnl & Htg & Hcl).
    destruct (stmts_lines_good ir Hok) as (_ & _ & Hrd & _).
    assert (Hql : line_good (qubit_line nq) /\ qubit_line nq <> "").
    { unfold qubit_line. split; [split|discriminate].
      - now apply digits_no_nl.
      - rewrite <- sapp_assoc. now rewrite last_nonws_app by discriminate. }
    destruct Hql as [[Hqn Hql] Hqne].
    destruct (rstrip_unlines ["version 3.0"; ""] (tail_lines nb ir) (qubit_line nq) Hqne Hql Htg)
      as (R' & k & ER & ->).
    rewrite read3_eq, split_unlines.
    - cbn [List.app]. change [""] with (repeat "" 1).
      rewrite (read3_lines_empty_tail _ _ _ R' k 1) by (rewrite <- ER; exact Hcl). rewrite <- ER.
      rewrite (read3_lines_header nq nb ir Hq Hb), Hrd. reflexivity.
    - cbn [List.app]. repeat constructor; [exact Hqn|].
      rewrite ER in Hnl. apply Forall_app in Hnl. now destruct Hnl.
  Qed.

  (* THE ROUND TRIP: the text of a writable circuit reads back as the circuit *)
  Theorem read3_write3 (nq nb : Z) (ir : list stmt) (text : string) :
    write3 dec8 anon_text nq nb ir = Ok text ->
    (0 <= nq)%Z -> (0 <= nb)%Z -> writable ir ->
    read3 text = Some {| r_version := "3.0"; r_nq := nq; r_nb := nb; r_lines := map line_of ir |}.
  Proof.
    intros Hw Hq Hb Hok. rewrite (read3_write3_lines nq nb ir text Hw Hq Hb).
    - do 2 f_equal. apply map_ext_in. intros s Hs. apply read_line3_stmt.
      unfold writable in Hok. rewrite Forall_forall in Hok. now apply Hok.
    - eapply Forall_impl; [|exact Hok]. apply stmt_ok_anon_of_ok.
  Qed.

  (* ---------------- parameters: reals to 8 significant digits ---------------- *)

  (* the real parameters of a statement *)
  Definition stmt_reals (s : stmt) : list T :=
    match s with
    | SGate _ _ gi =>
        match gargs gi with
        | Some args => flat_map (fun a => match a with AF x => [x] | _ => [] end) args
        | None => []
        end
    | _ => []
    end.

  (* one parameter: the text written for x is read as the literal itself, the
     literal belongs to the float grammar of the lexer and denotes the decimal
     dec8 x, i.e. x rounded to 8 significant digits *)
  Theorem read_param3_value (x : T) :
    wf_dec (dec8 x) -> dec_finite (dec8 x) ->
    read_param3 (v3_arg (AF x)) = Some (RNumLit (v3_float dec8 x)) /\
    is_signed_float_literal (v3_float dec8 x) = true /\
    optQeq (signed_literal_value (v3_float dec8 x)) (dec_value (dec8 x)).
  Proof.
    intros Hw Hf. split; [|split].
    - apply (read_param3_arg (AF x)); [split; assumption | reflexivity].
    - now apply render_fix_is_literal.
    - now apply render_fix_value.
  Qed.

  (* every real literal the reader returns for the text of a writable circuit
     comes from a real parameter x of the circuit, is a float literal of the
     grammar, and its value is the decimal dec8 x *)
  Theorem read3_param_value (nq nb : Z) (ir : list stmt) (text : string) (p : rprogram) :
    write3 dec8 anon_text nq nb ir = Ok text ->
    (0 <= nq)%Z -> (0 <= nb)%Z -> writable ir ->
    read3 text = Some p ->
    forall name params qubits lit,
      In (RGate name params qubits) (r_lines p) -> In (RNumLit lit) params ->
      exists s x, In s ir /\ In x (stmt_reals s) /\ lit = v3_float dec8 x /\
                  is_signed_float_literal lit = true /\
                  optQeq (signed_literal_value lit) (dec_value (dec8 x)).
  Proof.
    intros Hw Hq Hb Hok Hr name params qubits lit Hl Hp.
    rewrite (read3_write3 nq nb ir text Hw Hq Hb Hok) in Hr. injection Hr as <-. cbn [r_lines] in Hl.
    apply in_map_iff in Hl. destruct Hl as (s & Hs & Hin). exists s.
    unfold writable in Hok. rewrite Forall_forall in Hok. pose proof (Hok s Hin) as Hso.
    destruct s as [o g gi|o q b ax gi|o q gi|t]; cbn [line_of stmt_ok stmt_reals] in *.
    - destruct Hso as (n & args & Hgn & Hga & Hn & Hargs & Hqn). rewrite Hga in *.
      injection Hs as _ <- _. apply in_map_iff in Hp. destruct Hp as (a & Ha & Hina).
      unfold params_of in Hina. apply filter_In in Hina. destruct Hina as [Hina _].
      rewrite Forall_forall in Hargs. pose proof (Hargs a Hina) as Hao.
      destruct a as [q|b|x|k]; try discriminate. cbn [rarg_of] in Ha. injection Ha as <-.
      destruct Hao as [Hw' Hf']. exists x. split; [exact Hin|]. split.
      + apply in_flat_map. exists (AF x). split; [exact Hina | now left].
      + split; [reflexivity|]. split; [now apply render_fix_is_literal | now apply render_fix_value].
    - destruct Hso as (n & q' & b' & rest & Hgn & Hga & _). rewrite Hga in Hs. discriminate.
    - destruct Hso as (n & q' & rest & Hgn & Hga & _). rewrite Hga in Hs.
      injection Hs as _ <- _. destruct Hp.
    - discriminate.
  Qed.

  (* ---------------- comments, anonymous gates ---------------- *)

  (* comments survive, at their position and with their text *)
  Theorem read3_comments_survive (nq nb : Z) (ir : list stmt) (text : string) :
    write3 dec8 anon_text nq nb ir = Ok text ->
    (0 <= nq)%Z -> (0 <= nb)%Z -> writable ir ->
    exists p, read3 text = Some p /\
      forall i t, nth_error ir i = Some (SComment t) -> nth_error (r_lines p) i = Some (RComment t).
  Proof.
    intros Hw Hq Hb Hok. eexists. split; [apply (read3_write3 nq nb ir text Hw Hq Hb Hok)|].
    intros i t Hi. cbn [r_lines]. now rewrite (map_nth_error line_of i ir Hi).
  Qed.

  (* a single comment line *)
  Corollary read_line3_comment (t : string) :
    contains "*/" t = false -> read_line3 ("/* " ++ t ++ " */") = RComment t.
  Proof.
    intros H. unfold read_line3.
    now rewrite comment_not_gate3, comment_not_assign3, (read_comment_text t H).
  Qed.

  (* with anonymous gates in the circuit (their text on one non-empty line), every
     statement still yields exactly one line, in order, none omitted; the named
     statements and the comments are read back as themselves *)
  Theorem read3_anonymous_one_line (nq nb : Z) (ir : list stmt) (text : string) :
    write3 dec8 anon_text nq nb ir = Ok text ->
    (0 <= nq)%Z -> (0 <= nb)%Z -> Forall stmt_ok_anon ir ->
    exists p, read3 text = Some p /\
      r_nq p = nq /\ r_nb p = nb /\
      List.length (r_lines p) = List.length ir /\
      forall i s, nth_error ir i = Some s ->
        nth_error (r_lines p) i = Some (read_line3 (main_line s)) /\
        (stmt_ok s -> nth_error (r_lines p) i = Some (line_of s)).
  Proof.
    intros Hw Hq Hb Hok. eexists. split; [apply (read3_write3_lines nq nb ir text Hw Hq Hb Hok)|].
    cbn [r_nq r_nb r_lines]. split; [reflexivity|]. split; [reflexivity|]. split; [apply map_length|].
    intros i s Hi. rewrite (map_nth_error (fun s => read_line3 (main_line s)) i ir Hi).
    split; [reflexivity|]. intros Hs. now rewrite (read_line3_stmt s Hs).
  Qed.

  (* an anonymous gate whose text is neither an instruction nor a comment is kept as it is *)
  Lemma read_line3_raw (l : string) :
    read_gate3 l = None -> read_assign3 l = None -> read_comment l = None -> read_line3 l = RRaw l.
  Proof. intros H1 H2 H3. unfold read_line3. now rewrite H1, H2, H3. Qed.

  (* without the side condition on reals the statement is false: an infinite angle
     is written as "inf", which is not a literal, and the line is not read back *)
  Theorem read3_write3_nonfinite_refuted :
    forall (x : T) (o : positive) (g : gate T), dec8 x = DInf false ->
      let s := SGate o g (mkGinfo (Some "Rx") (Some [AQ 0%Z; AF x])) in
      read_line3 (main_line s) = RRaw "Rx(inf) q[0]" /\ read_line3 (main_line s) <> line_of s.
  Proof.
    intros x o g Hx s. assert (E : main_line s = "Rx(inf) q[0]").
    { cbn [main_line s gargs]. unfold gate_text, name_of. cbn [gname params_of qubits_of filter is_qarg negb map].
      cbn [Writer.v3_arg]. unfold v3_float. rewrite Hx. reflexivity. }
    rewrite E. split; [reflexivity|]. cbn. discriminate.
  Qed.

  (* ================= cQASM 1 ================= *)

  Notation v1_text := (v1_text dec8).

  Definition rarg1_of (a : arg) : rarg :=
    match a with
    | AQ q => RQ q
    | AB b => RB b
    | AF x => RNumLit (v1_float dec8 x)
    | AI k => RInt k
    end.

  Lemma string_of_Z_num (k : Z) : forall_chars is_num_char (string_of_Z k) = true.
  Proof.
    destruct k as [|p|p].
    - reflexivity.
    - apply digits_num. now apply (string_of_Z_nonneg (Zpos p)).
    - rewrite string_of_Z_neg. cbn [forall_chars]. rewrite digits_num; [reflexivity|].
      now apply (string_of_Z_nonneg (Zpos p)).
  Qed.

  Lemma fix_literal_string_of_Z (k : Z) : fix_literal (string_of_Z k) = string_of_Z k.
  Proof.
    destruct k as [|p|p].
    - reflexivity.
    - apply fix_literal_no_e, all_digits_no_e. now apply (string_of_Z_nonneg (Zpos p)).
    - rewrite string_of_Z_neg. change (String "-" (string_of_Z (Z.pos p))) with (sign_str true ++ string_of_Z (Z.pos p)).
      rewrite fix_literal_sign. f_equal.
      apply fix_literal_no_e, all_digits_no_e. now apply (string_of_Z_nonneg (Zpos p)).
  Qed.

  Lemma v1_float_num (x : T) : wf_dec (dec8 x) -> dec_finite (dec8 x) ->
    forall_chars is_num_char (v1_float dec8 x) = true.
  Proof. intros Hw Hf. unfold v1_float. apply fix_literal_chars. now apply render_fix_num. Qed.

  Lemma read_index_only_num (s : string) : forall_chars is_num_char s = true -> read_index_only "q" s = None.
  Proof.
    intros H. unfold read_index_only. now rewrite (read_index_other is_num_char "q" s eq_refl H).
  Qed.

  Lemma v1_text_tok (a : arg) : arg_ok a -> forall_chars is_tok_char (v1_text a) = true.
  Proof.
    destruct a as [q|b|x|k]; cbn [arg_ok WriterP.v1_text]; intros H.
    - apply qstr_tok.
    - reflexivity.
    - destruct H as [Hw Hf]. eapply forall_chars_mono; [exact num_is_tok | now apply v1_float_num].
    - apply string_of_Z_tok.
  Qed.

  Lemma read_arg1_text (a : arg) : arg_ok a -> is_barg a = false ->
    read_arg1 (v1_text a) = Some (rarg1_of a).
  Proof.
    destruct a as [q|b|x|k]; cbn [arg_ok is_barg WriterP.v1_text rarg1_of]; intros H Hb; [|discriminate| |].
    - unfold read_arg1. now rewrite (read_index_only_qstr q H).
    - destruct H as [Hw Hf]. unfold read_arg1. rewrite (read_index_only_num _ (v1_float_num x Hw Hf)).
      unfold v1_float. now rewrite (render_fix_is_literal _ Hw Hf).
    - unfold read_arg1. rewrite (read_index_only_num _ (string_of_Z_num k)).
      now rewrite fix_literal_string_of_Z, string_of_Z_not_float, read_int_string_of_Z.
  Qed.

  Lemma read_gate1_text (n : string) (l : list arg) :
    ident_ok n = true -> l <> [] -> Forall (fun a => arg_ok a /\ is_barg a = false) l ->
    read_gate1 (n ++ " " ++ join ", " (map v1_text l)) =
    Some (RGate n (filter (fun a => negb (is_rq a)) (map rarg1_of l)) (rq_ids (map rarg1_of l))).
  Proof.
    intros Hn Hne H. unfold read_gate1.
    rewrite (span_ident n (" " ++ join ", " (map v1_text l)) Hn eq_refl), Hn, strip_prefix_app.
    rewrite (bind_list_join v1_text read_arg1 rarg1_of l Hne); [reflexivity|].
    eapply Forall_impl; [|exact H]. cbn beta. intros a [Ha Hb]. split.
    - now apply tok_chars_no_comma, v1_text_tok.
    - now apply read_arg1_text.
  Qed.

  Lemma rarg1_params (l : list arg) :
    filter (fun a => negb (is_rq a)) (map rarg1_of l) = map rarg1_of (params_of l) /\
    rq_ids (map rarg1_of l) = qubit_ids l.
  Proof.
    unfold params_of, qubit_ids. induction l as [|a l [IH1 IH2]]; [split; reflexivity|].
    destruct a; cbn [map rarg1_of filter is_rq is_qarg negb rq_ids flat_map List.app];
      rewrite IH1, IH2; split; reflexivity.
  Qed.

  Lemma params_of_app (a b : list arg) : params_of (a ++ b) = (params_of a ++ params_of b)%list.
  Proof. apply filter_app. Qed.

  Lemma qubit_ids_app (a b : list arg) : qubit_ids (a ++ b) = (qubit_ids a ++ qubit_ids b)%list.
  Proof. apply flat_map_app. Qed.

  Lemma params_of_qubits_of (args : list arg) : params_of (qubits_of args) = [].
  Proof.
    unfold params_of, qubits_of. induction args as [|a l IH]; [reflexivity|].
    destruct a; cbn [filter is_qarg negb]; exact IH.
  Qed.

  Lemma params_of_idem (args : list arg) : params_of (params_of args) = params_of args.
  Proof.
    unfold params_of. induction args as [|a l IH]; [reflexivity|].
    destruct a; cbn [filter is_qarg negb]; rewrite ?IH; reflexivity.
  Qed.

  Lemma qubit_ids_qubits_of (args : list arg) : qubit_ids (qubits_of args) = qubit_ids args.
  Proof.
    unfold qubit_ids, qubits_of. induction args as [|a l IH]; [reflexivity|].
    destruct a; cbn [filter is_qarg flat_map List.app]; rewrite ?IH; reflexivity.
  Qed.

  Lemma qubit_ids_params_of (args : list arg) : qubit_ids (params_of args) = [].
  Proof.
    unfold qubit_ids, params_of. induction args as [|a l IH]; [reflexivity|].
    destruct a; cbn [filter is_qarg negb flat_map List.app]; exact IH.
  Qed.

  Lemma params_qubits_split (args : list arg) :
    params_of (qubits_of args ++ params_of args) = params_of args /\
    qubit_ids (qubits_of args ++ params_of args) = qubit_ids args.
  Proof.
    rewrite params_of_app, qubit_ids_app.
    rewrite params_of_qubits_of, params_of_idem, qubit_ids_qubits_of, qubit_ids_params_of, app_nil_r.
    split; reflexivity.
  Qed.

  Lemma join_app (sep : string) (l1 l2 : list string) : l1 <> [] ->
    join sep l1 ++ (match l2 with [] => "" | _ => sep ++ join sep l2 end) = join sep (l1 ++ l2).
  Proof.
    induction l1 as [|x [|x' l1'] IH]; [congruence| |]; intros _.
    - destruct l2 as [|y l2']; [now rewrite sapp_nil_r | reflexivity].
    - change (join sep (x :: x' :: l1')) with (x ++ sep ++ join sep (x' :: l1')).
      change ((x :: x' :: l1') ++ l2)%list with (x :: x' :: (l1' ++ l2))%list.
      change (join sep (x :: x' :: (l1' ++ l2)%list)) with (x ++ sep ++ join sep ((x' :: l1') ++ l2)%list).
      rewrite <- IH by discriminate. now rewrite !sapp_assoc.
  Qed.

  (* the text of a statement in the cQASM 1 text (one non-empty line, except
     for a comment whose text has newlines) *)
  Definition main_line1 (s : stmt) : string :=
    match s with
    | SComment t => "/* " ++ t ++ " */"
    | SGate _ _ gi =>
        match gargs gi with
        | Some args => lower (name_of gi "") ++ " " ++
                       join ", " (map v1_text (qubits_of args ++ params_of args))
        | None => ""
        end
    | SMeasure _ _ _ _ gi =>
        match gargs gi with Some (AQ q :: _) => "measure_z " ++ qstr q | _ => "" end
    | SReset _ _ gi =>
        match gargs gi with Some (AQ q :: _) => "prep_z " ++ qstr q | _ => "" end
    end.

  Definition stmt_lines1 (s : stmt) : list string :=
    match s with
    | SComment t => "" :: comment_lines (split_on nl_char t) ++ [""]
    | _ => [main_line1 s]
    end.

  (* what a statement reads back as from the cQASM 1 text: lower-cased name,
     measure_z / prep_z, reals in Python's rendering *)
  Definition line_of1 (s : stmt) : rline :=
    match s with
    | SComment t => RComment t
    | SGate _ _ gi =>
        match gargs gi with
        | Some args => RGate (lower (name_of gi "")) (map rarg1_of (params_of args)) (qubit_ids args)
        | None => RRaw ""
        end
    | SMeasure _ _ _ _ gi =>
        match gargs gi with Some (AQ q :: _) => RGate "measure_z" [] [q] | _ => RRaw "" end
    | SReset _ _ gi =>
        match gargs gi with Some (AQ q :: _) => RGate "prep_z" [] [q] | _ => RRaw "" end
    end.

  Definition stmt_ok1 (s : stmt) : Prop :=
    match s with
    | SComment t => contains "*/" t = false
    | SGate _ _ gi =>
        exists n args, gname gi = Some n /\ gargs gi = Some args /\ ident_ok n = true /\
                       Forall arg_ok args /\ forallb (fun a => negb (is_barg a)) args = true /\
                       qubit_ids args <> []
    | SMeasure _ _ _ _ gi => exists q rest, gargs gi = Some (AQ q :: rest) /\ (0 <= q)%Z
    | SReset _ _ gi => exists q rest, gargs gi = Some (AQ q :: rest) /\ (0 <= q)%Z
    end.

  Definition exportable (ir : list stmt) : Prop := Forall stmt_ok1 ir.

  Lemma v1_stmt_unlines (s : stmt) (x : string) :
    stmt_ok1 s -> v1_stmt s = Ok x -> x = unlines (stmt_lines1 s).
  Proof.
    destruct s as [o g gi|o q b ax gi|o q gi|t]; cbn [stmt_ok1 stmt_lines1 main_line1 unlines].
    - intros (n & args & Hgn & Hga & Hn & Hargs & Hnb & Hq) H.
      rewrite (v1_gate_shape_gen dec8 o g gi args Hga Hnb) in H. cbn zeta in H.
      assert (E : x = lower (name_of gi "") ++ " " ++ join ", " (map v1_text (qubits_of args)) ++
                  (match map v1_text (params_of args) with [] => "" | _ => ", " ++ join ", " (map v1_text (params_of args)) end) ++ NL)
        by congruence.
      clear H. subst x. rewrite Hga, map_app, <- join_app.
      + now rewrite ?sapp_assoc, ?sapp_nil_r.
      + intros E. apply map_eq_nil in E. apply Hq. rewrite <- qubit_ids_qubits_of, E. reflexivity.
    - intros (q' & rest & Hga & Hq) H. cbn [Writer.v1_stmt] in H. rewrite Hga in *.
      assert (E : x = "measure_z " ++ qstr q' ++ NL) by congruence. subst x.
      now rewrite ?sapp_assoc, ?sapp_nil_r.
    - intros (q' & rest & Hga & Hq) H. cbn [Writer.v1_stmt] in H. rewrite Hga in *.
      assert (E : x = "prep_z " ++ qstr q' ++ NL) by congruence. subst x.
      now rewrite ?sapp_assoc, ?sapp_nil_r.
    - intros _ H. cbn [Writer.v1_stmt] in H.
      assert (E : x = NL ++ "/* " ++ t ++ " */" ++ NL ++ NL) by congruence. subst x.
      apply comment_unlines.
  Qed.

  Lemma lower_ascii_ident (c : ascii) :
    is_ident_start (lower_ascii c) = is_ident_start c /\ is_ident_char (lower_ascii c) = is_ident_char c.
  Proof. destruct c as [[] [] [] [] [] [] [] []]; split; vm_compute; reflexivity. Qed.

  Lemma lower_ident_ok (n : string) : ident_ok n = true -> ident_ok (lower n) = true.
  Proof.
    destruct n as [|c r]; [discriminate|]. cbn [ident_ok lower].
    destruct (lower_ascii_ident c) as [-> _]. intros H. apply andb_true_iff in H. destruct H as [-> Hr].
    cbn [andb]. induction r as [|d r IH]; [reflexivity|]. cbn [forall_chars lower] in *.
    apply andb_true_iff in Hr. destruct Hr as [Hd Hr]. destruct (lower_ascii_ident d) as [_ ->].
    now rewrite Hd, (IH Hr).
  Qed.

  Lemma tok_not_ws (c : ascii) : is_tok_char c = true -> is_ws c = false.
  Proof.
    destruct c as [[] [] [] [] [] [] [] []]; vm_compute; intros H; try reflexivity; discriminate H.
  Qed.

  Lemma tok_last_nonws (s : string) : forall_chars is_tok_char s = true -> last_nonws s = true.
  Proof.
    induction s as [|c s IH]; [reflexivity|]. cbn [forall_chars]. intros H.
    apply andb_true_iff in H. destruct H as [Hc Hs]. destruct s as [|d s'].
    - cbn [last_nonws]. now rewrite (tok_not_ws c Hc).
    - change (last_nonws (String c (String d s'))) with (last_nonws (String d s')). now apply IH.
  Qed.

  Lemma join_last_nonws (l : list string) :
    l <> [] -> Forall (fun x => forall_chars is_tok_char x = true /\ x <> "") l ->
    last_nonws (join ", " l) = true /\ join ", " l <> "".
  Proof.
    induction l as [|x [|y l'] IH]; [congruence| |]; intros _ H; inversion H as [|? ? [Hx Hne] Hl]; subst.
    - cbn [join]. split; [now apply tok_last_nonws | exact Hne].
    - change (join ", " (x :: y :: l')) with (x ++ ", " ++ join ", " (y :: l')).
      destruct (IH ltac:(discriminate) Hl) as [IH1 IH2]. split.
      + rewrite <- sapp_assoc. now rewrite last_nonws_app.
      + destruct x; [congruence | discriminate].
  Qed.

  Lemma v1_text_nonempty (a : arg) : arg_ok a -> is_barg a = false -> v1_text a <> "".
  Proof.
    destruct a as [q|b|x|k]; cbn [arg_ok is_barg WriterP.v1_text]; intros H Hb; try discriminate.
    - destruct H as [Hw Hf]. unfold v1_float. intros E.
      pose proof (render_fix_is_literal _ Hw Hf) as L. rewrite E in L. discriminate.
    - intros E. pose proof (read_int_string_of_Z k) as R. rewrite E in R. discriminate.
  Qed.

  Lemma gate_line1_good (n : string) (l : list arg) :
    ident_ok n = true -> l <> [] -> Forall (fun a => arg_ok a /\ is_barg a = false) l ->
    line_good (n ++ " " ++ join ", " (map v1_text l)) /\ n ++ " " ++ join ", " (map v1_text l) <> "".
  Proof.
    intros Hn Hne H.
    assert (HF : Forall (fun x => forall_chars is_tok_char x = true /\ x <> "") (map v1_text l)).
    { apply Forall_map. eapply Forall_impl; [|exact H]. cbn beta. intros a [Ha Hb].
      split; [now apply v1_text_tok | now apply v1_text_nonempty]. }
    assert (Hm : map v1_text l <> []) by (intros E; apply map_eq_nil in E; congruence).
    destruct (join_last_nonws _ Hm HF) as [Hl Hj]. split; [split|].
    - apply line_chars_no_nl. rewrite !forall_chars_app.
      rewrite (forall_chars_mono is_ident_char is_line_char n);
        [| intros c Hc; now apply tok_is_line, ident_is_tok | now apply ident_ok_chars].
      cbn [andb forall_chars]. rewrite andb_true_r. apply forall_chars_join; [reflexivity|].
      eapply Forall_impl; [|exact HF]. cbn beta. intros x [Hx _].
      eapply forall_chars_mono; [exact tok_is_line | exact Hx].
    - rewrite <- sapp_assoc. now rewrite last_nonws_app.
    - destruct (ident_ok_chars n Hn) as [_ Hnn]. destruct n; [congruence | discriminate].
  Qed.

  Lemma stmt_ok1_args (gi : ginfo T) (args : list arg) :
    Forall arg_ok args -> forallb (fun a => negb (is_barg a)) args = true ->
    Forall (fun a => arg_ok a /\ is_barg a = false) (qubits_of args ++ params_of args).
  Proof.
    intros Ha Hb. rewrite Forall_forall in Ha. rewrite forallb_forall in Hb.
    apply Forall_forall. intros a Hin.
    assert (Hin' : In a args).
    { apply in_app_or in Hin. unfold qubits_of, params_of in Hin.
      destruct Hin as [Hin|Hin]; apply filter_In in Hin; tauto. }
    split; [now apply Ha|]. apply negb_true_iff. now apply Hb.
  Qed.

  Lemma qubits_params_nonempty (args : list arg) : qubit_ids args <> [] -> (qubits_of args ++ params_of args)%list <> [].
  Proof.
    intros Hq E. apply app_eq_nil in E. destruct E as [E _]. apply Hq.
    rewrite <- qubit_ids_qubits_of, E. reflexivity.
  Qed.

  Lemma single_qubit_line (n : string) (q : Z) :
    ident_ok n = true -> (0 <= q)%Z ->
    read_line1 (n ++ " " ++ qstr q) = RGate n [] [q] /\
    line_good (n ++ " " ++ qstr q) /\ n ++ " " ++ qstr q <> "" /\
    opens_comment (n ++ " " ++ qstr q) = None.
  Proof.
    intros Hn Hq.
    assert (HF : Forall (fun a : arg => arg_ok a /\ is_barg a = false) [AQ q]) by (repeat constructor; auto).
    split.
    - unfold read_line1. change (qstr q) with (join ", " (map v1_text [AQ q])).
      rewrite (read_gate1_text n [AQ q] Hn); [reflexivity | discriminate | exact HF].
    - change (qstr q) with (join ", " (map v1_text [AQ q])).
      destruct (gate_line1_good n [AQ q] Hn ltac:(discriminate) HF) as [G1 G2].
      split; [exact G1|]. split; [exact G2 | now apply opens_comment_ident].
  Qed.

  (* per statement: the text read back is the statement; every statement but a
     comment is one good line that opens no comment *)
  Theorem read_line1_stmt (s : stmt) : stmt_ok1 s ->
    read_line1 (main_line1 s) = line_of1 s /\
    (is_comment_stmt s = false ->
     line_good (main_line1 s) /\ main_line1 s <> "" /\ opens_comment (main_line1 s) = None).
  Proof.
    destruct s as [o g gi|o q b ax gi|o q gi|t]; cbn [stmt_ok1 main_line1 line_of1 is_comment_stmt].
    - intros (n & args & Hgn & Hga & Hn & Hargs & Hnb & Hq). rewrite Hga. unfold name_of. rewrite Hgn.
      pose proof (lower_ident_ok n Hn) as Hln.
      pose proof (stmt_ok1_args gi args Hargs Hnb) as HF.
      pose proof (qubits_params_nonempty args Hq) as Hne.
      split.
      + unfold read_line1. rewrite (read_gate1_text (lower n) _ Hln Hne HF). cbn [first_some].
        destruct (rarg1_params (qubits_of args ++ params_of args)) as [-> ->].
        destruct (params_qubits_split args) as [-> ->]. reflexivity.
      + intros _. destruct (gate_line1_good (lower n) _ Hln Hne HF) as [G1 G2].
        split; [exact G1|]. split; [exact G2 | now apply opens_comment_ident].
    - intros (q' & rest & Hga & Hq). rewrite Hga.
      destruct (single_qubit_line "measure_z" q' eq_refl Hq) as (A & B). split; [exact A | intros _; exact B].
    - intros (q' & rest & Hga & Hq). rewrite Hga.
      destruct (single_qubit_line "prep_z" q' eq_refl Hq) as (A & B). split; [exact A | intros _; exact B].
    - intros Hc. split; [|discriminate].
      unfold read_line1. now rewrite comment_not_gate1, (read_comment_text t Hc).
  Qed.

  (* THE LINES OF ONE STATEMENT in the cQASM 1 text *)
  Theorem read_stmt1_lines (s : stmt) : stmt_ok1 s ->
    Forall (fun l => no_nl l = true) (stmt_lines1 s) /\
    trail_good (stmt_lines1 s) = true /\
    read_body read_line1 None (stmt_lines1 s) = [line_of1 s] /\
    body_state None (stmt_lines1 s) = None.
  Proof.
    intros Hok. destruct (read_line1_stmt s Hok) as [Hr Hg]. destruct (is_comment_stmt s) eqn:Ec.
    - destruct s as [| | |t]; try discriminate Ec. cbn [stmt_ok1] in Hok. cbn [main_line1 line_of1] in Hr.
      rewrite <- has_close_contains in Hok. cbn [stmt_lines1 line_of1].
      split; [|split; [|exact (comment_block_read read_line1 t Hok Hr)]].
      + constructor; [reflexivity|]. apply Forall_app. split; [|repeat constructor].
        apply comment_lines_no_nl, split_nl_no_nl.
      + apply comment_block_trail_good, split_on_nonempty.
    - destruct (Hg eq_refl) as ([Hnl Hl] & Hne & Ho).
      assert (E : stmt_lines1 s = [main_line1 s]) by (destruct s; try reflexivity; discriminate Ec).
      rewrite E, <- Hr. split; [repeat constructor; exact Hnl|]. split.
      + cbn [trail_good forallb]. now rewrite Hl.
      + now apply single_line_read.
  Qed.

  (* ---------------- the whole cQASM 1 text ---------------- *)

  Definition read1_lines (ls : list string) : option (Z * list rline) :=
    match ls with
    | v :: rest =>
        match read_version v with
        | Some ver =>
            if String.eqb ver "1.0" then
              match rest with
              | [] => Some (0%Z, [])
              | [e] => if is_empty e then Some (0%Z, []) else None
              | e :: q :: rest' =>
                  if is_empty e then
                    if is_empty q then Some (0%Z, read_body read_line1 None rest')
                    else match read_decl "qubits " "" q with
                         | Some n => Some (n, read_body read_line1 None rest')
                         | None => None
                         end
                  else None
              end
            else None
        | None => None
        end
    | [] => None
    end.

  Lemma read1_eq (text : string) : read1 text = read1_lines (split_on nl_char text).
  Proof. reflexivity. Qed.

  (* the body (what follows the third line) leaves no comment open *)
  Definition body_closed1 (rest : list string) : Prop :=
    match rest with _ :: _ :: rest' => body_state None rest' = None | _ => True end.

  Lemma read1_lines_empty_tail (v : string) (rest : list string) (k j : nat) :
    body_closed1 (rest ++ repeat "" k) ->
    read1_lines (v :: rest ++ repeat "" j) = read1_lines (v :: rest ++ repeat "" k).
  Proof.
    intros H. unfold read1_lines. destruct (read_version v) as [ver|]; [|reflexivity].
    destruct (String.eqb ver "1.0"); [|reflexivity].
    destruct rest as [|e [|q rest']].
    - cbn [List.app]. destruct j as [|[|j]], k as [|[|k]]; cbn [repeat is_empty];
        rewrite ?read_body_empties; reflexivity.
    - cbn [List.app]. destruct j as [|j], k as [|k]; cbn [repeat is_empty];
        rewrite ?read_body_empties; destruct (is_empty e); reflexivity.
    - cbn [List.app body_closed1] in *. now rewrite (read_body_empty_tail read_line1 rest' k j H).
  Qed.

  Definition qubits_line1 (nq : Z) : string := if Z.ltb 0 nq then "qubits " ++ string_of_Z nq else "".

  Lemma concat_res_unlines (ir : list stmt) (body : string) :
    exportable ir -> concat_res (map v1_stmt ir) = Ok body -> body = unlines (flat_map stmt_lines1 ir).
  Proof.
    intros Hok. revert body. induction Hok as [|s ir Hs _ IH]; intros body H; cbn [map concat_res] in H.
    - now injection H as <-.
    - destruct (v1_stmt s) as [x|e] eqn:Ex; [|discriminate].
      destruct (concat_res (map v1_stmt ir)) as [r|e]; [|discriminate].
      assert (E : body = x ++ r) by congruence. subst body.
      cbn [flat_map]. now rewrite unlines_app, (v1_stmt_unlines s x Hs Ex), (IH r eq_refl).
  Qed.

  Lemma stmt_lines1_good (ir : list stmt) :
    exportable ir ->
    Forall (fun l => no_nl l = true) (flat_map stmt_lines1 ir) /\
    trail_good (flat_map stmt_lines1 ir) = true /\
    read_body read_line1 None (flat_map stmt_lines1 ir) = map line_of1 ir /\
    body_state None (flat_map stmt_lines1 ir) = None.
  Proof.
    intros H. pose proof (Forall_impl _ read_stmt1_lines H) as HS. cbn beta in HS.
    split; [|split].
    - apply flat_no_nl. eapply Forall_impl; [|exact HS]. cbn beta. tauto.
    - apply flat_trail_good. eapply Forall_impl; [|exact HS]. cbn beta. tauto.
    - apply (flat_read read_line1 stmt_lines1 line_of1).
      eapply Forall_impl; [|exact HS]. cbn beta. tauto.
  Qed.

  Lemma read1_lines_header (nq : Z) (ir : list stmt) :
    (0 <= nq)%Z ->
    read1_lines ("version 1.0" :: "" :: qubits_line1 nq :: "" :: flat_map stmt_lines1 ir) =
    Some (nq, read_body read_line1 None (flat_map stmt_lines1 ir)).
  Proof.
    intros Hq. unfold read1_lines. change (read_version "version 1.0") with (Some "1.0").
    cbn [String.eqb Ascii.eqb Bool.eqb is_empty]. unfold qubits_line1.
    destruct (Z.ltb_spec 0 nq) as [Hlt|Hge].
    - assert (Hbe : is_empty ("qubits " ++ string_of_Z nq) = false) by reflexivity.
      rewrite Hbe. rewrite <- (sapp_nil_r (string_of_Z nq)).
      rewrite (read_decl_app "qubits " "" nq Hq eq_refl). reflexivity.
    - cbn [is_empty]. replace nq with 0%Z by lia. reflexivity.
  Qed.

  (* THE ROUND TRIP for cQASM 1 *)
  Theorem read1_export_v1 (nq : Z) (ir : list stmt) (text : string) :
    export_v1 dec8 nq ir = Ok text ->
    (0 <= nq)%Z -> exportable ir ->
    read1 text = Some (nq, map line_of1 ir).
  Proof.
    intros Hw Hq Hok. unfold export_v1 in Hw.
    destruct (concat_res (map v1_stmt ir)) as [body|e] eqn:Eb; [|discriminate].
    pose proof (concat_res_unlines ir body Hok Eb) as Hbody.
    assert (Ht : text = rstrip ("version 1.0" ++ NL ++ NL ++ (if Z.ltb 0 nq then "qubits " ++ string_of_Z nq else "") ++
                                NL ++ NL ++ body) ++ NL) by congruence.
    clear Hw. subst text.
    assert (EL : "version 1.0" ++ NL ++ NL ++ (if Z.ltb 0 nq then "qubits " ++ string_of_Z nq else "") ++ NL ++ NL ++ body =
                 unlines ([] ++ "version 1.0" :: "" :: qubits_line1 nq :: "" :: flat_map stmt_lines1 ir)).
    { rewrite Hbody. unfold qubits_line1. cbn [List.app unlines]. now rewrite ?sapp_assoc. }
    rewrite EL.
    destruct (stmt_lines1_good ir Hok) as (Hnl & Htg & Hrd & Hst).
    assert (Hql : line_good (qubits_line1 nq)).
    { unfold qubits_line1. destruct (Z.ltb 0 nq); [|split; reflexivity]. split.
      - now rewrite no_nl_app, string_of_Z_no_nl.
      - destruct (string_of_Z_nonneg nq Hq) as (_ & Hne & _).
        rewrite last_nonws_app by exact Hne. apply tok_last_nonws, string_of_Z_tok. }
    assert (HRn : Forall (fun l => no_nl l = true) ("" :: qubits_line1 nq :: "" :: flat_map stmt_lines1 ir)).
    { repeat constructor; try apply Hql. exact Hnl. }
    assert (HRt : trail_good ("" :: qubits_line1 nq :: "" :: flat_map stmt_lines1 ir) = true).
    { change ("" :: qubits_line1 nq :: "" :: flat_map stmt_lines1 ir)
        with ([""; qubits_line1 nq; ""] ++ flat_map stmt_lines1 ir)%list.
      apply trail_good_app; [|exact Htg]. apply trail_good_all. repeat constructor. apply Hql. }
    destruct (rstrip_unlines [] ("" :: qubits_line1 nq :: "" :: flat_map stmt_lines1 ir) "version 1.0")
      as (R' & k & ER & ->); [discriminate | reflexivity | exact HRt |].
    rewrite read1_eq, split_unlines.
    - cbn [List.app]. change [""] with (repeat "" 1).
      rewrite (read1_lines_empty_tail _ R' k 1) by (rewrite <- ER; exact Hst). rewrite <- ER.
      rewrite (read1_lines_header nq ir Hq), Hrd. reflexivity.
    - cbn [List.app]. constructor; [reflexivity|].
      rewrite ER in HRn. apply Forall_app in HRn. now destruct HRn.
  Qed.

  (* the reals of the cQASM 1 text: Python's rendering, whose repaired form is a
     literal denoting the decimal *)
  Theorem read1_param_value (x : T) :
    wf_dec (dec8 x) -> dec_finite (dec8 x) ->
    read_arg1 (v1_float dec8 x) = Some (RNumLit (v1_float dec8 x)) /\
    is_signed_float_literal (fix_literal (v1_float dec8 x)) = true /\
    optQeq (signed_literal_value (fix_literal (v1_float dec8 x))) (dec_value (dec8 x)).
  Proof.
    intros Hw Hf. split; [|split].
    - apply (read_arg1_text (AF x)); [split; assumption | reflexivity].
    - now apply render_fix_is_literal.
    - now apply render_fix_value.
  Qed.
End ReaderP.

(* ------------------------------------------------------------------ *)
(* the names of the default tables are identifiers                      *)

Example default_names_are_identifiers :
  forallb ident_ok (DefaultTable.hand_gate_set ++ DefaultTable.hand_measure_set ++
                    DefaultTable.hand_reset_set ++ map fst DefaultTable.hand_aliases ++
                    DefaultGates.gen_gate_set ++ DefaultGates.gen_measure_set ++
                    DefaultGates.gen_reset_set ++ map fst DefaultGates.gen_aliases)%list = true.
Proof. reflexivity. Qed.

(* a name with a space is not read back: the condition on names is needed *)
Example name_with_space_refuted :
  read_line3 ("my gate" ++ " " ++ qstr 0) <> RGate "my gate" [] [0%Z].
Proof. vm_compute. discriminate. Qed.

(* ------------------------------------------------------------------ *)
(* non-vacuity: concrete circuits, by computation (T := dec, dec8 := id) *)

Definition ex_theta : dec := DFin false [1;5;7;0;7;9;6;3]%nat 0.          (* 1.5707963 *)
Definition ex_small : dec := DFin true [1;0;0;0;0;0;0;0]%nat (-5).        (* -1.0e-05 *)
Definition ex_big : dec := DFin false [6;0;2;2;1;4;0;8]%nat 23.           (* 6.0221408e+23 *)
Definition ex_gate : gate dec := BSR 0%Z (ex_theta, ex_theta, ex_theta) ex_theta ex_theta.
Definition ex_anon (g : gate dec) : string := "BlochSphereRotation(...)".
Definition ex_ax : axis3 dec := (ex_theta, ex_theta, ex_theta).

(* H, CNOT, Rx(theta), measure, comment on 2 qubits and 2 bits *)
Definition ex_circuit1 : list (stmt dec) :=
  [ SGate 1 ex_gate (mkGinfo (Some "H") (Some [AQ 0%Z]));
    SGate 2 ex_gate (mkGinfo (Some "CNOT") (Some [AQ 0%Z; AQ 1%Z]));
    SGate 3 ex_gate (mkGinfo (Some "Rx") (Some [AQ 1%Z; AF ex_theta]));
    SMeasure 4 1%Z 0%Z ex_ax (mkGinfo (Some "measure") (Some [AQ 1%Z; AB 0%Z]));
    SComment "entangled pair" ].

Example ex1_text :
  write3 (fun x => x) ex_anon 2 2 ex_circuit1 =
  Ok ("version 3.0" ++ NL ++ NL ++ "qubit[2] q" ++ NL ++ "bit[2] b" ++ NL ++ NL ++
      "H q[0]" ++ NL ++ "CNOT q[0], q[1]" ++ NL ++ "Rx(1.5707963) q[1]" ++ NL ++
      "b[0] = measure q[1]" ++ NL ++ NL ++ "/* entangled pair */" ++ NL).
Proof. vm_compute. reflexivity. Qed.

Example ex1_round_trip :
  match write3 (fun x => x) ex_anon 2 2 ex_circuit1 with Ok t => read3 t | Err _ => None end =
  Some {| r_version := "3.0"; r_nq := 2; r_nb := 2;
          r_lines := [ RGate "H" [] [0%Z];
                       RGate "CNOT" [] [0%Z; 1%Z];
                       RGate "Rx" [RNumLit "1.5707963"] [1%Z];
                       RAssign 0 "measure" 1;
                       RComment "entangled pair" ] |}.
Proof. vm_compute. reflexivity. Qed.

(* the hypotheses of the theorem hold for it: the theorem is not vacuous *)
Example ex1_writable : writable (fun x => x) ex_circuit1.
Proof.
  assert (W : forall d, d = ex_theta -> wf_dec d /\ dec_finite d).
  { intros d ->. split; [|exact I]. cbn. repeat split; auto. repeat constructor; unfold le9; lia. }
  assert (Q : forall q : Z, (0 <= q)%Z -> arg_ok (fun x : dec => x) (AQ q)) by (intros q Hq; exact Hq).
  unfold writable, ex_circuit1.
  constructor; [|constructor; [|constructor; [|constructor; [|constructor; [|constructor]]]]];
    cbn [stmt_ok gname gargs].
  - exists "H", [AQ 0%Z]. repeat split; try reflexivity; [|discriminate].
    constructor; [apply Q; lia | constructor].
  - exists "CNOT", [AQ 0%Z; AQ 1%Z]. repeat split; try reflexivity; [|discriminate].
    constructor; [apply Q; lia | constructor; [apply Q; lia | constructor]].
  - exists "Rx", [AQ 1%Z; AF ex_theta]. repeat split; try reflexivity; [|discriminate].
    constructor; [apply Q; lia | constructor; [|constructor]]. cbn [arg_ok]. now apply W.
  - exists "measure", 1%Z, 0%Z, []. repeat split; try reflexivity; lia.
  - reflexivity.
Qed.

Example ex1_by_theorem (text : string) :
  write3 (fun x => x) ex_anon 2 2 ex_circuit1 = Ok text ->
  read3 text = Some {| r_version := "3.0"; r_nq := 2; r_nb := 2;
                       r_lines := map (line_of (fun x => x) ex_anon) ex_circuit1 |}.
Proof. intros H. apply (read3_write3 (fun x => x) ex_anon 2 2 ex_circuit1 text H); [lia | lia | exact ex1_writable]. Qed.

(* parameters of every kind, exponent notation, reset, no bit register, comment first *)
Definition ex_circuit2 : list (stmt dec) :=
  [ SComment "start";
    SGate 1 ex_gate (mkGinfo (Some "U_3") (Some [AF ex_small; AQ 1%Z; AI (-3)%Z; AB 1%Z; AQ 12%Z; AF ex_big]));
    SReset 2 1%Z (mkGinfo (Some "reset") (Some [AQ 1%Z]));
    SGate 3 ex_gate (mkGinfo (Some "CRk") (Some [AQ 0%Z; AQ 1%Z; AI 4%Z])) ].

Example ex2_round_trip :
  match write3 (fun x => x) ex_anon 13 0 ex_circuit2 with Ok t => read3 t | Err _ => None end =
  Some {| r_version := "3.0"; r_nq := 13; r_nb := 0;
          r_lines := [ RComment "start";
                       RGate "U_3" [RNumLit "-1.0e-05"; RInt (-3); RB 1; RNumLit "6.0221408e+23"] [1%Z; 12%Z];
                       RGate "reset" [] [1%Z];
                       RGate "CRk" [RInt 4] [0%Z; 1%Z] ] |}.
Proof. vm_compute. reflexivity. Qed.

(* an anonymous gate in the middle, a comment at the end, the empty circuit *)
Definition ex_circuit3 : list (stmt dec) :=
  [ SGate 1 ex_gate (mkGinfo (Some "X90") (Some [AQ 0%Z]));
    SGate 2 ex_gate (mkGinfo None None);
    SComment "a * b / c" ].

Example ex3_round_trip :
  match write3 (fun x => x) ex_anon 1 0 ex_circuit3 with Ok t => read3 t | Err _ => None end =
  Some {| r_version := "3.0"; r_nq := 1; r_nb := 0;
          r_lines := [ RGate "X90" [] [0%Z]; RRaw "BlochSphereRotation(...)"; RComment "a * b / c" ] |}.
Proof. vm_compute. reflexivity. Qed.

Example ex_empty_round_trip :
  match write3 (fun x => x) ex_anon 3 1 [] with Ok t => read3 t | Err _ => None end =
  Some {| r_version := "3.0"; r_nq := 3; r_nb := 1; r_lines := [] |}.
Proof. vm_compute. reflexivity. Qed.

(* cQASM 1 *)
Example ex1_v1_round_trip :
  match export_v1 (fun x => x) 2 ex_circuit1 with Ok t => read1 t | Err _ => None end =
  Some (2%Z, [ RGate "h" [] [0%Z];
               RGate "cnot" [] [0%Z; 1%Z];
               RGate "rx" [RNumLit "1.5707963"] [1%Z];
               RGate "measure_z" [] [1%Z];
               RComment "entangled pair" ]).
Proof. vm_compute. reflexivity. Qed.

Example ex4_v1_round_trip :
  match export_v1 (fun x => x) 2
          [SGate 3 ex_gate (mkGinfo (Some "Rx") (Some [AQ 1%Z; AF ex_small; AI 4%Z]));
           SReset 2 1%Z (mkGinfo (Some "reset") (Some [AQ 1%Z]))]
  with Ok t => read1 t | Err _ => None end =
  Some (2%Z, [ RGate "rx" [RNumLit "-1e-05"; RInt 4] [1%Z]; RGate "prep_z" [] [1%Z] ]).
Proof. vm_compute. reflexivity. Qed.

Example ex_empty_v1_round_trip :
  match export_v1 (fun x : dec => x) 0 [] with Ok t => read1 t | Err _ => None end = Some (0%Z, []).
Proof. vm_compute. reflexivity. Qed.

(* ---- block comments of several lines ---- *)

(* a two-line comment, a comment with an empty line inside, the comment "*", a
   comment containing the opening "/*", between gates and at both ends *)
Definition ex_circuit5 : list (stmt dec) :=
  [ SComment ("two" ++ NL ++ "lines");
    SGate 1 ex_gate (mkGinfo (Some "H") (Some [AQ 0%Z]));
    SComment ("above an empty line" ++ NL ++ NL ++ "below it ");
    SComment "*";
    SGate 2 ex_gate (mkGinfo (Some "X") (Some [AQ 1%Z]));
    SComment ("a /* b" ++ NL ++ "/* c") ].

Example ex5_text :
  write3 (fun x => x) ex_anon 2 0 ex_circuit5 =
  Ok ("version 3.0" ++ NL ++ NL ++ "qubit[2] q" ++ NL ++ NL ++
      NL ++ "/* two" ++ NL ++ "lines */" ++ NL ++ NL ++
      "H q[0]" ++ NL ++
      NL ++ "/* above an empty line" ++ NL ++ NL ++ "below it  */" ++ NL ++ NL ++
      NL ++ "/* * */" ++ NL ++ NL ++
      "X q[1]" ++ NL ++
      NL ++ "/* a /* b" ++ NL ++ "/* c */" ++ NL).
Proof. vm_compute. reflexivity. Qed.

Example ex5_round_trip :
  match write3 (fun x => x) ex_anon 2 0 ex_circuit5 with Ok t => read3 t | Err _ => None end =
  Some {| r_version := "3.0"; r_nq := 2; r_nb := 0;
          r_lines := [ RComment ("two" ++ NL ++ "lines");
                       RGate "H" [] [0%Z];
                       RComment ("above an empty line" ++ NL ++ NL ++ "below it ");
                       RComment "*";
                       RGate "X" [] [1%Z];
                       RComment ("a /* b" ++ NL ++ "/* c") ] |}.
Proof. vm_compute. reflexivity. Qed.

Example ex5_v1_round_trip :
  match export_v1 (fun x => x) 2 ex_circuit5 with Ok t => read1 t | Err _ => None end =
  Some (2%Z, [ RComment ("two" ++ NL ++ "lines");
               RGate "h" [] [0%Z];
               RComment ("above an empty line" ++ NL ++ NL ++ "below it ");
               RComment "*";
               RGate "x" [] [1%Z];
               RComment ("a /* b" ++ NL ++ "/* c") ]).
Proof. vm_compute. reflexivity. Qed.

(* one by one, cQASM 3 and cQASM 1 *)
Definition rt3_comment (t : string) : option (list rline) :=
  match write3 (fun x => x) ex_anon 1 0 [SComment t] with
  | Ok text => option_map r_lines (read3 text)
  | Err _ => None
  end.
Definition rt1_comment (t : string) : option (list rline) :=
  match export_v1 (fun x : dec => x) 1 [SComment t] with
  | Ok text => option_map snd (read1 text)
  | Err _ => None
  end.

Example ex_comment_two_lines :
  let t := "first" ++ NL ++ "second" in
  rt3_comment t = Some [RComment t] /\ rt1_comment t = Some [RComment t].
Proof. vm_compute. split; reflexivity. Qed.

Example ex_comment_empty_line :
  let t := "first" ++ NL ++ NL ++ "third" in
  rt3_comment t = Some [RComment t] /\ rt1_comment t = Some [RComment t].
Proof. vm_compute. split; reflexivity. Qed.

Example ex_comment_star :
  rt3_comment "*" = Some [RComment "*"] /\ rt1_comment "*" = Some [RComment "*"].
Proof. vm_compute. split; reflexivity. Qed.

Example ex_comment_open_inside :
  let t := "a /* b" in
  rt3_comment t = Some [RComment t] /\ rt1_comment t = Some [RComment t].
Proof. vm_compute. split; reflexivity. Qed.

(* newlines and blanks at the ends of the text, a star before the newline, a
   slash after it *)
Example ex_comment_edges :
  forallb (fun t => match rt3_comment t, rt1_comment t with
                    | Some [RComment a], Some [RComment b] => String.eqb a t && String.eqb b t
                    | _, _ => false
                    end)
    [ ""; NL; NL ++ NL; " "; " " ++ NL ++ " "; NL ++ "x"; "x" ++ NL; "a*" ++ NL ++ "/b"; "a *"; "/";
      "x " ++ NL ++ " " ++ NL ++ " y " ] = true.
Proof. vm_compute. reflexivity. Qed.

(* the hypotheses of the theorems hold for the circuit: not vacuous for block comments *)
Example ex5_writable : writable (fun x => x) ex_circuit5.
Proof.
  unfold writable, ex_circuit5.
  repeat (constructor; [first [reflexivity | cbn [stmt_ok gname gargs]]|]); [| |constructor].
  - exists "H", [AQ 0%Z]. repeat split; try reflexivity; [|discriminate]. constructor; [cbn; lia | constructor].
  - exists "X", [AQ 1%Z]. repeat split; try reflexivity; [|discriminate]. constructor; [cbn; lia | constructor].
Qed.

Example ex5_by_theorem (text : string) :
  write3 (fun x => x) ex_anon 2 0 ex_circuit5 = Ok text ->
  read3 text = Some {| r_version := "3.0"; r_nq := 2; r_nb := 0;
                       r_lines := map (line_of (fun x => x) ex_anon) ex_circuit5 |}.
Proof. intros H. apply (read3_write3 (fun x => x) ex_anon 2 0 ex_circuit5 text H); [lia | lia | exact ex5_writable]. Qed.

(* the terminator in the text is (still) not allowed: the comment ends early *)
Example comment_with_terminator_refuted :
  rt3_comment "a */ b" <> Some [RComment "a */ b"].
Proof. vm_compute. discriminate. Qed.

(* the condition added to [stmt_ok_anon] is needed: an anonymous gate whose text
   is "/* x" (one good line: the old condition) opens a comment that swallows
   the statements after it *)
Example read3_anonymous_open_comment_refuted :
  exists (anon : gate dec -> string) (ir : list (stmt dec)) (text : string),
    Forall (fun s => match s with
                     | SGate _ g gi => stmt_ok (fun x => x) s \/
                                       (gargs gi = None /\ line_good (anon g) /\ anon g <> "")
                     | _ => stmt_ok (fun x => x) s
                     end) ir /\
    write3 (fun x => x) anon 1 0 ir = Ok text /\
    read3 text = Some {| r_version := "3.0"; r_nq := 1; r_nb := 0;
                         r_lines := [RRaw ("/* x" ++ NL ++ "H q[0]" ++ NL)] |} /\
    List.length ir = 2%nat.
Proof.
  exists (fun _ => "/* x"),
         [SGate 1 ex_gate (mkGinfo None None); SGate 2 ex_gate (mkGinfo (Some "H") (Some [AQ 0%Z]))],
         ("version 3.0" ++ NL ++ NL ++ "qubit[1] q" ++ NL ++ NL ++ "/* x" ++ NL ++ "H q[0]" ++ NL).
  split; [|split; [vm_compute; reflexivity | split; [vm_compute; reflexivity | reflexivity]]].
  constructor; [|constructor; [|constructor]].
  - right. repeat split. discriminate.
  - left. exists "H", [AQ 0%Z]. repeat split; try reflexivity; [|discriminate]. constructor; [cbn; lia | constructor].
Qed.

Print Assumptions read_line3_stmt.
Print Assumptions read_stmt3_lines.
Print Assumptions read_stmt1_lines.
Print Assumptions read3_anonymous_open_comment_refuted.
Print Assumptions ex5_by_theorem.
Print Assumptions read3_write3_lines.
Print Assumptions read3_write3.
Print Assumptions read_param3_value.
Print Assumptions read3_param_value.
Print Assumptions read3_comments_survive.
Print Assumptions read3_anonymous_one_line.
Print Assumptions read3_write3_nonfinite_refuted.
Print Assumptions read_line1_stmt.
Print Assumptions read1_export_v1.
Print Assumptions read1_param_value.
Print Assumptions ex1_by_theorem.
