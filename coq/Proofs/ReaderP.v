(* ReaderP.v — the round trip  read3 (write3 c) = c  and  read1 (export_v1 c) = c
   at the level of texts, for Model/Writer.v and Model/Reader.v, for any scalar
   type T and any decimalisation oracle dec8 returning well-formed finite
   decimals. *)
From Coq Require Import ZArith QArith List Bool String Ascii Lia.
From Coq Require Import Decimal DecimalString.
Import ListNotations.
From OSQ Require Import Num IR Dec Writer DefaultTable DefaultGates ParserExpand Builder Lexer DecP WriterP Reader.
Open Scope string_scope.

(* ------------------------------------------------------------------ *)
(* generic facts: forall_chars, span, split_on, strip_prefix            *)

Lemma forall_chars_app (p : ascii -> bool) (a b : string) :
  forall_chars p (a ++ b) = forall_chars p a && forall_chars p b.
Proof. induction a as [|c a IH]; cbn [append forall_chars]; [reflexivity | now rewrite IH, andb_assoc]. Qed.

Lemma forall_chars_mono (p q : ascii -> bool) (s : string) :
  (forall c, p c = true -> q c = true) -> forall_chars p s = true -> forall_chars q s = true.
Proof.
  intros Hpq. induction s as [|c s IH]; [reflexivity|]. cbn [forall_chars]. intros H.
  apply andb_true_iff in H. destruct H as [Hc Hs]. now rewrite (Hpq c Hc), (IH Hs).
Qed.

Lemma all_digits_forall (s : string) : all_digits s = forall_chars is_digit s.
Proof. induction s as [|c s IH]; [reflexivity|]. cbn [all_digits forall_chars]. now rewrite IH. Qed.

Definition starts_not (p : ascii -> bool) (s : string) : bool :=
  match s with String c _ => negb (p c) | EmptyString => true end.

Lemma span_app (p : ascii -> bool) (a b : string) :
  forall_chars p a = true -> starts_not p b = true -> span p (a ++ b) = (a, b).
Proof.
  intros Ha Hb. induction a as [|c a IH]; cbn [append span].
  - destruct b as [|c b]; [reflexivity|]. cbn [starts_not] in Hb. cbn [span].
    apply negb_true_iff in Hb. now rewrite Hb.
  - cbn [forall_chars] in Ha. apply andb_true_iff in Ha. destruct Ha as [Hc Ha].
    now rewrite Hc, (IH Ha).
Qed.

Definition neq_char (d c : ascii) : bool := negb (Ascii.eqb c d).

Lemma split_on_cons_ne (d c : ascii) (s : string) :
  Ascii.eqb c d = false ->
  split_on d (String c s) = match split_on d s with [] => [String c ""] | l :: ls => String c l :: ls end.
Proof. intros H. cbn [split_on]. now rewrite H. Qed.

Lemma split_on_none (d : ascii) (a : string) :
  forall_chars (neq_char d) a = true -> split_on d a = [a].
Proof.
  induction a as [|c a IH]; [reflexivity|]. cbn [forall_chars]. intros H.
  apply andb_true_iff in H. destruct H as [Hc Ha]. apply negb_true_iff in Hc.
  now rewrite split_on_cons_ne, (IH Ha).
Qed.

Lemma split_on_app (d : ascii) (a b : string) :
  forall_chars (neq_char d) a = true -> split_on d (a ++ String d b) = a :: split_on d b.
Proof.
  induction a as [|c a IH]; cbn [append forall_chars]; intros H.
  - cbn [split_on]. now rewrite Ascii.eqb_refl.
  - apply andb_true_iff in H. destruct H as [Hc Ha]. apply negb_true_iff in Hc.
    now rewrite split_on_cons_ne, (IH Ha).
Qed.

Lemma strip_prefix_app (p s : string) : strip_prefix p (p ++ s) = Some s.
Proof. induction p as [|c p IH]; [reflexivity|]. cbn [append strip_prefix]. now rewrite Ascii.eqb_refl. Qed.

Lemma all_opt_map_some {A : Type} (l : list A) : all_opt (map Some l) = Some l.
Proof. induction l as [|x l IH]; [reflexivity|]. cbn [map all_opt]. now rewrite IH. Qed.

Lemma all_opt_map_ext {A B : Type} (f : A -> option B) (g : A -> B) (l : list A) :
  Forall (fun x => f x = Some (g x)) l -> all_opt (map f l) = Some (map g l).
Proof.
  induction 1 as [|x l Hx _ IH]; [reflexivity|]. cbn [map all_opt]. now rewrite Hx, IH.
Qed.

Lemma forall_chars_join (p : ascii -> bool) (sep : string) (l : list string) :
  forall_chars p sep = true -> Forall (fun x => forall_chars p x = true) l ->
  forall_chars p (join sep l) = true.
Proof.
  intros Hsep. induction 1 as [|x l Hx Hl IH]; [reflexivity|].
  destruct l as [|y l']; [exact Hx|].
  change (join sep (x :: y :: l')) with (x ++ sep ++ join sep (y :: l')).
  now rewrite !forall_chars_app, Hx, Hsep, IH.
Qed.

(* the pieces of  x, y, z  are  x  " y"  " z" *)
Lemma split_on_join (x : string) (l : list string) :
  Forall (fun s => forall_chars (neq_char ",") s = true) (x :: l) ->
  split_on "," (join ", " (x :: l)) = x :: map (String " ") l.
Proof.
  revert x. induction l as [|y l IH]; intros x H.
  - inversion H; subst. cbn [join map]. now apply split_on_none.
  - inversion H as [|? ? Hx Hl]; subst.
    change (join ", " (x :: y :: l)) with (x ++ String "," (String " " (join ", " (y :: l)))).
    rewrite (split_on_app _ _ _ Hx), split_on_cons_ne by reflexivity.
    now rewrite (IH y Hl).
Qed.

Lemma items_join (x : string) (l : list string) :
  Forall (fun s => forall_chars (neq_char ",") s = true) (x :: l) ->
  items (join ", " (x :: l)) = map Some (x :: l).
Proof.
  intros H. unfold items. rewrite (split_on_join x l H). cbn [map]. f_equal.
  rewrite map_map. apply map_ext. intros s. cbn [strip_prefix]. reflexivity.
Qed.

(* reading a comma separated list of texts written element by element *)
Lemma bind_list_join {A B : Type} (w : A -> string) (rd : string -> option B) (v : A -> B) (l : list A) :
  l <> [] ->
  Forall (fun a => forall_chars (neq_char ",") (w a) = true /\ rd (w a) = Some (v a)) l ->
  bind_list (items (join ", " (map w l))) rd = Some (map v l).
Proof.
  intros Hne H. destruct l as [|a l]; [congruence|]. cbn [map].
  rewrite items_join.
  - unfold bind_list. rewrite all_opt_map_some.
    change (w a :: map w l) with (map w (a :: l)). rewrite map_map.
    change (v a :: map v l) with (map v (a :: l)).
    apply (all_opt_map_ext (fun x => rd (w x)) v). eapply Forall_impl; [|exact H]. cbn beta. tauto.
  - change (w a :: map w l) with (map w (a :: l)). apply Forall_map.
    eapply Forall_impl; [|exact H]. cbn beta. tauto.
Qed.

(* ------------------------------------------------------------------ *)
(* character classes of the writer's tokens                             *)

(* characters of an operand or a parameter *)
Definition is_tok_char (c : ascii) : bool :=
  is_ident_char c || Ascii.eqb c "[" || Ascii.eqb c "]" || Ascii.eqb c "+" ||
  Ascii.eqb c "-" || Ascii.eqb c ".".

(* characters of a whole instruction line *)
Definition is_line_char (c : ascii) : bool :=
  is_tok_char c || Ascii.eqb c "," || Ascii.eqb c " " || Ascii.eqb c "(" ||
  Ascii.eqb c ")" || Ascii.eqb c "=".

Lemma class_excludes (p : ascii -> bool) (d : ascii) :
  p d = false -> forall c, p c = true -> neq_char d c = true.
Proof.
  intros Hd c Hc. unfold neq_char. destruct (Ascii.eqb_spec c d) as [->|]; [congruence | reflexivity].
Qed.

Lemma digit_is_ident (c : ascii) : is_digit c = true -> is_ident_char c = true.
Proof. intros H. unfold is_ident_char. rewrite H. now rewrite orb_true_r. Qed.

Lemma ident_is_tok (c : ascii) : is_ident_char c = true -> is_tok_char c = true.
Proof. intros H. unfold is_tok_char. now rewrite H. Qed.

Lemma tok_is_line (c : ascii) : is_tok_char c = true -> is_line_char c = true.
Proof. intros H. unfold is_line_char. now rewrite H. Qed.

Lemma digits_tok (s : string) : all_digits s = true -> forall_chars is_tok_char s = true.
Proof.
  rewrite all_digits_forall. apply forall_chars_mono. intros c H. now apply ident_is_tok, digit_is_ident.
Qed.

Lemma no_nl_forall (s : string) : no_nl s = forall_chars (neq_char nl_char) s.
Proof. induction s as [|c s IH]; [reflexivity|]. cbn [no_nl forall_chars]. now rewrite IH. Qed.

Lemma line_chars_no_nl (s : string) : forall_chars is_line_char s = true -> no_nl s = true.
Proof. rewrite no_nl_forall. apply forall_chars_mono, class_excludes. reflexivity. Qed.

Lemma tok_chars_no_comma (s : string) :
  forall_chars is_tok_char s = true -> forall_chars (neq_char ",") s = true.
Proof. apply forall_chars_mono, class_excludes. reflexivity. Qed.

Lemma ident_ok_chars (n : string) : ident_ok n = true -> forall_chars is_ident_char n = true /\ n <> "".
Proof.
  destruct n as [|c r]; [discriminate|]. cbn [ident_ok forall_chars]. intros H.
  apply andb_true_iff in H. destruct H as [Hc Hr]. split; [|discriminate].
  rewrite Hr, andb_true_r. unfold is_ident_start in Hc. unfold is_ident_char.
  apply orb_true_iff in Hc. destruct Hc as [-> | ->]; [reflexivity | apply orb_true_r].
Qed.

(* ---- integers ---- *)

Lemma string_of_Z_neg (p : positive) : string_of_Z (Zneg p) = String "-" (string_of_Z (Zpos p)).
Proof. reflexivity. Qed.

Lemma digit_not_minus (c : ascii) : is_digit c = true -> Ascii.eqb c "-" = false.
Proof. intros H. destruct (Ascii.eqb_spec c "-") as [->|]; [discriminate | reflexivity]. Qed.

Lemma string_of_Z_tok (k : Z) : forall_chars is_tok_char (string_of_Z k) = true.
Proof.
  destruct k as [|p|p].
  - reflexivity.
  - apply digits_tok. now apply (string_of_Z_nonneg (Zpos p)).
  - rewrite string_of_Z_neg. cbn [forall_chars]. rewrite digits_tok; [reflexivity|].
    now apply (string_of_Z_nonneg (Zpos p)).
Qed.

Lemma digits_only_not_float (s : string) : all_digits s = true -> is_float_literal s = false.
Proof.
  intros H. rewrite <- (sapp_nil_r s). apply no_point_never_literal; [exact H | reflexivity | discriminate].
Qed.

Lemma nonneg_string (k : Z) : (0 <= k)%Z ->
  exists c r, string_of_Z k = String c r /\ is_digit c = true /\ all_digits (String c r) = true /\
              digits_val 0 (String c r) = k.
Proof.
  intros Hk. destruct (string_of_Z_nonneg k Hk) as (Ha & Hn & Hv).
  destruct (string_of_Z k) as [|c r]; [congruence|]. exists c, r. repeat split; auto.
  cbn [all_digits] in Ha. apply andb_true_iff in Ha. tauto.
Qed.

Lemma read_int_string_of_Z (k : Z) : read_int (string_of_Z k) = Some k.
Proof.
  destruct k as [|p|p].
  - reflexivity.
  - destruct (nonneg_string (Zpos p)) as (c & r & E & Hc & Ha & Hv); [lia|]. rewrite E.
    unfold read_int. rewrite (digit_not_minus c Hc). unfold digits1. cbn [is_empty negb andb].
    now rewrite Ha, Hv.
  - rewrite string_of_Z_neg. destruct (nonneg_string (Zpos p)) as (c & r & E & Hc & Ha & Hv); [lia|].
    rewrite E. unfold read_int. rewrite Ascii.eqb_refl. unfold digits1. cbn [is_empty negb andb].
    now rewrite Ha, Hv.
Qed.

Lemma string_of_Z_not_float (k : Z) : is_signed_float_literal (string_of_Z k) = false.
Proof.
  destruct k as [|p|p].
  - reflexivity.
  - destruct (nonneg_string (Zpos p)) as (c & r & E & Hc & Ha & Hv); [lia|]. rewrite E.
    unfold is_signed_float_literal. rewrite (digit_not_minus c Hc). now apply digits_only_not_float.
  - rewrite string_of_Z_neg. destruct (nonneg_string (Zpos p)) as (c & r & E & Hc & Ha & Hv); [lia|].
    rewrite E. unfold is_signed_float_literal. rewrite Ascii.eqb_refl. now apply digits_only_not_float.
Qed.

(* ---- indices ---- *)

Lemma read_index_app (pfx : ascii) (k : Z) (rest : string) : (0 <= k)%Z ->
  read_index pfx (String pfx (String "[" (string_of_Z k ++ String "]" rest))) = Some (k, rest).
Proof.
  intros Hk. destruct (string_of_Z_nonneg k Hk) as (Ha & Hn & Hv).
  unfold read_index. rewrite !Ascii.eqb_refl. cbn [andb].
  rewrite (span_digits_app (string_of_Z k) (String "]" rest) Ha eq_refl).
  rewrite Ascii.eqb_refl. cbn [andb]. unfold nonempty.
  destruct (string_of_Z k) as [|c r]; [congruence|]. cbn [is_empty negb]. now rewrite Hv.
Qed.

Lemma qstr_unfold (k : Z) (rest : string) :
  qstr k ++ rest = String "q" (String "[" (string_of_Z k ++ String "]" rest)).
Proof. unfold qstr. rewrite !sapp_assoc. reflexivity. Qed.

Lemma bstr_unfold (k : Z) (rest : string) :
  bstr k ++ rest = String "b" (String "[" (string_of_Z k ++ String "]" rest)).
Proof. unfold bstr. rewrite !sapp_assoc. reflexivity. Qed.

Lemma read_index_qstr (k : Z) (rest : string) : (0 <= k)%Z ->
  read_index "q" (qstr k ++ rest) = Some (k, rest).
Proof. intros Hk. rewrite qstr_unfold. now apply read_index_app. Qed.

Lemma read_index_bstr (k : Z) (rest : string) : (0 <= k)%Z ->
  read_index "b" (bstr k ++ rest) = Some (k, rest).
Proof. intros Hk. rewrite bstr_unfold. now apply read_index_app. Qed.

Lemma read_index_only_qstr (k : Z) : (0 <= k)%Z -> read_index_only "q" (qstr k) = Some k.
Proof.
  intros Hk. unfold read_index_only. rewrite <- (sapp_nil_r (qstr k)). now rewrite read_index_qstr.
Qed.

Lemma read_index_only_bstr (k : Z) : (0 <= k)%Z -> read_index_only "b" (bstr k) = Some k.
Proof.
  intros Hk. unfold read_index_only. rewrite <- (sapp_nil_r (bstr k)). now rewrite read_index_bstr.
Qed.

Lemma qstr_tok (k : Z) : forall_chars is_tok_char (qstr k) = true.
Proof. unfold qstr. rewrite !forall_chars_app, string_of_Z_tok. reflexivity. Qed.

Lemma bstr_tok (k : Z) : forall_chars is_tok_char (bstr k) = true.
Proof. unfold bstr. rewrite !forall_chars_app, string_of_Z_tok. reflexivity. Qed.

(* a text whose first character is not the prefix is not an index *)
Lemma read_index_other (p : ascii -> bool) (pfx : ascii) (s : string) :
  p pfx = false -> forall_chars p s = true -> read_index pfx s = None.
Proof.
  intros Hp Hs. destruct s as [|c [|o r]]; try reflexivity. cbn [forall_chars] in Hs.
  apply andb_true_iff in Hs. destruct Hs as [Hc _]. unfold read_index.
  destruct (Ascii.eqb_spec c pfx) as [->|]; [congruence | reflexivity].
Qed.

(* ---- reals ---- *)

Definition is_num_char (c : ascii) : bool :=
  is_digit c || Ascii.eqb c "+" || Ascii.eqb c "-" || Ascii.eqb c "." || Ascii.eqb c "e" || Ascii.eqb c "E".

Lemma num_is_tok (c : ascii) : is_num_char c = true -> is_tok_char c = true.
Proof.
  unfold is_num_char. rewrite !orb_true_iff, !Ascii.eqb_eq.
  intros [[[[[H | ->] | ->] | ->] | ->] | ->]; try reflexivity.
  now apply ident_is_tok, digit_is_ident.
Qed.

Lemma digits_num (s : string) : all_digits s = true -> forall_chars is_num_char s = true.
Proof.
  rewrite all_digits_forall. apply forall_chars_mono. intros c H. unfold is_num_char. now rewrite H.
Qed.

Lemma opt_exp_num (ex : string) : is_opt_exp ex = true -> forall_chars is_num_char ex = true.
Proof.
  intros H. apply is_opt_exp_spec in H. destruct H as [-> | H]; [reflexivity|].
  destruct H as [c sg ds Hc Hs Hd]. unfold digits1 in Hd. apply andb_true_iff in Hd.
  destruct Hd as [_ Hd]. cbn [forall_chars]. rewrite forall_chars_app, (digits_num _ Hd).
  destruct Hc as [-> | ->]; destruct Hs as [-> | [-> | ->]]; reflexivity.
Qed.

Lemma render_fix_num (d : dec) : wf_dec d -> dec_finite d ->
  forall_chars is_num_char (fix_literal (render_py8 d)) = true.
Proof.
  intros Hwf Hfin. destruct d as [| |neg digits e]; try contradiction.
  destruct (render_fix_shape neg digits e Hwf) as (IP & FP & ex & -> & H1 & H2 & _ & _ & Hex & _).
  unfold lit. rewrite !forall_chars_app.
  rewrite (digits_num _ (digits_string_all_digits _ H1)).
  rewrite (digits_num _ (digits_string_all_digits _ H2)).
  rewrite (opt_exp_num _ Hex). destruct neg; reflexivity.
Qed.

(* the repair only adds characters *)
Lemma fix_literal_chars (p : ascii -> bool) (s : string) :
  forall_chars p (fix_literal s) = true -> forall_chars p s = true.
Proof.
  unfold fix_literal. pose proof (split_e_spec s) as Hs.
  destruct (split_e s) as [m [ex|]]; destruct Hs as (-> & _); [|auto].
  rewrite !forall_chars_app. destruct (has_dot m); [auto|].
  rewrite forall_chars_app. intros H. apply andb_true_iff in H. destruct H as [H1 H2].
  apply andb_true_iff in H1. destruct H1 as [H1 _]. now rewrite H1, H2.
Qed.

(* ------------------------------------------------------------------ *)
(* texts as lists of lines, and the final rstrip                        *)

Fixpoint unlines (ls : list string) : string :=
  match ls with [] => "" | l :: ls' => l ++ NL ++ unlines ls' end.

Lemma unlines_app (a b : list string) : unlines (a ++ b)%list = unlines a ++ unlines b.
Proof.
  induction a as [|l a IH]; [reflexivity|]. cbn [List.app unlines]. now rewrite IH, !sapp_assoc.
Qed.

Lemma unlines_snoc (a : list string) (l : string) : unlines (a ++ [l])%list = (unlines a ++ l) ++ NL.
Proof. rewrite unlines_app. cbn [unlines]. now rewrite sapp_nil_r, sapp_assoc. Qed.

Lemma split_unlines (ls : list string) :
  Forall (fun l => no_nl l = true) ls -> split_on nl_char (unlines ls) = (ls ++ [""])%list.
Proof.
  induction 1 as [|l ls Hl _ IH]; [reflexivity|]. cbn [unlines List.app].
  change (l ++ NL ++ unlines ls) with (l ++ String nl_char (unlines ls)).
  rewrite split_on_app by (now rewrite <- no_nl_forall). now rewrite IH.
Qed.

(* a line of the writer: no newline inside, no blank at the end *)
Definition line_good (l : string) : Prop := no_nl l = true /\ last_nonws l = true.

Lemma all_ws_app (a b : string) : all_ws (a ++ b) = all_ws a && all_ws b.
Proof. induction a as [|c a IH]; cbn [append all_ws]; [reflexivity | now rewrite IH, andb_assoc]. Qed.

Lemma rstrip_app_ws (s w : string) : all_ws w = true -> rstrip (s ++ w) = rstrip s.
Proof.
  intros Hw. destruct (rstrip_decomp s) as (t & Hs & Ht).
  apply (rstrip_unique _ (rstrip s) (t ++ w)).
  - rewrite Hs at 1. now rewrite sapp_assoc.
  - apply rstrip_last_nonws.
  - now rewrite all_ws_app, Ht, Hw.
Qed.

Lemma rstrip_unlines_last (P : list string) (l : string) :
  l <> "" -> last_nonws l = true -> rstrip (unlines (P ++ [l])) ++ NL = unlines (P ++ [l]).
Proof.
  intros Hne Hl. rewrite unlines_snoc. f_equal.
  apply (rstrip_unique _ (unlines P ++ l) NL); [reflexivity | | reflexivity].
  now rewrite last_nonws_app.
Qed.

(* the final rstrip only removes trailing empty lines *)
Lemma rstrip_unlines (P R : list string) (l : string) :
  l <> "" -> last_nonws l = true -> Forall (fun x => last_nonws x = true) R ->
  exists R' k, R = (R' ++ repeat "" k)%list /\
               rstrip (unlines (P ++ l :: R)) ++ NL = unlines (P ++ l :: R').
Proof.
  intros Hne Hl. induction R as [|x R0 IH] using rev_ind; intros HR.
  - exists [], 0%nat. split; [reflexivity|]. now apply rstrip_unlines_last.
  - apply Forall_app in HR. destruct HR as [HR0 Hx]. inversion Hx as [|? ? Hx' _]; subst.
    destruct x as [|c x'].
    + destruct (IH HR0) as (R' & k & -> & E). exists R', (S k). split.
      * rewrite <- app_assoc. f_equal. change [""] with (repeat "" 1). rewrite <- repeat_app.
        f_equal. lia.
      * rewrite <- E. f_equal.
        replace (P ++ l :: (R' ++ repeat "" k) ++ [""])%list with ((P ++ l :: R' ++ repeat "" k) ++ [""])%list
          by (repeat (rewrite <- app_assoc || rewrite <- app_comm_cons); reflexivity).
        rewrite unlines_snoc, sapp_nil_r. now apply rstrip_app_ws.
    + exists (R0 ++ [String c x'])%list, 0%nat. split; [cbn [repeat]; now rewrite app_nil_r|].
      replace (P ++ l :: R0 ++ [String c x'])%list with ((P ++ l :: R0) ++ [String c x'])%list
        by (repeat (rewrite <- app_assoc || rewrite <- app_comm_cons); reflexivity).
      apply rstrip_unlines_last; [discriminate | exact Hx'].
Qed.

(* ------------------------------------------------------------------ *)
(* comments                                                             *)

Lemma until_close_app (t : string) : until_close (t ++ " */") = Some t.
Proof.
  induction t as [|c t IH]; [reflexivity|].
  change (String c t ++ " */") with (String c (t ++ " */")).
  cbn [until_close]. rewrite IH.
  destruct (String.eqb_spec (String c (t ++ " */")) " */") as [E|_]; [|reflexivity].
  apply (f_equal String.length) in E. cbn [String.length] in E. rewrite slength_app in E.
  cbn [String.length] in E. lia.
Qed.

Lemma has_close_contains (s : string) : has_close s = contains "*/" s.
Proof.
  induction s as [|c s IH]; [reflexivity|]. cbn [has_close contains]. rewrite IH. f_equal.
  cbn [String.prefix]. destruct (ascii_dec "*" c) as [<-|Hn].
  - rewrite Ascii.eqb_refl. cbn [andb]. destruct s as [|d s']; [reflexivity|].
    cbn [String.prefix]. destruct (ascii_dec "/" d) as [<-|Hn].
    + rewrite Ascii.eqb_refl. now destruct s'.
    + destruct (Ascii.eqb_spec d "/"); [congruence | reflexivity].
  - destruct (Ascii.eqb_spec c "*"); [congruence | reflexivity].
Qed.

Lemma read_comment_text (t : string) :
  contains "*/" t = false -> read_comment ("/* " ++ t ++ " */") = Some (RComment t).
Proof.
  intros H. unfold read_comment. rewrite strip_prefix_app, until_close_app, has_close_contains, H.
  reflexivity.
Qed.

Lemma comment_not_gate3 (x : string) : read_gate3 ("/* " ++ x) = None.
Proof. reflexivity. Qed.
Lemma comment_not_assign3 (x : string) : read_assign3 ("/* " ++ x) = None.
Proof. reflexivity. Qed.
Lemma comment_not_gate1 (x : string) : read_gate1 ("/* " ++ x) = None.
Proof. reflexivity. Qed.

Lemma comment_line_good (t : string) : no_nl t = true -> line_good ("/* " ++ t ++ " */").
Proof.
  intros H. split.
  - rewrite !no_nl_app, H. reflexivity.
  - rewrite <- sapp_assoc. now rewrite last_nonws_app by discriminate.
Qed.

(* ------------------------------------------------------------------ *)
(* lines ending with a closing bracket                                  *)

Definition ends_bracket (s : string) : Prop := exists x, s = x ++ "]".

Lemma ends_bracket_app (a b : string) : ends_bracket b -> ends_bracket (a ++ b).
Proof. intros [x ->]. exists (a ++ x). now rewrite sapp_assoc. Qed.

Lemma ends_bracket_good (s : string) : ends_bracket s -> last_nonws s = true /\ s <> "".
Proof.
  intros [x ->]. split; [now rewrite last_nonws_app by discriminate|].
  destruct x; discriminate.
Qed.

Lemma qstr_ends (q : Z) : ends_bracket (qstr q).
Proof. exists ("q[" ++ string_of_Z q). unfold qstr. now rewrite !sapp_assoc. Qed.

Lemma join_qstr_ends (qs : list Z) : qs <> [] -> ends_bracket (join ", " (map qstr qs)).
Proof.
  induction qs as [|q [|q' l] IH]; [congruence | intros _; apply qstr_ends | intros _].
  change (join ", " (map qstr (q :: q' :: l))) with (qstr q ++ ", " ++ join ", " (map qstr (q' :: l))).
  apply ends_bracket_app, ends_bracket_app, IH. discriminate.
Qed.

(* ------------------------------------------------------------------ *)
(* reading the operand and parameter lists                              *)

Lemma read_qubits_join (qs : list Z) : qs <> [] -> Forall (fun q => (0 <= q)%Z) qs ->
  read_qubits (join ", " (map qstr qs)) = Some qs.
Proof.
  intros Hne H. unfold read_qubits.
  rewrite (bind_list_join qstr (read_index_only "q") (fun q => q) qs Hne); [now rewrite map_id|].
  eapply Forall_impl; [|exact H]. cbn beta. intros q Hq. split.
  - apply tok_chars_no_comma, qstr_tok.
  - now apply read_index_only_qstr.
Qed.

Lemma span_ident (n r : string) :
  ident_ok n = true -> starts_not is_ident_char r = true -> span is_ident_char (n ++ r) = (n, r).
Proof. intros Hn Hr. apply span_app; [now apply ident_ok_chars | exact Hr]. Qed.

Lemma read_gate3_noparams (n J : string) :
  ident_ok n = true -> read_gate3 (n ++ String " " J) = option_map (RGate n []) (read_qubits J).
Proof.
  intros Hn. unfold read_gate3. rewrite (span_ident n (String " " J) Hn eq_refl), Hn. reflexivity.
Qed.

Lemma read_gate3_params (n JP JQ : string) :
  ident_ok n = true -> forall_chars (neq_char ")") JP = true ->
  read_gate3 (n ++ String "(" (JP ++ String ")" (String " " JQ))) =
  match read_params3 JP, read_qubits JQ with
  | Some ps, Some qs => Some (RGate n ps qs)
  | _, _ => None
  end.
Proof.
  intros Hn HJ. unfold read_gate3.
  rewrite (span_ident n (String "(" (JP ++ String ")" (String " " JQ))) Hn eq_refl), Hn.
  change (Ascii.eqb "(" " ") with false. change (Ascii.eqb "(" "(") with true. cbv iota.
  change (fun x : ascii => negb (Ascii.eqb x ")")) with (neq_char ")").
  rewrite (span_app (neq_char ")") JP (String ")" (String " " JQ)) HJ eq_refl). reflexivity.
Qed.

(* ------------------------------------------------------------------ *)
Section ReaderP.
  Context {T : Type}.
  Variable dec8 : T -> dec.
  Variable anon_text : gate T -> string.

  Notation stmt := (stmt T).
  Notation arg := (arg T).
  Notation v3_stmt := (v3_stmt dec8 anon_text).
  Notation v3_arg := (v3_arg dec8).
  Notation v1_stmt := (v1_stmt dec8).

  (* what an argument reads back as *)
  Definition rarg_of (a : arg) : rarg :=
    match a with
    | AQ q => RQ q
    | AB b => RB b
    | AF x => RNumLit (v3_float dec8 x)
    | AI k => RInt k
    end.

  Definition qubit_ids (args : list arg) : list Z :=
    flat_map (fun a => match a with AQ q => [q] | _ => [] end) args.

  (* indices are natural numbers, reals are well-formed finite decimals *)
  Definition arg_ok (a : arg) : Prop :=
    match a with
    | AQ q => (0 <= q)%Z
    | AB b => (0 <= b)%Z
    | AF x => wf_dec (dec8 x) /\ dec_finite (dec8 x)
    | AI _ => True
    end.

  Lemma qubits_of_ids (args : list arg) : map v3_arg (qubits_of args) = map qstr (qubit_ids args).
  Proof.
    unfold qubits_of, qubit_ids. induction args as [|a l IH]; [reflexivity|].
    cbn [filter flat_map]. destruct a; cbn [is_qarg map List.app Writer.v3_arg]; now rewrite IH.
  Qed.

  Lemma qubit_ids_ok (args : list arg) : Forall arg_ok args -> Forall (fun q => (0 <= q)%Z) (qubit_ids args).
  Proof.
    unfold qubit_ids. induction 1 as [|a l Ha _ IH]; [constructor|].
    cbn [flat_map]. destruct a; cbn [List.app]; auto.
  Qed.

  Lemma params_of_ok (args : list arg) :
    Forall arg_ok args -> Forall (fun a => arg_ok a /\ is_qarg a = false) (params_of args).
  Proof.
    unfold params_of. induction 1 as [|a l Ha _ IH]; [constructor|].
    cbn [filter]. destruct a; cbn [is_qarg negb]; auto.
  Qed.

  Lemma v3_float_tok (x : T) : wf_dec (dec8 x) -> dec_finite (dec8 x) ->
    forall_chars is_tok_char (v3_float dec8 x) = true.
  Proof.
    intros Hw Hf. unfold v3_float. eapply forall_chars_mono; [exact num_is_tok|].
    now apply render_fix_num.
  Qed.

  Lemma v3_arg_tok (a : arg) : arg_ok a -> forall_chars is_tok_char (v3_arg a) = true.
  Proof.
    destruct a; cbn [arg_ok Writer.v3_arg]; intros H;
      [apply qstr_tok | apply bstr_tok | now apply v3_float_tok | apply string_of_Z_tok].
  Qed.

  Lemma bstr_not_float (b : Z) : is_signed_float_literal (bstr b) = false.
  Proof. rewrite <- (sapp_nil_r (bstr b)), bstr_unfold. reflexivity. Qed.

  Lemma bstr_not_int (b : Z) : read_int (bstr b) = None.
  Proof. rewrite <- (sapp_nil_r (bstr b)), bstr_unfold. reflexivity. Qed.

  (* a parameter is read back as what was written *)
  Lemma read_param3_arg (a : arg) : arg_ok a -> is_qarg a = false ->
    read_param3 (v3_arg a) = Some (rarg_of a).
  Proof.
    destruct a as [q|b|x|k]; cbn [arg_ok is_qarg Writer.v3_arg rarg_of]; intros H Hq; [discriminate| | |].
    - unfold read_param3. now rewrite bstr_not_float, bstr_not_int, read_index_only_bstr.
    - unfold read_param3. destruct H as [Hw Hf].
      unfold v3_float. now rewrite (render_fix_is_literal _ Hw Hf).
    - unfold read_param3. now rewrite string_of_Z_not_float, read_int_string_of_Z.
  Qed.

  Lemma read_params3_join (ps : list arg) : ps <> [] ->
    Forall (fun a => arg_ok a /\ is_qarg a = false) ps ->
    read_params3 (join ", " (map v3_arg ps)) = Some (map rarg_of ps).
  Proof.
    intros Hne H. unfold read_params3. apply (bind_list_join v3_arg read_param3 rarg_of ps Hne).
    eapply Forall_impl; [|exact H]. cbn beta. intros a [Ha Hq]. split.
    - now apply tok_chars_no_comma, v3_arg_tok.
    - now apply read_param3_arg.
  Qed.

  Lemma join_args_chars (p : ascii -> bool) (l : list arg) :
    (forall c, is_tok_char c = true -> p c = true) -> p ","%char = true -> p " "%char = true ->
    Forall arg_ok l -> forall_chars p (join ", " (map v3_arg l)) = true.
  Proof.
    intros Hp Hc Hs H. apply forall_chars_join; [cbn; now rewrite Hc, Hs|].
    apply Forall_map. eapply Forall_impl; [|exact H]. cbn beta. intros a Ha.
    eapply forall_chars_mono; [exact Hp | now apply v3_arg_tok].
  Qed.

  (* the text of a named gate:  name(p1, p2) q[i], q[j] *)
  Definition gate_text (n : string) (args : list arg) : string :=
    (n ++ match map v3_arg (params_of args) with
          | [] => ""
          | _ => "(" ++ join ", " (map v3_arg (params_of args)) ++ ")"
          end) ++ " " ++ join ", " (map v3_arg (qubits_of args)).

  Lemma read_gate3_text (n : string) (args : list arg) :
    ident_ok n = true -> Forall arg_ok args -> qubit_ids args <> [] ->
    read_gate3 (gate_text n args) = Some (RGate n (map rarg_of (params_of args)) (qubit_ids args)).
  Proof.
    intros Hn Hargs Hq. unfold gate_text. rewrite qubits_of_ids.
    pose proof (read_qubits_join _ Hq (qubit_ids_ok _ Hargs)) as HQ.
    pose proof (params_of_ok _ Hargs) as HP.
    destruct (params_of args) as [|p ps] eqn:E.
    - cbn [map]. rewrite sapp_nil_r. cbn [append]. rewrite (read_gate3_noparams _ _ Hn), HQ. reflexivity.
    - set (JP := join ", " (map v3_arg (p :: ps))). cbn [map]. rewrite !sapp_assoc. cbn [append].
      rewrite (read_gate3_params _ _ _ Hn).
      + unfold JP. rewrite (read_params3_join (p :: ps)) by (auto; discriminate). now rewrite HQ.
      + unfold JP. apply join_args_chars; try reflexivity.
        * apply class_excludes. reflexivity.
        * eapply Forall_impl; [|exact HP]. cbn beta. tauto.
  Qed.

  Lemma gate_text_good (n : string) (args : list arg) :
    ident_ok n = true -> Forall arg_ok args -> qubit_ids args <> [] ->
    line_good (gate_text n args) /\ gate_text n args <> "".
  Proof.
    intros Hn Hargs Hq.
    assert (He : ends_bracket (gate_text n args)).
    { unfold gate_text. rewrite qubits_of_ids. apply ends_bracket_app, ends_bracket_app.
      now apply join_qstr_ends. }
    destruct (ends_bracket_good _ He) as [Hl Hne]. split; [split; [|exact Hl] | exact Hne].
    apply line_chars_no_nl. unfold gate_text.
    assert (HJ : forall l, Forall arg_ok l -> forall_chars is_line_char (join ", " (map v3_arg l)) = true).
    { intros l Hl'. apply join_args_chars; auto using tok_is_line. }
    rewrite !forall_chars_app.
    rewrite (forall_chars_mono is_ident_char is_line_char n) by
      (try apply ident_ok_chars; auto; intros c Hc; now apply tok_is_line, ident_is_tok).
    assert (HPo : Forall arg_ok (params_of args)).
    { eapply Forall_impl; [|exact (params_of_ok _ Hargs)]. cbn beta. tauto. }
    assert (HQo : Forall arg_ok (qubits_of args)).
    { unfold qubits_of. apply Forall_forall. intros a Ha. apply filter_In in Ha.
      rewrite Forall_forall in Hargs. now apply Hargs. }
    rewrite (HJ _ HQo). cbn [andb forall_chars]. rewrite andb_true_r.
    destruct (map v3_arg (params_of args)) eqn:E; [reflexivity|].
    rewrite <- E, !forall_chars_app, (HJ _ HPo). reflexivity.
  Qed.

  (* ---------------- the lines of a statement ---------------- *)

  (* the one non-empty line a statement is written as *)
  Definition main_line (s : stmt) : string :=
    match s with
    | SComment t => "/* " ++ t ++ " */"
    | SGate _ g gi =>
        match gargs gi with
        | None => anon_text g
        | Some args => gate_text (name_of gi "") args
        end
    | SMeasure _ _ _ _ gi =>
        match gargs gi with
        | Some (a0 :: a1 :: _) => v3_arg a1 ++ " = " ++ name_of gi "" ++ " " ++ v3_arg a0
        | _ => name_of gi "<abstract_measure>"
        end
    | SReset _ _ gi =>
        match gargs gi with
        | Some (a0 :: _) => name_of gi "" ++ " " ++ v3_arg a0
        | _ => name_of gi "<abstract_reset>"
        end
    end.

  (* a comment is surrounded by two empty lines *)
  Definition stmt_lines (s : stmt) : list string :=
    match s with
    | SComment _ => [""; main_line s; ""]
    | _ => [main_line s]
    end.

  Lemma v3_stmt_unlines (s : stmt) (x : string) :
    v3_stmt s = Some x -> x = unlines (stmt_lines s).
  Proof.
    destruct s as [o g gi|o q b ax gi|o q gi|t]; cbn [Writer.v3_stmt stmt_lines main_line unlines].
    - destruct (gargs gi) as [args|]; intros H; injection H as <-.
      + unfold gate_text. fold (params_of args). fold (qubits_of args).
        rewrite ?sapp_assoc, ?sapp_nil_r. reflexivity.
      + now rewrite sapp_nil_r.
    - destruct (gargs gi) as [[|a0 [|a1 l]]|]; intros H; try discriminate; injection H as <-;
        rewrite ?sapp_assoc, ?sapp_nil_r; reflexivity.
    - destruct (gargs gi) as [[|a0 l]|]; intros H; try discriminate; injection H as <-;
        rewrite ?sapp_assoc, ?sapp_nil_r; reflexivity.
    - intros H; injection H as <-. rewrite ?sapp_assoc, ?sapp_nil_r. reflexivity.
  Qed.

  (* what a statement should read back as *)
  Definition line_of (s : stmt) : rline :=
    match s with
    | SComment t => RComment t
    | SGate _ g gi =>
        match gargs gi with
        | None => RRaw (anon_text g)
        | Some args => RGate (name_of gi "") (map rarg_of (params_of args)) (qubit_ids args)
        end
    | SMeasure _ _ _ _ gi =>
        match gargs gi with
        | Some (AQ q :: AB b :: _) => RAssign b (name_of gi "") q
        | _ => RRaw (main_line s)
        end
    | SReset _ _ gi =>
        match gargs gi with
        | Some (AQ q :: _) => RGate (name_of gi "") [] [q]
        | _ => RRaw (main_line s)
        end
    end.

  (* the side conditions of the round trip, statement by statement:
     names are identifiers, indices are natural numbers, reals are well-formed
     finite decimals, a gate has at least one qubit operand, a measure is
     (qubit, bit), a reset is (qubit), a comment has no terminator and no newline;
     no anonymous gate, no abstract measure or reset *)
  Definition stmt_ok (s : stmt) : Prop :=
    match s with
    | SComment t => contains "*/" t = false /\ no_nl t = true
    | SGate _ _ gi =>
        exists n args, gname gi = Some n /\ gargs gi = Some args /\ ident_ok n = true /\
                       Forall arg_ok args /\ qubit_ids args <> []
    | SMeasure _ _ _ _ gi =>
        exists n q b rest, gname gi = Some n /\ gargs gi = Some (AQ q :: AB b :: rest) /\
                           ident_ok n = true /\ (0 <= q)%Z /\ (0 <= b)%Z
    | SReset _ _ gi =>
        exists n q rest, gname gi = Some n /\ gargs gi = Some (AQ q :: rest) /\
                         ident_ok n = true /\ (0 <= q)%Z
    end.

  Definition writable (ir : list stmt) : Prop := Forall stmt_ok ir.

  (* the weaker condition under which every statement still occupies exactly one
     non-empty line: an anonymous gate is allowed when its text is not empty, has
     no newline and does not end with a blank *)
  Definition stmt_ok_anon (s : stmt) : Prop :=
    match s with
    | SGate _ g gi =>
        stmt_ok s \/ (gargs gi = None /\ line_good (anon_text g) /\ anon_text g <> "")
    | _ => stmt_ok s
    end.

  Lemma measure_line_eq (n : string) (q b : Z) :
    bstr b ++ " = " ++ n ++ " " ++ qstr q =
    String "b" (String "[" (string_of_Z b ++ String "]" (" = " ++ n ++ " " ++ qstr q))).
  Proof. apply bstr_unfold. Qed.

  Lemma read_measure_line (n : string) (q b : Z) :
    ident_ok n = true -> (0 <= q)%Z -> (0 <= b)%Z ->
    read_line3 (bstr b ++ " = " ++ n ++ " " ++ qstr q) = RAssign b n q.
  Proof.
    intros Hn Hq Hb. unfold read_line3.
    assert (G : read_gate3 (bstr b ++ " = " ++ n ++ " " ++ qstr q) = None).
    { rewrite measure_line_eq. reflexivity. }
    rewrite G. cbn [first_some].
    assert (A : read_assign3 (bstr b ++ " = " ++ n ++ " " ++ qstr q) = Some (RAssign b n q)).
    { unfold read_assign3. rewrite (read_index_bstr b _ Hb).
      rewrite (strip_prefix_app " = " (n ++ " " ++ qstr q)).
      rewrite (span_ident n (" " ++ qstr q) Hn eq_refl), Hn.
      rewrite (strip_prefix_app " " (qstr q)), (read_index_only_qstr q Hq). reflexivity. }
    rewrite A. reflexivity.
  Qed.

  Lemma read_reset_line (n : string) (q : Z) :
    ident_ok n = true -> (0 <= q)%Z -> read_line3 (n ++ " " ++ qstr q) = RGate n [] [q].
  Proof.
    intros Hn Hq. unfold read_line3. cbn [append]. rewrite (read_gate3_noparams _ _ Hn).
    change (qstr q) with (join ", " (map qstr [q])).
    rewrite read_qubits_join; [reflexivity | discriminate | now constructor].
  Qed.

  (* per statement: the line read back is the statement *)
  Theorem read_line3_stmt (s : stmt) : stmt_ok s -> read_line3 (main_line s) = line_of s.
  Proof.
    destruct s as [o g gi|o q b ax gi|o q gi|t]; cbn [stmt_ok main_line line_of].
    - intros (n & args & Hgn & Hga & Hn & Hargs & Hq). rewrite Hga. unfold name_of. rewrite Hgn.
      unfold read_line3. now rewrite (read_gate3_text n args Hn Hargs Hq).
    - intros (n & q' & b' & rest & Hgn & Hga & Hn & Hq & Hb). rewrite Hga. unfold name_of. rewrite Hgn.
      cbn [Writer.v3_arg]. now apply read_measure_line.
    - intros (n & q' & rest & Hgn & Hga & Hn & Hq). rewrite Hga. unfold name_of. rewrite Hgn.
      cbn [Writer.v3_arg]. now apply read_reset_line.
    - intros [Hc _]. unfold read_line3.
      rewrite comment_not_gate3, comment_not_assign3, (read_comment_text t Hc). reflexivity.
  Qed.

  Lemma main_line_good (s : stmt) : stmt_ok_anon s -> line_good (main_line s) /\ main_line s <> "".
  Proof.
    assert (Hq : forall n a, ident_ok n = true ->
              forall_chars is_line_char (n ++ " " ++ a) = forall_chars is_line_char a).
    { intros n a Hn. rewrite !forall_chars_app.
      rewrite (forall_chars_mono is_ident_char is_line_char n); [reflexivity| |now apply ident_ok_chars].
      intros c Hc. now apply tok_is_line, ident_is_tok. }
    assert (Hqs : forall q, forall_chars is_line_char (qstr q) = true).
    { intros q. eapply forall_chars_mono; [exact tok_is_line | apply qstr_tok]. }
    destruct s as [o g gi|o q b ax gi|o q gi|t]; cbn [stmt_ok_anon stmt_ok main_line].
    - intros [(n & args & Hgn & Hga & Hn & Hargs & Hqn) | (Hga & Hg & Hne)].
      + rewrite Hga. unfold name_of. rewrite Hgn. now apply gate_text_good.
      + rewrite Hga. auto.
    - intros (n & q' & b' & rest & Hgn & Hga & Hn & Hq' & Hb). rewrite Hga. unfold name_of. rewrite Hgn.
      cbn [Writer.v3_arg].
      assert (He : ends_bracket (bstr b' ++ " = " ++ n ++ " " ++ qstr q')).
      { do 4 apply ends_bracket_app. apply qstr_ends. }
      destruct (ends_bracket_good _ He) as [Hl Hne]. split; [split; [|exact Hl] | exact Hne].
      apply line_chars_no_nl. rewrite forall_chars_app, forall_chars_app, (Hq n _ Hn), Hqs.
      rewrite (forall_chars_mono is_tok_char is_line_char (bstr b') tok_is_line (bstr_tok b')). reflexivity.
    - intros (n & q' & rest & Hgn & Hga & Hn & Hq'). rewrite Hga. unfold name_of. rewrite Hgn.
      cbn [Writer.v3_arg].
      assert (He : ends_bracket (n ++ " " ++ qstr q')).
      { do 2 apply ends_bracket_app. apply qstr_ends. }
      destruct (ends_bracket_good _ He) as [Hl Hne]. split; [split; [|exact Hl] | exact Hne].
      apply line_chars_no_nl. now rewrite (Hq n _ Hn), Hqs.
    - intros [_ Hnl]. split; [now apply comment_line_good | discriminate].
  Qed.

  Lemma stmt_ok_anon_of_ok (s : stmt) : stmt_ok s -> stmt_ok_anon s.
  Proof. destruct s; cbn [stmt_ok_anon]; auto. Qed.

  (* ---------------- the whole text ---------------- *)

  (* [read3] on the list of lines *)
  Definition read3_lines (ls : list string) : option rprogram :=
    match ls with
    | v :: e :: q :: rest =>
        match read_version v, read_decl "qubit[" "] q" q with
        | Some ver, Some n =>
            if is_empty e then
              match rest with
              | [] => Some {| r_version := ver; r_nq := n; r_nb := 0; r_lines := [] |}
              | b :: rest' =>
                  if is_empty b then
                    Some {| r_version := ver; r_nq := n; r_nb := 0;
                            r_lines := map read_line3 (body_lines rest') |}
                  else
                    match read_decl "bit[" "] b" b with
                    | Some m => Some {| r_version := ver; r_nq := n; r_nb := m;
                                        r_lines := map read_line3 (body_lines rest') |}
                    | None => None
                    end
              end
            else None
        | _, _ => None
        end
    | _ => None
    end.

  Lemma read3_eq (text : string) : read3 text = read3_lines (split_on nl_char text).
  Proof. reflexivity. Qed.

  Lemma body_lines_app (a b : list string) : body_lines (a ++ b) = (body_lines a ++ body_lines b)%list.
  Proof. apply filter_app. Qed.

  Lemma body_lines_empties (k : nat) : body_lines (repeat "" k) = [].
  Proof. induction k as [|k IH]; [reflexivity | exact IH]. Qed.

  (* trailing empty lines do not matter *)
  Lemma read3_lines_empty_tail (v e q : string) (rest : list string) (k : nat) :
    read3_lines (v :: e :: q :: rest ++ repeat "" k) = read3_lines (v :: e :: q :: rest).
  Proof.
    unfold read3_lines. destruct rest as [|b rest'].
    - cbn [List.app]. destruct k as [|k]; [reflexivity|]. cbn [repeat is_empty].
      now rewrite body_lines_empties.
    - cbn [List.app]. now rewrite body_lines_app, body_lines_empties, app_nil_r.
  Qed.

  Lemma read_decl_app (pre post : string) (k : Z) :
    (0 <= k)%Z -> starts_with_digit post = false ->
    read_decl pre post (pre ++ string_of_Z k ++ post) = Some k.
  Proof.
    intros Hk Hp. destruct (string_of_Z_nonneg k Hk) as (Ha & Hn & Hv).
    unfold read_decl. rewrite strip_prefix_app, (span_digits_app _ _ Ha Hp), String.eqb_refl.
    unfold nonempty. destruct (string_of_Z k); [congruence|]. cbn [is_empty negb andb]. now rewrite Hv.
  Qed.

  Definition qubit_line (nq : Z) : string := "qubit[" ++ string_of_Z nq ++ "] q".
  Definition bit_line (nb : Z) : string := "bit[" ++ string_of_Z nb ++ "] b".

  Definition tail_lines (nb : Z) (ir : list stmt) : list string :=
    ((if Z.ltb 0 nb then [bit_line nb] else []) ++ "" :: flat_map stmt_lines ir)%list.

  Lemma body3_unlines (ir : list stmt) (body : string) :
    body3 dec8 anon_text ir = Some body -> body = unlines (flat_map stmt_lines ir).
  Proof.
    unfold body3. revert body. induction ir as [|s ir IH]; intros body H; cbn [map concat_opt] in H.
    - now injection H as <-.
    - destruct (v3_stmt s) as [x|] eqn:Ex; [|discriminate].
      destruct (concat_opt (map v3_stmt ir)) as [r|]; [|discriminate]. injection H as <-.
      cbn [flat_map]. now rewrite unlines_app, (v3_stmt_unlines s x Ex), (IH r eq_refl).
  Qed.

  Lemma header3_unlines (nq nb : Z) (ir : list stmt) (body : string) :
    body = unlines (flat_map stmt_lines ir) ->
    header3 nq nb ++ body = unlines (["version 3.0"; ""] ++ qubit_line nq :: tail_lines nb ir).
  Proof.
    intros ->. unfold header3, tail_lines, qubit_line, bit_line.
    destruct (Z.ltb 0 nb); cbn [List.app unlines]; rewrite ?sapp_assoc; reflexivity.
  Qed.

  Lemma digits_no_nl (k : Z) (a b : string) : no_nl a = true -> no_nl b = true ->
    no_nl (a ++ string_of_Z k ++ b) = true.
  Proof. intros Ha Hb. now rewrite !no_nl_app, Ha, Hb, string_of_Z_no_nl. Qed.

  Lemma tail_lines_good (nb : Z) (ir : list stmt) :
    Forall stmt_ok_anon ir -> Forall line_good (tail_lines nb ir).
  Proof.
    intros H. unfold tail_lines. apply Forall_app. split.
    - destruct (Z.ltb 0 nb); constructor; [|constructor]. unfold bit_line. split.
      + now apply digits_no_nl.
      + rewrite <- sapp_assoc. now rewrite last_nonws_app by discriminate.
    - constructor; [split; reflexivity|]. induction H as [|s ir Hs _ IH]; [constructor|].
      cbn [flat_map]. apply Forall_app. split; [|exact IH].
      destruct (main_line_good s Hs) as [Hg _].
      destruct s; cbn [stmt_lines]; repeat constructor; try exact Hg; try (apply Hg).
  Qed.

  Lemma body_lines_stmts (ir : list stmt) :
    Forall stmt_ok_anon ir -> body_lines (flat_map stmt_lines ir) = map main_line ir.
  Proof.
    induction 1 as [|s ir Hs _ IH]; [reflexivity|]. cbn [flat_map map].
    rewrite body_lines_app, IH. destruct (main_line_good s Hs) as [_ Hne].
    assert (E : body_lines [main_line s] = [main_line s]).
    { unfold body_lines. cbn [filter]. unfold nonempty. destruct (main_line s); [congruence | reflexivity]. }
    destruct s; cbn [stmt_lines]; try (rewrite E; reflexivity).
    change (body_lines [""; main_line (SComment text); ""]) with
      (body_lines [""] ++ body_lines [main_line (SComment text)] ++ body_lines [""])%list.
    rewrite E. reflexivity.
  Qed.

  Lemma read3_lines_header (nq nb : Z) (ir : list stmt) :
    (0 <= nq)%Z -> (0 <= nb)%Z ->
    read3_lines ("version 3.0" :: "" :: qubit_line nq :: tail_lines nb ir) =
    Some {| r_version := "3.0"; r_nq := nq; r_nb := nb;
            r_lines := map read_line3 (body_lines (flat_map stmt_lines ir)) |}.
  Proof.
    intros Hq Hb. unfold read3_lines.
    change (read_version "version 3.0") with (Some "3.0").
    unfold qubit_line. rewrite (read_decl_app "qubit[" "] q" nq Hq eq_refl). cbn [is_empty].
    unfold tail_lines. destruct (Z.ltb_spec 0 nb) as [Hlt|Hge]; cbn [List.app].
    - assert (Hbe : is_empty (bit_line nb) = false) by reflexivity.
      rewrite Hbe. unfold bit_line.
      rewrite (read_decl_app "bit[" "] b" nb Hb eq_refl). reflexivity.
    - cbn [is_empty]. replace nb with 0%Z by lia. reflexivity.
  Qed.

  (* the round trip, anonymous gates included: every statement is read back from
     its own line, in order, none omitted *)
  Theorem read3_write3_lines (nq nb : Z) (ir : list stmt) (text : string) :
    write3 dec8 anon_text nq nb ir = Ok text ->
    (0 <= nq)%Z -> (0 <= nb)%Z -> Forall stmt_ok_anon ir ->
    read3 text = Some {| r_version := "3.0"; r_nq := nq; r_nb := nb;
                         r_lines := map (fun s => read_line3 (main_line s)) ir |}.
  Proof.
    intros Hw Hq Hb Hok.
    destruct (write3_header dec8 anon_text nq nb ir text Hw) as (body & Hbody & _).
    rewrite (write3_decomp dec8 anon_text nq nb ir body Hbody) in Hw.
    assert (Ht : text = rstrip (header3 nq nb ++ body) ++ NL) by congruence. clear Hw. subst text.
    rewrite (header3_unlines nq nb ir body (body3_unlines ir body Hbody)).
    pose proof (tail_lines_good nb ir Hok) as Hgood.
    assert (Hql : line_good (qubit_line nq) /\ qubit_line nq <> "").
    { unfold qubit_line. split; [split|discriminate].
      - now apply digits_no_nl.
      - rewrite <- sapp_assoc. now rewrite last_nonws_app by discriminate. }
    destruct Hql as [[Hqn Hql] Hqne].
    destruct (rstrip_unlines ["version 3.0"; ""] (tail_lines nb ir) (qubit_line nq) Hqne Hql)
      as (R' & k & ER & ->).
    { eapply Forall_impl; [|exact Hgood]. intros l Hl. apply Hl. }
    rewrite read3_eq, split_unlines.
    - cbn [List.app]. change [""] with (repeat "" 1).
      rewrite read3_lines_empty_tail, <- (read3_lines_empty_tail _ _ _ R' k), <- ER.
      rewrite (read3_lines_header nq nb ir Hq Hb), (body_lines_stmts ir Hok), map_map. reflexivity.
    - cbn [List.app]. repeat constructor; [exact Hqn|].
      rewrite ER in Hgood. apply Forall_app in Hgood. destruct Hgood as [Hgood _].
      eapply Forall_impl; [|exact Hgood]. intros l Hl. apply Hl.
  Qed.

  (* THE ROUND TRIP: the text of a writable circuit reads back as the circuit *)
  Theorem read3_write3 (nq nb : Z) (ir : list stmt) (text : string) :
    write3 dec8 anon_text nq nb ir = Ok text ->
    (0 <= nq)%Z -> (0 <= nb)%Z -> writable ir ->
    read3 text = Some {| r_version := "3.0"; r_nq := nq; r_nb := nb; r_lines := map line_of ir |}.
  Proof.
    intros Hw Hq Hb Hok. rewrite (read3_write3_lines nq nb ir text Hw Hq Hb).
    - do 2 f_equal. apply map_ext_in. intros s Hs. apply read_line3_stmt.
      unfold writable in Hok. rewrite Forall_forall in Hok. now apply Hok.
    - eapply Forall_impl; [|exact Hok]. apply stmt_ok_anon_of_ok.
  Qed.

  (* ---------------- parameters: reals to 8 significant digits ---------------- *)

  (* the real parameters of a statement *)
  Definition stmt_reals (s : stmt) : list T :=
    match s with
    | SGate _ _ gi =>
        match gargs gi with
        | Some args => flat_map (fun a => match a with AF x => [x] | _ => [] end) args
        | None => []
        end
    | _ => []
    end.

  (* one parameter: the text written for x is read as the literal itself, the
     literal belongs to the float grammar of the lexer and denotes the decimal
     dec8 x, i.e. x rounded to 8 significant digits *)
  Theorem read_param3_value (x : T) :
    wf_dec (dec8 x) -> dec_finite (dec8 x) ->
    read_param3 (v3_arg (AF x)) = Some (RNumLit (v3_float dec8 x)) /\
    is_signed_float_literal (v3_float dec8 x) = true /\
    optQeq (signed_literal_value (v3_float dec8 x)) (dec_value (dec8 x)).
  Proof.
    intros Hw Hf. split; [|split].
    - apply (read_param3_arg (AF x)); [split; assumption | reflexivity].
    - now apply render_fix_is_literal.
    - now apply render_fix_value.
  Qed.

  (* every real literal the reader returns for the text of a writable circuit
     comes from a real parameter x of the circuit, is a float literal of the
     grammar, and its value is the decimal dec8 x *)
  Theorem read3_param_value (nq nb : Z) (ir : list stmt) (text : string) (p : rprogram) :
    write3 dec8 anon_text nq nb ir = Ok text ->
    (0 <= nq)%Z -> (0 <= nb)%Z -> writable ir ->
    read3 text = Some p ->
    forall name params qubits lit,
      In (RGate name params qubits) (r_lines p) -> In (RNumLit lit) params ->
      exists s x, In s ir /\ In x (stmt_reals s) /\ lit = v3_float dec8 x /\
                  is_signed_float_literal lit = true /\
                  optQeq (signed_literal_value lit) (dec_value (dec8 x)).
  Proof.
    intros Hw Hq Hb Hok Hr name params qubits lit Hl Hp.
    rewrite (read3_write3 nq nb ir text Hw Hq Hb Hok) in Hr. injection Hr as <-. cbn [r_lines] in Hl.
    apply in_map_iff in Hl. destruct Hl as (s & Hs & Hin). exists s.
    unfold writable in Hok. rewrite Forall_forall in Hok. pose proof (Hok s Hin) as Hso.
    destruct s as [o g gi|o q b ax gi|o q gi|t]; cbn [line_of stmt_ok stmt_reals] in *.
    - destruct Hso as (n & args & Hgn & Hga & Hn & Hargs & Hqn). rewrite Hga in *.
      injection Hs as _ <- _. apply in_map_iff in Hp. destruct Hp as (a & Ha & Hina).
      unfold params_of in Hina. apply filter_In in Hina. destruct Hina as [Hina _].
      rewrite Forall_forall in Hargs. pose proof (Hargs a Hina) as Hao.
      destruct a as [q|b|x|k]; try discriminate. cbn [rarg_of] in Ha. injection Ha as <-.
      destruct Hao as [Hw' Hf']. exists x. split; [exact Hin|]. split.
      + apply in_flat_map. exists (AF x). split; [exact Hina | now left].
      + split; [reflexivity|]. split; [now apply render_fix_is_literal | now apply render_fix_value].
    - destruct Hso as (n & q' & b' & rest & Hgn & Hga & _). rewrite Hga in Hs. discriminate.
    - destruct Hso as (n & q' & rest & Hgn & Hga & _). rewrite Hga in Hs.
      injection Hs as _ <- _. destruct Hp.
    - discriminate.
  Qed.

  (* ---------------- comments, anonymous gates ---------------- *)

  (* comments survive, at their position and with their text *)
  Theorem read3_comments_survive (nq nb : Z) (ir : list stmt) (text : string) :
    write3 dec8 anon_text nq nb ir = Ok text ->
    (0 <= nq)%Z -> (0 <= nb)%Z -> writable ir ->
    exists p, read3 text = Some p /\
      forall i t, nth_error ir i = Some (SComment t) -> nth_error (r_lines p) i = Some (RComment t).
  Proof.
    intros Hw Hq Hb Hok. eexists. split; [apply (read3_write3 nq nb ir text Hw Hq Hb Hok)|].
    intros i t Hi. cbn [r_lines]. now rewrite (map_nth_error line_of i ir Hi).
  Qed.

  (* a single comment line *)
  Corollary read_line3_comment (t : string) :
    contains "*/" t = false -> read_line3 ("/* " ++ t ++ " */") = RComment t.
  Proof.
    intros H. unfold read_line3.
    now rewrite comment_not_gate3, comment_not_assign3, (read_comment_text t H).
  Qed.

  (* with anonymous gates in the circuit (their text on one non-empty line), every
     statement still yields exactly one line, in order, none omitted; the named
     statements and the comments are read back as themselves *)
  Theorem read3_anonymous_one_line (nq nb : Z) (ir : list stmt) (text : string) :
    write3 dec8 anon_text nq nb ir = Ok text ->
    (0 <= nq)%Z -> (0 <= nb)%Z -> Forall stmt_ok_anon ir ->
    exists p, read3 text = Some p /\
      r_nq p = nq /\ r_nb p = nb /\
      List.length (r_lines p) = List.length ir /\
      forall i s, nth_error ir i = Some s ->
        nth_error (r_lines p) i = Some (read_line3 (main_line s)) /\
        (stmt_ok s -> nth_error (r_lines p) i = Some (line_of s)).
  Proof.
    intros Hw Hq Hb Hok. eexists. split; [apply (read3_write3_lines nq nb ir text Hw Hq Hb Hok)|].
    cbn [r_nq r_nb r_lines]. split; [reflexivity|]. split; [reflexivity|]. split; [apply map_length|].
    intros i s Hi. rewrite (map_nth_error (fun s => read_line3 (main_line s)) i ir Hi).
    split; [reflexivity|]. intros Hs. now rewrite (read_line3_stmt s Hs).
  Qed.

  (* an anonymous gate whose text is neither an instruction nor a comment is kept as it is *)
  Lemma read_line3_raw (l : string) :
    read_gate3 l = None -> read_assign3 l = None -> read_comment l = None -> read_line3 l = RRaw l.
  Proof. intros H1 H2 H3. unfold read_line3. now rewrite H1, H2, H3. Qed.

  (* without the side condition on reals the statement is false: an infinite angle
     is written as "inf", which is not a literal, and the line is not read back *)
  Theorem read3_write3_nonfinite_refuted :
    forall (x : T) (o : positive) (g : gate T), dec8 x = DInf false ->
      let s := SGate o g (mkGinfo (Some "Rx") (Some [AQ 0%Z; AF x])) in
      read_line3 (main_line s) = RRaw "Rx(inf) q[0]" /\ read_line3 (main_line s) <> line_of s.
  Proof.
    intros x o g Hx s. assert (E : main_line s = "Rx(inf) q[0]").
    { cbn [main_line s gargs]. unfold gate_text, name_of. cbn [gname params_of qubits_of filter is_qarg negb map].
      cbn [Writer.v3_arg]. unfold v3_float. rewrite Hx. reflexivity. }
    rewrite E. split; [reflexivity|]. cbn. discriminate.
  Qed.

  (* ================= cQASM 1 ================= *)

  Notation v1_text := (v1_text dec8).

  Definition rarg1_of (a : arg) : rarg :=
    match a with
    | AQ q => RQ q
    | AB b => RB b
    | AF x => RNumLit (v1_float dec8 x)
    | AI k => RInt k
    end.

  Lemma string_of_Z_num (k : Z) : forall_chars is_num_char (string_of_Z k) = true.
  Proof.
    destruct k as [|p|p].
    - reflexivity.
    - apply digits_num. now apply (string_of_Z_nonneg (Zpos p)).
    - rewrite string_of_Z_neg. cbn [forall_chars]. rewrite digits_num; [reflexivity|].
      now apply (string_of_Z_nonneg (Zpos p)).
  Qed.

  Lemma fix_literal_string_of_Z (k : Z) : fix_literal (string_of_Z k) = string_of_Z k.
  Proof.
    destruct k as [|p|p].
    - reflexivity.
    - apply fix_literal_no_e, all_digits_no_e. now apply (string_of_Z_nonneg (Zpos p)).
    - rewrite string_of_Z_neg. change (String "-" (string_of_Z (Z.pos p))) with (sign_str true ++ string_of_Z (Z.pos p)).
      rewrite fix_literal_sign. f_equal.
      apply fix_literal_no_e, all_digits_no_e. now apply (string_of_Z_nonneg (Zpos p)).
  Qed.

  Lemma v1_float_num (x : T) : wf_dec (dec8 x) -> dec_finite (dec8 x) ->
    forall_chars is_num_char (v1_float dec8 x) = true.
  Proof. intros Hw Hf. unfold v1_float. apply fix_literal_chars. now apply render_fix_num. Qed.

  Lemma read_index_only_num (s : string) : forall_chars is_num_char s = true -> read_index_only "q" s = None.
  Proof.
    intros H. unfold read_index_only. now rewrite (read_index_other is_num_char "q" s eq_refl H).
  Qed.

  Lemma v1_text_tok (a : arg) : arg_ok a -> forall_chars is_tok_char (v1_text a) = true.
  Proof.
    destruct a as [q|b|x|k]; cbn [arg_ok WriterP.v1_text]; intros H.
    - apply qstr_tok.
    - reflexivity.
    - destruct H as [Hw Hf]. eapply forall_chars_mono; [exact num_is_tok | now apply v1_float_num].
    - apply string_of_Z_tok.
  Qed.

  Lemma read_arg1_text (a : arg) : arg_ok a -> is_barg a = false ->
    read_arg1 (v1_text a) = Some (rarg1_of a).
  Proof.
    destruct a as [q|b|x|k]; cbn [arg_ok is_barg WriterP.v1_text rarg1_of]; intros H Hb; [|discriminate| |].
    - unfold read_arg1. now rewrite (read_index_only_qstr q H).
    - destruct H as [Hw Hf]. unfold read_arg1. rewrite (read_index_only_num _ (v1_float_num x Hw Hf)).
      unfold v1_float. now rewrite (render_fix_is_literal _ Hw Hf).
    - unfold read_arg1. rewrite (read_index_only_num _ (string_of_Z_num k)).
      now rewrite fix_literal_string_of_Z, string_of_Z_not_float, read_int_string_of_Z.
  Qed.

  Lemma read_gate1_text (n : string) (l : list arg) :
    ident_ok n = true -> l <> [] -> Forall (fun a => arg_ok a /\ is_barg a = false) l ->
    read_gate1 (n ++ " " ++ join ", " (map v1_text l)) =
    Some (RGate n (filter (fun a => negb (is_rq a)) (map rarg1_of l)) (rq_ids (map rarg1_of l))).
  Proof.
    intros Hn Hne H. unfold read_gate1.
    rewrite (span_ident n (" " ++ join ", " (map v1_text l)) Hn eq_refl), Hn, strip_prefix_app.
    rewrite (bind_list_join v1_text read_arg1 rarg1_of l Hne); [reflexivity|].
    eapply Forall_impl; [|exact H]. cbn beta. intros a [Ha Hb]. split.
    - now apply tok_chars_no_comma, v1_text_tok.
    - now apply read_arg1_text.
  Qed.

  Lemma rarg1_params (l : list arg) :
    filter (fun a => negb (is_rq a)) (map rarg1_of l) = map rarg1_of (params_of l) /\
    rq_ids (map rarg1_of l) = qubit_ids l.
  Proof.
    unfold params_of, qubit_ids. induction l as [|a l [IH1 IH2]]; [split; reflexivity|].
    destruct a; cbn [map rarg1_of filter is_rq is_qarg negb rq_ids flat_map List.app];
      rewrite IH1, IH2; split; reflexivity.
  Qed.

  Lemma params_of_app (a b : list arg) : params_of (a ++ b) = (params_of a ++ params_of b)%list.
  Proof. apply filter_app. Qed.

  Lemma qubit_ids_app (a b : list arg) : qubit_ids (a ++ b) = (qubit_ids a ++ qubit_ids b)%list.
  Proof. apply flat_map_app. Qed.

  Lemma params_of_qubits_of (args : list arg) : params_of (qubits_of args) = [].
  Proof.
    unfold params_of, qubits_of. induction args as [|a l IH]; [reflexivity|].
    destruct a; cbn [filter is_qarg negb]; exact IH.
  Qed.

  Lemma params_of_idem (args : list arg) : params_of (params_of args) = params_of args.
  Proof.
    unfold params_of. induction args as [|a l IH]; [reflexivity|].
    destruct a; cbn [filter is_qarg negb]; rewrite ?IH; reflexivity.
  Qed.

  Lemma qubit_ids_qubits_of (args : list arg) : qubit_ids (qubits_of args) = qubit_ids args.
  Proof.
    unfold qubit_ids, qubits_of. induction args as [|a l IH]; [reflexivity|].
    destruct a; cbn [filter is_qarg flat_map List.app]; rewrite ?IH; reflexivity.
  Qed.

  Lemma qubit_ids_params_of (args : list arg) : qubit_ids (params_of args) = [].
  Proof.
    unfold qubit_ids, params_of. induction args as [|a l IH]; [reflexivity|].
    destruct a; cbn [filter is_qarg negb flat_map List.app]; exact IH.
  Qed.

  Lemma params_qubits_split (args : list arg) :
    params_of (qubits_of args ++ params_of args) = params_of args /\
    qubit_ids (qubits_of args ++ params_of args) = qubit_ids args.
  Proof.
    rewrite params_of_app, qubit_ids_app.
    rewrite params_of_qubits_of, params_of_idem, qubit_ids_qubits_of, qubit_ids_params_of, app_nil_r.
    split; reflexivity.
  Qed.

  Lemma join_app (sep : string) (l1 l2 : list string) : l1 <> [] ->
    join sep l1 ++ (match l2 with [] => "" | _ => sep ++ join sep l2 end) = join sep (l1 ++ l2).
  Proof.
    induction l1 as [|x [|x' l1'] IH]; [congruence| |]; intros _.
    - destruct l2 as [|y l2']; [now rewrite sapp_nil_r | reflexivity].
    - change (join sep (x :: x' :: l1')) with (x ++ sep ++ join sep (x' :: l1')).
      change ((x :: x' :: l1') ++ l2)%list with (x :: x' :: (l1' ++ l2))%list.
      change (join sep (x :: x' :: (l1' ++ l2)%list)) with (x ++ sep ++ join sep ((x' :: l1') ++ l2)%list).
      rewrite <- IH by discriminate. now rewrite !sapp_assoc.
  Qed.

  (* the one non-empty line of a statement in the cQASM 1 text *)
  Definition main_line1 (s : stmt) : string :=
    match s with
    | SComment t => "/* " ++ t ++ " */"
    | SGate _ _ gi =>
        match gargs gi with
        | Some args => lower (name_of gi "") ++ " " ++
                       join ", " (map v1_text (qubits_of args ++ params_of args))
        | None => ""
        end
    | SMeasure _ _ _ _ gi =>
        match gargs gi with Some (AQ q :: _) => "measure_z " ++ qstr q | _ => "" end
    | SReset _ _ gi =>
        match gargs gi with Some (AQ q :: _) => "prep_z " ++ qstr q | _ => "" end
    end.

  Definition stmt_lines1 (s : stmt) : list string :=
    match s with
    | SComment _ => [""; main_line1 s; ""]
    | _ => [main_line1 s]
    end.

  (* what a statement reads back as from the cQASM 1 text: lower-cased name,
     measure_z / prep_z, reals in Python's rendering *)
  Definition line_of1 (s : stmt) : rline :=
    match s with
    | SComment t => RComment t
    | SGate _ _ gi =>
        match gargs gi with
        | Some args => RGate (lower (name_of gi "")) (map rarg1_of (params_of args)) (qubit_ids args)
        | None => RRaw ""
        end
    | SMeasure _ _ _ _ gi =>
        match gargs gi with Some (AQ q :: _) => RGate "measure_z" [] [q] | _ => RRaw "" end
    | SReset _ _ gi =>
        match gargs gi with Some (AQ q :: _) => RGate "prep_z" [] [q] | _ => RRaw "" end
    end.

  Definition stmt_ok1 (s : stmt) : Prop :=
    match s with
    | SComment t => contains "*/" t = false /\ no_nl t = true
    | SGate _ _ gi =>
        exists n args, gname gi = Some n /\ gargs gi = Some args /\ ident_ok n = true /\
                       Forall arg_ok args /\ forallb (fun a => negb (is_barg a)) args = true /\
                       qubit_ids args <> []
    | SMeasure _ _ _ _ gi => exists q rest, gargs gi = Some (AQ q :: rest) /\ (0 <= q)%Z
    | SReset _ _ gi => exists q rest, gargs gi = Some (AQ q :: rest) /\ (0 <= q)%Z
    end.

  Definition exportable (ir : list stmt) : Prop := Forall stmt_ok1 ir.

  Lemma v1_stmt_unlines (s : stmt) (x : string) :
    stmt_ok1 s -> v1_stmt s = Ok x -> x = unlines (stmt_lines1 s).
  Proof.
    destruct s as [o g gi|o q b ax gi|o q gi|t]; cbn [stmt_ok1 stmt_lines1 main_line1 unlines].
    - intros (n & args & Hgn & Hga & Hn & Hargs & Hnb & Hq) H.
      rewrite (v1_gate_shape_gen dec8 o g gi args Hga Hnb) in H. cbn zeta in H.
      assert (E : x = lower (name_of gi "") ++ " " ++ join ", " (map v1_text (qubits_of args)) ++
                  (match map v1_text (params_of args) with [] => "" | _ => ", " ++ join ", " (map v1_text (params_of args)) end) ++ NL)
        by congruence.
      clear H. subst x. rewrite Hga, map_app, <- join_app.
      + now rewrite ?sapp_assoc, ?sapp_nil_r.
      + intros E. apply map_eq_nil in E. apply Hq. rewrite <- qubit_ids_qubits_of, E. reflexivity.
    - intros (q' & rest & Hga & Hq) H. cbn [Writer.v1_stmt] in H. rewrite Hga in *.
      assert (E : x = "measure_z " ++ qstr q' ++ NL) by congruence. subst x.
      now rewrite ?sapp_assoc, ?sapp_nil_r.
    - intros (q' & rest & Hga & Hq) H. cbn [Writer.v1_stmt] in H. rewrite Hga in *.
      assert (E : x = "prep_z " ++ qstr q' ++ NL) by congruence. subst x.
      now rewrite ?sapp_assoc, ?sapp_nil_r.
    - intros _ H. cbn [Writer.v1_stmt] in H.
      assert (E : x = NL ++ "/* " ++ t ++ " */" ++ NL ++ NL) by congruence. subst x.
      now rewrite ?sapp_assoc, ?sapp_nil_r.
  Qed.

  Lemma lower_ascii_ident (c : ascii) :
    is_ident_start (lower_ascii c) = is_ident_start c /\ is_ident_char (lower_ascii c) = is_ident_char c.
  Proof. destruct c as [[] [] [] [] [] [] [] []]; split; vm_compute; reflexivity. Qed.

  Lemma lower_ident_ok (n : string) : ident_ok n = true -> ident_ok (lower n) = true.
  Proof.
    destruct n as [|c r]; [discriminate|]. cbn [ident_ok lower].
    destruct (lower_ascii_ident c) as [-> _]. intros H. apply andb_true_iff in H. destruct H as [-> Hr].
    cbn [andb]. induction r as [|d r IH]; [reflexivity|]. cbn [forall_chars lower] in *.
    apply andb_true_iff in Hr. destruct Hr as [Hd Hr]. destruct (lower_ascii_ident d) as [_ ->].
    now rewrite Hd, (IH Hr).
  Qed.

  Lemma tok_not_ws (c : ascii) : is_tok_char c = true -> is_ws c = false.
  Proof.
    destruct c as [[] [] [] [] [] [] [] []]; vm_compute; intros H; try reflexivity; discriminate H.
  Qed.

  Lemma tok_last_nonws (s : string) : forall_chars is_tok_char s = true -> last_nonws s = true.
  Proof.
    induction s as [|c s IH]; [reflexivity|]. cbn [forall_chars]. intros H.
    apply andb_true_iff in H. destruct H as [Hc Hs]. destruct s as [|d s'].
    - cbn [last_nonws]. now rewrite (tok_not_ws c Hc).
    - change (last_nonws (String c (String d s'))) with (last_nonws (String d s')). now apply IH.
  Qed.

  Lemma join_last_nonws (l : list string) :
    l <> [] -> Forall (fun x => forall_chars is_tok_char x = true /\ x <> "") l ->
    last_nonws (join ", " l) = true /\ join ", " l <> "".
  Proof.
    induction l as [|x [|y l'] IH]; [congruence| |]; intros _ H; inversion H as [|? ? [Hx Hne] Hl]; subst.
    - cbn [join]. split; [now apply tok_last_nonws | exact Hne].
    - change (join ", " (x :: y :: l')) with (x ++ ", " ++ join ", " (y :: l')).
      destruct (IH ltac:(discriminate) Hl) as [IH1 IH2]. split.
      + rewrite <- sapp_assoc. now rewrite last_nonws_app.
      + destruct x; [congruence | discriminate].
  Qed.

  Lemma v1_text_nonempty (a : arg) : arg_ok a -> is_barg a = false -> v1_text a <> "".
  Proof.
    destruct a as [q|b|x|k]; cbn [arg_ok is_barg WriterP.v1_text]; intros H Hb; try discriminate.
    - destruct H as [Hw Hf]. unfold v1_float. intros E.
      pose proof (render_fix_is_literal _ Hw Hf) as L. rewrite E in L. discriminate.
    - intros E. pose proof (read_int_string_of_Z k) as R. rewrite E in R. discriminate.
  Qed.

  Lemma gate_line1_good (n : string) (l : list arg) :
    ident_ok n = true -> l <> [] -> Forall (fun a => arg_ok a /\ is_barg a = false) l ->
    line_good (n ++ " " ++ join ", " (map v1_text l)) /\ n ++ " " ++ join ", " (map v1_text l) <> "".
  Proof.
    intros Hn Hne H.
    assert (HF : Forall (fun x => forall_chars is_tok_char x = true /\ x <> "") (map v1_text l)).
    { apply Forall_map. eapply Forall_impl; [|exact H]. cbn beta. intros a [Ha Hb].
      split; [now apply v1_text_tok | now apply v1_text_nonempty]. }
    assert (Hm : map v1_text l <> []) by (intros E; apply map_eq_nil in E; congruence).
    destruct (join_last_nonws _ Hm HF) as [Hl Hj]. split; [split|].
    - apply line_chars_no_nl. rewrite !forall_chars_app.
      rewrite (forall_chars_mono is_ident_char is_line_char n);
        [| intros c Hc; now apply tok_is_line, ident_is_tok | now apply ident_ok_chars].
      cbn [andb forall_chars]. rewrite andb_true_r. apply forall_chars_join; [reflexivity|].
      eapply Forall_impl; [|exact HF]. cbn beta. intros x [Hx _].
      eapply forall_chars_mono; [exact tok_is_line | exact Hx].
    - rewrite <- sapp_assoc. now rewrite last_nonws_app.
    - destruct (ident_ok_chars n Hn) as [_ Hnn]. destruct n; [congruence | discriminate].
  Qed.

  Lemma stmt_ok1_args (gi : ginfo T) (args : list arg) :
    Forall arg_ok args -> forallb (fun a => negb (is_barg a)) args = true ->
    Forall (fun a => arg_ok a /\ is_barg a = false) (qubits_of args ++ params_of args).
  Proof.
    intros Ha Hb. rewrite Forall_forall in Ha. rewrite forallb_forall in Hb.
    apply Forall_forall. intros a Hin.
    assert (Hin' : In a args).
    { apply in_app_or in Hin. unfold qubits_of, params_of in Hin.
      destruct Hin as [Hin|Hin]; apply filter_In in Hin; tauto. }
    split; [now apply Ha|]. apply negb_true_iff. now apply Hb.
  Qed.

  Lemma qubits_params_nonempty (args : list arg) : qubit_ids args <> [] -> (qubits_of args ++ params_of args)%list <> [].
  Proof.
    intros Hq E. apply app_eq_nil in E. destruct E as [E _]. apply Hq.
    rewrite <- qubit_ids_qubits_of, E. reflexivity.
  Qed.

  Lemma single_qubit_line (n : string) (q : Z) :
    ident_ok n = true -> (0 <= q)%Z ->
    read_line1 (n ++ " " ++ qstr q) = RGate n [] [q] /\
    line_good (n ++ " " ++ qstr q) /\ n ++ " " ++ qstr q <> "".
  Proof.
    intros Hn Hq.
    assert (HF : Forall (fun a : arg => arg_ok a /\ is_barg a = false) [AQ q]) by (repeat constructor; auto).
    split.
    - unfold read_line1. change (qstr q) with (join ", " (map v1_text [AQ q])).
      rewrite (read_gate1_text n [AQ q] Hn); [reflexivity | discriminate | exact HF].
    - change (qstr q) with (join ", " (map v1_text [AQ q])). apply gate_line1_good; [exact Hn | discriminate | exact HF].
  Qed.

  (* per statement *)
  Theorem read_line1_stmt (s : stmt) : stmt_ok1 s ->
    read_line1 (main_line1 s) = line_of1 s /\ line_good (main_line1 s) /\ main_line1 s <> "".
  Proof.
    destruct s as [o g gi|o q b ax gi|o q gi|t]; cbn [stmt_ok1 main_line1 line_of1].
    - intros (n & args & Hgn & Hga & Hn & Hargs & Hnb & Hq). rewrite Hga. unfold name_of. rewrite Hgn.
      pose proof (lower_ident_ok n Hn) as Hln.
      pose proof (stmt_ok1_args gi args Hargs Hnb) as HF.
      pose proof (qubits_params_nonempty args Hq) as Hne.
      split; [|now apply gate_line1_good].
      unfold read_line1. rewrite (read_gate1_text (lower n) _ Hln Hne HF). cbn [first_some].
      destruct (rarg1_params (qubits_of args ++ params_of args)) as [-> ->].
      destruct (params_qubits_split args) as [-> ->]. reflexivity.
    - intros (q' & rest & Hga & Hq). rewrite Hga.
      apply (single_qubit_line "measure_z" q' eq_refl Hq).
    - intros (q' & rest & Hga & Hq). rewrite Hga.
      apply (single_qubit_line "prep_z" q' eq_refl Hq).
    - intros [Hc Hnl]. split; [|split; [now apply comment_line_good | discriminate]].
      unfold read_line1. now rewrite comment_not_gate1, (read_comment_text t Hc).
  Qed.

  (* ---------------- the whole cQASM 1 text ---------------- *)

  Definition read1_lines (ls : list string) : option (Z * list rline) :=
    match ls with
    | v :: rest =>
        match read_version v with
        | Some ver =>
            if String.eqb ver "1.0" then
              match rest with
              | [] => Some (0%Z, [])
              | [e] => if is_empty e then Some (0%Z, []) else None
              | e :: q :: rest' =>
                  if is_empty e then
                    if is_empty q then Some (0%Z, map read_line1 (body_lines rest'))
                    else match read_decl "qubits " "" q with
                         | Some n => Some (n, map read_line1 (body_lines rest'))
                         | None => None
                         end
                  else None
              end
            else None
        | None => None
        end
    | [] => None
    end.

  Lemma read1_eq (text : string) : read1 text = read1_lines (split_on nl_char text).
  Proof. reflexivity. Qed.

  Lemma read1_lines_empty_snoc (v : string) (rest : list string) :
    read1_lines (v :: rest ++ [""]) = read1_lines (v :: rest).
  Proof.
    unfold read1_lines. destruct (read_version v) as [ver|]; [|reflexivity].
    destruct (String.eqb ver "1.0"); [|reflexivity].
    destruct rest as [|e [|q rest']]; cbn [List.app].
    - reflexivity.
    - destruct (is_empty e); reflexivity.
    - now rewrite body_lines_app, app_nil_r.
  Qed.

  Lemma read1_lines_empty_tail (v : string) (rest : list string) (k : nat) :
    read1_lines (v :: rest ++ repeat "" k) = read1_lines (v :: rest).
  Proof.
    induction k as [|k IH]; [now rewrite app_nil_r|].
    replace (rest ++ repeat "" (S k))%list with ((rest ++ repeat "" k) ++ [""])%list.
    - now rewrite read1_lines_empty_snoc.
    - rewrite <- app_assoc. f_equal. change [""] with (repeat "" 1). rewrite <- repeat_app. f_equal. lia.
  Qed.

  Definition qubits_line1 (nq : Z) : string := if Z.ltb 0 nq then "qubits " ++ string_of_Z nq else "".

  Lemma concat_res_unlines (ir : list stmt) (body : string) :
    exportable ir -> concat_res (map v1_stmt ir) = Ok body -> body = unlines (flat_map stmt_lines1 ir).
  Proof.
    intros Hok. revert body. induction Hok as [|s ir Hs _ IH]; intros body H; cbn [map concat_res] in H.
    - now injection H as <-.
    - destruct (v1_stmt s) as [x|e] eqn:Ex; [|discriminate].
      destruct (concat_res (map v1_stmt ir)) as [r|e]; [|discriminate].
      assert (E : body = x ++ r) by congruence. subst body.
      cbn [flat_map]. now rewrite unlines_app, (v1_stmt_unlines s x Hs Ex), (IH r eq_refl).
  Qed.

  Lemma body_lines_stmts1 (ir : list stmt) :
    exportable ir -> body_lines (flat_map stmt_lines1 ir) = map main_line1 ir.
  Proof.
    induction 1 as [|s ir Hs _ IH]; [reflexivity|]. cbn [flat_map map].
    rewrite body_lines_app, IH. destruct (read_line1_stmt s Hs) as (_ & _ & Hne).
    assert (E : body_lines [main_line1 s] = [main_line1 s]).
    { unfold body_lines. cbn [filter]. unfold nonempty. destruct (main_line1 s); [congruence | reflexivity]. }
    destruct s; cbn [stmt_lines1]; try (rewrite E; reflexivity).
    change (body_lines [""; main_line1 (SComment text); ""]) with
      (body_lines [""] ++ body_lines [main_line1 (SComment text)] ++ body_lines [""])%list.
    rewrite E. reflexivity.
  Qed.

  Lemma stmt_lines1_good (ir : list stmt) :
    exportable ir -> Forall line_good (flat_map stmt_lines1 ir).
  Proof.
    induction 1 as [|s ir Hs _ IH]; [constructor|].
    cbn [flat_map]. apply Forall_app. split; [|exact IH].
    destruct (read_line1_stmt s Hs) as (_ & Hg & _).
    destruct s; cbn [stmt_lines1]; repeat constructor; try exact Hg; try (apply Hg).
  Qed.

  Lemma read1_lines_header (nq : Z) (ir : list stmt) :
    (0 <= nq)%Z ->
    read1_lines ("version 1.0" :: "" :: qubits_line1 nq :: "" :: flat_map stmt_lines1 ir) =
    Some (nq, map read_line1 (body_lines (flat_map stmt_lines1 ir))).
  Proof.
    intros Hq. unfold read1_lines. change (read_version "version 1.0") with (Some "1.0").
    cbn [String.eqb Ascii.eqb Bool.eqb is_empty]. unfold qubits_line1.
    destruct (Z.ltb_spec 0 nq) as [Hlt|Hge].
    - assert (Hbe : is_empty ("qubits " ++ string_of_Z nq) = false) by reflexivity.
      rewrite Hbe. rewrite <- (sapp_nil_r (string_of_Z nq)).
      rewrite (read_decl_app "qubits " "" nq Hq eq_refl). reflexivity.
    - cbn [is_empty]. replace nq with 0%Z by lia. reflexivity.
  Qed.

  (* THE ROUND TRIP for cQASM 1 *)
  Theorem read1_export_v1 (nq : Z) (ir : list stmt) (text : string) :
    export_v1 dec8 nq ir = Ok text ->
    (0 <= nq)%Z -> exportable ir ->
    read1 text = Some (nq, map line_of1 ir).
  Proof.
    intros Hw Hq Hok. unfold export_v1 in Hw.
    destruct (concat_res (map v1_stmt ir)) as [body|e] eqn:Eb; [|discriminate].
    pose proof (concat_res_unlines ir body Hok Eb) as Hbody.
    assert (Ht : text = rstrip ("version 1.0" ++ NL ++ NL ++ (if Z.ltb 0 nq then "qubits " ++ string_of_Z nq else "") ++
                                NL ++ NL ++ body) ++ NL) by congruence.
    clear Hw. subst text.
    assert (EL : "version 1.0" ++ NL ++ NL ++ (if Z.ltb 0 nq then "qubits " ++ string_of_Z nq else "") ++ NL ++ NL ++ body =
                 unlines ([] ++ "version 1.0" :: "" :: qubits_line1 nq :: "" :: flat_map stmt_lines1 ir)).
    { rewrite Hbody. unfold qubits_line1. cbn [List.app unlines]. now rewrite ?sapp_assoc. }
    rewrite EL.
    pose proof (stmt_lines1_good ir Hok) as Hgood.
    assert (Hql : line_good (qubits_line1 nq)).
    { unfold qubits_line1. destruct (Z.ltb 0 nq); [|split; reflexivity]. split.
      - now rewrite no_nl_app, string_of_Z_no_nl.
      - destruct (string_of_Z_nonneg nq Hq) as (_ & Hne & _).
        rewrite last_nonws_app by exact Hne. apply tok_last_nonws, string_of_Z_tok. }
    assert (HR : Forall line_good ("" :: qubits_line1 nq :: "" :: flat_map stmt_lines1 ir)).
    { repeat constructor; try apply Hql. exact Hgood. }
    destruct (rstrip_unlines [] ("" :: qubits_line1 nq :: "" :: flat_map stmt_lines1 ir) "version 1.0")
      as (R' & k & ER & ->); [discriminate | reflexivity | |].
    { eapply Forall_impl; [|exact HR]. intros l Hl. apply Hl. }
    rewrite read1_eq, split_unlines.
    - cbn [List.app]. change [""] with (repeat "" 1).
      rewrite read1_lines_empty_tail, <- (read1_lines_empty_tail _ R' k), <- ER.
      rewrite (read1_lines_header nq ir Hq), (body_lines_stmts1 ir Hok), map_map.
      do 2 f_equal. apply map_ext_in. intros s Hs. apply read_line1_stmt.
      unfold exportable in Hok. rewrite Forall_forall in Hok. now apply Hok.
    - cbn [List.app]. constructor; [reflexivity|].
      rewrite ER in HR. apply Forall_app in HR. destruct HR as [HR _].
      eapply Forall_impl; [|exact HR]. intros l Hl. apply Hl.
  Qed.

  (* the reals of the cQASM 1 text: Python's rendering, whose repaired form is a
     literal denoting the decimal *)
  Theorem read1_param_value (x : T) :
    wf_dec (dec8 x) -> dec_finite (dec8 x) ->
    read_arg1 (v1_float dec8 x) = Some (RNumLit (v1_float dec8 x)) /\
    is_signed_float_literal (fix_literal (v1_float dec8 x)) = true /\
    optQeq (signed_literal_value (fix_literal (v1_float dec8 x))) (dec_value (dec8 x)).
  Proof.
    intros Hw Hf. split; [|split].
    - apply (read_arg1_text (AF x)); [split; assumption | reflexivity].
    - now apply render_fix_is_literal.
    - now apply render_fix_value.
  Qed.
End ReaderP.

(* ------------------------------------------------------------------ *)
(* the names of the default tables are identifiers                      *)

Example default_names_are_identifiers :
  forallb ident_ok (DefaultTable.hand_gate_set ++ DefaultTable.hand_measure_set ++
                    DefaultTable.hand_reset_set ++ map fst DefaultTable.hand_aliases ++
                    DefaultGates.gen_gate_set ++ DefaultGates.gen_measure_set ++
                    DefaultGates.gen_reset_set ++ map fst DefaultGates.gen_aliases)%list = true.
Proof. reflexivity. Qed.

(* a name with a space is not read back: the condition on names is needed *)
Example name_with_space_refuted :
  read_line3 ("my gate" ++ " " ++ qstr 0) <> RGate "my gate" [] [0%Z].
Proof. vm_compute. discriminate. Qed.

(* ------------------------------------------------------------------ *)
(* non-vacuity: concrete circuits, by computation (T := dec, dec8 := id) *)

Definition ex_theta : dec := DFin false [1;5;7;0;7;9;6;3]%nat 0.          (* 1.5707963 *)
Definition ex_small : dec := DFin true [1;0;0;0;0;0;0;0]%nat (-5).        (* -1.0e-05 *)
Definition ex_big : dec := DFin false [6;0;2;2;1;4;0;8]%nat 23.           (* 6.0221408e+23 *)
Definition ex_gate : gate dec := BSR 0%Z (ex_theta, ex_theta, ex_theta) ex_theta ex_theta.
Definition ex_anon (g : gate dec) : string := "BlochSphereRotation(...)".
Definition ex_ax : axis3 dec := (ex_theta, ex_theta, ex_theta).

(* H, CNOT, Rx(theta), measure, comment on 2 qubits and 2 bits *)
Definition ex_circuit1 : list (stmt dec) :=
  [ SGate 1 ex_gate (mkGinfo (Some "H") (Some [AQ 0%Z]));
    SGate 2 ex_gate (mkGinfo (Some "CNOT") (Some [AQ 0%Z; AQ 1%Z]));
    SGate 3 ex_gate (mkGinfo (Some "Rx") (Some [AQ 1%Z; AF ex_theta]));
    SMeasure 4 1%Z 0%Z ex_ax (mkGinfo (Some "measure") (Some [AQ 1%Z; AB 0%Z]));
    SComment "entangled pair" ].

Example ex1_text :
  write3 (fun x => x) ex_anon 2 2 ex_circuit1 =
  Ok ("version 3.0" ++ NL ++ NL ++ "qubit[2] q" ++ NL ++ "bit[2] b" ++ NL ++ NL ++
      "H q[0]" ++ NL ++ "CNOT q[0], q[1]" ++ NL ++ "Rx(1.5707963) q[1]" ++ NL ++
      "b[0] = measure q[1]" ++ NL ++ NL ++ "/* entangled pair */" ++ NL).
Proof. vm_compute. reflexivity. Qed.

Example ex1_round_trip :
  match write3 (fun x => x) ex_anon 2 2 ex_circuit1 with Ok t => read3 t | Err _ => None end =
  Some {| r_version := "3.0"; r_nq := 2; r_nb := 2;
          r_lines := [ RGate "H" [] [0%Z];
                       RGate "CNOT" [] [0%Z; 1%Z];
                       RGate "Rx" [RNumLit "1.5707963"] [1%Z];
                       RAssign 0 "measure" 1;
                       RComment "entangled pair" ] |}.
Proof. vm_compute. reflexivity. Qed.

(* the hypotheses of the theorem hold for it: the theorem is not vacuous *)
Example ex1_writable : writable (fun x => x) ex_circuit1.
Proof.
  assert (W : forall d, d = ex_theta -> wf_dec d /\ dec_finite d).
  { intros d ->. split; [|exact I]. cbn. repeat split; auto. repeat constructor; unfold le9; lia. }
  assert (Q : forall q : Z, (0 <= q)%Z -> arg_ok (fun x : dec => x) (AQ q)) by (intros q Hq; exact Hq).
  unfold writable, ex_circuit1.
  constructor; [|constructor; [|constructor; [|constructor; [|constructor; [|constructor]]]]];
    cbn [stmt_ok gname gargs].
  - exists "H", [AQ 0%Z]. repeat split; try reflexivity; [|discriminate].
    constructor; [apply Q; lia | constructor].
  - exists "CNOT", [AQ 0%Z; AQ 1%Z]. repeat split; try reflexivity; [|discriminate].
    constructor; [apply Q; lia | constructor; [apply Q; lia | constructor]].
  - exists "Rx", [AQ 1%Z; AF ex_theta]. repeat split; try reflexivity; [|discriminate].
    constructor; [apply Q; lia | constructor; [|constructor]]. cbn [arg_ok]. now apply W.
  - exists "measure", 1%Z, 0%Z, []. repeat split; try reflexivity; lia.
  - split; reflexivity.
Qed.

Example ex1_by_theorem (text : string) :
  write3 (fun x => x) ex_anon 2 2 ex_circuit1 = Ok text ->
  read3 text = Some {| r_version := "3.0"; r_nq := 2; r_nb := 2;
                       r_lines := map (line_of (fun x => x) ex_anon) ex_circuit1 |}.
Proof. intros H. apply (read3_write3 (fun x => x) ex_anon 2 2 ex_circuit1 text H); [lia | lia | exact ex1_writable]. Qed.

(* parameters of every kind, exponent notation, reset, no bit register, comment first *)
Definition ex_circuit2 : list (stmt dec) :=
  [ SComment "start";
    SGate 1 ex_gate (mkGinfo (Some "U_3") (Some [AF ex_small; AQ 1%Z; AI (-3)%Z; AB 1%Z; AQ 12%Z; AF ex_big]));
    SReset 2 1%Z (mkGinfo (Some "reset") (Some [AQ 1%Z]));
    SGate 3 ex_gate (mkGinfo (Some "CRk") (Some [AQ 0%Z; AQ 1%Z; AI 4%Z])) ].

Example ex2_round_trip :
  match write3 (fun x => x) ex_anon 13 0 ex_circuit2 with Ok t => read3 t | Err _ => None end =
  Some {| r_version := "3.0"; r_nq := 13; r_nb := 0;
          r_lines := [ RComment "start";
                       RGate "U_3" [RNumLit "-1.0e-05"; RInt (-3); RB 1; RNumLit "6.0221408e+23"] [1%Z; 12%Z];
                       RGate "reset" [] [1%Z];
                       RGate "CRk" [RInt 4] [0%Z; 1%Z] ] |}.
Proof. vm_compute. reflexivity. Qed.

(* an anonymous gate in the middle, a comment at the end, the empty circuit *)
Definition ex_circuit3 : list (stmt dec) :=
  [ SGate 1 ex_gate (mkGinfo (Some "X90") (Some [AQ 0%Z]));
    SGate 2 ex_gate (mkGinfo None None);
    SComment "a * b / c" ].

Example ex3_round_trip :
  match write3 (fun x => x) ex_anon 1 0 ex_circuit3 with Ok t => read3 t | Err _ => None end =
  Some {| r_version := "3.0"; r_nq := 1; r_nb := 0;
          r_lines := [ RGate "X90" [] [0%Z]; RRaw "BlochSphereRotation(...)"; RComment "a * b / c" ] |}.
Proof. vm_compute. reflexivity. Qed.

Example ex_empty_round_trip :
  match write3 (fun x => x) ex_anon 3 1 [] with Ok t => read3 t | Err _ => None end =
  Some {| r_version := "3.0"; r_nq := 3; r_nb := 1; r_lines := [] |}.
Proof. vm_compute. reflexivity. Qed.

(* cQASM 1 *)
Example ex1_v1_round_trip :
  match export_v1 (fun x => x) 2 ex_circuit1 with Ok t => read1 t | Err _ => None end =
  Some (2%Z, [ RGate "h" [] [0%Z];
               RGate "cnot" [] [0%Z; 1%Z];
               RGate "rx" [RNumLit "1.5707963"] [1%Z];
               RGate "measure_z" [] [1%Z];
               RComment "entangled pair" ]).
Proof. vm_compute. reflexivity. Qed.

Example ex4_v1_round_trip :
  match export_v1 (fun x => x) 2
          [SGate 3 ex_gate (mkGinfo (Some "Rx") (Some [AQ 1%Z; AF ex_small; AI 4%Z]));
           SReset 2 1%Z (mkGinfo (Some "reset") (Some [AQ 1%Z]))]
  with Ok t => read1 t | Err _ => None end =
  Some (2%Z, [ RGate "rx" [RNumLit "-1e-05"; RInt 4] [1%Z]; RGate "prep_z" [] [1%Z] ]).
Proof. vm_compute. reflexivity. Qed.

Example ex_empty_v1_round_trip :
  match export_v1 (fun x : dec => x) 0 [] with Ok t => read1 t | Err _ => None end = Some (0%Z, []).
Proof. vm_compute. reflexivity. Qed.

Print Assumptions read_line3_stmt.
Print Assumptions read3_write3_lines.
Print Assumptions read3_write3.
Print Assumptions read_param3_value.
Print Assumptions read3_param_value.
Print Assumptions read3_comments_survive.
Print Assumptions read3_anonymous_one_line.
Print Assumptions read3_write3_nonfinite_refuted.
Print Assumptions read_line1_stmt.
Print Assumptions read1_export_v1.
Print Assumptions read1_param_value.
Print Assumptions ex1_by_theorem.
