(* MatrixP.v — get_matrix (Model/Matrix.v) follows the textbook definition of
   the operator of a gate on a register of ANY size n.

   Part A (any T): entry accessor [mget], shapes, entry lemmas for eye, kron,
                   transpose, mmul (dot product), extensionality [mat_ext].
   Part B (any T): refusals (IndexError / ValueError) and success
                   [get_matrix_total]; every [Ok] result is 2^n x 2^n
                   [get_matrix_wf]; controlled gates, at any nesting depth
                   [get_matrix_ctrl_spec], [get_matrix_ctrls_spec]; matrix
                   gates [get_matrix_mat_spec]; rotations as a product of
                   three factors [get_matrix_bsr_entry].
   Part D (any T): the circuit matrix is the product of its gates
                   [circuit_matrix_snoc], [circuit_matrix_skip].
   Part C (RNum) : rotations in bitwise form [get_matrix_bsr_spec],
                   [get_matrix_bsr_as_mat]; the controlled extension in
                   projector form [get_matrix_ctrl_projector]; unitarity of
                   can1 [can1_unitary], of every well-formed gate on n qubits
                   [get_matrix_unitary] and of circuits
                   [circuit_matrix_unitary_ok].
   Indices of matrices are naturals; bit b of index r is
   [N.testbit (N.of_nat r) b], qubit 0 is the least significant bit. *)
From Coq Require Import Reals ZArith NArith List Bool Lia Lra Arith.
Import ListNotations.
From OSQ Require Import Num IR Bits Construct Matrix BitsP RTrig RNum SU2.
Close Scope N_scope.
Close Scope R_scope.
Open Scope nat_scope.

(* ================================================================== *)
(* generic list facts                                                  *)

Lemma nth_map_seq {A} (f : nat -> A) n i d : i < n -> nth i (map f (seq 0 n)) d = f i.
Proof.
  intros Hi. rewrite (nth_indep _ d (f 0)) by (rewrite map_length, seq_length; exact Hi).
  rewrite map_nth, seq_nth by exact Hi. reflexivity.
Qed.

Lemma nth_map_in {A B} (f : A -> B) l i d d' : i < length l -> nth i (map f l) d = f (nth i l d').
Proof.
  intros Hi. rewrite (nth_indep _ d (f d')) by (rewrite map_length; exact Hi).
  apply map_nth.
Qed.

Lemma flat_map_length_uniform {A B} (f : A -> list B) l k :
  (forall a, In a l -> length (f a) = k) -> length (flat_map f l) = length l * k.
Proof.
  induction l as [|a l IH]; intros Hk; cbn [flat_map length]; [reflexivity|].
  rewrite app_length. rewrite IH by (intros; apply Hk; now right).
  rewrite (Hk a) by now left. lia.
Qed.

Lemma flat_map_nth_uniform {A B} (f : A -> list B) l k d a0 :
  (forall a, In a l -> length (f a) = k) ->
  forall i, i < length l * k ->
  nth i (flat_map f l) d = nth (i mod k) (f (nth (i / k) l a0)) d.
Proof.
  induction l as [|a l IH]; intros Hk i Hi; cbn [flat_map length] in *; [lia|].
  assert (Hk0 : k <> 0) by lia.
  assert (Ha : length (f a) = k) by (apply Hk; now left).
  destruct (Nat.lt_ge_cases i k) as [Hlt|Hge].
  - rewrite app_nth1 by lia. rewrite Nat.div_small, Nat.mod_small by lia. reflexivity.
  - rewrite app_nth2 by lia. rewrite Ha.
    rewrite IH by (try (intros; apply Hk; now right); lia).
    replace i with ((i - k) + 1 * k) at 3 4 by lia.
    rewrite Nat.div_add, Nat.mod_add by lia.
    replace ((i - k) / k + 1) with (S ((i - k) / k)) by lia. reflexivity.
Qed.

(* ================================================================== *)
(* bit facts                                                           *)

Lemma land_shiftl1_eqb a q : N.eqb (N.land a (N.shiftl 1 q)) 0 = negb (N.testbit a q).
Proof.
  destruct (N.testbit a q) eqn:E; cbn [negb].
  - apply N.eqb_neq. intros H.
    assert (Hb : N.testbit (N.land a (N.shiftl 1 q)) q = false) by (rewrite H; apply N.bits_0).
    rewrite N.land_spec, testbit_one_shiftl, N.eqb_refl, E in Hb. discriminate.
  - apply N.eqb_eq. apply N.bits_inj. intros b.
    rewrite N.land_spec, testbit_one_shiftl, N.bits_0.
    destruct (N.eqb_spec b q) as [->|Hne]; [rewrite E; reflexivity|apply andb_false_r].
Qed.

(* r and c agree on every bit outside qs, as a boolean *)
Definition agreeb (qs : list N) (r c : N) : bool :=
  N.eqb (expand_ket c (reduced_ket r qs) qs) r.

Lemma agreeb_spec qs r c :
  agreeb qs r c = true <-> (forall b, ~ In b qs -> N.testbit r b = N.testbit c b).
Proof.
  unfold agreeb. rewrite N.eqb_eq. split.
  - intros H b Hb. rewrite <- H at 1. now apply expand_ket_other.
  - intros H. apply N.bits_inj. intros b. rewrite expand_ket_spec.
    destruct (last_index qs b) as [i|] eqn:E.
    + rewrite reduced_ket_spec, Nnat.Nat2N.id, (last_index_Some _ _ _ E). reflexivity.
    + symmetry. apply H. now apply last_index_None.
Qed.

Lemma agreeb_refl qs r : agreeb qs r r = true.
Proof. apply agreeb_spec. reflexivity. Qed.

Lemma reduced_ket_lt r qs : (reduced_ket r qs < 2 ^ N.of_nat (length qs))%N.
Proof.
  apply lt_pow2_bits. intros b Hb. rewrite reduced_ket_spec.
  destruct (nth_error qs (N.to_nat b)) as [q|] eqn:E; [|reflexivity]. exfalso.
  assert (Hs : nth_error qs (N.to_nat b) <> None) by congruence.
  apply nth_error_Some in Hs. lia.
Qed.

(* list_set *)
Lemma list_set_length {A} (l : list A) : forall i x, length (list_set l i x) = length l.
Proof.
  induction l as [|y l IH]; intros i x; [reflexivity|].
  destruct i; cbn [list_set length]; [reflexivity|now rewrite IH].
Qed.

Lemma nth_list_set_eq {A} (l : list A) : forall i x d, i < length l -> nth i (list_set l i x) d = x.
Proof.
  induction l as [|y l IH]; intros i x d Hi; cbn [length] in Hi; [lia|].
  destruct i; cbn [list_set nth]; [reflexivity|apply IH; lia].
Qed.

Lemma nth_list_set_neq {A} (l : list A) : forall i j x d, i <> j -> nth j (list_set l i x) d = nth j l d.
Proof.
  induction l as [|y l IH]; intros i j x d Hij; [reflexivity|].
  destruct i; cbn [list_set].
  - destruct j; [lia|reflexivity].
  - destruct j; cbn [nth]; [reflexivity|apply IH; lia].
Qed.

Lemma NoDup_map_inj_in {A B} (f : A -> B) (l : list A) :
  (forall x y, In x l -> In y l -> f x = f y -> x = y) -> NoDup l -> NoDup (map f l).
Proof.
  intros Hinj Hnd. induction Hnd as [|a l Hnin Hnd IH]; cbn [map]; constructor.
  - intros Hin. apply in_map_iff in Hin. destruct Hin as [y [Hy Hyl]].
    apply Hnin. rewrite (Hinj a y); [exact Hyl|now left|now right|now symmetry].
  - apply IH. intros x y Hx Hy. apply Hinj; now right.
Qed.

Section MatrixP.
  Context {T : Type} (N : Num T).
  Notation C := (T * T)%type.
  Notation mat := (list (list C)).
  Notation czero := (czero N).
  Notation cone := (cone N).

  Ltac fixC := change (@Num.C T) with (T * T)%type in *.

  Definition mget (M : mat) (r c : nat) : C := nth c (nth r M []) czero.

  Definition shape (nr nc : nat) (M : mat) : Prop :=
    length M = nr /\ Forall (fun row => length row = nc) M.
  Definition wf_mat (d : nat) (M : mat) : Prop := shape d d M.

  Lemma shape_row nr nc M r : shape nr nc M -> r < nr -> length (nth r M []) = nc.
  Proof.
    intros [Hl Hf] Hr. rewrite Forall_forall in Hf. apply Hf. apply nth_In. lia.
  Qed.

  (* two matrices of the same shape with the same entries are equal *)
  Lemma mat_ext nr nc (A B : mat) :
    shape nr nc A -> shape nr nc B ->
    (forall r c, r < nr -> c < nc -> mget A r c = mget B r c) -> A = B.
  Proof.
    intros HA HB He.
    apply (nth_ext A B [] []); [destruct HA, HB; congruence|].
    intros r Hr. assert (Hr' : r < nr) by (destruct HA; lia).
    apply (nth_ext _ _ czero czero).
    - rewrite (shape_row _ _ _ _ HA Hr'), (shape_row _ _ _ _ HB Hr'). reflexivity.
    - intros c Hc. rewrite (shape_row _ _ _ _ HA Hr') in Hc. apply (He r c Hr' Hc).
  Qed.

  (* ---------------------------------------------------------------- *)
  (* eye *)

  Lemma shape_eye n : wf_mat n (eye N n).
  Proof.
    unfold wf_mat, shape, eye. rewrite map_length, seq_length. split; [reflexivity|].
    apply Forall_forall. intros row Hin. apply in_map_iff in Hin. destruct Hin as [i [<- _]].
    unfold unit_row. now rewrite map_length, seq_length.
  Qed.

  Lemma mget_eye n r c : r < n -> c < n ->
    mget (eye N n) r c = if Nat.eqb r c then cone else czero.
  Proof.
    intros Hr Hc. unfold mget, eye. rewrite (nth_map_seq _ _ _ _ Hr).
    unfold unit_row. rewrite (nth_map_seq _ _ _ _ Hc). reflexivity.
  Qed.

  (* ---------------------------------------------------------------- *)
  (* kron *)

  Lemma shape_kron ar ac br bc A B :
    shape ar ac A -> shape br bc B -> shape (ar * br) (ac * bc) (kron N A B).
  Proof.
    intros [HAl HAf] [HBl HBf]. unfold shape, kron. fixC. split.
    - rewrite (flat_map_length_uniform _ _ br); [now rewrite HAl|].
      intros ra _. now rewrite map_length.
    - apply Forall_forall. intros row Hin.
      apply in_flat_map in Hin. destruct Hin as [ra [HraA Hin]].
      apply in_map_iff in Hin. destruct Hin as [rb [<- HrbB]].
      rewrite Forall_forall in HAf, HBf.
      rewrite (flat_map_length_uniform _ _ bc).
      + now rewrite (HAf ra HraA).
      + intros a _. rewrite map_length. now apply HBf.
  Qed.

  Lemma mget_kron ar ac br bc A B r c :
    shape ar ac A -> shape br bc B -> r < ar * br -> c < ac * bc ->
    mget (kron N A B) r c =
    cmul N (mget A (r / br) (c / bc)) (mget B (r mod br) (c mod bc)).
  Proof.
    intros HA HB Hr Hc.
    assert (Hbr : br <> 0) by lia. assert (Hbc : bc <> 0) by lia.
    assert (Hrd : r / br < ar) by (apply Nat.div_lt_upper_bound; lia).
    assert (Hcd : c / bc < ac) by (apply Nat.div_lt_upper_bound; lia).
    assert (Hrm : r mod br < br) by (apply Nat.mod_upper_bound; lia).
    assert (Hcm : c mod bc < bc) by (apply Nat.mod_upper_bound; lia).
    unfold mget, kron. fixC.
    rewrite (flat_map_nth_uniform _ _ br _ []).
    2:{ intros ra _. rewrite map_length. now destruct HB. }
    2:{ destruct HA as [-> _]. exact Hr. }
    rewrite (nth_map_in _ _ _ _ []) by (destruct HB as [-> _]; exact Hrm).
    pose proof (shape_row _ _ _ _ HA Hrd) as HlA.
    pose proof (shape_row _ _ _ _ HB Hrm) as HlB.
    rewrite (flat_map_nth_uniform _ _ bc _ czero).
    2:{ intros a _. now rewrite map_length. }
    2:{ rewrite HlA. exact Hc. }
    rewrite (nth_map_in _ _ _ _ czero) by (rewrite HlB; exact Hcm).
    reflexivity.
  Qed.

  (* ---------------------------------------------------------------- *)
  (* transpose *)

  Lemma transpose_aux_length k : forall m, length (transpose_aux N k m) = k.
  Proof. induction k as [|k IH]; intros m; cbn [transpose_aux length]; [reflexivity|now rewrite IH]. Qed.

  Lemma transpose_aux_nth k : forall m j, j < k ->
    nth j (transpose_aux N k m) [] = map (fun r => nth j r czero) m.
  Proof.
    induction k as [|k IH]; intros m j Hj; [lia|]. cbn [transpose_aux].
    destruct j as [|j]; cbn [nth].
    - apply map_ext. intros [|x r]; reflexivity.
    - rewrite IH by lia. rewrite map_map. apply map_ext. intros [|x r]; [now destruct j|reflexivity].
  Qed.

  Lemma shape_transpose_aux k m : shape k (length m) (transpose_aux N k m).
  Proof.
    split; [apply transpose_aux_length|]. apply Forall_forall. intros row Hin.
    destruct (In_nth _ _ [] Hin) as [j [Hj <-]]. rewrite transpose_aux_length in Hj.
    rewrite transpose_aux_nth by exact Hj. now rewrite map_length.
  Qed.

  Lemma mget_transpose_aux k m r c : r < k -> c < length m ->
    mget (transpose_aux N k m) r c = mget m c r.
  Proof.
    intros Hr Hc. unfold mget. rewrite transpose_aux_nth by exact Hr.
    now rewrite (nth_map_in _ _ _ _ []) by exact Hc.
  Qed.

  Lemma shape_hd nr nc (M : mat) : shape nr nc M -> 0 < nr -> length (hd [] M) = nc.
  Proof.
    intros [Hl Hf] Hnr. destruct M as [|row M]; cbn [length] in Hl; [lia|].
    cbn [hd]. now inversion Hf.
  Qed.

  Lemma shape_transpose nr nc (M : mat) : shape nr nc M -> 0 < nr -> shape nc nr (transpose N M).
  Proof.
    intros HM Hnr. unfold transpose. rewrite (shape_hd _ _ _ HM Hnr).
    destruct HM as [<- _]. apply shape_transpose_aux.
  Qed.

  Lemma mget_transpose nr nc (M : mat) r c : shape nr nc M -> r < nc -> c < nr ->
    mget (transpose N M) r c = mget M c r.
  Proof.
    intros HM Hr Hc. unfold transpose. rewrite (shape_hd _ _ _ HM) by lia.
    apply mget_transpose_aux; [exact Hr|]. destruct HM as [-> _]. exact Hc.
  Qed.

  (* ---------------------------------------------------------------- *)
  (* finite sums, in the order of the model's left fold *)

  Fixpoint csum (n : nat) (f : nat -> C) : C :=
    match n with O => czero | S n' => cadd N (csum n' f) (f n') end.

  Lemma csum_ext n f g : (forall j, j < n -> f j = g j) -> csum n f = csum n g.
  Proof.
    induction n as [|n IH]; intros H; cbn [csum]; [reflexivity|].
    rewrite IH by (intros; apply H; lia). now rewrite H by lia.
  Qed.

  Lemma fold_seq_csum n f :
    fold_left (fun acc k => cadd N acc (f k)) (seq 0 n) czero = csum n f.
  Proof.
    induction n as [|n IH]; [reflexivity|].
    rewrite seq_S, fold_left_app, IH. reflexivity.
  Qed.

  Lemma fold_left_map_gen {X Y Z} (g : X -> Y -> X) (h : Z -> Y) l : forall a,
    fold_left g (map h l) a = fold_left (fun a x => g a (h x)) l a.
  Proof. induction l as [|x l IH]; intros a; cbn [map fold_left]; [reflexivity|apply IH]. Qed.

  Lemma vdot_fold (ra : list C) : forall (cb : list C) (f : nat -> C) acc,
    length ra = length cb ->
    (forall k, k < length ra -> f k = cmul N (nth k ra czero) (nth k cb czero)) ->
    fold_left (fun acc xy => cadd N acc (cmul N (fst xy) (snd xy))) (combine ra cb) acc =
    fold_left (fun acc k => cadd N acc (f k)) (seq 0 (length ra)) acc.
  Proof.
    induction ra as [|a ra IH]; intros cb f acc Hl Hf; [reflexivity|].
    destruct cb as [|b cb]; cbn [length] in Hl; [discriminate|].
    cbn [combine length seq fold_left fst snd].
    rewrite (Hf 0) by (cbn [length]; lia). cbn [nth].
    rewrite <- seq_shift, fold_left_map_gen.
    apply (IH cb (fun k => f (S k))); [lia|].
    intros k Hk. rewrite (Hf (S k)) by (cbn [length]; lia). reflexivity.
  Qed.

  Lemma vdot_csum n (ra cb : list C) : length ra = n -> length cb = n ->
    vdot N ra cb = csum n (fun k => cmul N (nth k ra czero) (nth k cb czero)).
  Proof.
    intros Ha Hb. unfold vdot. fixC.
    rewrite (vdot_fold ra cb (fun k => cmul N (nth k ra czero) (nth k cb czero)))
      by (try congruence; reflexivity).
    rewrite Ha. apply fold_seq_csum.
  Qed.

  (* ---------------------------------------------------------------- *)
  (* mmul: an entry of the product is the dot product of a row and a column *)

  Lemma shape_mmul m k p A B : 0 < k ->
    shape m k A -> shape k p B -> shape m p (mmul N A B).
  Proof.
    intros Hk HA HB. unfold mmul. split; [rewrite map_length; now destruct HA|].
    apply Forall_forall. intros row Hin. apply in_map_iff in Hin. destruct Hin as [ra [<- _]].
    rewrite map_length. now destruct (shape_transpose _ _ _ HB Hk).
  Qed.

  Lemma wf_mmul d A B : wf_mat d A -> wf_mat d B -> wf_mat d (mmul N A B).
  Proof.
    intros HA HB. destruct d as [|d].
    - destruct HA as [HAl _]. destruct A; [|discriminate]. split; [reflexivity|constructor].
    - apply (shape_mmul _ (S d)); [lia|exact HA|exact HB].
  Qed.

  Theorem mget_mmul m k p A B r c : 0 < k ->
    shape m k A -> shape k p B -> r < m -> c < p ->
    mget (mmul N A B) r c = csum k (fun j => cmul N (mget A r j) (mget B j c)).
  Proof.
    intros Hk HA HB Hr Hc. unfold mget at 1. unfold mmul.
    rewrite (nth_map_in _ _ _ _ []) by (destruct HA as [-> _]; exact Hr).
    destruct (shape_transpose _ _ _ HB Hk) as [HtL _].
    rewrite (nth_map_in _ _ _ _ []) by (rewrite HtL; exact Hc).
    unfold transpose. rewrite (shape_hd _ _ _ HB Hk).
    rewrite transpose_aux_nth by exact Hc.
    rewrite (vdot_csum k).
    - apply csum_ext. intros j Hj. unfold mget. f_equal.
      rewrite (nth_map_in _ _ _ _ []) by (destruct HB as [-> _]; exact Hj). reflexivity.
    - apply (shape_row _ _ _ _ HA Hr).
    - rewrite map_length. now destruct HB.
  Qed.

  (* ================================================================ *)
  (* Part B: get_matrix, structural facts for any T                    *)

  (* ---- refusals --------------------------------------------------- *)

  Theorem get_matrix_bsr_refuses_high n q ax a p :
    (q >= n)%Z -> get_matrix N n (BSR q ax a p) = Err EIndex.
  Proof.
    intros H. cbn [get_matrix].
    assert (E : Z.geb q n = true) by (apply Z.geb_le; lia). now rewrite E.
  Qed.

  Theorem get_matrix_bsr_refuses_negative n q ax a p :
    (q < n)%Z -> (q < 0)%Z -> get_matrix N n (BSR q ax a p) = Err EValue.
  Proof.
    intros H1 H2. cbn [get_matrix].
    assert (E1 : Z.geb q n = false) by (rewrite Z.geb_leb; apply Z.leb_gt; lia).
    assert (E2 : Z.ltb q 0 = true) by (apply Z.ltb_lt; lia).
    now rewrite E1, E2.
  Qed.

  Theorem get_matrix_ctrl_refuses_high n c g :
    (c >= n)%Z -> get_matrix N n (Ctrl c g) = Err EIndex.
  Proof.
    intros H. cbn [get_matrix].
    assert (E : Z.geb c n = true) by (apply Z.geb_le; lia). now rewrite E.
  Qed.

  Theorem get_matrix_ctrl_refuses_negative n c g M :
    (c < n)%Z -> (c < 0)%Z -> get_matrix N n g = Ok M ->
    get_matrix N n (Ctrl c g) = Err EValue.
  Proof.
    intros H1 H2 Hg. cbn [get_matrix].
    assert (E1 : Z.geb c n = false) by (rewrite Z.geb_leb; apply Z.leb_gt; lia).
    assert (E2 : Z.ltb c 0 = true) by (apply Z.ltb_lt; lia).
    now rewrite E1, Hg, E2.
  Qed.

  (* an error of the target gate is propagated *)
  Theorem get_matrix_ctrl_propagates n c g e :
    (c < n)%Z -> get_matrix N n g = Err e -> get_matrix N n (Ctrl c g) = Err e.
  Proof.
    intros H1 Hg. cbn [get_matrix].
    assert (E1 : Z.geb c n = false) by (rewrite Z.geb_leb; apply Z.leb_gt; lia).
    now rewrite E1, Hg.
  Qed.

  Theorem get_matrix_mat_refuses_high n m ops q :
    In q ops -> (q >= n)%Z -> get_matrix N n (Mat m ops) = Err EIndex.
  Proof.
    intros Hin Hq. cbn [get_matrix].
    assert (E : existsb (fun q => Z.geb q n) (rev ops) = true).
    { apply existsb_exists. exists q. split; [now apply in_rev in Hin|apply Z.geb_le; lia]. }
    now rewrite E.
  Qed.

  Definition mat_shape_ok (m : mat) (k : nat) : bool :=
    Nat.eqb (length m) (pow2 k) && forallb (fun r => Nat.eqb (length r) (pow2 k)) m.

  Lemma mat_shape_ok_spec m k : mat_shape_ok m k = true <-> wf_mat (2 ^ k) m.
  Proof.
    unfold mat_shape_ok, wf_mat, shape, pow2. rewrite andb_true_iff, Nat.eqb_eq, forallb_forall, Forall_forall.
    split; intros [H1 H2]; (split; [exact H1|]); intros x Hx; apply Nat.eqb_eq; auto.
  Qed.

  Theorem get_matrix_mat_refuses_shape n m ops :
    (forall q, In q ops -> (q < n)%Z) -> ~ wf_mat (2 ^ length ops) m ->
    get_matrix N n (Mat m ops) = Err EValue.
  Proof.
    intros Hlt Hwf. cbn [get_matrix].
    assert (E : existsb (fun q => Z.geb q n) (rev ops) = false).
    { apply not_true_is_false. intros H. apply existsb_exists in H. destruct H as [q [Hin Hq]].
      apply in_rev in Hin. apply Hlt in Hin. apply Z.geb_le in Hq. lia. }
    rewrite E. fold (mat_shape_ok m (length ops)).
    destruct (mat_shape_ok m (length ops)) eqn:Es; [|reflexivity].
    exfalso. apply Hwf. now apply mat_shape_ok_spec.
  Qed.

  Theorem get_matrix_mat_refuses_negative n m ops q :
    (forall q, In q ops -> (q < n)%Z) -> In q ops -> (q < 0)%Z ->
    get_matrix N n (Mat m ops) = Err EValue.
  Proof.
    intros Hlt Hin Hq. cbn [get_matrix].
    assert (E : existsb (fun q => Z.geb q n) (rev ops) = false).
    { apply not_true_is_false. intros H. apply existsb_exists in H. destruct H as [q' [Hin' Hq']].
      apply in_rev in Hin'. apply Hlt in Hin'. apply Z.geb_le in Hq'. lia. }
    rewrite E. fold (mat_shape_ok m (length ops)).
    destruct (mat_shape_ok m (length ops)); [|reflexivity]. cbn [negb].
    unfold Nops.
    assert (E2 : forallb (fun q => Z.leb 0 q) (rev ops) = false).
    { apply not_true_is_false. intros H. rewrite forallb_forall in H.
      specialize (H q (proj1 (in_rev _ _) Hin)). apply Z.leb_le in H. lia. }
    now rewrite E2.
  Qed.

  (* ---- shapes ----------------------------------------------------- *)

  Lemma shape_can1 ax a p : wf_mat 2 (can1 N ax a p).
  Proof. split; [reflexivity|]. repeat constructor. Qed.

  Lemma zpow2_split n q : (0 <= q < n)%Z -> zpow2 (n - q - 1) * 2 * zpow2 q = zpow2 n.
  Proof.
    intros H. unfold zpow2.
    replace (Z.to_nat n) with (Z.to_nat (n - q - 1) + 1 + Z.to_nat q) by lia.
    rewrite !Nat.pow_add_r. reflexivity.
  Qed.

  Lemma zpow2_pos n : 0 < zpow2 n.
  Proof. unfold zpow2. pose proof (Nat.pow_nonzero 2 (Z.to_nat n)). lia. Qed.

  (* the matrix a controlled gate is expanded to, from the matrix of its target *)
  Definition ctrl_matrix (c : Z) (M : mat) : mat :=
    let dim := length M in
    map (fun ri : nat =>
           map (fun ci : nat =>
                  if N.eqb (N.land (N.of_nat ci) (N.shiftl 1 (Z.to_N c))) 0
                  then (if Nat.eqb ri ci then cone else czero)
                  else nth ci (nth ri M []) czero)
               (seq 0 dim))
        (seq 0 dim).

  Lemma get_matrix_ctrl_eq n c g M :
    (0 <= c < n)%Z -> get_matrix N n g = Ok M ->
    get_matrix N n (Ctrl c g) = Ok (ctrl_matrix c M).
  Proof.
    intros Hc Hg. cbn [get_matrix].
    assert (E1 : Z.geb c n = false) by (rewrite Z.geb_leb; apply Z.leb_gt; lia).
    assert (E2 : Z.ltb c 0 = false) by (apply Z.ltb_ge; lia).
    rewrite E1, Hg, E2. reflexivity.
  Qed.

  Lemma shape_ctrl_matrix c M : wf_mat (length M) (ctrl_matrix c M).
  Proof.
    unfold ctrl_matrix. split; [now rewrite map_length, seq_length|].
    apply Forall_forall. intros row Hin. apply in_map_iff in Hin. destruct Hin as [ri [<- _]].
    now rewrite map_length, seq_length.
  Qed.

  Lemma mget_ctrl_matrix c M r col : r < length M -> col < length M ->
    mget (ctrl_matrix c M) r col =
    if N.testbit (N.of_nat col) (Z.to_N c) then mget M r col
    else (if Nat.eqb r col then cone else czero).
  Proof.
    intros Hr Hc. unfold mget at 1. unfold ctrl_matrix.
    rewrite (nth_map_seq _ _ _ _ Hr), (nth_map_seq _ _ _ _ Hc).
    rewrite land_shiftl1_eqb. destruct (N.testbit (N.of_nat col) (Z.to_N c)); reflexivity.
  Qed.

  (* every matrix the model returns is 2^n x 2^n *)
  Theorem get_matrix_wf n g : forall M, get_matrix N n g = Ok M -> wf_mat (zpow2 n) M.
  Proof.
    induction g as [q ax a p|c g IH|m ops]; intros M HM; cbn [get_matrix] in HM.
    - destruct (Z.geb q n) eqn:E1; [discriminate|].
      destruct (Z.ltb q 0) eqn:E2; [discriminate|].
      injection HM as <-.
      rewrite Z.geb_leb in E1. apply Z.leb_gt in E1. apply Z.ltb_ge in E2.
      unfold wf_mat. rewrite <- (zpow2_split n q) by lia.
      apply shape_kron; [apply shape_kron|]; first [apply shape_eye|apply shape_can1].
    - destruct (Z.geb c n) eqn:E1; [discriminate|].
      destruct (get_matrix N n g) as [M'|e] eqn:Eg; [|discriminate].
      destruct (Z.ltb c 0) eqn:E2; [discriminate|].
      injection HM as <-. specialize (IH M' eq_refl).
      destruct IH as [Hl Hf]. rewrite <- Hl. exact (shape_ctrl_matrix c M').
    - destruct (existsb _ _); [discriminate|].
      destruct (negb _); [discriminate|].
      destruct (Nops (rev ops)) as [rops|]; [|discriminate].
      injection HM as <-.
      pose proof (shape_transpose_aux (zpow2 n)
                    (map (fun col => mat_column N m rops (zpow2 n) col) (seq 0 (zpow2 n)))) as H.
      rewrite map_length, seq_length in H. exact H.
  Qed.

  (* ---- matrix gates ----------------------------------------------- *)

  (* the assignment loop of one column: [e] places small row [s] at big row
     [e s]; [inv] recovers the small row from a big row that was hit *)
  Lemma mat_column_fold (e inv : nat -> nat) (sc dim K : nat) :
    (forall s, s < K -> inv (e s) = s) -> (forall s, s < K -> e s < dim) ->
    forall m : mat, length m <= K ->
    let res := fold_left
      (fun (acc : list C * nat) (row : list C) =>
         let '(v, sr) := acc in (list_set v (e sr) (nth sc row czero), S sr))
      m (repeat czero dim, O) in
    snd res = length m /\ length (fst res) = dim /\
    forall r, r < dim ->
      nth r (fst res) czero =
      if (inv r <? length m) && (e (inv r) =? r) then nth sc (nth (inv r) m []) czero else czero.
  Proof.
    intros Hinv Hlt m. induction m as [|row m IH] using rev_ind; intros Hlen res.
    - subst res. cbn [fold_left fst snd length]. rewrite repeat_length.
      repeat split. intros r Hr. cbn [Nat.ltb Nat.leb andb]. apply nth_repeat.
    - rewrite app_length in Hlen. cbn [length] in Hlen.
      subst res. rewrite fold_left_app. cbn [fold_left].
      specialize (IH ltac:(lia)). cbn zeta in IH.
      destruct (fold_left _ m (repeat czero dim, O)) as [v s] eqn:Ef.
      cbn [fst snd] in *. destruct IH as [Hs [Hv Hent]]. subst s.
      rewrite app_length. cbn [length]. rewrite list_set_length.
      split; [lia|]. split; [exact Hv|]. intros r Hr.
      assert (Hel : e (length m) < length v) by (rewrite Hv; apply Hlt; lia).
      destruct (Nat.eq_dec r (e (length m))) as [->|Hne].
      + rewrite nth_list_set_eq by exact Hel.
        rewrite Hinv by lia.
        assert (E1 : (length m <? length m + 1) = true) by (apply Nat.ltb_lt; lia).
        rewrite E1, Nat.eqb_refl. cbn [andb].
        rewrite app_nth2 by lia. rewrite Nat.sub_diag. reflexivity.
      + rewrite nth_list_set_neq by lia. rewrite Hent by exact Hr.
        destruct (Nat.lt_trichotomy (inv r) (length m)) as [Hl|[He|Hg]].
        * assert (E1 : (inv r <? length m) = true) by (apply Nat.ltb_lt; lia).
          assert (E2 : (inv r <? length m + 1) = true) by (apply Nat.ltb_lt; lia).
          rewrite E1, E2. cbn [andb]. rewrite app_nth1 by exact Hl. reflexivity.
        * assert (E1 : (inv r <? length m) = false) by (apply Nat.ltb_ge; lia).
          assert (E3 : (e (inv r) =? r) = false) by (apply Nat.eqb_neq; rewrite He; lia).
          rewrite E1, E3. cbn [andb]. rewrite andb_false_r. reflexivity.

        * assert (E1 : (inv r <? length m) = false) by (apply Nat.ltb_ge; lia).
          assert (E2 : (inv r <? length m + 1) = false) by (apply Nat.ltb_ge; lia).
          rewrite E1, E2. reflexivity.
  Qed.

  Lemma of_nat_zpow2 n : N.of_nat (zpow2 n) = (2 ^ Z.to_N n)%N.
  Proof. unfold zpow2. rewrite Nnat.Nat2N.inj_pow. now rewrite Z_nat_N. Qed.

  Lemma of_nat_pow2 k : N.of_nat (2 ^ k) = (2 ^ N.of_nat k)%N.
  Proof. now rewrite Nnat.Nat2N.inj_pow. Qed.

  (* entries of one column *)
  Lemma mat_column_spec n (m : mat) (rops : list BinNums.N) col r :
    NoDup rops -> (forall q, In q rops -> (q < Z.to_N n)%N) ->
    length m = 2 ^ length rops -> col < zpow2 n -> r < zpow2 n ->
    nth r (mat_column N m rops (zpow2 n) col) czero =
    if agreeb rops (N.of_nat r) (N.of_nat col)
    then mget m (N.to_nat (reduced_ket (N.of_nat r) rops))
                (N.to_nat (reduced_ket (N.of_nat col) rops))
    else czero.
  Proof.
    intros Hnd Hq Hlen Hcol Hr. unfold mat_column.
    pose (e := fun sr : nat => N.to_nat (expand_ket (N.of_nat col) (N.of_nat sr) rops)).
    pose (inv := fun r : nat => N.to_nat (reduced_ket (N.of_nat r) rops)).
    assert (Hinv : forall s, s < 2 ^ length rops -> inv (e s) = s).
    { intros s Hs. unfold inv, e. rewrite Nnat.N2Nat.id.
      rewrite reduce_expand_mod by exact Hnd.
      rewrite N.mod_small; [apply Nnat.Nat2N.id|].
      rewrite <- of_nat_pow2. lia. }
    assert (Hlt : forall s, s < 2 ^ length rops -> e s < zpow2 n).
    { intros s _. unfold e.
      assert (H : (expand_ket (N.of_nat col) (N.of_nat s) rops < 2 ^ Z.to_N n)%N).
      { apply expand_ket_lt; [exact Hq|]. rewrite <- of_nat_zpow2. lia. }
      rewrite <- of_nat_zpow2 in H. lia. }
    destruct (mat_column_fold e inv (N.to_nat (reduced_ket (N.of_nat col) rops)) (zpow2 n)
                (2 ^ length rops) Hinv Hlt m ltac:(lia)) as [_ [_ Hent]].
    cbn zeta in Hent. unfold e in Hent at 1.
    rewrite (Hent r Hr). unfold inv, e, agreeb, mget.
    assert (E1 : (N.to_nat (reduced_ket (N.of_nat r) rops) <? length m) = true).
    { apply Nat.ltb_lt. rewrite Hlen. pose proof (reduced_ket_lt (N.of_nat r) rops) as H.
      rewrite <- of_nat_pow2 in H. lia. }
    rewrite E1. cbn [andb]. rewrite Nnat.N2Nat.id.
    destruct (N.eqb_spec (expand_ket (N.of_nat col) (reduced_ket (N.of_nat r) rops) rops) (N.of_nat r))
      as [He|Hne].
    - rewrite He, Nnat.Nat2N.id, Nat.eqb_refl. reflexivity.
    - assert (E2 : (N.to_nat (expand_ket (N.of_nat col) (reduced_ket (N.of_nat r) rops) rops) =? r) = false).
      { apply Nat.eqb_neq. intros H. apply Hne. apply Nnat.N2Nat.inj. rewrite Nnat.Nat2N.id. exact H. }
      rewrite E2. reflexivity.
  Qed.

  (* the operand list of the model: reversed, as naturals *)
  Definition rev_ops (ops : list Z) : list BinNums.N := map Z.to_N (rev ops).

  (* [Mat m ops] on n qubits: identity outside the operands; inside, the small
     matrix indexed by the bits at the operands, FIRST OPERAND MOST SIGNIFICANT *)
  Theorem get_matrix_mat_spec n m ops :
    NoDup ops -> (forall q, In q ops -> (0 <= q < n)%Z) -> wf_mat (2 ^ length ops) m ->
    exists M, get_matrix N n (Mat m ops) = Ok M /\ wf_mat (zpow2 n) M /\
      forall r c, r < zpow2 n -> c < zpow2 n ->
        mget M r c =
        if agreeb (rev_ops ops) (N.of_nat r) (N.of_nat c)
        then mget m (N.to_nat (reduced_ket (N.of_nat r) (rev_ops ops)))
                    (N.to_nat (reduced_ket (N.of_nat c) (rev_ops ops)))
        else czero.
  Proof.
    intros Hnd Hrange Hwf.
    assert (E1 : existsb (fun q => Z.geb q n) (rev ops) = false).
    { apply not_true_is_false. intros H. apply existsb_exists in H. destruct H as [q [Hin Hq]].
      apply in_rev in Hin. apply Hrange in Hin. apply Z.geb_le in Hq. lia. }
    assert (E2 : mat_shape_ok m (length ops) = true) by now apply mat_shape_ok_spec.
    assert (E3 : Nops (rev ops) = Some (rev_ops ops)).
    { unfold Nops.
      assert (E : forallb (fun q => Z.leb 0 q) (rev ops) = true).
      { apply forallb_forall. intros q Hin. apply in_rev in Hin. apply Hrange in Hin.
        apply Z.leb_le. lia. }
      now rewrite E. }
    assert (HM : get_matrix N n (Mat m ops) =
                 Ok (transpose_aux N (zpow2 n)
                       (map (fun col => mat_column N m (rev_ops ops) (zpow2 n) col) (seq 0 (zpow2 n))))).
    { cbn [get_matrix]. rewrite E1. fold (mat_shape_ok m (length ops)). rewrite E2. cbn [negb].
      rewrite E3. reflexivity. }
    eexists. split; [exact HM|]. split; [exact (get_matrix_wf _ _ _ HM)|].
    intros r c Hr Hc.
    rewrite mget_transpose_aux by (rewrite ?map_length, ?seq_length; assumption).
    unfold mget at 1. rewrite (nth_map_seq _ _ _ _ Hc).
    apply mat_column_spec; try assumption.
    - unfold rev_ops. apply NoDup_map_inj_in.
      + intros x y Hx Hy Hxy. apply in_rev in Hx. apply in_rev in Hy.
        apply Hrange in Hx. apply Hrange in Hy. lia.
      + now apply NoDup_rev.
    - intros q Hin. unfold rev_ops in Hin. apply in_map_iff in Hin. destruct Hin as [z [<- Hz]].
      apply in_rev in Hz. apply Hrange in Hz. lia.
    - unfold rev_ops. rewrite map_length, rev_length. now destruct Hwf.
  Qed.

  (* the operand at position i of [ops] is bit (k-1-i) of the small index *)
  Lemma reduced_ket_rev_ops (r : BinNums.N) ops i q :
    nth_error ops i = Some q ->
    N.testbit (reduced_ket r (rev_ops ops)) (N.of_nat (length ops - 1 - i)) = N.testbit r (Z.to_N q).
  Proof.
    intros Hi. assert (Hlt : i < length ops) by (apply nth_error_Some; congruence).
    rewrite reduced_ket_spec, Nnat.Nat2N.id. unfold rev_ops.
    rewrite nth_error_map.
    assert (E : nth_error (rev ops) (length ops - 1 - i) = Some q).
    { rewrite (nth_error_nth' _ q) by (rewrite rev_length; lia).
      rewrite rev_nth by lia. replace (length ops - S (length ops - 1 - i)) with i by lia.
      f_equal. now apply nth_error_nth. }
    now rewrite E.
  Qed.

  (* ---- Bloch sphere rotations: entries, any T --------------------- *)

  Theorem get_matrix_bsr_entry n q ax a p : (0 <= q < n)%Z ->
    exists M, get_matrix N n (BSR q ax a p) = Ok M /\ wf_mat (zpow2 n) M /\
      forall r c, r < zpow2 n -> c < zpow2 n ->
        mget M r c =
        cmul N (cmul N (if Nat.eqb (r / zpow2 q / 2) (c / zpow2 q / 2) then cone else czero)
                       (mget (can1 N ax a p) ((r / zpow2 q) mod 2) ((c / zpow2 q) mod 2)))
               (if Nat.eqb (r mod zpow2 q) (c mod zpow2 q) then cone else czero).
  Proof.
    intros Hq.
    assert (HM : get_matrix N n (BSR q ax a p) =
                 Ok (kron N (kron N (eye N (zpow2 (n - q - 1))) (can1 N ax a p)) (eye N (zpow2 q)))).
    { cbn [get_matrix].
      assert (E1 : Z.geb q n = false) by (rewrite Z.geb_leb; apply Z.leb_gt; lia).
      assert (E2 : Z.ltb q 0 = false) by (apply Z.ltb_ge; lia).
      now rewrite E1, E2. }
    eexists. split; [exact HM|]. split; [exact (get_matrix_wf _ _ _ HM)|].
    intros r c Hr Hc. rewrite <- (zpow2_split n q Hq) in Hr, Hc.
    pose proof (zpow2_pos q) as Hlo.
    set (hi := zpow2 (n - q - 1)) in *. set (lo := zpow2 q) in *.
    assert (HA : shape (hi * 2) (hi * 2) (kron N (eye N hi) (can1 N ax a p)))
      by (apply shape_kron; [apply shape_eye|apply shape_can1]).
    rewrite (mget_kron _ _ _ _ _ _ r c HA (shape_eye lo) Hr Hc).
    assert (Hr2 : r / lo < hi * 2) by (apply Nat.div_lt_upper_bound; lia).
    assert (Hc2 : c / lo < hi * 2) by (apply Nat.div_lt_upper_bound; lia).
    rewrite (mget_kron _ _ _ _ _ _ _ _ (shape_eye hi) (shape_can1 ax a p) Hr2 Hc2).
    rewrite mget_eye by (apply Nat.div_lt_upper_bound; lia).
    rewrite mget_eye by (apply Nat.mod_upper_bound; lia).
    reflexivity.
  Qed.

  (* ================================================================ *)
  (* Part D: the circuit matrix is the product of its gates, in program
     order, later gates on the left; other statements contribute nothing *)

  Lemma circuit_matrix_from_app n ir1 : forall acc ir2,
    circuit_matrix_from N n acc (ir1 ++ ir2) =
    match circuit_matrix_from N n acc ir1 with
    | Ok A => circuit_matrix_from N n A ir2
    | Err e => Err e
    end.
  Proof.
    induction ir1 as [|s ir1 IH]; intros acc ir2; [reflexivity|].
    cbn [app]. destruct s as [o g gi| | |]; cbn [circuit_matrix_from]; try apply IH.
    destruct (get_matrix N n g) as [G|e]; [apply IH|reflexivity].
  Qed.

  Theorem circuit_matrix_nil n : circuit_matrix N n [] = Ok (eye N (zpow2 n)).
  Proof. reflexivity. Qed.

  Theorem circuit_matrix_app n ir1 ir2 :
    circuit_matrix N n (ir1 ++ ir2) =
    match circuit_matrix N n ir1 with
    | Ok A => circuit_matrix_from N n A ir2
    | Err e => Err e
    end.
  Proof. apply circuit_matrix_from_app. Qed.

  Theorem circuit_matrix_snoc n ir o g gi :
    circuit_matrix N n (ir ++ [SGate o g gi]) =
    match circuit_matrix N n ir with
    | Err e => Err e
    | Ok A => match get_matrix N n g with
              | Ok G => Ok (mmul N G A)
              | Err e => Err e
              end
    end.
  Proof.
    rewrite circuit_matrix_app. destruct (circuit_matrix N n ir) as [A|e]; [|reflexivity].
    cbn [circuit_matrix_from]. destruct (get_matrix N n g); reflexivity.
  Qed.

  Theorem circuit_matrix_skip n ir s :
    is_gate s = false -> circuit_matrix N n (ir ++ [s]) = circuit_matrix N n ir.
  Proof.
    intros Hs. rewrite circuit_matrix_app. destruct (circuit_matrix N n ir) as [A|e]; [|reflexivity].
    destruct s; try discriminate; reflexivity.
  Qed.

  (* non-gate statements can be dropped anywhere *)
  Theorem circuit_matrix_filter n ir :
    circuit_matrix N n ir = circuit_matrix N n (filter is_gate ir).
  Proof.
    unfold circuit_matrix. generalize (eye N (zpow2 n)) as acc.
    induction ir as [|s ir IH]; intros acc; [reflexivity|].
    destruct s as [o g gi| | |]; cbn [filter is_gate circuit_matrix_from]; try apply IH.
    destruct (get_matrix N n g); [apply IH|reflexivity].
  Qed.

  Theorem circuit_matrix_wf n ir : forall M, circuit_matrix N n ir = Ok M -> wf_mat (zpow2 n) M.
  Proof.
    induction ir as [|s ir IH] using rev_ind; intros M HM.
    - injection HM as <-. apply shape_eye.
    - destruct s as [o g gi| | |].
      2-4: rewrite circuit_matrix_skip in HM by reflexivity; now apply IH.
      rewrite circuit_matrix_snoc in HM.
      destruct (circuit_matrix N n ir) as [A|e]; [|discriminate].
      destruct (get_matrix N n g) as [G|e] eqn:EG; [|discriminate].
      injection HM as <-. apply wf_mmul; [now apply (get_matrix_wf n g)|now apply IH].
  Qed.

  Theorem gates_matrix_snoc n gs g :
    gates_matrix N n (gs ++ [g]) =
    match gates_matrix N n gs with
    | Err e => Err e
    | Ok A => match get_matrix N n g with
              | Ok G => Ok (mmul N G A)
              | Err e => Err e
              end
    end.
  Proof. unfold gates_matrix. rewrite map_app. cbn [map]. apply circuit_matrix_snoc. Qed.

  (* ---- controlled gates ------------------------------------------- *)

  (* one level: columns whose control bit is 0 become unit columns, the
     others are those of the target: |0><0|_c (x) I + |1><1|_c (x) U, bitwise *)
  Theorem get_matrix_ctrl_spec n c g M' :
    (0 <= c < n)%Z -> get_matrix N n g = Ok M' ->
    exists M, get_matrix N n (Ctrl c g) = Ok M /\ wf_mat (zpow2 n) M /\
      forall r col, r < zpow2 n -> col < zpow2 n ->
        mget M r col =
        if N.testbit (N.of_nat col) (Z.to_N c) then mget M' r col
        else (if Nat.eqb r col then cone else czero).
  Proof.
    intros Hc Hg. pose proof (get_matrix_ctrl_eq n c g M' Hc Hg) as HM.
    eexists. split; [exact HM|]. split; [exact (get_matrix_wf _ _ _ HM)|].
    intros r col Hr Hcol. destruct (get_matrix_wf _ _ _ Hg) as [Hl _].
    apply mget_ctrl_matrix; rewrite Hl; assumption.
  Qed.

  (* any nesting depth: the target acts where ALL control bits are 1 *)
  Theorem get_matrix_ctrls_spec n cs g M' :
    (forall c, In c cs -> (0 <= c < n)%Z) -> get_matrix N n g = Ok M' ->
    exists M, get_matrix N n (fold_right (@Ctrl T) g cs) = Ok M /\ wf_mat (zpow2 n) M /\
      forall r col, r < zpow2 n -> col < zpow2 n ->
        mget M r col =
        if forallb (fun c => N.testbit (N.of_nat col) (Z.to_N c)) cs then mget M' r col
        else (if Nat.eqb r col then cone else czero).
  Proof.
    intros Hcs Hg. induction cs as [|c cs IH]; cbn [fold_right forallb].
    - exists M'. split; [exact Hg|]. split; [exact (get_matrix_wf _ _ _ Hg)|]. reflexivity.
    - destruct IH as [M1 [HM1 [_ Hent1]]]; [intros; apply Hcs; now right|].
      destruct (get_matrix_ctrl_spec n c _ M1 (Hcs c (or_introl eq_refl)) HM1) as [M [HM [Hwf Hent]]].
      exists M. split; [exact HM|]. split; [exact Hwf|].
      intros r col Hr Hcol. rewrite (Hent r col Hr Hcol), (Hent1 r col Hr Hcol).
      destruct (N.testbit (N.of_nat col) (Z.to_N c)); reflexivity.
  Qed.

  (* ---- conjugate transpose ---------------------------------------- *)

  Definition cconj (z : C) : C := (fst z, nneg N (snd z)).
  Definition dagger (M : mat) : mat := map (map cconj) (transpose N M).

  Lemma shape_dagger nr nc M : 0 < nr -> shape nr nc M -> shape nc nr (dagger M).
  Proof.
    intros Hnr HM. destruct (shape_transpose _ _ _ HM Hnr) as [Hl Hf]. unfold dagger.
    split; [now rewrite map_length|]. apply Forall_forall. intros row Hin.
    apply in_map_iff in Hin. destruct Hin as [row' [<- Hin]]. rewrite map_length.
    rewrite Forall_forall in Hf. now apply Hf.
  Qed.

  Lemma mget_dagger nr nc M r c : shape nr nc M -> r < nc -> c < nr ->
    mget (dagger M) r c = cconj (mget M c r).
  Proof.
    intros HM Hr Hc. assert (Hnr : 0 < nr) by lia.
    pose proof (shape_transpose _ _ _ HM Hnr) as Ht.
    rewrite <- (mget_transpose _ _ _ _ _ HM Hr Hc).
    unfold mget, dagger.
    rewrite (nth_map_in _ _ _ _ []) by (destruct Ht as [-> _]; exact Hr).
    rewrite (nth_map_in _ _ _ _ czero) by (rewrite (shape_row _ _ _ _ Ht Hr); exact Hc).
    reflexivity.
  Qed.

  (* ---- entrywise sum, diagonal bit projectors ---------------------- *)

  Definition madd (A B : mat) : mat :=
    map (fun ab => map (fun xy => cadd N (fst xy) (snd xy)) (combine (fst ab) (snd ab)))
        (combine A B).

  Lemma shape_madd nr nc A B : shape nr nc A -> shape nr nc B -> shape nr nc (madd A B).
  Proof.
    intros [HAl HAf] [HBl HBf]. unfold madd. fixC. split.
    - rewrite map_length, combine_length. lia.
    - apply Forall_forall. intros row Hin. apply in_map_iff in Hin.
      destruct Hin as [[ra rb] [<- Hin]]. cbn [fst snd].
      rewrite map_length, combine_length.
      rewrite Forall_forall in HAf, HBf.
      rewrite (HAf ra (in_combine_l _ _ _ _ Hin)), (HBf rb (in_combine_r _ _ _ _ Hin)). lia.
  Qed.

  Lemma mget_madd nr nc A B r c : shape nr nc A -> shape nr nc B -> r < nr -> c < nc ->
    mget (madd A B) r c = cadd N (mget A r c) (mget B r c).
  Proof.
    intros HA HB Hr Hc. unfold mget, madd. fixC.
    rewrite (nth_map_in _ _ _ _ ([], [])).
    2:{ rewrite combine_length. destruct HA as [-> _], HB as [-> _]. lia. }
    rewrite combine_nth by (destruct HA as [-> _], HB as [-> _]; reflexivity).
    cbn [fst snd].
    pose proof (shape_row _ _ _ _ HA Hr) as HlA. pose proof (shape_row _ _ _ _ HB Hr) as HlB.
    rewrite (nth_map_in _ _ _ _ (czero, czero)) by (rewrite combine_length; lia).
    rewrite combine_nth by congruence. reflexivity.
  Qed.

  (* the diagonal projector on "bit c of the index is b", on a register of dimension d *)
  Definition bit_proj (d : nat) (c : Z) (b : bool) : mat :=
    map (fun ri : nat =>
           map (fun ci : nat =>
                  if Nat.eqb ri ci && Bool.eqb (N.testbit (N.of_nat ci) (Z.to_N c)) b
                  then cone else czero)
               (seq 0 d))
        (seq 0 d).

  Lemma shape_bit_proj d c b : wf_mat d (bit_proj d c b).
  Proof.
    unfold bit_proj. split; [now rewrite map_length, seq_length|].
    apply Forall_forall. intros row Hin. apply in_map_iff in Hin. destruct Hin as [ri [<- _]].
    now rewrite map_length, seq_length.
  Qed.

  Lemma mget_bit_proj d c b r col : r < d -> col < d ->
    mget (bit_proj d c b) r col =
    if Nat.eqb r col && Bool.eqb (N.testbit (N.of_nat col) (Z.to_N c)) b then cone else czero.
  Proof.
    intros Hr Hc. unfold mget, bit_proj.
    now rewrite (nth_map_seq _ _ _ _ Hr), (nth_map_seq _ _ _ _ Hc).
  Qed.

  (* ---- refusals and success, for whole gates (any nesting) ---------- *)

  (* an index >= n anywhere in the gate: IndexError *)
  Theorem get_matrix_refuses_high n g :
    (exists q, In q (gate_qubits g) /\ (q >= n)%Z) -> get_matrix N n g = Err EIndex.
  Proof.
    induction g as [q ax a p|c g IH|m ops]; intros [q' [Hin Hq']]; cbn [gate_qubits] in Hin.
    - destruct Hin as [<-|[]]. now apply get_matrix_bsr_refuses_high.
    - destruct (Z_lt_ge_dec c n) as [Hc|Hc]; [|now apply get_matrix_ctrl_refuses_high].
      destruct Hin as [<-|Hin]; [lia|].
      apply get_matrix_ctrl_propagates; [exact Hc|]. apply IH. now exists q'.
    - now apply (get_matrix_mat_refuses_high n m ops q').
  Qed.

  Fixpoint gate_shapes_ok (g : gate T) : Prop :=
    match g with
    | BSR _ _ _ _ => True
    | Ctrl _ g' => gate_shapes_ok g'
    | Mat m ops => wf_mat (2 ^ length ops) m
    end.

  (* all indices below n: the only possible error is ValueError *)
  Lemma get_matrix_err_value n g e :
    (forall q, In q (gate_qubits g) -> (q < n)%Z) -> get_matrix N n g = Err e -> e = EValue.
  Proof.
    revert e. induction g as [q ax a p|c g IH|m ops]; intros e Hlt He; cbn [gate_qubits] in Hlt.
    - cbn [get_matrix] in He.
      assert (E1 : Z.geb q n = false).
      { rewrite Z.geb_leb. apply Z.leb_gt. apply Hlt. now left. }
      rewrite E1 in He. destruct (Z.ltb q 0); congruence.
    - cbn [get_matrix] in He.
      assert (E1 : Z.geb c n = false).
      { rewrite Z.geb_leb. apply Z.leb_gt. apply Hlt. now left. }
      rewrite E1 in He. destruct (get_matrix N n g) as [M|e'] eqn:Eg.
      + destruct (Z.ltb c 0); congruence.
      + injection He as <-. apply IH; [|reflexivity]. intros q Hq. apply Hlt. now right.
    - cbn [get_matrix] in He.
      assert (E : existsb (fun q => Z.geb q n) (rev ops) = false).
      { apply not_true_is_false. intros H. apply existsb_exists in H. destruct H as [q [Hin Hq]].
        apply in_rev in Hin. apply Hlt in Hin. apply Z.geb_le in Hq. lia. }
      rewrite E in He. destruct (negb _); [congruence|].
      destruct (Nops (rev ops)); congruence.
  Qed.

  (* no index >= n, some index negative: ValueError (Python: negative shift count) *)
  Theorem get_matrix_refuses_negative n g :
    (forall q, In q (gate_qubits g) -> (q < n)%Z) ->
    (exists q, In q (gate_qubits g) /\ (q < 0)%Z) -> get_matrix N n g = Err EValue.
  Proof.
    induction g as [q ax a p|c g IH|m ops]; intros Hlt [q' [Hin Hq']]; cbn [gate_qubits] in *.
    - destruct Hin as [<-|[]]. apply get_matrix_bsr_refuses_negative; [apply Hlt; now left|exact Hq'].
    - assert (Hc : (c < n)%Z) by (apply Hlt; now left).
      destruct (get_matrix N n g) as [M|e] eqn:Eg.
      + destruct Hin as [<-|Hin].
        * now apply (get_matrix_ctrl_refuses_negative n c g M).
        * exfalso. assert (H : Ok M = Err EValue :> result mat).
          { apply IH; [intros; apply Hlt; now right|now exists q']. }
          discriminate.
      + rewrite (get_matrix_ctrl_propagates n c g e Hc Eg). f_equal.
        apply (get_matrix_err_value n g e); [intros; apply Hlt; now right|exact Eg].
    - now apply (get_matrix_mat_refuses_negative n m ops q').
  Qed.

  (* all indices in [0, n) and well-shaped matrices: success *)
  Theorem get_matrix_total n g :
    (forall q, In q (gate_qubits g) -> (0 <= q < n)%Z) -> gate_shapes_ok g ->
    exists M, get_matrix N n g = Ok M /\ wf_mat (zpow2 n) M.
  Proof.
    induction g as [q ax a p|c g IH|m ops]; intros Hq Hs; cbn [gate_qubits gate_shapes_ok] in *.
    - destruct (get_matrix_bsr_entry n q ax a p (Hq q (or_introl eq_refl))) as [M [HM [Hwf _]]].
      now exists M.
    - destruct IH as [M' [HM' _]]; [intros; apply Hq; now right|exact Hs|].
      destruct (get_matrix_ctrl_spec n c g M' (Hq c (or_introl eq_refl)) HM') as [M [HM [Hwf _]]].
      now exists M.
    - cbn [get_matrix].
      assert (E1 : existsb (fun q => Z.geb q n) (rev ops) = false).
      { apply not_true_is_false. intros H. apply existsb_exists in H. destruct H as [q [Hin Hq']].
        apply in_rev in Hin. apply Hq in Hin. apply Z.geb_le in Hq'. lia. }
      assert (E2 : mat_shape_ok m (length ops) = true) by now apply mat_shape_ok_spec.
      assert (E3 : forallb (fun q => Z.leb 0 q) (rev ops) = true).
      { apply forallb_forall. intros q Hin. apply in_rev in Hin. apply Hq in Hin. apply Z.leb_le. lia. }
      rewrite E1. fold (mat_shape_ok m (length ops)). rewrite E2. cbn [negb]. unfold Nops. rewrite E3.
      eexists. split; [reflexivity|].
      pose proof (shape_transpose_aux (zpow2 n)
                    (map (fun col => mat_column N m (map Z.to_N (rev ops)) (zpow2 n) col) (seq 0 (zpow2 n)))) as H.
      rewrite map_length, seq_length in H. exact H.
  Qed.

  (* a successful expansion means every index was in range *)
  Theorem get_matrix_ok_range n g M :
    get_matrix N n g = Ok M -> forall q, In q (gate_qubits g) -> (0 <= q < n)%Z.
  Proof.
    intros HM.
    assert (Hlt : forall q, In q (gate_qubits g) -> (q < n)%Z).
    { intros q Hin. destruct (Z_lt_ge_dec q n) as [H|H]; [exact H|]. exfalso.
      rewrite get_matrix_refuses_high in HM by (now exists q). discriminate. }
    intros q Hin. split; [|now apply Hlt].
    destruct (Z_lt_ge_dec q 0) as [H|H]; [|lia]. exfalso.
    rewrite get_matrix_refuses_negative in HM; [discriminate|exact Hlt|now exists q].
  Qed.
End MatrixP.

(* ================================================================== *)
(* bits of naturals: div/mod form against testbit form                 *)

Definition nbit (q r : nat) : nat := (r / 2 ^ q) mod 2.

Definition agree_except (q r c : nat) : bool :=
  Nat.eqb (r / 2 ^ (q + 1)) (c / 2 ^ (q + 1)) && Nat.eqb (r mod 2 ^ q) (c mod 2 ^ q).

Lemma nbit_testbit q r : nbit q r = Nat.b2n (Nat.testbit r q).
Proof. unfold nbit. now rewrite Nat.testbit_spec'. Qed.

Lemma nbit_lt2 q r : nbit q r < 2.
Proof. unfold nbit. apply Nat.mod_upper_bound. lia. Qed.

Lemma agree_except_spec q r c :
  agree_except q r c = true <-> (forall b, b <> q -> Nat.testbit r b = Nat.testbit c b).
Proof.
  unfold agree_except. rewrite andb_true_iff, !Nat.eqb_eq. split.
  - intros [Hhi Hlo] b Hb. destruct (Nat.lt_ge_cases b q) as [Hlt|Hge].
    + rewrite <- (Nat.mod_pow2_bits_low r q b Hlt), <- (Nat.mod_pow2_bits_low c q b Hlt).
      now rewrite Hlo.
    + replace b with ((b - (q + 1)) + (q + 1)) by lia.
      rewrite <- !Nat.div_pow2_bits. now rewrite Hhi.
  - intros H. split; apply Nat.bits_inj; intros m.
    + rewrite !Nat.div_pow2_bits. apply H. lia.
    + destruct (Nat.lt_ge_cases m q) as [Hlt|Hge].
      * rewrite !Nat.mod_pow2_bits_low by exact Hlt. apply H. lia.
      * now rewrite !Nat.mod_pow2_bits_high by exact Hge.
Qed.

Lemma testbit_of_nat a b : N.testbit (N.of_nat a) (N.of_nat b) = Nat.testbit a b.
Proof.
  assert (H : N.b2n (N.testbit (N.of_nat a) (N.of_nat b)) = N.of_nat (Nat.b2n (Nat.testbit a b))).
  { rewrite N.testbit_spec', Nat.testbit_spec'.
    rewrite Nnat.Nat2N.inj_mod, Nnat.Nat2N.inj_div, Nnat.Nat2N.inj_pow. reflexivity. }
  destruct (N.testbit (N.of_nat a) (N.of_nat b)), (Nat.testbit a b); cbn in H; congruence.
Qed.

Lemma agreeb_single q r c :
  agreeb [N.of_nat q] (N.of_nat r) (N.of_nat c) = agree_except q r c.
Proof.
  apply eq_true_iff_eq. rewrite agreeb_spec, agree_except_spec. split.
  - intros H b Hb. rewrite <- !testbit_of_nat. apply H. intros [Hin|[]]. lia.
  - intros H b Hb. rewrite <- (Nnat.N2Nat.id b), !testbit_of_nat. apply H.
    intros Hq. apply Hb. left. rewrite <- Hq. now rewrite Nnat.N2Nat.id.
Qed.

Lemma reduced_ket_single r q : reduced_ket r [q] = N.b2n (N.testbit r q).
Proof.
  apply N.bits_inj. intros b. rewrite reduced_ket_spec.
  destruct (N.eq_dec b 0) as [->|Hb].
  - cbn [N.to_nat nth_error]. now rewrite N.b2n_bit0.
  - destruct (N.to_nat b) as [|k] eqn:E; [lia|]. cbn [nth_error].
    assert (Hk : nth_error (@nil N) k = None) by now destruct k. rewrite Hk.
    destruct (N.testbit r q); cbn [N.b2n]; [|now rewrite N.bits_0].
    destruct b as [|pb]; [lia|]. now destruct pb.
Qed.

Lemma reduced_ket_single_nat r q :
  N.to_nat (reduced_ket (N.of_nat r) [N.of_nat q]) = nbit q r.
Proof.
  rewrite reduced_ket_single, testbit_of_nat, nbit_testbit.
  now destruct (Nat.testbit r q).
Qed.

(* the operand list the model iterates over *)
Lemma rev_ops_NoDup n ops :
  NoDup ops -> (forall q, In q ops -> (0 <= q < n)%Z) -> NoDup (rev_ops ops).
Proof.
  intros Hnd Hrange. unfold rev_ops. apply NoDup_map_inj_in.
  - intros x y Hx Hy Hxy. apply in_rev in Hx. apply in_rev in Hy.
    apply Hrange in Hx. apply Hrange in Hy. lia.
  - now apply NoDup_rev.
Qed.

Lemma rev_ops_lt n ops :
  (forall q, In q ops -> (0 <= q < n)%Z) -> forall q, In q (rev_ops ops) -> (q < Z.to_N n)%N.
Proof.
  intros Hrange q Hin. unfold rev_ops in Hin. apply in_map_iff in Hin. destruct Hin as [z [<- Hz]].
  apply in_rev in Hz. apply Hrange in Hz. lia.
Qed.

Lemma rev_ops_length ops : length (rev_ops ops) = length ops.
Proof. unfold rev_ops. now rewrite map_length, rev_length. Qed.

Lemma rev_ops_not_in n ops c :
  (forall q, In q ops -> (0 <= q < n)%Z) -> (0 <= c)%Z -> ~ In c ops -> ~ In (Z.to_N c) (rev_ops ops).
Proof.
  intros Hrange Hc Hnin Hin. unfold rev_ops in Hin. apply in_map_iff in Hin.
  destruct Hin as [z [Hz Hzin]]. apply in_rev in Hzin. apply Hnin.
  pose proof (Hrange z Hzin). replace c with z by lia. exact Hzin.
Qed.

(* ================================================================== *)
(* Part C: real numbers                                                *)

Section MatrixR.
  Notation CR := (R * R)%type.
  Notation matR := (list (list (R * R))).
  Notation c0R := (czero RNum).
  Notation c1R := (cone RNum).

  Lemma czero_R : c0R = (0, 0)%R. Proof. reflexivity. Qed.
  Lemma cone_R : c1R = (1, 0)%R. Proof. reflexivity. Qed.

  Ltac cring :=
    unfold cmul, cadd, cconj, cone, czero, c1, c0, n1, n0; rnum_cbn; apply pair_eq; ring.

  Lemma cmulR_1_l (z : CR) : cmul RNum c1R z = z.
  Proof. destruct z. cring. Qed.
  Lemma cmulR_1_r (z : CR) : cmul RNum z c1R = z.
  Proof. destruct z. cring. Qed.
  Lemma cmulR_0_l (z : CR) : cmul RNum c0R z = c0R.
  Proof. destruct z. cring. Qed.
  Lemma cmulR_0_r (z : CR) : cmul RNum z c0R = c0R.
  Proof. destruct z. cring. Qed.
  Lemma caddR_0_l (z : CR) : cadd RNum c0R z = z.
  Proof. destruct z. cring. Qed.
  Lemma caddR_0_r (z : CR) : cadd RNum z c0R = z.
  Proof. destruct z. cring. Qed.
  Lemma caddR_assoc (x y z : CR) : cadd RNum x (cadd RNum y z) = cadd RNum (cadd RNum x y) z.
  Proof. destruct x, y, z. cring. Qed.
  Lemma caddR_comm (x y : CR) : cadd RNum x y = cadd RNum y x.
  Proof. destruct x, y. cring. Qed.
  Lemma cmulR_assoc (x y z : CR) : cmul RNum x (cmul RNum y z) = cmul RNum (cmul RNum x y) z.
  Proof. destruct x, y, z. cring. Qed.
  Lemma cmulR_comm (x y : CR) : cmul RNum x y = cmul RNum y x.
  Proof. destruct x, y. cring. Qed.
  Lemma cmulR_add_l (x y z : CR) :
    cmul RNum x (cadd RNum y z) = cadd RNum (cmul RNum x y) (cmul RNum x z).
  Proof. destruct x, y, z. cring. Qed.
  Lemma cmulR_add_r (x y z : CR) :
    cmul RNum (cadd RNum x y) z = cadd RNum (cmul RNum x z) (cmul RNum y z).
  Proof. destruct x, y, z. cring. Qed.
  Lemma cconjR_mul (x y : CR) :
    cconj RNum (cmul RNum x y) = cmul RNum (cconj RNum x) (cconj RNum y).
  Proof. destruct x, y. cring. Qed.
  Lemma cconjR_add (x y : CR) :
    cconj RNum (cadd RNum x y) = cadd RNum (cconj RNum x) (cconj RNum y).
  Proof. destruct x, y. cring. Qed.
  Lemma cconjR_0 : cconj RNum c0R = c0R. Proof. cring. Qed.
  Lemma cconjR_1 : cconj RNum c1R = c1R. Proof. cring. Qed.

  (* ---- Bloch sphere rotation on n qubits --------------------------- *)

  Lemma div_pow2_succ r q : r / 2 ^ q / 2 = r / 2 ^ (q + 1).
  Proof.
    rewrite Nat.div_div by (try apply Nat.pow_nonzero; lia).
    now rewrite Nat.pow_add_r.
  Qed.

  (* identity on every other qubit, can1 on the bit q of the row and column index *)
  Theorem get_matrix_bsr_spec n q ax a p : (0 <= q < n)%Z ->
    exists M, get_matrix RNum n (BSR q ax a p) = Ok M /\ wf_mat (zpow2 n) M /\
      forall r c, r < zpow2 n -> c < zpow2 n ->
        mget RNum M r c =
        if agree_except (Z.to_nat q) r c
        then mget RNum (can1 RNum ax a p) (nbit (Z.to_nat q) r) (nbit (Z.to_nat q) c)
        else (0, 0)%R.
  Proof.
    intros Hq. destruct (get_matrix_bsr_entry RNum n q ax a p Hq) as [M [HM [Hwf Hent]]].
    exists M. split; [exact HM|]. split; [exact Hwf|].
    intros r c Hr Hc. rewrite (Hent r c Hr Hc). unfold zpow2, agree_except, nbit.
    rewrite !div_pow2_succ.
    destruct (Nat.eqb (r / 2 ^ (Z.to_nat q + 1)) (c / 2 ^ (Z.to_nat q + 1))); cbn [andb].
    - destruct (Nat.eqb (r mod 2 ^ Z.to_nat q) (c mod 2 ^ Z.to_nat q)).
      + now rewrite cmulR_1_l, cmulR_1_r.
      + now rewrite cmulR_0_r.
    - now rewrite cmulR_0_l, cmulR_0_l.
  Qed.

  (* the same in the vocabulary of the matrix gates *)
  Theorem get_matrix_bsr_spec_bits n q ax a p : (0 <= q < n)%Z ->
    exists M, get_matrix RNum n (BSR q ax a p) = Ok M /\ wf_mat (zpow2 n) M /\
      forall r c, r < zpow2 n -> c < zpow2 n ->
        mget RNum M r c =
        if agreeb [Z.to_N q] (N.of_nat r) (N.of_nat c)
        then mget RNum (can1 RNum ax a p)
               (N.to_nat (reduced_ket (N.of_nat r) [Z.to_N q]))
               (N.to_nat (reduced_ket (N.of_nat c) [Z.to_N q]))
        else c0R.
  Proof.
    intros Hq. destruct (get_matrix_bsr_spec n q ax a p Hq) as [M [HM [Hwf Hent]]].
    exists M. split; [exact HM|]. split; [exact Hwf|].
    intros r c Hr Hc. rewrite (Hent r c Hr Hc).
    rewrite <- (Z_nat_N q). now rewrite agreeb_single, !reduced_ket_single_nat.
  Qed.

  (* a rotation on qubit q is the one-operand matrix gate of its 2x2 matrix *)
  Corollary get_matrix_bsr_as_mat n q ax a p : (0 <= q < n)%Z ->
    get_matrix RNum n (BSR q ax a p) = get_matrix RNum n (Mat (can1 RNum ax a p) [q]).
  Proof.
    intros Hq. destruct (get_matrix_bsr_spec_bits n q ax a p Hq) as [M1 [HM1 [Hwf1 Hent1]]].
    destruct (get_matrix_mat_spec RNum n (can1 RNum ax a p) [q]) as [M2 [HM2 [Hwf2 Hent2]]].
    - repeat constructor. intros [].
    - intros q' [<-|[]]. exact Hq.
    - apply shape_can1.
    - rewrite HM1, HM2. f_equal. apply (mat_ext RNum _ _ _ _ Hwf1 Hwf2).
      intros r c Hr Hc. rewrite (Hent1 r c Hr Hc), (Hent2 r c Hr Hc). reflexivity.
  Qed.

  (* ---- sums -------------------------------------------------------- *)

  Lemma csumR_zero d (g : nat -> CR) : (forall j, j < d -> g j = c0R) -> csum RNum d g = c0R.
  Proof.
    induction d as [|d IH]; intros H; cbn [csum]; [reflexivity|].
    rewrite IH by (intros; apply H; lia). rewrite (H d) by lia. apply caddR_0_l.
  Qed.

  (* a sum with a single non-zero term *)
  Lemma csumR_single d (g : nat -> CR) k :
    k < d -> (forall j, j < d -> j <> k -> g j = c0R) -> csum RNum d g = g k.
  Proof.
    induction d as [|d IH]; intros Hk H; [lia|]. cbn [csum].
    destruct (Nat.eq_dec k d) as [->|Hne].
    - rewrite csumR_zero by (intros; apply H; lia). apply caddR_0_l.
    - rewrite (H d) by lia. rewrite caddR_0_r. apply IH; [lia|]. intros; apply H; lia.
  Qed.

  (* ---- the controlled extension in projector form ------------------- *)

  (* C_c(U) = P(bit c = 0) + U . P(bit c = 1) *)
  Theorem ctrl_matrix_projector d c (M' : matR) :
    wf_mat d M' ->
    ctrl_matrix RNum c M' =
    madd RNum (bit_proj RNum d c false) (mmul RNum M' (bit_proj RNum d c true)).
  Proof.
    intros Hwf. destruct d as [|d].
    - destruct Hwf as [Hl _]. destruct M'; [reflexivity|discriminate].
    - assert (Hd : 0 < S d) by lia. set (D := S d) in *.
      pose proof (shape_bit_proj RNum D c false) as HP0.
      pose proof (shape_bit_proj RNum D c true) as HP1.
      pose proof (shape_mmul RNum D D D _ _ Hd Hwf HP1) as HMP.
      apply (mat_ext RNum D D).
      + destruct Hwf as [Hl Hf]. rewrite <- Hl. apply shape_ctrl_matrix.
      + apply shape_madd; assumption.
      + intros r col Hr Hcol.
        rewrite (mget_madd RNum D D _ _ r col HP0 HMP Hr Hcol).
        rewrite (mget_mmul RNum D D D _ _ r col Hd Hwf HP1 Hr Hcol).
        rewrite mget_ctrl_matrix by (destruct Hwf as [-> _]; assumption).
        rewrite mget_bit_proj by assumption.
        rewrite (csumR_single D _ col Hcol).
        2:{ intros j Hj Hne. rewrite mget_bit_proj by assumption.
            assert (E : Nat.eqb j col = false) by now apply Nat.eqb_neq.
            rewrite E. cbn [andb]. apply cmulR_0_r. }
        rewrite mget_bit_proj by assumption. rewrite Nat.eqb_refl. cbn [andb].
        destruct (N.testbit (N.of_nat col) (Z.to_N c)); cbn [Bool.eqb].
        * rewrite andb_false_r, cmulR_1_r. now rewrite caddR_0_l.
        * rewrite andb_true_r, cmulR_0_r, caddR_0_r. reflexivity.
  Qed.

  Corollary get_matrix_ctrl_projector n c g M' :
    (0 <= c < n)%Z -> get_matrix RNum n g = Ok M' ->
    get_matrix RNum n (Ctrl c g) =
    Ok (madd RNum (bit_proj RNum (zpow2 n) c false)
                  (mmul RNum M' (bit_proj RNum (zpow2 n) c true))).
  Proof.
    intros Hc Hg. rewrite (get_matrix_ctrl_eq RNum n c g M' Hc Hg). f_equal.
    apply ctrl_matrix_projector. exact (get_matrix_wf RNum n g M' Hg).
  Qed.

  (* ---- unitarity of the one-qubit operator --------------------------- *)

  Definition qconj (q : quat) : quat := (qw q, (- qx q)%R, (- qy q)%R, (- qz q)%R).

  Lemma dagger_mscale_qmat z q :
    dagger RNum (mscale z (qmat q)) = mscale (cconj RNum z) (qmat (qconj q)).
  Proof.
    destruct z as [u v].
    unfold dagger, transpose, mscale, qmat, qconj.
    cbn [hd length transpose_aux map tl].
    unfold cconj, cmul, qw, qx, qy, qz. rnum_cbn. mat_eq.
  Qed.

  Lemma qmul_qconj_l q : qmul (qconj q) q = (qnorm2 q, 0, 0, 0)%R.
  Proof. apply quat_eq; unfold qmul, qconj, qnorm2, qw, qx, qy, qz; cbn [fst snd]; ring. Qed.

  Lemma qmul_qconj_r q : qmul q (qconj q) = (qnorm2 q, 0, 0, 0)%R.
  Proof. apply quat_eq; unfold qmul, qconj, qnorm2, qw, qx, qy, qz; cbn [fst snd]; ring. Qed.

  Lemma cis_conj_l p : cmul RNum (cconj RNum (cis RNum p)) (cis RNum p) = (1, 0)%R.
  Proof.
    unfold cmul, cconj, cis. rnum_cbn. pose proof (sin2_cos2 p) as H. unfold Rsqr in H.
    apply pair_eq; [lra|ring].
  Qed.

  Lemma cis_conj_r p : cmul RNum (cis RNum p) (cconj RNum (cis RNum p)) = (1, 0)%R.
  Proof.
    unfold cmul, cconj, cis. rnum_cbn. pose proof (sin2_cos2 p) as H. unfold Rsqr in H.
    apply pair_eq; [lra|ring].
  Qed.

  Lemma mscale_one_qone : mscale (1, 0)%R (qmat qone) = eye RNum 2.
  Proof.
    unfold mscale, qmat, qone, eye, unit_row, qw, qx, qy, qz, cmul, c1, c0, n1, n0.
    cbn [map seq Nat.eqb fst snd]. rnum_cbn. mat_eq.
  Qed.

  Theorem can1_unitary ax a p : unit_axis ax ->
    mmul RNum (dagger RNum (can1 RNum ax a p)) (can1 RNum ax a p) = eye RNum 2.
  Proof.
    intros Hax. rewrite can1_phase. fold (mscale (cis RNum p) (qmat (qrot ax a))).
    rewrite dagger_mscale_qmat, mscale_qmat_mul, cis_conj_l, qmul_qconj_l.
    rewrite (qrot_unit ax a Hax). apply mscale_one_qone.
  Qed.

  Theorem can1_unitary_r ax a p : unit_axis ax ->
    mmul RNum (can1 RNum ax a p) (dagger RNum (can1 RNum ax a p)) = eye RNum 2.
  Proof.
    intros Hax. rewrite can1_phase. fold (mscale (cis RNum p) (qmat (qrot ax a))).
    rewrite dagger_mscale_qmat, mscale_qmat_mul, cis_conj_r, qmul_qconj_r.
    rewrite (qrot_unit ax a Hax). apply mscale_one_qone.
  Qed.

  (* ---- algebra of sums, Kronecker products and daggers --------------- *)

  Lemma csumR_app m k (f : nat -> CR) :
    csum RNum (m + k) f = cadd RNum (csum RNum m f) (csum RNum k (fun j => f (m + j))).
  Proof.
    induction k as [|k IH].
    - rewrite Nat.add_0_r. cbn [csum]. now rewrite caddR_0_r.
    - rewrite Nat.add_succ_r. cbn [csum]. rewrite IH. now rewrite caddR_assoc.
  Qed.

  Lemma csumR_scale_l n z (f : nat -> CR) :
    csum RNum n (fun j => cmul RNum z (f j)) = cmul RNum z (csum RNum n f).
  Proof.
    induction n as [|n IH]; cbn [csum]; [now rewrite cmulR_0_r|].
    now rewrite IH, cmulR_add_l.
  Qed.

  Lemma csumR_scale_r n z (f : nat -> CR) :
    csum RNum n (fun j => cmul RNum (f j) z) = cmul RNum (csum RNum n f) z.
  Proof.
    induction n as [|n IH]; cbn [csum]; [now rewrite cmulR_0_l|].
    now rewrite IH, cmulR_add_r.
  Qed.

  (* a sum over a * b indices is a double sum over quotient and remainder *)
  Lemma csumR_prod_split a b (h : nat -> nat -> CR) : 0 < b ->
    csum RNum (a * b) (fun j => h (j / b) (j mod b)) =
    csum RNum a (fun i => csum RNum b (fun k => h i k)).
  Proof.
    intros Hb. induction a as [|a IH]; [reflexivity|].
    rewrite Nat.mul_succ_l, csumR_app, IH. cbn [csum]. f_equal.
    apply csum_ext. intros k Hk.
    replace (a * b + k) with (k + a * b) by lia.
    rewrite Nat.div_add, Nat.mod_add by lia.
    rewrite Nat.div_small, Nat.mod_small by exact Hk. reflexivity.
  Qed.

  (* mixed product: (A (x) B)(C (x) D) = (AC) (x) (BD) *)
  Theorem kron_mixed_product m k l p q s (A B C D : matR) :
    0 < k -> 0 < q ->
    shape m k A -> shape p q B -> shape k l C -> shape q s D ->
    mmul RNum (kron RNum A B) (kron RNum C D) =
    kron RNum (mmul RNum A C) (mmul RNum B D).
  Proof.
    intros Hk Hq HA HB HC HD.
    pose proof (shape_kron RNum _ _ _ _ _ _ HA HB) as HAB.
    pose proof (shape_kron RNum _ _ _ _ _ _ HC HD) as HCD.
    pose proof (shape_mmul RNum _ _ _ _ _ Hk HA HC) as HAC.
    pose proof (shape_mmul RNum _ _ _ _ _ Hq HB HD) as HBD.
    assert (Hkq : 0 < k * q) by (apply Nat.mul_pos_pos; assumption).
    apply (mat_ext RNum (m * p) (l * s)).
    - apply (shape_mmul RNum _ (k * q)); assumption.
    - apply shape_kron; assumption.
    - intros r c Hr Hc.
      assert (Hp : 0 < p) by (destruct p; lia). assert (Hs : 0 < s) by (destruct s; lia).
      assert (Hrd : r / p < m) by (apply Nat.div_lt_upper_bound; lia).
      assert (Hcd : c / s < l) by (apply Nat.div_lt_upper_bound; lia).
      assert (Hrm : r mod p < p) by (apply Nat.mod_upper_bound; lia).
      assert (Hcm : c mod s < s) by (apply Nat.mod_upper_bound; lia).
      rewrite (mget_mmul RNum _ (k * q) _ _ _ r c Hkq HAB HCD Hr Hc).
      rewrite (mget_kron RNum _ _ _ _ _ _ r c HAC HBD Hr Hc).
      rewrite (mget_mmul RNum _ k _ _ _ _ _ Hk HA HC Hrd Hcd).
      rewrite (mget_mmul RNum _ q _ _ _ _ _ Hq HB HD Hrm Hcm).
      pose (h := fun i t => cmul RNum (cmul RNum (mget RNum A (r / p) i) (mget RNum B (r mod p) t))
                                      (cmul RNum (mget RNum C i (c / s)) (mget RNum D t (c mod s)))).
      rewrite (csum_ext RNum (k * q) _ (fun j => h (j / q) (j mod q))).
      2:{ intros j Hj. unfold h.
          assert (Hjd : j / q < k) by (apply Nat.div_lt_upper_bound; lia).
          rewrite (mget_kron RNum _ _ _ _ _ _ r j HA HB Hr) by lia.
          rewrite (mget_kron RNum _ _ _ _ _ _ j c HC HD) by lia. reflexivity. }
      rewrite (csumR_prod_split k q h Hq). unfold h.
      rewrite <- csumR_scale_r. apply csum_ext. intros i Hi.
      rewrite <- csumR_scale_l. apply csum_ext. intros t Ht.
      destruct (mget RNum A (r / p) i), (mget RNum B (r mod p) t),
               (mget RNum C i (c / s)), (mget RNum D t (c mod s)).
      unfold cmul; rnum_cbn; apply pair_eq; ring.
  Qed.

  Lemma dagger_kron m k p q (A B : matR) :
    0 < m -> 0 < k -> 0 < p -> 0 < q -> shape m k A -> shape p q B ->
    dagger RNum (kron RNum A B) = kron RNum (dagger RNum A) (dagger RNum B).
  Proof.
    intros Hm Hk Hp Hq HA HB.
    pose proof (shape_kron RNum _ _ _ _ _ _ HA HB) as HAB.
    pose proof (shape_dagger RNum _ _ _ Hm HA) as HdA.
    pose proof (shape_dagger RNum _ _ _ Hp HB) as HdB.
    assert (Hmp : 0 < m * p) by (apply Nat.mul_pos_pos; assumption).
    apply (mat_ext RNum (k * q) (m * p)).
    - apply shape_dagger; assumption.
    - apply shape_kron; assumption.
    - intros r c Hr Hc.
      rewrite (mget_dagger RNum _ _ _ r c HAB Hr Hc).
      rewrite (mget_kron RNum _ _ _ _ _ _ c r HA HB Hc Hr).
      rewrite (mget_kron RNum _ _ _ _ _ _ r c HdA HdB Hr Hc).
      rewrite cconjR_mul.
      rewrite (mget_dagger RNum _ _ _ _ _ HA) by (try apply Nat.div_lt_upper_bound; lia).
      rewrite (mget_dagger RNum _ _ _ _ _ HB) by (apply Nat.mod_upper_bound; lia).
      reflexivity.
  Qed.

  Lemma dagger_eye d : dagger RNum (eye RNum d) = eye RNum d.
  Proof.
    destruct d as [|d]; [reflexivity|]. assert (Hd : 0 < S d) by lia.
    apply (mat_ext RNum (S d) (S d)).
    - apply shape_dagger; [exact Hd|apply shape_eye].
    - apply shape_eye.
    - intros r c Hr Hc. rewrite (mget_dagger RNum _ _ _ r c (shape_eye RNum (S d)) Hr Hc).
      rewrite !mget_eye by assumption. rewrite (Nat.eqb_sym c r).
      destruct (Nat.eqb r c); [apply cconjR_1|apply cconjR_0].
  Qed.

  Lemma kron_eye a b : kron RNum (eye RNum a) (eye RNum b) = eye RNum (a * b).
  Proof.
    apply (mat_ext RNum (a * b) (a * b)).
    - apply shape_kron; apply shape_eye.
    - apply shape_eye.
    - intros r c Hr Hc. assert (Hb : b <> 0) by (intros ->; lia).
      rewrite (mget_kron RNum _ _ _ _ _ _ r c (shape_eye RNum a) (shape_eye RNum b) Hr Hc).
      rewrite !mget_eye; try assumption;
        try (apply Nat.div_lt_upper_bound; lia); try (apply Nat.mod_upper_bound; lia).
      destruct (Nat.eqb_spec r c) as [->|Hne].
      + rewrite !Nat.eqb_refl. apply cmulR_1_l.
      + destruct (Nat.eqb_spec (r / b) (c / b)) as [Hd|Hd]; [|apply cmulR_0_l].
        destruct (Nat.eqb_spec (r mod b) (c mod b)) as [Hm|Hm]; [|apply cmulR_0_r].
        exfalso. apply Hne. rewrite (Nat.div_mod_eq r b), (Nat.div_mod_eq c b). now rewrite Hd, Hm.
  Qed.

  Lemma mmul_eye_l d p (A : matR) : 0 < d -> shape d p A -> mmul RNum (eye RNum d) A = A.
  Proof.
    intros Hd HA. apply (mat_ext RNum d p).
    - apply (shape_mmul RNum d d p); [exact Hd|apply shape_eye|exact HA].
    - exact HA.
    - intros r c Hr Hc.
      rewrite (mget_mmul RNum d d p _ _ r c Hd (shape_eye RNum d) HA Hr Hc).
      rewrite (csumR_single d _ r Hr).
      + rewrite mget_eye, Nat.eqb_refl by assumption. apply cmulR_1_l.
      + intros j Hj Hne. rewrite mget_eye by assumption.
        assert (E : Nat.eqb r j = false) by (apply Nat.eqb_neq; lia).
        rewrite E. apply cmulR_0_l.
  Qed.

  Lemma mmul_eye_r m d (A : matR) : 0 < d -> shape m d A -> mmul RNum A (eye RNum d) = A.
  Proof.
    intros Hd HA. apply (mat_ext RNum m d).
    - apply (shape_mmul RNum m d d); [exact Hd|exact HA|apply shape_eye].
    - exact HA.
    - intros r c Hr Hc.
      rewrite (mget_mmul RNum m d d _ _ r c Hd HA (shape_eye RNum d) Hr Hc).
      rewrite (csumR_single d _ c Hc).
      + rewrite mget_eye, Nat.eqb_refl by assumption. apply cmulR_1_r.
      + intros j Hj Hne. rewrite mget_eye by assumption.
        assert (E : Nat.eqb j c = false) by (apply Nat.eqb_neq; lia).
        rewrite E. apply cmulR_0_r.
  Qed.

  (* ---- unitarity on n qubits ----------------------------------------- *)

  Definition unitary (d : nat) (U : matR) : Prop :=
    wf_mat d U /\ mmul RNum (dagger RNum U) U = eye RNum d.

  Lemma unitary_eye d : 0 < d -> unitary d (eye RNum d).
  Proof.
    intros Hd. split; [apply shape_eye|]. rewrite dagger_eye.
    apply (mmul_eye_l d d _ Hd). apply shape_eye.
  Qed.

  Lemma unitary_can1 ax a p : unit_axis ax -> unitary 2 (can1 RNum ax a p).
  Proof. intros Hax. split; [apply shape_can1|now apply can1_unitary]. Qed.

  Lemma unitary_kron da db A B : 0 < da -> 0 < db ->
    unitary da A -> unitary db B -> unitary (da * db) (kron RNum A B).
  Proof.
    intros Hda Hdb [HA HuA] [HB HuB]. split; [apply shape_kron; assumption|].
    rewrite (dagger_kron da da db db A B) by assumption.
    rewrite (kron_mixed_product da da da db db db); try assumption;
      try (apply shape_dagger; assumption).
    rewrite HuA, HuB. apply kron_eye.
  Qed.

  Theorem get_matrix_bsr_unitary n q ax a p M :
    unit_axis ax -> get_matrix RNum n (BSR q ax a p) = Ok M -> unitary (zpow2 n) M.
  Proof.
    intros Hax HM. cbn [get_matrix] in HM.
    destruct (Z.geb q n) eqn:E1; [discriminate|].
    destruct (Z.ltb q 0) eqn:E2; [discriminate|].
    injection HM as <-.
    rewrite Z.geb_leb in E1. apply Z.leb_gt in E1. apply Z.ltb_ge in E2.
    rewrite <- (zpow2_split n q) by lia.
    apply unitary_kron; try apply zpow2_pos.
    - pose proof (zpow2_pos (n - q - 1)). lia.
    - apply unitary_kron; [apply zpow2_pos|lia|apply unitary_eye, zpow2_pos|now apply unitary_can1].
    - apply unitary_eye, zpow2_pos.
  Qed.

  (* ---- products of unitaries ------------------------------------------ *)

  Lemma csumR_add_fun n (f g : nat -> CR) :
    csum RNum n (fun j => cadd RNum (f j) (g j)) = cadd RNum (csum RNum n f) (csum RNum n g).
  Proof.
    induction n as [|n IH]; cbn [csum]; [now rewrite caddR_0_l|]. rewrite IH.
    destruct (csum RNum n f), (csum RNum n g), (f n), (g n). cring.
  Qed.

  Lemma csumR_swap a b (h : nat -> nat -> CR) :
    csum RNum a (fun i => csum RNum b (fun j => h i j)) =
    csum RNum b (fun j => csum RNum a (fun i => h i j)).
  Proof.
    induction a as [|a IH]; cbn [csum].
    - symmetry. now apply csumR_zero.
    - rewrite IH. now rewrite <- csumR_add_fun.
  Qed.

  Lemma csumR_conj n (f : nat -> CR) :
    cconj RNum (csum RNum n f) = csum RNum n (fun j => cconj RNum (f j)).
  Proof.
    induction n as [|n IH]; cbn [csum]; [apply cconjR_0|]. now rewrite cconjR_add, IH.
  Qed.

  Lemma mmul_assoc m k l p (A B C : matR) : 0 < k -> 0 < l ->
    shape m k A -> shape k l B -> shape l p C ->
    mmul RNum (mmul RNum A B) C = mmul RNum A (mmul RNum B C).
  Proof.
    intros Hk Hl HA HB HC.
    pose proof (shape_mmul RNum _ _ _ _ _ Hk HA HB) as HAB.
    pose proof (shape_mmul RNum _ _ _ _ _ Hl HB HC) as HBC.
    apply (mat_ext RNum m p).
    - apply (shape_mmul RNum m l p); assumption.
    - apply (shape_mmul RNum m k p); assumption.
    - intros r c Hr Hc.
      rewrite (mget_mmul RNum m l p _ _ r c Hl HAB HC Hr Hc).
      rewrite (mget_mmul RNum m k p _ _ r c Hk HA HBC Hr Hc).
      rewrite (csum_ext RNum l _
                 (fun j => csum RNum k (fun i => cmul RNum (cmul RNum (mget RNum A r i) (mget RNum B i j))
                                                          (mget RNum C j c)))).
      2:{ intros j Hj. rewrite (mget_mmul RNum m k l _ _ r j Hk HA HB Hr Hj).
          now rewrite <- csumR_scale_r. }
      rewrite csumR_swap. apply csum_ext. intros i Hi.
      rewrite (mget_mmul RNum k l p _ _ i c Hl HB HC Hi Hc).
      rewrite <- csumR_scale_l. apply csum_ext. intros j Hj. now rewrite cmulR_assoc.
  Qed.

  Lemma dagger_mmul m k p (A B : matR) : 0 < m -> 0 < k ->
    shape m k A -> shape k p B ->
    dagger RNum (mmul RNum A B) = mmul RNum (dagger RNum B) (dagger RNum A).
  Proof.
    intros Hm Hk HA HB.
    pose proof (shape_mmul RNum _ _ _ _ _ Hk HA HB) as HAB.
    pose proof (shape_dagger RNum _ _ _ Hm HA) as HdA.
    pose proof (shape_dagger RNum _ _ _ Hk HB) as HdB.
    apply (mat_ext RNum p m).
    - apply shape_dagger; assumption.
    - apply (shape_mmul RNum p k m); assumption.
    - intros r c Hr Hc.
      rewrite (mget_dagger RNum _ _ _ r c HAB Hr Hc).
      rewrite (mget_mmul RNum m k p _ _ c r Hk HA HB Hc Hr).
      rewrite (mget_mmul RNum p k m _ _ r c Hk HdB HdA Hr Hc).
      rewrite csumR_conj. apply csum_ext. intros j Hj.
      rewrite cconjR_mul, cmulR_comm.
      rewrite (mget_dagger RNum _ _ _ r j HB Hr Hj), (mget_dagger RNum _ _ _ j c HA Hj Hc).
      reflexivity.
  Qed.

  Lemma unitary_mmul d A B : 0 < d -> unitary d A -> unitary d B -> unitary d (mmul RNum A B).
  Proof.
    intros Hd [HA HuA] [HB HuB]. split; [now apply wf_mmul|].
    pose proof (shape_dagger RNum _ _ _ Hd HA) as HdA.
    pose proof (shape_dagger RNum _ _ _ Hd HB) as HdB.
    rewrite (dagger_mmul d d d A B Hd Hd HA HB).
    rewrite (mmul_assoc d d d d _ _ _ Hd Hd HdB HdA (wf_mmul RNum d A B HA HB)).
    rewrite <- (mmul_assoc d d d d _ _ _ Hd Hd HdA HA HB).
    rewrite HuA, (mmul_eye_l d d B Hd HB). exact HuB.
  Qed.

  (* a circuit whose gates expand to unitaries has a unitary matrix *)
  Theorem circuit_matrix_unitary n ir :
    (forall o g gi G, In (SGate o g gi) ir -> get_matrix RNum n g = Ok G -> unitary (zpow2 n) G) ->
    forall M, circuit_matrix RNum n ir = Ok M -> unitary (zpow2 n) M.
  Proof.
    induction ir as [|s ir IH] using rev_ind; intros Hg M HM.
    - injection HM as <-. apply unitary_eye, zpow2_pos.
    - assert (Hg' : forall o g gi G, In (SGate o g gi) ir -> get_matrix RNum n g = Ok G ->
                                     unitary (zpow2 n) G).
      { intros o g gi G Hin. apply (Hg o g gi G). apply in_or_app. now left. }
      destruct s as [o g gi| | |].
      2-4: rewrite circuit_matrix_skip in HM by reflexivity; now apply IH.
      rewrite circuit_matrix_snoc in HM.
      destruct (circuit_matrix RNum n ir) as [A|e]; [|discriminate].
      destruct (get_matrix RNum n g) as [G|e] eqn:EG; [|discriminate].
      injection HM as <-. apply unitary_mmul; [apply zpow2_pos| |now apply IH].
      apply (Hg o g gi G); [|exact EG]. apply in_or_app. right. now left.
  Qed.

  (* ---- unitarity of controlled gates ---------------------------------- *)

  Lemma mget_gram d (U : matR) r c : 0 < d -> wf_mat d U -> r < d -> c < d ->
    mget RNum (mmul RNum (dagger RNum U) U) r c =
    csum RNum d (fun j => cmul RNum (cconj RNum (mget RNum U j r)) (mget RNum U j c)).
  Proof.
    intros Hd HU Hr Hc. pose proof (shape_dagger RNum _ _ _ Hd HU) as HdU.
    rewrite (mget_mmul RNum d d d _ _ r c Hd HdU HU Hr Hc).
    apply csum_ext. intros j Hj. now rewrite (mget_dagger RNum _ _ _ r j HU Hr Hj).
  Qed.

  Lemma unitary_entry d (U : matR) r c : 0 < d -> unitary d U -> r < d -> c < d ->
    csum RNum d (fun j => cmul RNum (cconj RNum (mget RNum U j r)) (mget RNum U j c)) =
    if Nat.eqb r c then c1R else c0R.
  Proof.
    intros Hd [HU Hu] Hr Hc. rewrite <- (mget_gram d U r c Hd HU Hr Hc), Hu.
    now apply mget_eye.
  Qed.

  Lemma unitary_intro d (U : matR) : 0 < d -> wf_mat d U ->
    (forall r c, r < d -> c < d ->
       csum RNum d (fun j => cmul RNum (cconj RNum (mget RNum U j r)) (mget RNum U j c)) =
       if Nat.eqb r c then c1R else c0R) ->
    unitary d U.
  Proof.
    intros Hd HU H. split; [exact HU|]. apply (mat_ext RNum d d).
    - apply (shape_mmul RNum d d d); [exact Hd|now apply shape_dagger|exact HU].
    - apply shape_eye.
    - intros r c Hr Hc. rewrite (mget_gram d U r c Hd HU Hr Hc), mget_eye by assumption.
      now apply H.
  Qed.

  (* M does not mix the two values of bit c of the index *)
  Definition bit_local (c : Z) (d : nat) (M : matR) : Prop :=
    forall r col, r < d -> col < d ->
      N.testbit (N.of_nat r) (Z.to_N c) <> N.testbit (N.of_nat col) (Z.to_N c) ->
      mget RNum M r col = c0R.

  Lemma unitary_ctrl_matrix d c (M' : matR) :
    0 < d -> unitary d M' -> bit_local c d M' -> unitary d (ctrl_matrix RNum c M').
  Proof.
    intros Hd HuM Hloc. pose proof HuM as [HM' _].
    assert (Hlen : length M' = d) by now destruct HM'.
    apply unitary_intro; [exact Hd|rewrite <- Hlen; apply shape_ctrl_matrix|].
    intros r col Hr Hcol.
    rewrite (csum_ext RNum d _
      (fun j => cmul RNum
         (cconj RNum (if N.testbit (N.of_nat r) (Z.to_N c) then mget RNum M' j r
                      else if Nat.eqb j r then c1R else c0R))
         (if N.testbit (N.of_nat col) (Z.to_N c) then mget RNum M' j col
          else if Nat.eqb j col then c1R else c0R))).
    2:{ intros j Hj. rewrite !mget_ctrl_matrix by (rewrite Hlen; assumption). reflexivity. }
    destruct (N.testbit (N.of_nat r) (Z.to_N c)) eqn:Er,
             (N.testbit (N.of_nat col) (Z.to_N c)) eqn:Ec.
    - now apply unitary_entry.
    - assert (Hne : Nat.eqb r col = false) by (apply Nat.eqb_neq; intros ->; congruence).
      rewrite Hne. rewrite (csumR_single d _ col Hcol).
      + rewrite Nat.eqb_refl, cmulR_1_r.
        rewrite (Hloc col r Hcol Hr) by congruence. apply cconjR_0.
      + intros j Hj Hjc. assert (E : Nat.eqb j col = false) by now apply Nat.eqb_neq.
        rewrite E. apply cmulR_0_r.
    - assert (Hne : Nat.eqb r col = false) by (apply Nat.eqb_neq; intros ->; congruence).
      rewrite Hne. rewrite (csumR_single d _ r Hr).
      + rewrite Nat.eqb_refl, cconjR_1, cmulR_1_l. apply (Hloc r col Hr Hcol). congruence.
      + intros j Hj Hjr. assert (E : Nat.eqb j r = false) by now apply Nat.eqb_neq.
        rewrite E, cconjR_0. apply cmulR_0_l.
    - rewrite (csumR_single d _ r Hr).
      + rewrite Nat.eqb_refl, cconjR_1, cmulR_1_l. reflexivity.
      + intros j Hj Hjr. assert (E : Nat.eqb j r = false) by now apply Nat.eqb_neq.
        rewrite E, cconjR_0. apply cmulR_0_l.
  Qed.

  (* ---- unitarity of matrix gates -------------------------------------- *)

  (* a sum supported on the image of an injection e : [0,K) -> [0,d) *)
  Lemma csumR_reindex d K (e inv : nat -> nat) (g : nat -> CR) :
    (forall s, s < K -> e s < d) -> (forall s, s < K -> inv (e s) = s) ->
    (forall j, j < d -> inv j < K) ->
    (forall j, j < d -> e (inv j) <> j -> g j = c0R) ->
    csum RNum d g = csum RNum K (fun s => g (e s)).
  Proof.
    intros He Hinv HinvK Hz.
    rewrite (csum_ext RNum d g
               (fun j => csum RNum K (fun s => if Nat.eqb (e s) j then g j else c0R))).
    2:{ intros j Hj. destruct (Nat.eq_dec (e (inv j)) j) as [Heq|Hne].
        - rewrite (csumR_single K _ (inv j) (HinvK j Hj)).
          + now rewrite Heq, Nat.eqb_refl.
          + intros s Hs Hsne. destruct (Nat.eqb_spec (e s) j) as [Hes|]; [|reflexivity].
            exfalso. apply Hsne. rewrite <- Hes. symmetry. now apply Hinv.
        - rewrite (Hz j Hj Hne). symmetry. apply csumR_zero.
          intros s Hs. now destruct (Nat.eqb (e s) j). }
    rewrite csumR_swap. apply csum_ext. intros s Hs.
    rewrite (csumR_single d _ (e s) (He s Hs)).
    - now rewrite Nat.eqb_refl.
    - intros j Hj Hne. destruct (Nat.eqb_spec (e s) j) as [Hes|]; [|reflexivity].
      exfalso. apply Hne. now symmetry.
  Qed.

  Theorem get_matrix_mat_unitary n m ops M :
    NoDup ops -> unitary (2 ^ length ops) m ->
    get_matrix RNum n (Mat m ops) = Ok M -> unitary (zpow2 n) M.
  Proof.
    intros Hnd Hum HM. pose proof Hum as [Hwfm _].
    pose proof (get_matrix_ok_range RNum n _ M HM) as Hrange. cbn [gate_qubits] in Hrange.
    destruct (get_matrix_mat_spec RNum n m ops Hnd Hrange Hwfm) as [M0 [HM0 [Hwf Hent]]].
    rewrite HM in HM0. injection HM0 as <-.
    pose proof (rev_ops_NoDup n ops Hnd Hrange) as Hqs_nd.
    pose proof (rev_ops_lt n ops Hrange) as Hqs_lt.
    pose proof (rev_ops_length ops) as Hqs_len.
    set (qs := rev_ops ops) in *. set (K := 2 ^ length ops) in *. set (d := zpow2 n) in *.
    assert (HK : 0 < K) by (unfold K; pose proof (Nat.pow_nonzero 2 (length ops)); lia).
    assert (Hd : 0 < d) by apply zpow2_pos.
    apply unitary_intro; [exact Hd|exact Hwf|]. intros r c Hr Hc.
    pose (e := fun s : nat => N.to_nat (expand_ket (N.of_nat r) (N.of_nat s) qs)).
    pose (inv := fun j : nat => N.to_nat (reduced_ket (N.of_nat j) qs)).
    assert (Hofe : forall s, N.of_nat (e s) = expand_ket (N.of_nat r) (N.of_nat s) qs)
      by (intros; unfold e; apply Nnat.N2Nat.id).
    assert (He : forall s, s < K -> e s < d).
    { intros s _.
      assert (H : (expand_ket (N.of_nat r) (N.of_nat s) qs < 2 ^ Z.to_N n)%N).
      { apply expand_ket_lt; [exact Hqs_lt|]. rewrite <- of_nat_zpow2. fold d. lia. }
      rewrite <- of_nat_zpow2, <- Hofe in H. fold d in H. lia. }
    assert (Hinv : forall s, s < K -> inv (e s) = s).
    { intros s Hs. unfold inv. rewrite Hofe, reduce_expand_mod by exact Hqs_nd.
      rewrite N.mod_small; [apply Nnat.Nat2N.id|].
      rewrite Hqs_len, <- of_nat_pow2. fold K. lia. }
    assert (HinvK : forall j, j < d -> inv j < K).
    { intros j _. unfold inv. pose proof (reduced_ket_lt (N.of_nat j) qs) as H.
      rewrite Hqs_len, <- of_nat_pow2 in H. fold K in H. lia. }
    assert (Hagree_e : forall s, agreeb qs (N.of_nat (e s)) (N.of_nat r) = true).
    { intros s. rewrite Hofe. apply agreeb_spec. intros b Hb. now apply expand_ket_other. }
    rewrite (csumR_reindex d K e inv _ He Hinv HinvK).
    2:{ intros j Hj Hne. rewrite (Hent j r Hj Hr).
        assert (E : agreeb qs (N.of_nat j) (N.of_nat r) = false).
        { apply not_true_is_false. intros H. apply Hne. unfold agreeb in H. apply N.eqb_eq in H.
          unfold e, inv. rewrite Nnat.N2Nat.id, H. apply Nnat.Nat2N.id. }
        rewrite E, cconjR_0. apply cmulR_0_l. }
    destruct (agreeb qs (N.of_nat r) (N.of_nat c)) eqn:Erc.
    - rewrite (csum_ext RNum K _
                 (fun s => cmul RNum (cconj RNum (mget RNum m s (inv r))) (mget RNum m s (inv c)))).
      2:{ intros s Hs. rewrite (Hent (e s) r (He s Hs) Hr), (Hent (e s) c (He s Hs) Hc).
          rewrite Hagree_e.
          assert (E : agreeb qs (N.of_nat (e s)) (N.of_nat c) = true).
          { apply agreeb_spec. intros b Hb. rewrite Hofe, expand_ket_other by exact Hb.
            apply (proj1 (agreeb_spec _ _ _) Erc b Hb). }
          rewrite E.
          change (N.to_nat (reduced_ket (N.of_nat (e s)) qs)) with (inv (e s)).
          rewrite (Hinv s Hs). reflexivity. }
      rewrite (unitary_entry K m (inv r) (inv c) HK Hum (HinvK r Hr) (HinvK c Hc)).
      destruct (Nat.eqb_spec r c) as [->|Hne]; [now rewrite Nat.eqb_refl|].
      destruct (Nat.eqb_spec (inv r) (inv c)) as [Heq|]; [|reflexivity].
      exfalso. apply Hne. apply Nnat.Nat2N.inj. apply (expand_ket_same_outside_gen _ _ qs).
      + apply agreeb_spec. exact Erc.
      + apply Nnat.N2Nat.inj. exact Heq.
    - rewrite csumR_zero.
      + destruct (Nat.eqb_spec r c) as [->|]; [rewrite agreeb_refl in Erc; discriminate|reflexivity].
      + intros s Hs. rewrite (Hent (e s) c (He s Hs) Hc).
        assert (E : agreeb qs (N.of_nat (e s)) (N.of_nat c) = false).
        { apply not_true_is_false. intros H.
          assert (Hrc : agreeb qs (N.of_nat r) (N.of_nat c) = true).
          { apply agreeb_spec. intros b Hb.
            rewrite <- (proj1 (agreeb_spec _ _ _) H b Hb).
            rewrite Hofe, expand_ket_other by exact Hb. reflexivity. }
          rewrite Hrc in Erc. discriminate. }
        rewrite E. apply cmulR_0_r.
  Qed.

  (* ---- every well-formed gate expands to a unitary --------------------- *)

  (* the constructors' invariants (ir.py): unit axis; control not among the
     target's qubits; distinct operands and a unitary small matrix *)
  Fixpoint gate_unitary_ok (g : gate R) : Prop :=
    match g with
    | BSR _ ax _ _ => unit_axis ax
    | Ctrl c g' => ~ In c (gate_qubits g') /\ gate_unitary_ok g'
    | Mat m ops => NoDup ops /\ unitary (2 ^ length ops) m
    end.

  (* a gate does not mix the values of a bit it does not act on *)
  Lemma get_matrix_bit_local n g : forall c M,
    (0 <= c)%Z -> ~ In c (gate_qubits g) -> gate_unitary_ok g ->
    get_matrix RNum n g = Ok M -> bit_local c (zpow2 n) M.
  Proof.
    induction g as [q ax a p|c' g IH|m ops]; intros c M Hc Hnin Hok HM;
      pose proof (get_matrix_ok_range RNum n _ M HM) as Hrange;
      cbn [gate_qubits gate_unitary_ok] in *; intros r col Hr Hcol Hbits.
    - destruct (get_matrix_bsr_spec_bits n q ax a p (Hrange q (or_introl eq_refl)))
        as [M0 [HM0 [_ Hent]]].
      rewrite HM in HM0. injection HM0 as <-. rewrite (Hent r col Hr Hcol).
      destruct (agreeb [Z.to_N q] (N.of_nat r) (N.of_nat col)) eqn:E; [|reflexivity].
      exfalso. apply Hbits. apply (proj1 (agreeb_spec _ _ _) E).
      intros [Hin|[]]. apply Hnin. left.
      pose proof (Hrange q (or_introl eq_refl)). lia.
    - destruct Hok as [Hc' Hok].
      destruct (get_matrix RNum n g) as [M'|e] eqn:Eg.
      2:{ rewrite (get_matrix_ctrl_propagates RNum n c' g e) in HM;
            [discriminate|apply Hrange; now left|exact Eg]. }
      destruct (get_matrix_ctrl_spec RNum n c' g M' (Hrange c' (or_introl eq_refl)) Eg)
        as [M0 [HM0 [_ Hent]]].
      rewrite HM in HM0. injection HM0 as <-. rewrite (Hent r col Hr Hcol).
      destruct (N.testbit (N.of_nat col) (Z.to_N c')).
      + apply (IH c M' Hc); try assumption; try reflexivity. intros Hin. apply Hnin. now right.
      + assert (E : Nat.eqb r col = false) by (apply Nat.eqb_neq; intros ->; now apply Hbits).
        now rewrite E.
    - destruct Hok as [Hnd [Hwfm _]].
      destruct (get_matrix_mat_spec RNum n m ops Hnd Hrange Hwfm) as [M0 [HM0 [_ Hent]]].
      rewrite HM in HM0. injection HM0 as <-. rewrite (Hent r col Hr Hcol).
      destruct (agreeb (rev_ops ops) (N.of_nat r) (N.of_nat col)) eqn:E; [|reflexivity].
      exfalso. apply Hbits. apply (proj1 (agreeb_spec _ _ _) E).
      now apply (rev_ops_not_in n).
  Qed.

  Theorem get_matrix_unitary n g : forall M,
    gate_unitary_ok g -> get_matrix RNum n g = Ok M -> unitary (zpow2 n) M.
  Proof.
    induction g as [q ax a p|c g IH|m ops]; intros M Hok HM; cbn [gate_unitary_ok] in Hok.
    - now apply (get_matrix_bsr_unitary n q ax a p).
    - destruct Hok as [Hc Hok].
      pose proof (get_matrix_ok_range RNum n _ M HM) as Hrange. cbn [gate_qubits] in Hrange.
      assert (Hcr : (0 <= c < n)%Z) by (apply Hrange; now left).
      destruct (get_matrix RNum n g) as [M'|e] eqn:Eg.
      2:{ rewrite (get_matrix_ctrl_propagates RNum n c g e) in HM; [discriminate|lia|exact Eg]. }
      rewrite (get_matrix_ctrl_eq RNum n c g M' Hcr Eg) in HM. injection HM as <-.
      apply unitary_ctrl_matrix; [apply zpow2_pos|now apply IH|].
      apply (get_matrix_bit_local n g c M'); try assumption; lia.
    - destruct Hok as [Hnd Hum]. now apply (get_matrix_mat_unitary n m ops).
  Qed.

  (* the matrix of a circuit of well-formed gates is unitary *)
  Theorem circuit_matrix_unitary_ok n ir M :
    (forall o g gi, In (SGate o g gi) ir -> gate_unitary_ok g) ->
    circuit_matrix RNum n ir = Ok M -> unitary (zpow2 n) M.
  Proof.
    intros Hok. apply circuit_matrix_unitary. intros o g gi G Hin HG.
    apply (get_matrix_unitary n g G); [now apply (Hok o g gi)|exact HG].
  Qed.
End MatrixR.

(* ================================================================== *)
Print Assumptions mget_kron.
Print Assumptions mget_mmul.
Print Assumptions get_matrix_wf.
Print Assumptions get_matrix_bsr_entry.
Print Assumptions get_matrix_ctrl_spec.
Print Assumptions get_matrix_ctrls_spec.
Print Assumptions get_matrix_mat_spec.
Print Assumptions get_matrix_refuses_high.
Print Assumptions get_matrix_refuses_negative.
Print Assumptions get_matrix_total.
Print Assumptions circuit_matrix_snoc.
Print Assumptions circuit_matrix_skip.
Print Assumptions circuit_matrix_wf.
Print Assumptions get_matrix_bsr_spec.
Print Assumptions get_matrix_bsr_spec_bits.
Print Assumptions get_matrix_bsr_as_mat.
Print Assumptions get_matrix_ctrl_projector.
Print Assumptions can1_unitary.
Print Assumptions kron_mixed_product.
Print Assumptions get_matrix_bsr_unitary.
Print Assumptions get_matrix_mat_unitary.
Print Assumptions get_matrix_unitary.
Print Assumptions circuit_matrix_unitary_ok.
